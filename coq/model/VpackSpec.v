(* C42: declarative side (what a canonical vote encoding is, what the two layers must do with
   it) and the executable checker used on the implementation's observations.  No proofs. *)
From Coq Require Import NArith ZArith List Bool String Ascii.
From Verif.lib Require Import Term.
From Verif.model Require Import Vpack.
Import ListNotations.
Open Scope N_scope.

(* ---------------------------------------------------------------- canonical votes ---- *)

(* A vote as the 14 values of vpack.go.  An absent optional field is the empty string (a
   present one is never empty: a msgpack uint has at least its marker byte, digests have 32). *)
Record vote := {
  v_pf : bytes; v_per : bytes; v_dig : bytes; v_encdig : bytes; v_oper : bytes; v_oprop : bytes;
  v_rnd : bytes; v_snd : bytes; v_step : bytes;
  v_p : bytes; v_p1s : bytes; v_p2 : bytes; v_p2s : bytes; v_s : bytes }.

(* a msgpack unsigned integer in ANY of the forms the parser accepts (fixint, uint8/16/32/64;
   not necessarily the shortest) *)
Definition is_varuint (d : bytes) : bool :=
  match d with
  | b :: r => match varuint_more b with Some k => Nat.eqb k (List.length r) | None => false end
  | [] => false
  end.
Definition is_bin (n : nat) (d : bytes) : bool := Nat.eqb (List.length d) n.
Definition opt (ok : bytes -> bool) (d : bytes) : bool := is_nil d || ok d.

Definition wf_vote (v : vote) : bool :=
  is_bin 80 (v_pf v) && opt is_varuint (v_per v) &&
  opt (is_bin 32) (v_dig v) && opt (is_bin 32) (v_encdig v) && opt is_varuint (v_oper v) &&
  opt (is_bin 32) (v_oprop v) &&
  is_varuint (v_rnd v) && is_bin 32 (v_snd v) && opt is_varuint (v_step v) &&
  is_bin 32 (v_p v) && is_bin 64 (v_p1s v) && is_bin 32 (v_p2 v) && is_bin 64 (v_p2s v) &&
  is_bin 64 (v_s v).

Definition has (d : bytes) : N := if is_nil d then 0 else 1.
Definition vote_mask (v : vote) : N :=
  has (v_per v) + 2 * has (v_dig v) + 4 * has (v_encdig v) + 8 * has (v_oper v) +
  16 * has (v_oprop v) + 32 * has (v_step v).
Definition prop_count (v : vote) : N :=
  has (v_dig v) + has (v_encdig v) + has (v_oper v) + has (v_oprop v).
Definition raw_count (v : vote) : N :=
  2 + has (v_per v) + has (v_step v) + (if prop_count v =? 0 then 0 else 1).

Definition enc_bin (key : string) (d : bytes) : bytes := fx key ++ [196; N.of_nat (List.length d)] ++ d.
Definition enc_u (key : string) (d : bytes) : bytes := fx key ++ d.
Definition when_present (d : bytes) (e : bytes) : bytes := if is_nil d then [] else e.

(* THE canonical msgpack encoding of a vote: keys of every map in sorted order, each once *)
Definition encode_msgp (v : vote) : bytes :=
  [131] ++ fx "cred" ++ [129] ++ enc_bin "pf" (v_pf v) ++
  fx "r" ++ [128 + raw_count v] ++
  when_present (v_per v) (enc_u "per" (v_per v)) ++
  (if prop_count v =? 0 then [] else fx "prop" ++ [128 + prop_count v]) ++
  when_present (v_dig v) (enc_bin "dig" (v_dig v)) ++
  when_present (v_encdig v) (enc_bin "encdig" (v_encdig v)) ++
  when_present (v_oper v) (enc_u "oper" (v_oper v)) ++
  when_present (v_oprop v) (enc_bin "oprop" (v_oprop v)) ++
  enc_u "rnd" (v_rnd v) ++ enc_bin "snd" (v_snd v) ++
  when_present (v_step v) (enc_u "step" (v_step v)) ++
  fx "sig" ++ [134] ++ enc_bin "p" (v_p v) ++ enc_bin "p1s" (v_p1s v) ++ enc_bin "p2" (v_p2 v) ++
  enc_bin "p2s" (v_p2s v) ++ enc_bin "ps" (zeros 64) ++ enc_bin "s" (v_s v).

(* the stateless frame of a vote: header, then the values in canonical order *)
Definition vote_body (v : vote) : bytes :=
  v_pf v ++ v_per v ++ v_dig v ++ v_encdig v ++ v_oper v ++ v_oprop v ++ v_rnd v ++ v_snd v ++
  v_step v ++ v_p v ++ v_p1s v ++ v_p2 v ++ v_p2s v ++ v_s v.
Definition frame (v : vote) : bytes := vote_mask v :: 0 :: vote_body v.

(* what Decompress returns for a frame x that Compress accepted: x with header byte 1 zeroed *)
Definition norm_frame (x : bytes) : bytes :=
  match x with h0 :: _ :: r => h0 :: 0 :: r | _ => x end.

Definition is_byte (b : N) : bool := b <? 256.
Definition all_bytes (l : bytes) : bool := forallb is_byte l.

(* --------------------------------------------------- a connection, as a function ---- *)

(* both ends of one connection processing a list of arbitrary byte strings offered as votes.
   Per message: None if the stateless layer rejected it (nothing is sent through the stateful
   encoder), otherwise what the receiver reconstructed (or None if any later stage failed). *)
Fixpoint run_conn (strict canon : bool) (e d : dstate) (ms : list bytes)
  : list (option bytes) * dstate * dstate :=
  match ms with
  | [] => ([], e, d)
  | m :: rest =>
      match compress_vote strict m with
      | None => let '(o, e', d') := run_conn strict canon e d rest in (None :: o, e', d')
      | Some x =>
          match compress canon e x with
          | None => ([None], e, d)
          | Some (f, e1) =>
              match recv d f with
              | None => ([None], e1, d)
              | Some (m', d1) =>
                  let '(o, e', d') := run_conn strict canon e1 d1 rest in (Some m' :: o, e', d')
              end
          end
      end
  end.

(* ------------------------------------------------------------ observation terms ---- *)

Definition t_entry (e : pentry) : term :=
  TL [tn (e_mask e); tn (e_operlen e); TB (e_dig e); TB (e_encdig e); TB (e_oprop e); TB (e_oper e)].
Definition t_win (w : pwin) : term := TL [tn (w_head w); tn (w_size w); TL (map t_entry (w_ent w))].
Definition all_zero (b : bytes) : bool := forallb (N.eqb 0) b.
Fixpoint t_buckets (i : N) (l : list bucket) : list term :=
  match l with
  | [] => []
  | bk :: r =>
      (if all_zero (s0 bk) && all_zero (s1 bk) && negb (mru1 bk) then []
       else [TL [tn i; TB (s0 bk); TB (s1 bk); tb (mru1 bk)]]) ++ t_buckets (i + 1) r
  end.
Definition t_lru (t : lru) : term := TL [tn (nb t); TL (t_buckets 0 (bks t))].
Definition t_state (s : dstate) : term :=
  TL [tn (last_rnd s); t_win (win s); t_lru (snd_t s); t_lru (pk_t s); t_lru (pk2_t s)].

Definition t_err : term := TS "err".
Definition t_skip : term := TS "skip".
Definition t_same : term := TS "same".
Definition t_dec_state (e d : dstate) : term :=
  let te := t_state e in let td := t_state d in if term_eqb te td then t_same else td.

Definition is_panic (t : term) : bool := match t with TS "panic" => true | _ => false end.
Definition is_obs (t : term) : bool :=
  match t with TB _ => true | TS "err" => true | TS "panic" => true | TS "skip" => true | _ => false end.

(* model observation of one operation + successor states (None: the connection has ended) *)
Definition model_v (strict canon : bool) (e d : dstate) (m : bytes) : term * option (dstate * dstate) :=
  match compress_vote strict m with
  | None => (TL [t_err; t_skip; t_skip; t_skip; t_state e; t_dec_state e d], Some (e, d))
  | Some x =>
      match compress canon e x with
      | None => (TL [TB x; t_err; t_skip; t_skip; t_skip; t_skip], None)
      | Some (f, e') =>
          match decompress d f with
          | None => (TL [TB x; TB f; t_err; t_skip; t_skip; t_skip], None)
          | Some (y, d') =>
              (TL [TB x; TB f; TB y; match decompress_vote y with Some m' => TB m' | None => t_err end;
                   t_state e'; t_dec_state e' d'], Some (e', d'))
          end
      end
  end.

Definition model_x (canon : bool) (e d : dstate) (x : bytes) : term :=
  match compress canon e x with
  | None => TL [t_err; t_skip; t_skip; t_skip]
  | Some (f, e') =>
      match decompress d f with
      | None => TL [TB f; t_err; t_skip; t_skip]
      | Some (y, d') => TL [TB f; TB y; t_state e'; t_dec_state e' d']
      end
  end.

Definition model_f (d : dstate) (f : bytes) : term :=
  match decompress d f with
  | None => TL [t_err; t_skip]
  | Some (y, d') => TL [TB y; t_state d']
  end.

(* --- the property, evaluated on the IMPLEMENTATION's observation only (no model involved) --- *)

(* vote op: no panic; if both compressors accepted the vote, the receiver must have produced
   exactly the original bytes and its table state must equal the sender's *)
Definition spec_v (m : bytes) (obs : term) : bool :=
  match obs with
  | TL [cv; cs; ds; dv; es; dd] =>
      negb (is_panic cv || is_panic cs || is_panic ds || is_panic dv) &&
      match cv, cs with
      | TB _, TB _ => term_eqb dv (TB m) && term_eqb dd t_same && (match ds with TB _ => true | _ => false end)
      | _, _ => true
      end
  | _ => false
  end.

(* frame op: same, one layer down: Decompress (Compress x) = x (header byte 1 zeroed), states equal *)
Definition spec_x (x : bytes) (obs : term) : bool :=
  match obs with
  | TL [cs; ds; es; dd] =>
      negb (is_panic cs || is_panic ds) &&
      match cs with
      | TB _ => term_eqb ds (TB (norm_frame x)) && term_eqb dd t_same
      | _ => true
      end
  | _ => false
  end.

(* raw bytes into the decoder: an error or a result, never a crash *)
Definition spec_f (obs : term) : bool :=
  match obs with
  | TL [ds; dd] => negb (is_panic ds)
  | _ => false
  end.

Definition wf_obs (obs : term) : bool :=
  match obs with
  | TL [cv; cs; ds; dv; es; dd] => is_obs cv && is_obs cs && is_obs ds && is_obs dv
  | TL [cs; ds; es; dd] => is_obs cs && is_obs ds
  | TL [ds; dd] => is_obs ds
  | _ => false
  end.

(* per-connection summary *)
Record summary := {
  sm_parse : bool;                 (* every op well-formed *)
  sm_viol : option term;           (* first op whose spec fails WITHOUT matching a recorded signature *)
  sm_known : option (string * term);  (* first op whose spec fails and matches a recorded signature *)
  sm_diff : option term;           (* first op where the fixed model and the implementation differ *)
  sm_votes_ok : N;                 (* votes reproduced *)
  sm_refs : N }.                   (* votes whose stateful frame was shorter than the stateless one *)

Definition upd_first {A} (o : option A) (x : A) : option A := match o with Some _ => o | None => Some x end.

Definition len_lt (a b : term) : bool :=
  match a, b with TB x, TB y => Nat.ltb (List.length x) (List.length y) | _, _ => false end.

(* The two deviations of the code before fixes/C42.patch, as exact signatures: the operation's
   observation is, byte for byte and table slot for table slot, what the UNFIXED model
   ([strict] = [canon] = false) computes from the same state, the property fails on it, and
     - "unordered_keys":   the fixed parser rejects the vote (the only difference between the two
                           parsers is the strictly-ascending-keys test), or
     - "noncanonical_rnd": the fixed parser accepts it (then the only difference left is the
                           canonical-rnd test of the encoder). *)
Fixpoint run_ops (i : N) (st : option (dstate * dstate)) (ops : list term) (s : summary) : summary :=
  match ops with
  | [] => s
  | op :: rest =>
      match st with
      | None => {| sm_parse := false; sm_viol := sm_viol s; sm_known := sm_known s; sm_diff := sm_diff s;
                   sm_votes_ok := sm_votes_ok s; sm_refs := sm_refs s |}   (* ops after the end *)
      | Some (e, d) =>
          match op with
          | TL [TS "v"; TB m; obs] =>
              let '(mo, st') := model_v true true e d m in
              let '(uo, ust') := model_v false false e d m in
              let corr := term_eqb obs mo in
              let ucorr := term_eqb obs uo in
              let sp := spec_v m obs in
              let name := match compress_vote true m with
                          | None => "unordered_keys"%string | Some _ => "noncanonical_rnd"%string end in
              let detail := TL [tn i; mo] in
              let okv := sp && match obs with TL [TB _; TB _; _; _; _; _] => true | _ => false end in
              let ref := okv && match obs with TL [cv; cs; _; _; _; _] => len_lt cs cv | _ => false end in
              run_ops (i + 1) (if corr then st' else if ucorr then ust' else st') rest
                {| sm_parse := sm_parse s && wf_obs obs && all_bytes m;
                   sm_viol := if sp || ucorr then sm_viol s else upd_first (sm_viol s) detail;
                   sm_known := if negb sp && ucorr then upd_first (sm_known s) (name, detail) else sm_known s;
                   sm_diff := if corr then sm_diff s else upd_first (sm_diff s) detail;
                   sm_votes_ok := sm_votes_ok s + b2n okv; sm_refs := sm_refs s + b2n ref |}
          | TL [TS "x"; TB x; obs] =>
              let mo := model_x true e d x in
              let uo := model_x false e d x in
              let corr := term_eqb obs mo in
              let ucorr := term_eqb obs uo in
              let sp := spec_x x obs in
              let detail := TL [tn i; mo] in
              run_ops (i + 1) None rest
                {| sm_parse := sm_parse s && wf_obs obs && all_bytes x;
                   sm_viol := if sp || ucorr then sm_viol s else upd_first (sm_viol s) detail;
                   sm_known := if negb sp && ucorr then upd_first (sm_known s) ("noncanonical_rnd"%string, detail)
                               else sm_known s;
                   sm_diff := if corr then sm_diff s else upd_first (sm_diff s) detail;
                   sm_votes_ok := sm_votes_ok s; sm_refs := sm_refs s |}
          | TL [TS "f"; TB f; obs] =>
              let mo := model_f d f in
              let corr := term_eqb obs mo in
              let sp := spec_f obs in
              let detail := TL [tn i; mo] in
              run_ops (i + 1) None rest
                {| sm_parse := sm_parse s && wf_obs obs && all_bytes f;
                   sm_viol := if sp then sm_viol s else upd_first (sm_viol s) detail;
                   sm_known := sm_known s;
                   sm_diff := if corr then sm_diff s else upd_first (sm_diff s) detail;
                   sm_votes_ok := sm_votes_ok s; sm_refs := sm_refs s |}
          | _ => {| sm_parse := false; sm_viol := sm_viol s; sm_known := sm_known s; sm_diff := sm_diff s;
                    sm_votes_ok := sm_votes_ok s; sm_refs := sm_refs s |}
          end
      end
  end.

(* [check]: case = (conn tableSize (op ...)); see harness/go/network/vpack/zz_verif_c42_test.go *)
Definition check_conn (t : term) : term :=
  match t with
  | TL [TS "conn"; TZ n; TL ops] =>
      match new_state (Z.to_N n) with
      | None => v_parse
      | Some s0 =>
          let s := run_ops 0 (Some (s0, s0)) ops
                     {| sm_parse := true; sm_viol := None; sm_known := None; sm_diff := None;
                        sm_votes_ok := 0; sm_refs := 0 |} in
          if negb (sm_parse s) then v_parse else
          match sm_viol s, sm_known s, sm_diff s with
          | Some d, _, _ => v_viol d
          | None, Some (name, d), _ => v_known name d
          | None, None, Some d => v_diff d
          | None, None, None => if (2 <=? sm_votes_ok s) && (1 <=? sm_refs s) then v_ok else v_triv
          end
      end
  | _ => v_parse
  end.
