(* C34: executable checker for the cases written by
   harness/go/data/transactions/logic/zz_verif_c34_test.go.  No proofs.

   Case kinds (one term per line):
   (x v mode lsv #prog tpc ckbudget chk tstack rem tcls touched)
      one crafted program exercising the instruction at tpc: chk = class of the real
      CheckSignature/CheckContract result; tstack = the stack seen by BeforeOpcode at tpc (or
      the symbol none when evaluation never got there); rem = remainingBudget() there;
      tcls = class of the error step() returned for that instruction (0 = none);
      touched = the step called into LedgerForLogic.
   (b v mode lsv #prog ckbudget chk starts evstart trace)
      a random branch layout: chk as above, starts = instructionStarts computed by the real
      checkStep (or none), trace = ((pc pc' (calls) (calls')) ...) of the real evaluation.
   Error classes are AvmFrame.ecode_N numbers; 0 = no error; 99 = not classified. *)
From Coq Require Import List NArith ZArith String Bool Arith.
From Verif.lib Require Import Term.
From Verif.model Require Import AvmTypes AvmFrame AvmTable.
From Verif.gen Require Import AvmTables.
Import ListNotations.
Open Scope string_scope.

Definition frame_check (lsv : N) := check_prog gen_tbl lsv max_string_size logic_version.

Definition res_class {A} (r : option (res A)) : N :=
  match r with
  | None => 98%N                       (* out of fuel: never *)
  | Some (Ok _) => 0%N
  | Some (Err e) => ecode_N e
  end.

(* ------------------------------------------------------------------ the source-level oracle *)
Definition is_prefix_src (opcode : N) : bool :=
  existsb (fun s => N.eqb (os_opcode s) opcode && negb (N.eqb (os_sub s) 0)) src_specs.

(* May a version-v program in this mode execute the instruction at pc at all, according to
   OpSpecs (source order semantics) and the field tables?  Independent of the dumped
   opsByOpcode and of GetOpSpec's model. *)
Definition src_allows (v mode : N) (prog : list N) (pc : nat) : bool :=
  let opcode := byte_at prog pc in
  let sub := if is_prefix_src opcode then byte_at prog (S pc) else 0%N in
  match src_lookup v opcode sub with
  | None => false
  | Some s => negb (N.eqb (N.land mode (os_modes s)) 0) && field_gate v mode s prog pc
  end.

(* The same question answered from the FROZEN field specification (AvmFieldSpec.v) instead of the
   regenerated field tables: every field immediate names a field the hand-reviewed list knows,
   introduced at or before v, and not application-only when the mode is signature. *)
Fixpoint frozen_fields_ok (v mode : N) (s : opspec) (imms : list immediate) (prog : list N) (pos : nat) : bool :=
  match imms with
  | [] => true
  | im :: r =>
      (match runtime_group s im with
       | None => true
       | Some g =>
           match find (fun fs => N.eqb (fs_field fs) (byte_at prog pos)) (fg_fields g) with
           | None => false
           | Some fs =>
               match spec_lookup (fg_name g) (fs_name fs) with
               | Some (_, _, enc, ver, app_only) =>
                   N.eqb enc (byte_at prog pos) && N.leb ver v && negb (app_only && N.eqb mode ModeSig)
               | None => false
               end
           end
       end) && frozen_fields_ok v mode s r prog (S pos)
  end.

Definition frozen_allows (v mode : N) (prog : list N) (pc : nat) : bool :=
  let opcode := byte_at prog pc in
  let sub := if is_prefix_src opcode then byte_at prog (S pc) else 0%N in
  match src_lookup v opcode sub with
  | None => false
  | Some s => frozen_fields_ok v mode s (os_imms s) prog (S (if N.eqb (os_sub s) 0 then pc else S pc))
  end.

(* ... and from the repository's second source: langspec_v<K>.json documents the opcode for
   version K = max(v,1) with a mode set containing the current mode (versions without a langspec
   file, i.e. the unreleased LogicVersion, are not constrained by it) *)
Definition doc_allows (v mode : N) (prog : list N) (pc : nat) : bool :=
  let opcode := byte_at prog pc in
  let sub := if is_prefix_src opcode then byte_at prog (S pc) else 0%N in
  match find (fun kv : N * list (N * N * string * N * N) => N.eqb (fst kv) (N.max v 1)) langspec_ops with
  | None => true
  | Some (_, ops) =>
      existsb (fun o : N * N * string * N * N =>
                 let '(opc, sb, _, _, modes) := o in
                 N.eqb opc opcode && N.eqb sb sub && negb (N.eqb (N.land modes mode) 0)) ops
  end.

(* ------------------------------------------------------------------ parsing *)
Definition parse_sval (t : term) : option sval :=
  match t with
  | TL [TZ 0; TZ u] => if (u <? 0)%Z then None else Some (SU (Z.to_N u))
  | TL [TZ 1; TZ l] => if (l <? 0)%Z then None else Some (SB (Z.to_N l))
  | _ => None
  end.

Definition parse_nat (t : term) : option nat :=
  match as_N t with Some n => Some (N.to_nat n) | None => None end.
Definition parse_nats (t : term) : option (list nat) :=
  match t with TL l => map_opt parse_nat l | _ => None end.

(* ------------------------------------------------------------------ x cases *)
Definition dummy_opf (s : opspec) (prog : list N) (st : state unit) : outcome unit := OErr unit.

(* the frame's verdict on the instruction before the op function runs: 0 = the op is entered *)
Definition pre_class (v mode : N) (prog : list N) (pc : nat) (stack : list sval) (rem : Z) : N :=
  match step gen_tbl max_depth_nat max_string_size unit 0%Z false dummy_opf v mode prog
             (mkSt unit pc stack [] 0%Z (Some rem) tt) with
  | Err EOp => 0%N
  | Err e => ecode_N e
  | Ok _ => 97%N
  end.

(* classes step() can produce once the op function has been entered *)
Definition entered_class (c : N) : bool :=
  existsb (N.eqb c) [0; 16; 17; 18; 19; 20; 22]%N.

Definition check_x (v mode lsv : N) (prog : list N) (tpc : nat) (ckbudget : Z) (chk : N)
           (tstack : option (list sval)) (rem : Z) (tcls : N) (touched : bool) : term :=
  let mchk := res_class (frame_check lsv mode ckbudget 0 false prog) in
  let allowed := src_allows v mode prog tpc in
  let reached := match tstack with Some _ => N.eqb tcls 0 | None => false end in
  (* the property, on the implementation's observation *)
  let spec_ok := implb reached (allowed && frozen_allows v mode prog tpc && doc_allows v mode prog tpc)
                 && implb (touched && reached) (negb (src_allows v mode_sig prog tpc)) in
  let mpre := match tstack with Some stk => pre_class v mode prog tpc stk rem | None => 0%N end in
  let corr_eval :=
      match tstack with
      | None => true
      | Some _ => if N.eqb mpre 0 then entered_class tcls else N.eqb mpre tcls
      end in
  let name := os_name (get_op_spec gen_tbl v prog tpc) in
  (* every instruction that called into the ledger is classified as ledger-touching by the doc
     groups, or is guarded at field level (global Round, ...) *)
  let corr_touch := implb touched (touches_ledger name || negb (src_allows v mode_sig prog tpc)) in
  let corr := N.eqb mchk chk && corr_eval && corr_touch in
  verdict spec_ok corr (reached || negb allowed)
          (TL [tn mchk; tn mpre; tb allowed; TS (if touches_ledger name then "ledger" else "pure")]).

(* ------------------------------------------------------------------ b cases *)
Definition ctl_allowed_pc (lsv v : N) (s : opspec) (prog : list N) (pc : nat) (calls : list nat)
           (pc' : nat) (calls' : list nat) : bool :=
  let size := N.to_nat (os_size s) in
  (negb (Nat.eqb pc' 0) && ctl_allowed lsv max_string_size v s prog pc calls pc' calls')
  || (Nat.eqb pc' (pc + size) && ctl_allowed lsv max_string_size v s prog pc calls 0 calls').

Inductive tstep : Type := TStep (pc pc' : nat) (calls calls' : list nat).

Definition parse_tstep (t : term) : option tstep :=
  match t with
  | TL [a; b; c; d] =>
      match parse_nat a, parse_nat b, parse_nats c, parse_nats d with
      | Some pc, Some pc', Some cl, Some cl' => Some (TStep pc pc' cl cl')
      | _, _, _, _ => None
      end
  | _ => None
  end.

Definition nat_list_eqb (a b : list nat) : bool := calls_eqb a b.

Definition check_b (v mode lsv : N) (prog : list N) (ckbudget : Z) (chk : N)
           (starts : option (list nat)) (trace : list tstep) : term :=
  let mres := frame_check lsv mode ckbudget 0 false prog in
  let mchk := res_class mres in
  let len := List.length prog in
  let in_starts (l : list nat) (p : nat) := Nat.leb len p || mem_nat p l in
  (* property: every dynamic pc and return address is an instruction start of the real check *)
  let spec_ok :=
      match starts with
      | Some st =>
          negb (N.eqb chk 0) ||
          forallb (fun '(TStep pc pc' cl cl') =>
                     in_starts st pc && in_starts st pc' && forallb (in_starts st) cl') trace
      | None => true
      end in
  let corr_starts :=
      match mres, starts with
      | Some (Ok ms), Some st => nat_list_eqb (rev ms) st
      | Some (Ok _), None => false
      | _, Some _ => false
      | _, None => true
      end in
  let corr_ctl :=
      forallb (fun '(TStep pc pc' cl cl') =>
                 ctl_allowed_pc lsv v (get_op_spec gen_tbl v prog pc) prog pc cl pc' cl') trace in
  let corr := N.eqb mchk chk && corr_starts && corr_ctl in
  let nontriv := N.eqb chk 0 && negb (match trace with [] => true | _ => false end) in
  verdict spec_ok corr nontriv (TL [tn mchk; tb corr_starts; tb corr_ctl]).

(* ------------------------------------------------------------------ entry point *)
Definition check (t : term) : term :=
  match t with
  | TL [TS "x"; tv; tmode; tlsv; TB prog; ttpc; TZ ckb; tchk; tstack; TZ rem; ttcls; ttouched] =>
      match as_N tv, as_N tmode, as_N tlsv, parse_nat ttpc, as_N tchk, as_N ttcls, as_bool ttouched with
      | Some v, Some mode, Some lsv, Some tpc, Some chk, Some tcls, Some touched =>
          match tstack with
          | TS "none" => check_x v mode lsv prog tpc ckb chk None rem tcls touched
          | TL l => match map_opt parse_sval l with
                    | Some stk => check_x v mode lsv prog tpc ckb chk (Some stk) rem tcls touched
                    | None => v_parse
                    end
          | _ => v_parse
          end
      | _, _, _, _, _, _, _ => v_parse
      end
  | TL [TS "b"; tv; tmode; tlsv; TB prog; TZ ckb; tchk; tstarts; TL ttrace] =>
      match as_N tv, as_N tmode, as_N tlsv, as_N tchk, map_opt parse_tstep ttrace with
      | Some v, Some mode, Some lsv, Some chk, Some trace =>
          match tstarts with
          | TS "none" => check_b v mode lsv prog ckb chk None trace
          | _ => match parse_nats tstarts with
                 | Some st => check_b v mode lsv prog ckb chk (Some st) trace
                 | None => v_parse
                 end
          end
      | _, _, _, _, _ => v_parse
      end
  | _ => v_parse
  end.
