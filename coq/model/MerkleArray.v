(* C37  Merkle array proofs are complete and sound.
   Executable transcription of /repo/crypto/merklearray: Build / BuildVectorCommitmentTree
   (layer.go upWorker, merkle.go buildLayers, vectorCommitmentArray.go), Tree.Prove /
   createProof, partialLayer.up with siblings.get (partial.go), Verify / verifyPath /
   hashLeaves / inspectRoot and VerifyVectorCommitment / convertIndexes (merkle.go).

   Digests are byte strings (list N) of ARBITRARY length, as in the Go code
   (crypto.GenericDigest = []byte): pair.ToBeHashed splices the two children into a
   2*digestSize buffer with  copy(buf, l); copy(buf[len(l):], r)  and that is modelled
   byte-exactly by [pairbuf].  The hash function is abstract: [hleaf] (GenericHashObj of an
   array element), [hbottom] (hash of the vector-commitment padding leaf), [hnode] (hash of
   "MA" || buf); [s] is the digest size of the hash selected by Proof.HashFactory.

   [verify] is the code WITH /verif/fixes/C37.patch (verifyPath rejects a hint whose length is
   neither 0 nor the digest size); [verify_unfixed] is the code before it.  No proofs here. *)
From Coq Require Import NArith List Bool Arith.
Import ListNotations.

Definition digest := list N.
Definition zeros (n : nat) : list N := repeat 0%N n.

(* uint64(1) << d  for a uint8 d: 0 once d >= 64 *)
Definition shl1 (d : N) : N := if (d <? 64)%N then (2 ^ d)%N else 0%N.

(* bits.Reverse64(i) >> (64 - w)  for i < 2^w: the w low bits of i reversed *)
Fixpoint rev_bits (w : nat) (i : N) : N :=
  match w with
  | O => 0%N
  | S w' => ((i mod 2) * 2 ^ N.of_nat w' + rev_bits w' (i / 2))%N
  end.

(* merkleTreeToVectorCommitmentIndex *)
Definition vcIndex (idx : N) (pathLen : N) : option N :=
  if (idx <? shl1 pathLen)%N then Some (rev_bits (N.to_nat pathLen) idx) else None.

(* sort.Slice / slices.Sort on distinct keys: insertion sort *)
Fixpoint insN (x : N) (l : list N) : list N :=
  match l with
  | [] => [x]
  | y :: r => if (x <=? y)%N then x :: l else y :: insN x r
  end.
Definition sortN (l : list N) : list N := fold_right insN [] l.

Fixpoint insK {A} (x : N * A) (l : list (N * A)) : list (N * A) :=
  match l with
  | [] => [x]
  | y :: r => if (fst x <=? fst y)%N then x :: l else y :: insK x r
  end.
Definition sortK {A} (l : list (N * A)) : list (N * A) := fold_right insK [] l.

(* createProof: "Discard duplicates" on the sorted positions *)
Fixpoint dedup (l : list N) : list N :=
  match l with
  | [] => []
  | x :: r => match r with
              | [] => [x]
              | y :: _ => if (x =? y)%N then dedup r else x :: dedup r
              end
  end.

Fixpoint map_opt' {A B} (f : A -> option B) (l : list A) : option (list B) :=
  match l with
  | [] => Some []
  | x :: xs => match f x, map_opt' f xs with
               | Some y, Some ys => Some (y :: ys)
               | _, _ => None
               end
  end.

Inductive vres : Type :=
| VOk
| VErrRoot          (* ErrRootMismatch *)
| VErrPos           (* ErrPosOutOfBound *)
| VErrNonEmpty      (* ErrNonEmptyProofForEmptyElements *)
| VErrNoHints       (* "no more sibling hints" *)
| VErrHintLen       (* ErrHintLengthDigestSizeMismatch (fixes/C37.patch) *)
| VPanic            (* slice bounds out of range in pair.ToBeHashed *)
| VOutOfFuel.       (* never: C37_verify_total *)

Inductive perr : Type := PErrZeroCommitment | PErrPosOutOfBound | PErrInternal.

Record proof : Type := mkProof { p_path : list digest; p_depth : N }.
Record tree : Type := mkTree { t_levels : list (list digest); t_n : N; t_vc : bool }.

Section Model.
  Variable E : Type.                    (* array elements (crypto.Hashable) *)
  Variable s : nat.                     (* hash.Size() *)
  Variable hleaf : E -> digest.
  Variable hbottom : digest.
  Variable hnode : list N -> digest.

  (* pair.ToBeHashed (for len(l) <= 2s; a longer l panics, see [combine]) *)
  Definition pairbuf (l r : digest) : list N := firstn (2 * s) (l ++ r ++ zeros (2 * s)).
  Definition hpair (l r : digest) : digest := hnode (pairbuf l r).

  (* ---- Build: upWorker over one layer, buildLayers ---- *)
  Fixpoint nextLayer (l : list digest) : list digest :=
    match l with
    | [] => []
    | a :: rest => match rest with
                   | [] => [hpair a []]
                   | b :: rest2 => hpair a b :: nextLayer rest2
                   end
    end.

  Fixpoint buildLevels (fuel : nat) (top : list digest) : list (list digest) :=
    match fuel with
    | O => [top]
    | S f => if (length top <=? 1)%nat then [top] else top :: buildLevels f (nextLayer top)
    end.

  Definition levelsOf (leaves : list digest) : list (list digest) :=
    match leaves with [] => [] | _ => buildLevels (length leaves) leaves end.

  Definition build (arr : list E) : tree :=
    mkTree (levelsOf (map hleaf arr)) (N.of_nat (length arr)) false.

  (* generateVectorCommitmentArray: (pathLen, paddedLen) *)
  Definition vcShape (n : N) : N * N :=
    if (n <=? 1)%N then (1, 1)%N else let p := N.size (n - 1) in (p, 2 ^ p)%N.

  (* vectorCommitmentArray.Marshal(pos) hashed *)
  Definition vcLeaf (arr : list E) (pathLen : N) (pos : N) : digest :=
    match vcIndex pos pathLen with
    | None => hbottom     (* unreachable for pos < paddedLen *)
    | Some lsb => match nth_error arr (N.to_nat lsb) with
                  | Some e => hleaf e
                  | None => hbottom
                  end
    end.

  Definition vcLeaves (arr : list E) : list digest :=
    let '(pathLen, padded) := vcShape (N.of_nat (length arr)) in
    map (fun k => vcLeaf arr pathLen (N.of_nat k)) (seq 0 (N.to_nat padded)).

  Definition buildVC (arr : list E) : tree :=
    mkTree (levelsOf (vcLeaves arr)) (N.of_nat (length arr)) true.

  Definition rootOf (t : tree) : digest :=
    match t_levels t with
    | [] => []
    | _ => hd [] (last (t_levels t) [])
    end.

  Definition depthOf (t : tree) : N := N.of_nat (length (t_levels t) - 1).

  (* ---- Prove ---- *)
  (* siblings.get with tree <> nil: hashes beyond the end of a layer are empty *)
  Definition getSib (lk : list digest) (i : N) : digest := nth (N.to_nat i) lk [].

  (* partialLayer.up with doHash = false: positions only, collects the hints *)
  Fixpoint upP (lk : list digest) (pl : list N) : list N * list digest :=
    match pl with
    | [] => ([], [])
    | pos :: rest =>
        let sib := N.lxor pos 1 in
        match rest with
        | pos2 :: rest2 =>
            if (pos2 =? sib)%N
            then let '(ps, hs) := upP lk rest2 in ((pos / 2)%N :: ps, hs)
            else let '(ps, hs) := upP lk rest in ((pos / 2)%N :: ps, getSib lk sib :: hs)
        | [] => ([(pos / 2)%N], [getSib lk sib])
        end
    end.

  (* for l := 0; l < len(Levels)-1; l++ { pl = pl.up(...) } *)
  Fixpoint proveLoop (lvls : list (list digest)) (pl : list N) : list N * list digest :=
    match lvls with
    | [] => (pl, [])
    | lk :: rest =>
        match rest with
        | [] => (pl, [])
        | _ => let '(pl', hs) := upP lk pl in
               let '(plf, hs') := proveLoop rest pl' in (plf, hs ++ hs')
        end
    end.

  Definition prove (t : tree) (idxs : list N) : proof + perr :=
    match idxs with
    | [] => inl (mkProof [] (depthOf t))                              (* createEmptyProof *)
    | _ =>
      if (t_n t =? 0)%N then inr PErrZeroCommitment
      else if existsb (fun i => (t_n t <=? i)%N) idxs then inr PErrPosOutOfBound
      else
        match (if t_vc t then map_opt' (fun i => vcIndex i (depthOf t)) idxs else Some idxs) with
        | None => inr PErrPosOutOfBound
        | Some idxs' =>
            let '(plf, hints) := proveLoop (t_levels t) (dedup (sortN idxs')) in
            if (length plf =? 1)%nat then inl (mkProof hints (depthOf t)) else inr PErrInternal
        end
    end.

  (* ---- Verify ---- *)
  (* one internal node in up(): None = panic (copy into buf[len(l):] with len(l) > 2s) *)
  Definition combine (pos : N) (h sib : digest) : option digest :=
    let '(l, r) := if N.even pos then (h, sib) else (sib, h) in
    if (2 * s <? length l)%nat then None else Some (hpair l r).

  (* partialLayer.up with doHash = true and siblings taken from the proof *)
  (* sibling taken from the proof (siblings.get with tree = nil), then the node is hashed *)
  Definition stepHint (pos : N) (h : digest) (hints : list digest)
    : (digest * list digest) + vres :=
    match hints with
    | [] => inr VErrNoHints
    | sh :: hints' => match combine pos h sh with
                      | None => inr VPanic
                      | Some nh => inl (nh, hints')
                      end
    end.

  Fixpoint upV (pl : list (N * digest)) (hints : list digest)
    : (list (N * digest) * list digest) + vres :=
    match pl with
    | [] => inl ([], hints)
    | (pos, h) :: rest =>
        (* a thunk: under extraction a plain [let] would be evaluated eagerly in both branches *)
        let viaHint := fun (_ : unit) =>
          match stepHint pos h hints with
          | inr e => inr e
          | inl (nh, hints') => match upV rest hints' with
                                | inl (r, hs) => inl (((pos / 2)%N, nh) :: r, hs)
                                | inr e => inr e
                                end
          end in
        match rest with
        | (pos2, h2) :: rest2 =>
            if (pos2 =? N.lxor pos 1)%N then
              (* the sibling is in the partial layer: use its hash and skip it *)
              match combine pos h h2 with
              | None => inr VPanic
              | Some nh => match upV rest2 hints with
                           | inl (r, hs) => inl (((pos / 2)%N, nh) :: r, hs)
                           | inr e => inr e
                           end
              end
            else viaHint tt
        | [] => viaHint tt
        end
    end.

  Definition digest_eqb (a b : digest) : bool :=
    (fix go (x y : list N) : bool :=
       match x, y with
       | [], [] => true
       | p :: x', q :: y' => (p =? q)%N && go x' y'
       | _, _ => false
       end) a b.

  Definition inspectRoot (root : digest) (pl : list (N * digest)) : vres :=
    match pl with
    | [] => VPanic
    | (pos, h) :: _ => if (pos =? 0)%N && digest_eqb h root then VOk else VErrRoot
    end.

  (* for l := 0; len(s.hints) > 0 || len(pl) > 1; l++ { pl = pl.up(...) }; inspectRoot *)
  Fixpoint vloop (fuel : nat) (root : digest) (pl : list (N * digest)) (hints : list digest) : vres :=
    match hints, (length pl <=? 1)%nat with
    | [], true => inspectRoot root pl
    | _, _ =>
        match fuel with
        | O => VOutOfFuel
        | S f => match upV pl hints with
                 | inr e => e
                 | inl (pl', hints') => vloop f root pl' hints'
                 end
        end
    end.

  Definition hint_len_ok (h : digest) : bool :=
    (length h =? 0)%nat || (length h =? s)%nat.

  Definition verify_gen (checked : bool) (root : digest) (elems : list (N * E)) (p : proof) : vres :=
    match elems with
    | [] => match p_path p with [] => VOk | _ => VErrNonEmpty end
    | _ =>
        (* hashLeaves *)
        if existsb (fun pe => negb (fst pe <? shl1 (p_depth p))%N) elems then VErrPos
        (* verifyPath: hint length check (fixes/C37.patch) *)
        else if checked && negb (forallb hint_len_ok (p_path p)) then VErrHintLen
        else
          let pl := sortK (map (fun pe => (fst pe, hleaf (snd pe))) elems) in
          vloop (length (p_path p) + length pl + 1) root pl (p_path p)
    end.

  Definition verify := verify_gen true.
  Definition verify_unfixed := verify_gen false.

  (* VerifyVectorCommitment: convertIndexes then Verify *)
  Definition convertIndexes (elems : list (N * E)) (depth : N) : option (list (N * E)) :=
    map_opt' (fun pe => match vcIndex (fst pe) depth with
                        | Some i => Some (i, snd pe)
                        | None => None
                        end) elems.

  Definition verifyVC_gen (checked : bool) (root : digest) (elems : list (N * E)) (p : proof) : vres :=
    match convertIndexes elems (p_depth p) with
    | None => VErrPos
    | Some el => verify_gen checked root el p
    end.

  Definition verifyVC := verifyVC_gen true.
  Definition verifyVC_unfixed := verifyVC_gen false.
End Model.
