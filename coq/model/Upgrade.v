(* C26 model: data/bookkeeping/block.go  UpgradeState.applyUpgradeVote and the upgrade-related
   part of BlockHeader.PreCheck, transcribed branch by branch (same order of checks, same
   error exits).  Protocol versions are byte strings ([] = ""), rounds are uint64 with explicit
   [mod 2^64].  The consensus parameters are NOT constants of the model: [cons] is an arbitrary
   table  version -> option parameters  (config.Consensus; None = unsupported), the harness
   passes the entries of the running code in every case line and every theorem is for ALL
   tables.  No proofs in this file. *)
From Coq Require Import NArith ZArith List Bool.
From Verif.lib Require Import Term.
Import ListNotations.
Open Scope N_scope.

Definition ver : Type := list N.                       (* protocol.ConsensusVersion *)
Definition ver_eqb : ver -> ver -> bool := list_eqb N.eqb.
Definition ver_empty (v : ver) : bool := match v with [] => true | _ => false end.

(* the fields of config.ConsensusParams read by applyUpgradeVote *)
Record uparams : Type := mkUP {
  up_voteRounds : N;      (* UpgradeVoteRounds *)
  up_threshold : N;       (* UpgradeThreshold *)
  up_defwait : N;         (* DefaultUpgradeWaitRounds *)
  up_minwait : N;         (* MinUpgradeWaitRounds *)
  up_maxwait : N;         (* MaxUpgradeWaitRounds *)
  up_maxlen : Z           (* MaxVersionStringLen (a Go int) *)
}.

Definition consensus : Type := ver -> option uparams.

Record ustate : Type := mkUS {
  us_current : ver;       (* CurrentProtocol *)
  us_next : ver;          (* NextProtocol *)
  us_approvals : N;       (* NextProtocolApprovals *)
  us_voteBefore : N;      (* NextProtocolVoteBefore *)
  us_switchOn : N         (* NextProtocolSwitchOn *)
}.

Record vote : Type := mkV {
  v_propose : ver;        (* UpgradePropose *)
  v_delay : N;            (* UpgradeDelay *)
  v_approve : bool        (* UpgradeApprove *)
}.

Inductive uerr : Type :=
| EUnsupported            (* "unsupported protocol" *)
| EProposalDuringProposal (* "new proposal during existing proposal" *)
| ETooLong                (* "proposed protocol version ... too long" *)
| EDelayRange             (* "proposed upgrade wait rounds ... out of permissible range" *)
| EDelayNonzero           (* "upgrade delay ... nonzero when not proposing" *)
| EApproveNoProposal      (* "approval without an active proposal" *)
| EApproveLate.           (* "approval after vote deadline" *)

Inductive ures : Type := UOk (s : ustate) | UErr (e : uerr).

Definition W : N := 2 ^ 64.
Definition wadd (a b : N) : N := (a + b) mod W.

(* upgradeDelay == 0 -> DefaultUpgradeWaitRounds *)
Definition eff_delay (P : uparams) (d : N) : N := if d =? 0 then up_defwait P else d.

(* "Apply proposal of upgrade to new protocol" *)
Definition phase_propose (P : uparams) (s : ustate) (r : N) (v : vote) : ures :=
  if negb (ver_empty (v_propose v)) then
    if negb (ver_empty (us_next s)) then UErr EProposalDuringProposal
    else if (up_maxlen P <? Z.of_nat (length (v_propose v)))%Z then UErr ETooLong
    else if (up_maxwait P <? v_delay v) || (v_delay v <? up_minwait P) then UErr EDelayRange
    else
      let d := eff_delay P (v_delay v) in
      UOk (mkUS (us_current s) (v_propose v) 0
                (wadd r (up_voteRounds P))
                (wadd (wadd r (up_voteRounds P)) d))
  else if negb (v_delay v =? 0) then UErr EDelayNonzero
  else UOk s.

(* "Apply approval of existing protocol upgrade" *)
Definition phase_approve (s : ustate) (r : N) (v : vote) : ures :=
  if v_approve v then
    if ver_empty (us_next s) then UErr EApproveNoProposal
    else if us_voteBefore s <=? r then UErr EApproveLate
    else UOk (mkUS (us_current s) (us_next s) (wadd (us_approvals s) 1)
                   (us_voteBefore s) (us_switchOn s))
  else UOk s.

(* "Clear out failed proposal" *)
Definition phase_clear (P : uparams) (s : ustate) (r : N) : ustate :=
  if (r =? us_voteBefore s) && (us_approvals s <? up_threshold P)
  then mkUS (us_current s) [] 0 0 0 else s.

(* "Switch over to new approved protocol" *)
Definition phase_switch (s : ustate) (r : N) : ustate :=
  if r =? us_switchOn s then mkUS (us_next s) [] 0 0 0 else s.

Definition step (cons : consensus) (s : ustate) (r : N) (v : vote) : ures :=
  match cons (us_current s) with
  | None => UErr EUnsupported
  | Some P =>
      match phase_propose P s r v with
      | UErr e => UErr e
      | UOk s1 =>
          match phase_approve s1 r v with
          | UErr e => UErr e
          | UOk s2 => UOk (phase_switch (phase_clear P s2 r) r)
          end
      end
  end.

(* the chain: votes of consecutive rounds r, r+1, ...; the states after each block, or None
   when some block is rejected (a rejected block never extends a chain) *)
Fixpoint trace (cons : consensus) (s : ustate) (r : N) (vs : list vote) : option (list ustate) :=
  match vs with
  | [] => Some []
  | v :: vs' =>
      match step cons s r v with
      | UErr _ => None
      | UOk s' => match trace cons s' (r + 1) vs' with
                  | None => None
                  | Some l => Some (s' :: l)
                  end
      end
  end.

(* ---- BlockHeader.PreCheck, the checks up to and including the upgrade state ---- *)
Definition ustate_eqb (a b : ustate) : bool :=
  ver_eqb (us_current a) (us_current b) && ver_eqb (us_next a) (us_next b) &&
  (us_approvals a =? us_approvals b) && (us_voteBefore a =? us_voteBefore b) &&
  (us_switchOn a =? us_switchOn b).

Inductive pre_res : Type :=
| PreOk                    (* upgrade part accepted (the later checks are not modelled) *)
| PreUnsupported           (* "protocol ... not supported" (header's own CurrentProtocol) *)
| PreBadRound              (* "block round incorrect" *)
| PreUpgradeErr (e : uerr) (* applyUpgradeVote failed *)
| PreMismatch.             (* "UpgradeState mismatch" *)

(* the upgrade-related part of a block header *)
Record uheader : Type := mkUH { h_round : N; h_vote : vote; h_state : ustate }.

Definition precheck (cons : consensus) (prev bh : uheader) : pre_res :=
  match cons (us_current (h_state bh)) with
  | None => PreUnsupported
  | Some _ =>
      let round := wadd (h_round prev) 1 in
      if negb (round =? h_round bh) then PreBadRound
      else match step cons (h_state prev) round (h_vote bh) with
           | UErr e => PreUpgradeErr e
           | UOk s' => if ustate_eqb s' (h_state bh) then PreOk else PreMismatch
           end
  end.

(* a chain of headers each accepted against its predecessor *)
Fixpoint chain_accepted (cons : consensus) (prev : uheader) (hs : list uheader) : bool :=
  match hs with
  | [] => true
  | h :: hs' => match precheck cons prev h with
                | PreOk => chain_accepted cons h hs'
                | _ => false
                end
  end.
