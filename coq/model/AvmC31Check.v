(* C31: executable checker for the cases written by
   harness/go/data/transactions/logic/zz_verif_c31_test.go.  No proofs.

   (f v mode lsv minv argsok #prog chk ckbudget evcls pass nsteps maxdepth maxlen minrem (final_h final_top) steps)
     one evaluation of a random / mutated byte string through EvalSignatureFull / EvalContract:
     chk = class of the real CheckSignature / CheckContract result on the same program (ckbudget =
     the budget it saw), evcls = class of the final error (0 = none), pass = the returned verdict, nsteps = number of
     instructions started, maxdepth / maxlen / minrem = extreme stack depth, byte-string length
     and remaining budget seen by the Tracer over the WHOLE run, final stack summary, and the
     first steps of the run, each
       (pc rem cost (calls) h (top...) cls pc' rem' cost' (calls') h' (top'...))
     = program counter, remainingBudget(), cx.cost, callstack, stack height and top-K stack
     values before the instruction; error class of step(), and the same data after it.
   Error classes are AvmFrame.ecode_N numbers. *)
From Coq Require Import List NArith ZArith String Bool Arith.
From Verif.lib Require Import Term.
From Verif.model Require Import AvmTypes AvmFrame AvmTable AvmC34Check.
From Verif.gen Require Import AvmTables.
Import ListNotations.
Local Open Scope string_scope.

Record ostep : Type := mkOStep {
  o_pc : nat; o_rem : Z; o_cost : Z; o_calls : list nat; o_h : nat; o_top : list sval;
  o_cls : N;
  o_pc' : nat; o_rem' : Z; o_cost' : Z; o_calls' : list nat; o_h' : nat; o_top' : list sval
}.

Definition parse_svals (t : term) : option (list sval) :=
  match t with TL l => map_opt parse_sval l | _ => None end.

Definition parse_ostep (t : term) : option ostep :=
  match t with
  | TL [a; TZ rem; TZ cost; cl; h; top; cls; a'; TZ rem'; TZ cost'; cl'; h'; top'] =>
      match parse_nat a, parse_nats cl, parse_nat h, parse_svals top, as_N cls,
            parse_nat a', parse_nats cl', parse_nat h', parse_svals top' with
      | Some pc, Some calls, Some hh, Some tp, Some c, Some pc', Some calls', Some hh', Some tp' =>
          Some (mkOStep pc rem cost calls hh tp c pc' rem' cost' calls' hh' tp')
      | _, _, _, _, _, _, _, _, _ => None
      end
  | _ => None
  end.

(* a stack of height h whose top items are known *)
Definition pad_stack (h : nat) (top : list sval) : list sval :=
  repeat (SU 0) (h - List.length top) ++ top.

(* the op function as observed on the implementation at this step *)
Definition obs_opf (o : ostep) (cls_eff : N) (s : opspec) (prog : list N) (st : state unit) : outcome unit :=
  if N.eqb cls_eff 16 then OErr unit
  else OOk unit (pad_stack (o_h' o) (o_top' o)) (o_pc' o) (o_calls' o) (Some (o_rem' o)) tt.

(* property, per step, on the implementation's observation alone *)
Definition step_spec_ok (o : ostep) : bool :=
  negb (N.eqb (o_cls o) 22)
  && (0 <=? o_rem o)%Z
  && implb (N.eqb (o_cls o) 0)
           ((0 <=? o_rem' o)%Z && Nat.leb (o_h' o) max_depth_nat && (o_cost o + 1 <=? o_cost' o)%Z).

(* correspondence, per step: the frame model run on the observed state with the observed op
   outcome gives the observed error class / next pc / cost, and the observed control transfer
   conforms to ctl_allowed *)
Definition step_corr (lsv v mode : N) (prog : list N) (o : ostep) : bool :=
  let cls_eff := if N.eqb (o_cls o) 20 && Nat.leb (o_h' o) max_depth_nat then 16%N else o_cls o in
  let st := mkSt unit (o_pc o) (pad_stack (o_h o) (o_top o)) (o_calls o) (o_cost o) (Some (o_rem o)) tt in
  match step gen_tbl max_depth_nat max_string_size unit 0%Z false (obs_opf o cls_eff) v mode prog st with
  | Ok st' =>
      N.eqb cls_eff 0 && Nat.eqb (st_pc unit st') (o_pc' o) && (st_cost unit st' =? o_cost' o)%Z
      && ctl_allowed_pc lsv v (get_op_spec gen_tbl v prog (o_pc o)) prog (o_pc o) (o_calls o) (o_pc' o) (o_calls' o)
  | Err e => N.eqb (ecode_N e) cls_eff
  end.

Definition final_class (h : nat) (top : list sval) : N * bool :=
  match h, top with
  | 1%nat, [SU u] => (0%N, negb (N.eqb u 0))
  | _, _ => (21%N, false)
  end.

Definition check_f (v mode lsv minv : N) (argsok : bool) (prog : list N) (chk : N) (ckb : Z) (evcls : N) (pass : bool)
           (nsteps : nat) (maxdepth : nat) (maxlen : N) (minrem : Z) (fh : nat) (ftop : list sval)
           (steps : list ostep) : term :=
  (* ---- the property on the implementation's observation *)
  let spec_ok :=
      negb (N.eqb evcls 22) && negb (N.eqb chk 22)            (* no internal crash, in eval or check *)
      && (0 <=? minrem)%Z                                     (* never exceeds its cost budget *)
      && Nat.leb maxdepth max_depth_nat                       (* stack depth *)
      && N.leb maxlen max_string_size                         (* byte-string length *)
      && implb pass (N.eqb evcls 0)                           (* accept | reject | error *)
      && forallb step_spec_ok steps in
  (* ---- correspondence with the frame model *)
  let corr_steps := forallb (step_corr lsv v mode prog) steps in
  let pre := eval_prog gen_tbl lsv max_depth_nat max_string_size logic_version unit 0%Z false
                       dummy_opf 0%nat mode minv false argsok prog None tt in
  let corr_pre :=
      match pre with
      | VError e =>
          if N.eqb (ecode_N e) 21 then Nat.eqb nsteps 0%nat && N.eqb evcls 21
          else Nat.eqb nsteps 0%nat && N.eqb evcls (ecode_N e)
      | VOutOfFuel => negb (Nat.eqb nsteps 0%nat)
      | _ => false
      end in
  (* the run ended by falling off the end of the program: the verdict follows the final stack *)
  let all_recorded := Nat.eqb (List.length steps) nsteps in
  let ended_normally :=
      match rev steps with
      | o :: _ => N.eqb (o_cls o) 0 && Nat.leb (List.length prog) (o_pc' o)
      | [] => false
      end in
  let corr_final :=
      if all_recorded && ended_normally then
        let '(c, p) := final_class fh ftop in N.eqb evcls c && Bool.eqb pass p
      else true in
  (* the static check is a total function of the byte string: same class as the model's *)
  let corr_check := N.eqb (res_class (frame_check lsv mode ckb minv false prog)) chk in
  let corr := corr_steps && corr_pre && corr_final && corr_check in
  verdict spec_ok corr (negb (Nat.eqb nsteps 0%nat))
          (TL [tb corr_steps; tb corr_pre; tb corr_final; tb corr_check]).

Definition check (t : term) : term :=
  match t with
  | TL [TS "f"; tv; tmode; tlsv; tminv; targs; TB prog; tchk; TZ ckb; tev; tpass; tns; tmd; tml; TZ minrem;
        TL [tfh; tftop]; TL tsteps] =>
      match as_N tv, as_N tmode, as_N tlsv, as_N tminv, as_bool targs, as_N tev, as_bool tpass, as_N tchk with
      | Some v, Some mode, Some lsv, Some minv, Some argsok, Some evcls, Some pass, Some chk =>
          match parse_nat tns, parse_nat tmd, as_N tml, parse_nat tfh, parse_svals tftop, map_opt parse_ostep tsteps with
          | Some ns, Some md, Some ml, Some fh, Some ftop, Some steps =>
              check_f v mode lsv minv argsok prog chk ckb evcls pass ns md ml minrem fh ftop steps
          | _, _, _, _, _, _ => v_parse
          end
      | _, _, _, _, _, _, _, _ => v_parse
      end
  | _ => v_parse
  end.
