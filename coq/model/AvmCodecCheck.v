(* C33: the codec / label model instantiated with the regenerated tables (coq/gen/AvmTables.v)
   and the executable checker for the cases written by
   harness/go/data/transactions/logic/zz_verif_c33_test.go.  No proofs.

   Case kinds (one term per line):
   (a v mode salt tt labs prog asm chk dis re nt #text)
      prog = ((opcode sub (imm ...)) ...) with imm = (b n) | (i n) | (x #bytes) | (is n ...) |
      (xs #bytes ...) | (l k) | (v k) | (ls k ...), label immediates naming instruction indices;
      labs = the instruction indices that carry a label in the source text; salt = 0 no
      autosalt pragma / 1 true / 2 false; tt = the source switches type tracking off.
      asm, re, nt = (cls #bytes ocb saltok): the real assembly of the source text, of the
      disassembly as is, of the disassembly with type tracking off; chk = class of the real
      static check of the assembled bytes in [mode] (0 ok, 11 static cost budget);
      dis = (cls (start pcs) ocf).
   (d mode #bytes chk dis re nt (fixcls #fixbytes))
      random bytecode: static check class, disassembly, the two re-assemblies, and one more
      disassemble/assemble round of nt's bytes. *)
From Coq Require Import List NArith ZArith String Bool Arith.
From Verif.lib Require Import Term.
From Verif.model Require Import AvmTypes AvmCodec.
From Verif.gen Require Import AvmTables.
Import ListNotations.
Open Scope N_scope.

(* ------------------------------------------------------------------ the dumped tables *)
Definition pool_get (i : N) : opspec := nth (N.to_nat i) spec_pool zero_spec.
Definition version_table (v : N) : list tentry := nth (N.to_nat v) ops_by_opcode [].

(* opsByOpcode[v][opcode] and its SubOps *)
Definition gen_tbl (v opcode : N) : opspec * list opspec :=
  match find (fun e : tentry => N.eqb (fst e) opcode) (version_table v) with
  | Some (_, (i, subs)) => (pool_get i, map pool_get subs)
  | None => (zero_spec, [])
  end.

(* the fields of the k-th field group (1-based) *)
Definition gen_grp (k : N) : list fspec :=
  if k =? 0 then []
  else match nth_error field_groups (N.to_nat (k - 1)) with
       | Some g => fg_fields g
       | None => []
       end.

(* OpsByName[v]: the named specs reachable in opsByOpcode[v] *)
Definition gen_names (v : N) (name : string) : option opspec :=
  let specs := flat_map (fun e : tentry => pool_get (fst (snd e)) :: map pool_get (snd (snd e)))
                        (version_table v) in
  find (fun s => String.eqb (os_name s) name) specs.

Definition gen_agrp (name : string) (k : N) : N :=
  match find (fun e : string * N => String.eqb (fst e) name) runtime_group_override with
  | Some (_, g) => g
  | None => k
  end.

(* constants of assembler.go / opcodes.go that the tables do not carry; the harness refuses
   to run when the Go constants differ *)
Definition salt_version : N := 13.       (* LogicSigOffCurveVersion *)

Definition c_dec_prog := dec_prog gen_tbl gen_grp logic_version.
Definition c_wf_prog := wf_prog gen_tbl gen_grp logic_version.
Definition c_wf_instr := wf_instr gen_tbl gen_grp.
Definition c_asm_base :=
  asm_base gen_tbl gen_grp gen_names gen_agrp max_string_size back_branch_enabled_version
           logic_version.
Definition c_salted := salted gen_tbl salt_version.
Definition c_stateful := stateful gen_tbl.
Definition c_dis_sym := dis_sym gen_tbl gen_grp logic_version.
Definition c_dis_labels := dis_labels gen_tbl.
Definition c_salt_suffix := salt_suffix gen_names.

(* ------------------------------------------------------------------ parsing *)
Definition parse_nat (t : term) : option nat :=
  match as_N t with Some n => Some (N.to_nat n) | None => None end.

Definition parse_simm (t : term) : option simm :=
  match t with
  | TL [TS "b"; n] => option_map SByte (as_N n)
  | TL [TS "i"; n] => option_map SInt (as_N n)
  | TL [TS "x"; TB bs] => Some (SBytes bs)
  | TL (TS "is" :: l) => option_map SInts (map_opt as_N l)
  | TL (TS "xs" :: l) => option_map SBytess (map_opt as_bytes l)
  | TL [TS "l"; k] => option_map SLabel (parse_nat k)
  | TL [TS "v"; k] => option_map SVLabel (parse_nat k)
  | TL (TS "ls" :: l) => option_map SLabels (map_opt parse_nat l)
  | _ => None
  end.

Definition parse_sinstr (t : term) : option sinstr :=
  match t with
  | TL [op; sub; TL imms] =>
      match as_N op, as_N sub, map_opt parse_simm imms with
      | Some o, Some s, Some l => Some (mkS o s l)
      | _, _, _ => None
      end
  | _ => None
  end.

Record aobs : Type := mkAO { ao_cls : N; ao_bytes : list N; ao_ocb : bool; ao_saltok : bool }.

Definition parse_aobs (t : term) : option aobs :=
  match t with
  | TL [c; TB b; o; s] =>
      match as_N c, as_bool o, as_bool s with
      | Some c', Some o', Some s' => Some (mkAO c' b o' s')
      | _, _, _ => None
      end
  | _ => None
  end.

Record dobs : Type := mkDO { do_cls : N; do_pcs : list nat; do_ocf : bool }.

Definition parse_dobs (t : term) : option dobs :=
  match t with
  | TL [c; TL pcs; o] =>
      match as_N c, map_opt parse_nat pcs, as_bool o with
      | Some c', Some p, Some o' => Some (mkDO c' p o')
      | _, _, _ => None
      end
  | _ => None
  end.

Definition parse_salt (n : N) : option saltmode :=
  if n =? 0 then Some SaltDefault else if n =? 1 then Some SaltOn
  else if n =? 2 then Some SaltOff else None.

(* ------------------------------------------------------------------ expectations *)
Definition bytes_eqb (a b : list N) : bool := AvmCodec.list_eqb N.eqb a b.

(* the model's assembly of a symbolic program, given the abstract facts about the hash *)
Definition expect_asm (v : N) (p : list sinstr) (labs : list nat) (mode : saltmode)
           (ocb : bool) (obs : list N) : ares :=
  match c_asm_base v p labs with
  | AOk base =>
      if c_salted v p mode ocb then AOk (base ++ c_salt_suffix v (last obs 0)) else AOk base
  | r => r
  end.

Definition agree (m : ares) (o : aobs) : bool :=
  match m with
  | AOk b => (ao_cls o =? 0) && bytes_eqb b (ao_bytes o)
  | AReject => ao_cls o =? 1
  | AFuel => false
  end.

Definition ares_term (m : ares) : term :=
  match m with
  | AOk b => TL [TZ 0; TB b]
  | AReject => TL [TZ 1]
  | AFuel => TL [TS "fuel"]
  end.

(* the model's disassembly + re-assembly of bytes b: (dis ok?, start pcs, expected nt) *)
Definition model_round (b : list N) (ocf : bool) (nt : aobs) : option (list nat * ares) :=
  match c_dis_sym false b with
  | None => None
  | Some (v, p, starts) =>
      let mode := if (salt_version <=? v) && negb (c_stateful v p) && ocf
                  then SaltOff else SaltDefault in
      Some (removelast starts, expect_asm v p (c_dis_labels v p) mode (ao_ocb nt) (ao_bytes nt))
  end.

Definition dis_agree (m : option (list nat * ares)) (d : dobs) : bool :=
  match m with
  | None => do_cls d =? 1
  | Some (pcs, _) => (do_cls d =? 0) && nat_list_eqb pcs (do_pcs d)
  end.

Definition round_agree (m : option (list nat * ares)) (d : dobs) (nt : aobs) : bool :=
  dis_agree m d &&
  match m with
  | None => true
  | Some (_, e) => agree e nt
  end.

Definition round_term (m : option (list nat * ares)) : term :=
  match m with
  | None => TL [TS "nodis"]
  | Some (pcs, e) => TL [TL (map (fun n => TZ (Z.of_nat n)) pcs); ares_term e]
  end.

(* ------------------------------------------------------------------ spec_ok oracles *)
(* instructions the assembler re-writes into their one-byte forms *)
Definition short_formable (v : N) (si : sinstr) : bool :=
  match spec_at gen_tbl v (s_op si) (s_sub si), s_imms si with
  | Some op, [SByte n] =>
      (n <? 4) && existsb (String.eqb (os_name op)) ["arg"; "intc"; "bytec"]%string
  | _, _ => false
  end.

(* b is in the image of the minimal encodings *)
Definition canonical (b : list N) : bool :=
  match c_dis_sym true b with
  | Some (v, p, _) => negb (existsb (short_formable v) p)
  | None => false
  end.

Definition no_panic (o : aobs) : bool := negb (ao_cls o =? 9).

(* a: assembled program -> static check passes, disassembly succeeds (a_pre); re-assembly
   (type tracking off) gives the same bytes, re-assembly as is gives the same bytes or is
   rejected (a_post) *)
Definition spec_a_pre (v : N) (asm : aobs) (chk : N) (d : dobs) (re nt : aobs) : bool :=
  no_panic asm && no_panic re && no_panic nt &&
  (if ao_cls asm =? 0 then
     ao_saltok asm && ((chk =? 0) || ((chk =? 11) && (v <? 4))) && (do_cls d =? 0)
   else true).
Definition spec_a_post (asm re nt : aobs) : bool :=
  if ao_cls asm =? 0 then
    (ao_cls nt =? 0) && bytes_eqb (ao_bytes nt) (ao_bytes asm) && ao_saltok nt &&
    (if ao_cls re =? 0 then bytes_eqb (ao_bytes re) (ao_bytes asm) else true)
  else true.
Definition spec_a (v : N) (asm : aobs) (chk : N) (d : dobs) (re nt : aobs) : bool :=
  spec_a_pre v asm chk d re nt && spec_a_post asm re nt.

(* signatures of the recorded deviations (KNOWN_FINDINGS.txt decides whether they are listed) *)
(* c33_deadcode_label_lost: the source carries a label that nothing references (and that is
   not at a proto), the re-assembly of the disassembly is rejected, and the model -- which
   has the dead-code rule of asmIntCBlock / asmByteCBlock -- predicts exactly that *)
Definition sig_deadcode (v : N) (p : list sinstr) (labs : list nat)
           (m_round : option (list nat * ares)) (asm nt : aobs) : bool :=
  (ao_cls asm =? 0) && (ao_cls nt =? 1) &&
  match m_round with Some (_, AReject) => true | _ => false end &&
  existsb (fun k => negb (existsb (Nat.eqb k) (c_dis_labels v p))) labs.

(* c33_line_too_long: some constant list disassembles to a line of >= 65536 characters
   ("<name>" + sum (" 0x" + 2 len)), and the re-assembly is rejected *)
Definition dis_line_len (v : N) (si : sinstr) : N :=
  match spec_at gen_tbl v (s_op si) (s_sub si), s_imms si with
  | Some op, [SBytess l] =>
      N.of_nat (String.length (os_name op)) + fold_right (fun bs acc => 3 + 2 * nlen bs + acc) 0 l
  | _, _ => 0
  end.
Definition sig_longline (v : N) (p : list sinstr) (asm nt : aobs) : bool :=
  (ao_cls asm =? 0) && (ao_cls nt =? 1) && existsb (fun si => 65536 <=? dis_line_len v si) p.

(* d: whatever re-assembles is a fixpoint of disassemble/assemble, and canonical bytes
   re-assemble to themselves *)
Definition spec_d (b : list N) (chk : N) (d : dobs) (re nt : aobs) (fixcls : N) (fixb : list N)
  : bool :=
  negb (chk =? 22) && negb (do_cls d =? 9) && no_panic re && no_panic nt &&
  (if ao_cls nt =? 0 then
     ao_saltok nt && (fixcls =? 0) && bytes_eqb fixb (ao_bytes nt) &&
     (if ao_cls re =? 0 then bytes_eqb (ao_bytes re) (ao_bytes nt) else true) &&
     (if canonical b then bytes_eqb (ao_bytes nt) b else true)
   else true).

(* ------------------------------------------------------------------ check *)
(* Order of the verdict: the part of the property that has no recorded exception first
   (a violation there is code 3), then the recorded signatures for a failing re-assembly,
   then the correspondence (a model mismatch is never hidden behind a known finding), then
   the recorded signature c33_typetrack_pragma_lost: the disassembly, assembled as is, is
   rejected although the same text assembles to the identical bytes with type tracking off
   (Disassemble never prints "#pragma typetrack false"). *)
Definition check_a (v : N) (salt : saltmode) (labs : list nat) (p : list sinstr)
           (asm : aobs) (chk : N) (d : dobs) (re nt : aobs) : term :=
  let m_asm := expect_asm v p labs salt (ao_ocb asm) (ao_bytes asm) in
  let accepted := ao_cls asm =? 0 in
  let m_round := if accepted then model_round (ao_bytes asm) (do_ocf d) nt else None in
  let corr := agree m_asm asm && (if accepted then round_agree m_round d nt else true) in
  let nontrivial := accepted && negb (match p with [] => true | _ => false end) in
  let detail := TL [ares_term m_asm; round_term m_round] in
  let nt_same := (ao_cls nt =? 0) && bytes_eqb (ao_bytes nt) (ao_bytes asm) && ao_saltok nt in
  if negb (spec_a_pre v asm chk d re nt) then v_viol detail
  else if accepted && negb nt_same then
    if agree m_asm asm && sig_longline v p asm nt then v_known "c33_line_too_long" detail
    else if agree m_asm asm && sig_deadcode v p labs m_round asm nt
    then v_known "c33_deadcode_label_lost" detail
    else v_viol detail
  else if negb (spec_a_post asm re nt) then v_viol detail
  else if negb corr then v_diff detail
  else if accepted && (ao_cls re =? 1) then v_known "c33_typetrack_pragma_lost" detail
  else if nontrivial then v_ok else v_triv.

Definition check_d (b : list N) (chk : N) (d : dobs) (re nt : aobs) (fixcls : N) (fixb : list N)
  : term :=
  let m_round := model_round b (do_ocf d) nt in
  let corr := round_agree m_round d nt in
  let nontrivial := (chk =? 0) && (ao_cls nt =? 0) in
  let detail := TL [round_term m_round; tb (canonical b)] in
  if negb (spec_d b chk d re nt fixcls fixb) then v_viol detail
  else if negb corr then v_diff detail
  else if (ao_cls nt =? 0) && bytes_eqb (ao_bytes nt) b && (ao_cls re =? 1)
  then v_known "c33_typetrack_pragma_lost" detail
  else if nontrivial then v_ok else v_triv.

Definition check (t : term) : term :=
  match t with
  | TL [TS "a"; v; _mode; salt; _tt; TL labs; TL prog; asm; chk; d; re; nt; _text] =>
      match as_N v, as_N salt, map_opt parse_nat labs, map_opt parse_sinstr prog,
            parse_aobs asm, as_N chk, parse_dobs d, parse_aobs re, parse_aobs nt with
      | Some v', Some s, Some labs', Some p, Some asm', Some chk', Some d', Some re', Some nt' =>
          match parse_salt s with
          | Some s' => check_a v' s' labs' p asm' chk' d' re' nt'
          | None => v_parse
          end
      | _, _, _, _, _, _, _, _, _ => v_parse
      end
  | TL [TS "d"; _mode; TB b; chk; d; re; nt; TL [fc; TB fb]] =>
      match as_N chk, parse_dobs d, parse_aobs re, parse_aobs nt, as_N fc with
      | Some chk', Some d', Some re', Some nt', Some fc' => check_d b chk' d' re' nt' fc' fb
      | _, _, _, _, _ => v_parse
      end
  | _ => v_parse
  end.
