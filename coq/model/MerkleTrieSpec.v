(* C17: the property stated on SETS, independent of node.add / node.remove, and the
   executable [check] used on implementation observations.  No proofs here.

   - [sstep]: what Add / Delete / Commit / Evict / reload / RootHash mean for the set of
     elements (membership answers, length error, what a reload brings back);
   - [canon n s]: the canonical trie of a set of n-byte elements, built directly from the set
     (one element -> a leaf holding it; otherwise one child per occurring first byte, in
     byte order); the canonical hash of the set is [root_hash H (canon_set s)]. *)
From Coq Require Import List NArith ZArith Bool String Sorted.
From Verif.lib Require Import Term.
From Verif.model Require Import MerkleTrie MerkleTrieSha.
Import ListNotations.
Open Scope N_scope.

Definition kset := list key.                  (* a finite set of elements; order irrelevant *)

(* the elements stored in a trie *)
Fixpoint elems (t : trie) {struct t} : list key :=
  match t with
  | Leaf h => [h]
  | Node cs => flat_map (fun p => map (cons (fst p)) (elems (snd p))) cs
  end.

Definition bytes_ok (k : key) : Prop := Forall (fun b => b < 256) k.

Definition not_single_leaf (cs : list (N * trie)) : Prop :=
  match cs with [(_, Leaf _)] => False | _ => True end.

(* canonical shape for elements of n bytes: children strictly sorted by index, every
   subtree non-empty, and no node whose only child is a leaf ("our tree forbids nodes that
   have exactly one leaf child and no other children", node.go) *)
Fixpoint wf (n : nat) (t : trie) {struct t} : Prop :=
  match t with
  | Leaf h => List.length h = n /\ bytes_ok h
  | Node cs =>
      match n with
      | O => False
      | S n' =>
          cs <> [] /\ StronglySorted N.lt (map fst cs) /\ not_single_leaf cs /\
          (fix all (l : list (N * trie)) : Prop :=
             match l with
             | [] => True
             | (i, c) :: l' => (i < 256 /\ wf n' c) /\ all l'
             end) cs
      end
  end.

Definition mem (k : key) (s : kset) : bool := existsb (key_eqb k) s.
Definition set_del (k : key) (s : kset) : kset := filter (fun x => negb (key_eqb k x)) s.

(* elements starting with byte b, without that byte *)
Definition tails (b : N) (s : kset) : kset :=
  flat_map (fun k => match k with x :: r => if x =? b then [r] else [] | [] => [] end) s.

Definition all_bytes : list N := map N.of_nat (seq 0 256).

Fixpoint canon (n : nat) (s : kset) : option trie :=
  match s with
  | [] => None
  | x :: _ =>
      if forallb (key_eqb x) s then Some (Leaf x)
      else match n with
           | O => None
           | S n' =>
               Some (Node (flat_map (fun b => match canon n' (tails b s) with
                                              | Some c => [(b, c)]
                                              | None => []
                                              end) all_bytes))
           end
  end.

Definition canon_set (s : kset) : option trie :=
  match s with [] => None | x :: _ => canon (List.length x) s end.

(* ---------- the set-level state machine ---------- *)
Record sstate := { s_cur : kset; s_modified : bool; s_committed : kset }.
Definition s_init : sstate := {| s_cur := []; s_modified := false; s_committed := [] |}.

Definition s_commit (s : sstate) : sstate :=
  {| s_cur := s_cur s; s_modified := false; s_committed := s_cur s |}.

Definition len_mismatch (k : key) (s : kset) : bool :=
  match s with [] => false | x :: _ => negb (Nat.eqb (List.length k) (List.length x)) end.

Definition sstep (s : sstate) (o : op) : sstate * res :=
  match o with
  | OAdd k =>
      if len_mismatch k (s_cur s) then (s, RErr)
      else if mem k (s_cur s) then (s, RBool false)
      else ({| s_cur := k :: s_cur s; s_modified := true; s_committed := s_committed s |}, RBool true)
  | ODel k =>
      if len_mismatch k (s_cur s) then (s, RErr)
      else if mem k (s_cur s)
      then ({| s_cur := set_del k (s_cur s); s_modified := true; s_committed := s_committed s |}, RBool true)
      else (s, RBool false)
  | OCommit => (s_commit s, ROk)
  | OEvict true => ((if s_modified s then s_commit s else s), ROk)
  | OEvict false => if s_modified s then (s, RErr) else (s, ROk)
  | OReload => ({| s_cur := s_committed s; s_modified := false; s_committed := s_committed s |}, ROk)
  | ORoot =>
      match s_cur s with
      | [] => (s, RRoot None)
      | _ => let s' := if s_modified s then s_commit s else s in (s', RRoot (canon_set (s_cur s')))
      end
  end.

Fixpoint srun (s : sstate) (ops : list op) : sstate * list res :=
  match ops with
  | [] => (s, [])
  | o :: ops' => let '(s1, r) := sstep s o in
                 let '(s2, rs) := srun s1 ops' in (s2, r :: rs)
  end.

(* ---------- relating the trie-level machine (model/MerkleTrie.v) to the set-level one ---------- *)
Definition keys_ok (n : nat) (s : kset) : Prop :=
  forall k, In k s -> List.length k = n /\ bytes_ok k.

(* the stored trie is a canonical trie holding exactly the elements of s *)
Definition rel (st : tstate) (s : kset) : Prop :=
  match t_root st with
  | None => s = []
  | Some t => s <> [] /\ keys_ok (t_elen st) s /\ wf (t_elen st) t /\
              (forall k, In k (elems t) <-> In k s)
  end.

Definition Rel (m : mstate) (s : sstate) : Prop :=
  rel (m_cur m) (s_cur s) /\ rel (m_committed m) (s_committed s) /\ m_modified m = s_modified s.

(* elements are byte strings *)
Definition op_ok (o : op) : Prop :=
  match o with OAdd k | ODel k => bytes_ok k | _ => True end.

(* ---------- executable equalities ---------- *)
Fixpoint trie_eqb (a b : trie) {struct a} : bool :=
  match a, b with
  | Leaf x, Leaf y => key_eqb x y
  | Node xs, Node ys =>
      (fix go (l1 l2 : list (N * trie)) {struct l1} : bool :=
         match l1, l2 with
         | [], [] => true
         | (i, c) :: l1', (j, d) :: l2' => (i =? j) && trie_eqb c d && go l1' l2'
         | _, _ => false
         end) xs ys
  | _, _ => false
  end.

Definition otrie_eqb (a b : option trie) : bool :=
  match a, b with
  | None, None => true
  | Some x, Some y => trie_eqb x y
  | _, _ => false
  end.

Definition res_eqb (a b : res) : bool :=
  match a, b with
  | RBool x, RBool y => Bool.eqb x y
  | RErr, RErr => true
  | RPanic, RPanic => true
  | RRoot x, RRoot y => otrie_eqb x y
  | ROk, ROk => true
  | _, _ => false
  end.

Definition subset (a b : kset) : bool := forallb (fun k => mem k b) a.
Definition set_eqb (a b : kset) : bool := subset a b && subset b a.

(* ---------- term encodings (see harness/go/crypto/merkletrie/zz_verif_c17_test.go) ---------- *)
Definition op_of_term (t : term) : option op :=
  match t with
  | TL [TS "a"; TB k] => Some (OAdd k)
  | TL [TS "d"; TB k] => Some (ODel k)
  | TL [TS "c"] => Some OCommit
  | TL [TS "e"; TZ 0] => Some (OEvict false)
  | TL [TS "e"; TZ 1] => Some (OEvict true)
  | TL [TS "r"] => Some OReload
  | TL [TS "h"] => Some ORoot
  | _ => None
  end.

(* observation of one op; a RootHash digest is computed only when [hashing] (else [#]) *)
Definition term_of_res (hashing : bool) (r : res) : term :=
  match r with
  | RBool b => tb b
  | RErr => TS "err"
  | RPanic => TS "panic"
  | ROk => TS "ok"
  | RRoot x => if hashing then TB (root_hash sha512_256 x) else TS "root"
  end.

(* without hashing every digest in the implementation's observation reads "root" *)
Definition blind (hashing : bool) (t : term) : term :=
  if hashing then t else match t with TB _ => TS "root" | _ => t end.

Fixpoint term_of_trie (t : trie) {struct t} : term :=
  match t with
  | Leaf h => TB h
  | Node cs => TL ((fix go (l : list (N * trie)) : list term :=
                      match l with
                      | [] => []
                      | (i, c) :: l' => TL [tn i; term_of_trie c] :: go l'
                      end) cs)
  end.

Definition term_of_otrie (o : option trie) : term :=
  match o with None => TS "nil" | Some t => term_of_trie t end.

Definition count_true (rs : list res) : nat :=
  List.length (filter (fun r => match r with RBool true => true | _ => false end) rs).

(* signature of the finding "evict_drops_partial_last_page" (cache.evict released the partially
   filled, already committed page that the next node id falls into; the next commit rewrote it
   without its committed nodes): the harness saw that precondition ([dropped] = 1) AND the only
   deviation is a storage error ("page N is missing" / "loaded page is missing a node"):
   either the last executed op returned it and everything before agrees with the property, or
   all results agree and the stored trie can no longer be read back completely. *)
Definition ends_ioerr (obs sterms : list term) : bool :=
  match rev obs with
  | TS "ioerr" :: pre => term_eqb (TL (rev pre)) (TL (firstn (List.length pre) sterms))
  | _ => false
  end.

Fixpoint has_ioerr (t : term) : bool :=
  match t with
  | TS "ioerr" => true
  | TL l => existsb has_ioerr l
  | _ => false
  end.

(* case = (seq (cfg ...) (ops ...) (obs ...) (set k1 k2 ...) root fresh shape hashing dropped)
     cfg      the MemoryConfig used (invisible to model and spec)
     obs      the implementation's result per op
     set      the harness's own bookkeeping of the final element set
     root     RootHash() after the sequence;  fresh: RootHash() of a NEW trie (default
              configuration, never evicted) into which the final set was inserted in sorted order
     shape    the final trie as stored by the implementation (walked through cache.getNode)
     hashing  1: digests are recomputed with the Gallina SHA-512/256 and compared *)
Definition check_seq (t : term) : term :=
  match t with
  | TL [TS "seq"; TL _; TL ops; TL obs; TL (TS "set" :: setl); TB root; TB fresh; shape; TZ hf; TZ dropped] =>
      match map_opt op_of_term ops, map_opt as_bytes setl with
      | Some ops, Some hset =>
          let hashing := Z.eqb hf 1 in
          let '(ss, sres) := srun s_init ops in
          let '(ms, mres) := run m_init ops in
          if negb (set_eqb hset (s_cur ss)) then v_parse else      (* harness bookkeeping differs from the spec: protocol error *)
          let obs' := map (blind hashing) obs in
          let sterms := map (term_of_res hashing) sres in
          let same := list_eqb res_eqb mres sres in
          let mterms := if same then sterms else map (term_of_res hashing) mres in
          let mfinal := t_root (m_cur ms) in
          (* [root] is the digest returned by the last op of the sequence (always (h)) when the run
             was not cut short by a storage error, so it is compared with the canonical hash of
             the final set through [obs'] = [sterms] when hashing *)
          let spec_ok :=
            term_eqb (TL obs') (TL sterms)                      (* membership answers, errors, digests *)
            && list_eqb N.eqb root fresh                        (* history independence on the implementation itself *)
            && negb (has_ioerr shape) in                        (* and the stored trie can be read back (GetStats would fail otherwise) *)
          let corr :=
            term_eqb (TL obs') (TL mterms)
            && term_eqb shape (term_of_otrie mfinal) in         (* the stored trie is the model's trie *)
          let detail := TL [TL mterms; term_of_otrie mfinal] in
          if (negb spec_ok || negb corr) && Z.eqb dropped 1 &&
             (ends_ioerr obs' sterms || (term_eqb (TL obs') (TL sterms) && has_ioerr shape))
          then v_known "evict_drops_partial_last_page" detail
          else verdict spec_ok corr (Nat.leb 2 (count_true sres)) detail
      | _, _ => v_parse
      end
  | _ => v_parse
  end.
