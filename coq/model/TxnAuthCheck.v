(* C28: decoding of the harness cases, instantiation of the abstract crypto by the REAL outcomes
   recorded in the case, and the executable [check].

   case kinds
     (vg PARAMS (TX...) SIGTAB PQTAB HTAB OBS)            verify.TxnGroup on one group
        PARAMS = (rekey authdiff pq lsigver lsigMsig lsigLMsig pricing maxAbsProg lsigMax)
        TX     = (sender authaddr isStateProof enc group body wellFormed ((pk msg sig)...)
                  sig MSIG LSIG PQ)
        MSIG   = (version threshold subsigsNil ((key sig)...))
        LSIG   = (logic sig MSIG(msig) MSIG(lmsig) PQ (arglen...) checkOk evalResult)
        PQ     = (scheme salt pk sig)
        SIGTAB = ((pk msg sig ok)...)   real ed25519 verification of every signature present
        PQTAB  = ((scheme pk msg sig ok)...)   real Falcon verification
        HTAB   = ((preimage digest)...)        real SHA-512/256 digests
        OBS    = (ok) | (err reason index sub)
     (tg validate maxGroup ((addr authAddr)...) feesOk (ETX...) HTAB OBS ORIG)
                                                         BlockEvaluator.TransactionGroup
        ETX    = (sender authaddr rekeyTo group body preOk applyOk)
        OBS    = (ok ((addr authAddr)...)) | (err class index)   (AuthAddr left behind)
        ORIG   = () | (gid (body...))   the committed group the case was mutated from
     (vc PARAMS (TX...) SIGTAB PQTAB HTAB OBSV validate maxGroup ((addr authAddr)...) feesOk (ETX...) OBSE)
        the SAME group through verify.TxnGroup (OBSV) and BlockEvaluator.TransactionGroup (OBSE);
        the oracle is evaluated on the COMPOSITION: accepted by both => every member is
        authorised by the CURRENT authorizer of its sender in the ledger state
     histories over ONE shared VerifiedTransactionCache, one case per call (W = "the cache vouched
     for the group before the call", R = "... after the call", both asked of the real cache):
     (pg PARAMS ((TX...)...) (W...) SIGTAB PQTAB HTAB ok|err (R...))
        block validation: GetUnverifiedTransactionGroups, then verify.PaysetGroups on the rest
     (tc PARAMS (TX...) W SIGTAB PQTAB HTAB OBS R)            verify.TxnGroup with the cache
     (pb PARAMS ((TX...)...) (W...) SIGTAB PQTAB HTAB (OBS...) (R...))
        txnSigBatchProcessor.ProcessBatch (stream verifier), one OBS per job
     oracle: a group the cache vouches for, and every group of an accepted payset, has only
     members with exactly one category that are authorised -- on EVERY call, whatever came before *)
From Coq Require Import String Ascii NArith ZArith List Bool.
Import ListNotations.
From Verif.lib Require Import Term.
From Verif.model Require Import Commitments TxnAuth TxnAuthSpec.
Open Scope N_scope.

(* ---- recorded crypto outcomes ---- *)
Definition sigtab := list (bytes * bytes * bytes * bool).
Fixpoint sig_lookup (tab : sigtab) (pk m sg : bytes) : option bool :=
  match tab with
  | [] => None
  | (pk', m', sg', ok) :: r =>
      if beqb pk pk' && beqb sg sg' && beqb m m' then Some ok else sig_lookup r pk m sg
  end.
Definition sig_of (tab : sigtab) (pk m sg : bytes) : bool :=
  match sig_lookup tab pk m sg with Some b => b | None => false end.

Definition pqtab := list (bytes * bytes * bytes * bytes * bool).
Fixpoint pq_lookup (tab : pqtab) (sch pk m sg : bytes) : option bool :=
  match tab with
  | [] => None
  | (sch', pk', m', sg', ok) :: r =>
      if beqb sch sch' && beqb sg sg' && beqb pk pk' && beqb m m' then Some ok
      else pq_lookup r sch pk m sg
  end.
Definition pq_of (tab : pqtab) (sch pk m sg : bytes) : bool :=
  match pq_lookup tab sch pk m sg with Some b => b | None => false end.

Definition h1tab := list (bytes * bytes).
Definition to_htab (t : h1tab) : htab := map (fun x => (K512_256, fst x, snd x)) t.
Definition h_of (t : h1tab) (pre : bytes) : bytes := hlookup (to_htab t) K512_256 pre.

(* ---- decoding ---- *)
Definition dec_sub (t : term) : option subsig :=
  match t with TL [TB k; TB s] => Some (mkSub k s) | _ => None end.
Definition dec_msig (t : term) : option msig :=
  match t with
  | TL [v; thr; nl; TL subs] =>
      match as_N v, as_N thr, as_bool nl, map_opt dec_sub subs with
      | Some v, Some thr, Some nl, Some subs =>
          if nl && negb (length subs =? 0)%nat then None else Some (mkMsig v thr nl subs)
      | _, _, _, _ => None
      end
  | _ => None
  end.
Definition dec_pq (t : term) : option pqsig :=
  match t with
  | TL [TB sch; salt; TB pk; TB sg] =>
      match as_N salt with Some salt => Some (mkPQ sch salt pk sg) | None => None end
  | _ => None
  end.
Definition dec_lsig (t : term) : option lsig :=
  match t with
  | TL [TB logic; TB sg; m; lm; pq; args; ck; ev] =>
      match dec_msig m, dec_msig lm, dec_pq pq, as_N_list args, as_bool ck, as_N ev with
      | Some m, Some lm, Some pq, Some args, Some ck, Some ev => Some (mkLsig logic sg m lm pq args ck ev)
      | _, _, _, _, _, _ => None
      end
  | _ => None
  end.
Definition dec_item (t : term) : option item :=
  match t with TL [TB pk; TB m; TB sg] => Some (pk, m, sg) | _ => None end.
Definition dec_stxn (t : term) : option stxn :=
  match t with
  | TL [TB sender; TB auth; sp; TB enc; TB grp; TB body; wf; TL extra; TB sg; m; l; pq] =>
      match as_bool sp, as_bool wf, map_opt dec_item extra, dec_msig m, dec_lsig l, dec_pq pq with
      | Some sp, Some wf, Some extra, Some m, Some l, Some pq =>
          Some (mkStxn sender auth sp enc (mkGtx grp body) wf extra sg m l pq)
      | _, _, _, _, _, _ => None
      end
  | _ => None
  end.
Definition dec_params (t : term) : option vparams :=
  match t with
  | TL [a; b; c; d; e; f; g; h; i] =>
      match as_bool a, as_bool b, as_bool c, as_N d, as_bool e, as_bool f, as_bool g, as_N h, as_N i with
      | Some a, Some b, Some c, Some d, Some e, Some f, Some g, Some h, Some i =>
          Some (mkVParams a b c d e f g h i)
      | _, _, _, _, _, _, _, _, _ => None
      end
  | _ => None
  end.
Definition dec_sigrow (t : term) : option (bytes * bytes * bytes * bool) :=
  match t with
  | TL [TB pk; TB m; TB sg; ok] => match as_bool ok with Some ok => Some (pk, m, sg, ok) | None => None end
  | _ => None
  end.
Definition dec_pqrow (t : term) : option (bytes * bytes * bytes * bytes * bool) :=
  match t with
  | TL [TB sch; TB pk; TB m; TB sg; ok] =>
      match as_bool ok with Some ok => Some (sch, pk, m, sg, ok) | None => None end
  | _ => None
  end.
Definition dec_hrow (t : term) : option (bytes * bytes) :=
  match t with TL [TB pre; TB d] => Some (pre, d) | _ => None end.

(* every signature that occurs anywhere in the transaction has a recorded real outcome *)
Definition all_sigs (s : stxn) : list item :=
  let a := authorizer s in
  t_extra s ++
  (if all_zero (t_sig s) then [] else [(a, txn_msg s, t_sig s)]) ++
  msig_items (txn_msg s) (t_msig s) ++ lsig_items a (t_lsig s).
Definition all_pq (s : stxn) : list (bytes * bytes * bytes * bytes) :=
  let a := authorizer s in
  let one (q : pqsig) (m : bytes) :=
    if beqb (pq_scheme q) scheme_f1 && negb (length (pq_sg q) =? 0)%nat
    then [(pq_scheme q, pq_pk q, m, pq_sg q)] else [] in
  one (t_pq s) (txn_msg s) ++ one (l_pq (t_lsig s)) (pq_program_msg a (l_logic (t_lsig s))).
Definition tables_complete (st : sigtab) (pt : pqtab) (l : list stxn) : bool :=
  forallb (fun s =>
    forallb (fun it => let '(pk, m, sg) := it in
                       match sig_lookup st pk m sg with Some _ => true | None => false end) (all_sigs s) &&
    forallb (fun it => let '(sch, pk, m, sg) := it in
                       match pq_lookup pt sch pk m sg with Some _ => true | None => false end) (all_pq s)) l.

Definition t_vres (r : vres) : term :=
  match r with
  | VOk => TL [TS "ok"]
  | VErr a i b => TL [TS "err"; TS a; TZ i; TS b]
  end.
Definition obs_ok (t : term) : bool := match t with TL [TS "ok"] => true | _ => false end.

(* does the group exercise the property at all? *)
Definition has_any_sig (s : stxn) : bool :=
  negb (all_zero (t_sig s)) || negb (msig_blank (t_msig s)) || negb (lsig_blank (t_lsig s)) ||
  negb (pq_blank (t_pq s)).

(* ---- evaluator cases ---- *)
Definition dec_etx (t : term) : option etx :=
  match t with
  | TL [TB sender; TB auth; TB rk; TB grp; TB body; pre; ap] =>
      match as_bool pre, as_bool ap with
      | Some pre, Some ap => Some (mkEtx sender auth rk (mkGtx grp body) pre ap)
      | _, _ => None
      end
  | _ => None
  end.
Definition dec_st (t : term) : option (bytes * bytes) :=
  match t with TL [TB a; TB v] => Some (a, v) | _ => None end.

Definition t_eres (r : eres) : term :=
  let e (c : string) (i : Z) := TL [TS "err"; TS c; TZ i] in
  match r with
  | EOk => TL [TS "ok"]
  | EErrTooBig => e "toobig"%string (-1)%Z
  | EErrPre i => e "pre"%string (Z.of_N i)
  | EErrAuth i => e "auth"%string (Z.of_N i)
  | EErrApply i => e "apply"%string (Z.of_N i)
  | EErrGroup (GErrEmpty i) => e "grp_empty"%string (Z.of_N i)
  | EErrGroup (GErrInconsistent _) => e "grp_inconsistent"%string (-1)%Z
  | EErrGroup GErrIncomplete => e "grp_incomplete"%string (-1)%Z
  | EErrGroup GOk => e "grp_ok"%string (-1)%Z
  | EErrFees => e "fees"%string (-1)%Z
  end.

Record tgcase : Type := mkTg {
  tg_validate : bool; tg_maxgroup : N; tg_st : astate; tg_fees : bool; tg_txs : list etx;
  tg_h : h1tab; tg_obs : term; tg_orig : option (bytes * list bytes)
}.
Definition dec_orig (t : term) : option (option (bytes * list bytes)) :=
  match t with
  | TL [] => Some None
  | TL [TB gid; TL bodies] =>
      match map_opt as_bytes bodies with Some b => Some (Some (gid, b)) | None => None end
  | _ => None
  end.
Definition dec_tg (t : term) : option tgcase :=
  match t with
  | TL [TS "tg"; v; mg; TL st; fo; TL txs; TL h; obs; orig] =>
      match as_bool v, as_N mg, map_opt dec_st st, as_bool fo, map_opt dec_etx txs, map_opt dec_hrow h, dec_orig orig with
      | Some v, Some mg, Some st, Some fo, Some txs, Some h, Some orig => Some (mkTg v mg st fo txs h obs orig)
      | _, _, _, _, _, _, _ => None
      end
  | _ => None
  end.
Definition tg_H (c : tgcase) : N -> bytes -> bytes := fun _ => h_of (tg_h c).
Definition tg_model (c : tgcase) : eres :=
  fst (eval_txgroup (tg_H c) (tg_validate c) (tg_maxgroup c) (tg_st c) (tg_fees c) (tg_txs c)).

(* the group-id part of a tg observation: (ok POST) | (err class idx) *)
Definition tg_accepted (t : term) : bool :=
  match t with TL (TS "ok" :: _) => true | _ => false end.

(* model's observation for tg, with the AuthAddr state left behind for the listed senders *)
Definition tg_model_obs (c : tgcase) : term :=
  let '(r, st') := eval_txgroup (tg_H c) (tg_validate c) (tg_maxgroup c) (tg_st c) (tg_fees c) (tg_txs c) in
  match r with
  | EOk => TL [TS "ok"; TL (map (fun x => TL [TB (fst x); TB (auth_of st' (fst x))]) (tg_st c))]
  | _ => t_eres r
  end.

(* declarative: member by member, the authorizer named by the SignedTxn is the sender's current
   one, where "current" follows the rekeys of the earlier members *)
Fixpoint auth_chain_ok (st : astate) (l : list etx) : bool :=
  match l with
  | [] => true
  | t :: r => beqb (e_authorizer t) (current_authorizer st (e_sender t)) &&
              auth_chain_ok (apply_rekey st t) r
  end.

(* declarative oracle of the composition (C28_only_current_authorizer): member by member,
   exactly one category and authorised by the current authorizer of the sender, where "current"
   is the ledger's AuthAddr updated by the rekeys of the earlier members *)
Fixpoint compose_ok (sig_ok : bytes -> bytes -> bytes -> bool) (pq_ok : bytes -> bytes -> bytes -> bytes -> bool)
         (H : bytes -> bytes) (st : astate) (l : list stxn) (g : list etx) : bool :=
  match l, g with
  | [], [] => true
  | s :: l', t :: g' =>
      accept_ok_b sig_ok pq_ok H (current_authorizer st (t_sender s)) s &&
      compose_ok sig_ok pq_ok H (apply_rekey st t) l' g'
  | _, _ => false
  end.

(* the two views describe the same signed transactions *)
Definition views_agree (l : list stxn) (g : list etx) : bool :=
  list_eqb beqb (map t_sender l) (map e_sender g) && list_eqb beqb (map t_auth l) (map e_auth g) &&
  list_eqb beqb (map (fun s => g_grp (t_gtx s)) l) (map (fun t => g_grp (e_gtx t)) g) &&
  list_eqb beqb (map (fun s => g_body (t_gtx s)) l) (map (fun t => g_body (e_gtx t)) g).

(* declarative: every member of the group has exactly one category and is authorised *)
Definition group_authorised (sig_ok : bytes -> bytes -> bytes -> bool) (pq_ok : bytes -> bytes -> bytes -> bytes -> bool)
           (H : bytes -> bytes) (g : list stxn) : bool :=
  negb (length g =? 0)%nat && forallb (fun s => accept_ok_b sig_ok pq_ok H (authorizer s) s) g.

Definition dec_group (t : term) : option (list stxn) :=
  match t with TL l => map_opt dec_stxn l | _ => None end.
Fixpoint zip3 {A B C} (a : list A) (b : list B) (c : list C) : list (A * B * C) :=
  match a, b, c with
  | x :: a', y :: b', z :: c' => (x, y, z) :: zip3 a' b' c'
  | _, _, _ => []
  end.
Definition same_len3 {A B C} (a : list A) (b : list B) (c : list C) : bool :=
  (length a =? length b)%nat && (length b =? length c)%nat.

Definition check (t : term) : term :=
  match t with
  | TL [TS "pg"; ps; TL gs; TL ws; TL st; TL pt; TL ht; TS res; TL rs] =>
      match dec_params ps, map_opt dec_group gs, map_opt as_bool ws, map_opt dec_sigrow st, map_opt dec_pqrow pt,
            map_opt dec_hrow ht, map_opt as_bool rs with
      | Some p, Some gl, Some wl, Some st, Some pt, Some ht, Some rl =>
          if negb (forallb (tables_complete st pt) gl && same_len3 gl wl rl) then v_parse else
          let sig_ok := sig_of st in let pq_ok := pq_of pt in let H := h_of ht in
          let rows := zip3 gl wl rl in
          let unv := map (fun x => fst (fst x)) (filter (fun x => negb (snd (fst x))) rows) in
          let mres := payset_ok sig_ok pq_ok H p unv in
          let res_ok := String.eqb res "ok" in
          let corr := Bool.eqb res_ok mres &&
                      forallb (fun x => let '(g, w, r) := x in
                                 (negb w || r) && (negb mres || r) &&
                                 (negb (r && negb w) || gvalid sig_ok pq_ok H p g)) rows in
          let spec := forallb (fun x => let '(g, w, r) := x in
                                 negb (r || w || res_ok) || group_authorised sig_ok pq_ok H g) rows in
          verdict spec corr (existsb (existsb has_any_sig) gl) (TL [TS (if mres then "ok" else "err")])
      | _, _, _, _, _, _, _ => v_parse
      end
  | TL [TS "tc"; ps; g; w; TL st; TL pt; TL ht; obs; r] =>
      match dec_params ps, dec_group g, as_bool w, map_opt dec_sigrow st, map_opt dec_pqrow pt, map_opt dec_hrow ht, as_bool r with
      | Some p, Some g, Some w, Some st, Some pt, Some ht, Some r =>
          if negb (tables_complete st pt g) then v_parse else
          let sig_ok := sig_of st in let pq_ok := pq_of pt in let H := h_of ht in
          let m := verify_group sig_ok pq_ok H p g in
          let mok := match m with VOk => true | _ => false end in
          verdict (negb (r || w || obs_ok obs) || group_authorised sig_ok pq_ok H g)
                  (term_eqb obs (t_vres m) && Bool.eqb r (w || mok)) (existsb has_any_sig g) (t_vres m)
      | _, _, _, _, _, _, _ => v_parse
      end
  | TL [TS "pb"; ps; TL gs; TL ws; TL st; TL pt; TL ht; TL os; TL rs] =>
      match dec_params ps, map_opt dec_group gs, map_opt as_bool ws, map_opt dec_sigrow st, map_opt dec_pqrow pt,
            map_opt dec_hrow ht, map_opt as_bool rs with
      | Some p, Some gl, Some wl, Some st, Some pt, Some ht, Some rl =>
          if negb (forallb (tables_complete st pt) gl && same_len3 gl wl rl && (length gl =? length os)%nat) then v_parse else
          let sig_ok := sig_of st in let pq_ok := pq_of pt in let H := h_of ht in
          let ms := map (fun g => verify_group sig_ok pq_ok H p g) gl in
          let rows := zip3 (combine gl (combine ms os)) wl rl in
          let corr := forallb (fun x => let '((g, (m, o)), w, r) := x in
                                 term_eqb o (t_vres m) &&
                                 Bool.eqb r (w || match m with VOk => true | _ => false end)) rows in
          let spec := forallb (fun x => let '((g, (m, o)), w, r) := x in
                                 negb (r || w || obs_ok o) || group_authorised sig_ok pq_ok H g) rows in
          verdict spec corr (existsb (existsb has_any_sig) gl) (TL (map t_vres ms))
      | _, _, _, _, _, _, _ => v_parse
      end
  | TL [TS "vc"; ps; TL txs; TL st; TL pt; TL ht; obsv; v; mg; TL ast; fo; TL etxs; obse] =>
      match dec_params ps, map_opt dec_stxn txs, map_opt dec_sigrow st, map_opt dec_pqrow pt, map_opt dec_hrow ht with
      | Some p, Some l, Some st, Some pt, Some ht =>
          match as_bool v, as_N mg, map_opt dec_st ast, as_bool fo, map_opt dec_etx etxs with
          | Some v, Some mg, Some ast, Some fo, Some g =>
              if negb (tables_complete st pt l && views_agree l g) then v_parse else
              let sig_ok := sig_of st in
              let pq_ok := pq_of pt in
              let H := h_of ht in
              let mv := t_vres (verify_group sig_ok pq_ok H p l) in
              let c := mkTg v mg ast fo g ht obse None in
              let me := tg_model_obs c in
              let both := obs_ok obsv && tg_accepted obse && v in
              let spec := negb both || compose_ok sig_ok pq_ok H ast l g in
              verdict spec (term_eqb obsv mv && term_eqb obse me) (existsb has_any_sig l)
                      (TL [mv; me])
          | _, _, _, _, _ => v_parse
          end
      | _, _, _, _, _ => v_parse
      end
  | TL [TS "vg"; ps; TL txs; TL st; TL pt; TL ht; obs] =>
      match dec_params ps, map_opt dec_stxn txs, map_opt dec_sigrow st, map_opt dec_pqrow pt, map_opt dec_hrow ht with
      | Some p, Some l, Some st, Some pt, Some ht =>
          if negb (tables_complete st pt l) then v_parse else
          let sig_ok := sig_of st in
          let pq_ok := pq_of pt in
          let H := h_of ht in
          let m := t_vres (verify_group sig_ok pq_ok H p l) in
          (* oracle on the implementation's observation: acceptance implies that every member
             has exactly one category and is authorised by the authorizer it names *)
          let spec := negb (obs_ok obs) ||
                      forallb (fun s => accept_ok_b sig_ok pq_ok H (authorizer s) s) l in
          verdict spec (term_eqb obs m) (existsb has_any_sig l) m
      | _, _, _, _, _ => v_parse
      end
  | TL (TS "tg" :: _) =>
      match dec_tg t with
      | None => v_parse
      | Some c =>
          let m := tg_model_obs c in
          let spec := negb (tg_accepted (tg_obs c)) || negb (tg_validate c) ||
                      auth_chain_ok (tg_st c) (tg_txs c) in
          let nt := existsb (fun x => negb (all_zero (snd x))) (tg_st c) ||
                    existsb (fun x => negb (all_zero (e_auth x)) || negb (all_zero (e_rekey x))) (tg_txs c) in
          verdict spec (term_eqb (tg_obs c) m) nt m
      end
  | _ => v_parse
  end.
