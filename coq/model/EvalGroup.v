(* Evaluator core model, part 3: the transaction / group / block level.
   Transcribes ledger/eval/eval.go: BlockEvaluator.checkMinBalance, transaction,
   TransactionGroup (child cow, per-transaction loop with the group-id checks, incomplete
   group check, SummarizeFees + CheckGroupFees, Payset append + commitToParent as the last
   step, recycle of the child on every exit), the Algo-moving part of StartEvaluator
   (rewards pool withdrawal) and of endOfBlock (expired / absent account resets,
   performPayout, recordProposal).

   Transaction types: payment, key registration, asset config / transfer / freeze, application
   calls with script programs (EvalApply.v); heartbeats and state proofs are excluded.

   Not modelled here (inputs or other properties): NextRewardsState (C25: the new rewards
   level is an input), validateForPayouts / proposerPayout (C24: proposer and payout are
   inputs), the justification of the expired / absent lists (C27: the lists are inputs),
   the ApplyData comparison of validate-only mode (the replayed blocks come from the
   generator, so it is an equality), blockTxBytes / ErrNoSpace (encoded sizes are not
   modelled), the tracer hooks, CalculateTotals (AccountTotals is C12; that its
   "sum of money changed" check cannot fire is exactly theorem block_conserves).
   No proofs in this file. *)
From Coq Require Import NArith List Bool.
From Verif.model Require Import Overflow EvalCow EvalApply.
Import ListNotations.
Open Scope N_scope.

(* ------------------------------------------------------------------ checkMinBalance *)
Fixpoint check_min_balance_list (E : env) (c : cow) (addrs : list N) : res unit :=
  match addrs with
  | [] => Ok tt
  | a :: r =>
    if (a =? e_feesink E) || (a =? e_pool E) || (a =? e_spsender E) then check_min_balance_list E c r
    else
      let data := lookup c a in
      if acct_is_zero data then check_min_balance_list E c r
      else match with_rewards (e_P E) (e_lvl E) data with
           | Err e => Err e
           | Ok dn =>
             let mb := min_balance (e_P E) dn in
             if a_algos dn <? mb then Err E_MINBAL
             else if negb (p_maxminbal (e_P E) =? 0) && (p_maxminbal (e_P E) <? mb) then Err E_MAXMINBAL
             else check_min_balance_list E c r
           end
  end.

Definition check_min_balance (E : env) : M unit :=
  fun c => (c, if mods_consistent c then check_min_balance_list E c (modified c)
               else Err E_PANIC (* cow.modifiedAccounts() panics; recovered by TransactionGroup *)).

(* ------------------------------------------------------------------ transaction *)
Definition transaction (E : env) (tx : txn) : M unit :=
  when (e_validate E)
       (guard ((t_fv tx <=? e_rnd E) && (e_rnd E <=? t_lv tx)) E_DEAD ;;;
        guard (t_genok tx) E_GENESIS ;;;
        m_checkdup (e_P E) (e_rnd E) (t_txid tx) (t_sender tx) (t_lease tx) ;;;
        acctdata <- m_lookup (t_sender tx) ;;
        guard (t_authorizer tx =? (if a_auth acctdata =? 0 then t_sender tx else a_auth acctdata)) E_AUTH) ;;;
  ctr <- m_counter ;;
  _ <- apply_transaction E tx ctr ;;
  when (e_validate E || e_generate E) (check_min_balance E) ;;;
  m_addtx (t_txid tx) (t_lv tx) (t_sender tx) (t_lease tx).

(* ------------------------------------------------------------------ TransactionGroup *)
(* the per-transaction loop; [g0] is txgroup[0].Group, [multi] is len(txgroup) > 1 *)
Fixpoint group_loop (E : env) (g0 : N) (multi : bool) (txs : list txn) : M unit :=
  match txs with
  | [] => ret tt
  | tx :: r =>
    transaction E tx ;;;
    guard (t_grp tx =? g0) E_GINCONS ;;;
    guard (negb (t_grp tx =? 0) || negb multi) E_GEMPTY ;;;
    group_loop E g0 multi r
  end.

(* transactions.SummarizeFees (the LogicSig program surcharge of the group is an input) *)
Definition summarize_fees (g : list txn) (lsigfee : N) : N * N :=
  let usage := fold_left (fun u tx => addsat 64 u (t_feefactor tx)) g 0 in
  let paid := fold_left (fun p tx => addsat 64 p (t_fee tx)) g 0 in
  (addsat 64 usage lsigfee, paid).

(* CheckGroupFees *)
Definition check_group_fees (P : params) (paid usage : N) : res unit :=
  let '(need, _, o) := feeForUsage (p_minfee P) usage 1000000 0 in
  if o then Err E_FEE else if paid <? need then Err E_FEE else Ok tt.

Definition first_grp (g : list txn) : N := match g with [] => 0 | tx :: _ => t_grp tx end.

(* everything TransactionGroup does between cow := eval.state.child() and the commit *)
Definition group_body (E : env) (g : list txn) (lsigfee : N) : M unit :=
  when (e_validate E) (guard (forallb t_wf g) E_WF) ;;;
  group_loop E (first_grp g) (1 <? N.of_nat (length g)) g ;;;
  guard ((first_grp g =? 0) || (first_grp g =? 1)) E_GINCOMPLETE ;;;
  let '(usage, paid) := summarize_fees g lsigfee in
  lift (check_group_fees (e_P E) paid usage).

(* the evaluator: eval.state, eval.block.Payset (as the list of transaction ids),
   eval.corruptedState *)
Record evalst := mkEval {
  ev_cow : cow;
  ev_payset : list N;
  ev_corrupt : bool
}.

Definition transaction_group (E : env) (ev : evalst) (g : list txn) (lsigfee : N) : evalst * res unit :=
  if ev_corrupt ev then (ev, Err E_CORRUPT)
  else match g with
       | [] => (ev, Ok tt)
       | _ =>
         if p_maxgroup (e_P E) <? N.of_nat (length g) then (ev, Err E_GSIZE)
         else match group_body E g lsigfee (child (ev_cow ev)) with
              | (c1, Err e) =>            (* deferred cow.recycle(); nothing else was written *)
                (mkEval (recycle c1) (ev_payset ev) (ev_corrupt ev), Err e)
              | (c1, Ok _) =>             (* Payset append, commitToParent, then recycle *)
                (mkEval (commit c1) (ev_payset ev ++ map t_txid g) (ev_corrupt ev), Ok tt)
              end
       end.

(* ------------------------------------------------------------------ StartEvaluator *)
(* rewards withdrawal: [prevlvl] = prevHeader.RewardsLevel, e_lvl E = the new header's
   level, [ru] = prevTotals.RewardUnits() *)
Definition start_block (E : env) (b : base) (prevlvl ru : N) : res evalst :=
  let '(rpu, o1) := osub 64 (e_lvl E) prevlvl in
  if o1 then Err E_BLOCK else
  let c0 := mkCow layer0 [] b in
  match with_rewards (e_P E) (e_lvl E) (lookup c0 (e_pool E)) with
  | Err e => Err e
  | Ok poolOld =>
    let '(w, o2) := omul 64 ru rpu in
    let '(v, o3) := osub 64 (a_algos poolOld) w in
    if o2 || o3 then Err E_BLOCK else
    let c1 := put c0 (e_pool E) (set_algos poolOld v) in
    if snd (osub 64 v (p_minbal (e_P E))) then Err E_BLOCK
    else Ok (mkEval c1 [] false)
  end.

(* ------------------------------------------------------------------ endOfBlock *)
(* validateExpiredOnlineAccounts: the per-account conditions (the duplicate check and the
   length bound are in [end_block]) *)
Fixpoint validate_expired (E : env) (addrs : list N) : M unit :=
  match addrs with
  | [] => ret tt
  | a :: r => x <- m_lookup a ;;
              guard (negb (a_votepk x =? 0)) E_BLOCK ;;;
              guard (a_votelast x <? e_rnd E) E_BLOCK ;;;
              validate_expired E r
  end.

Fixpoint reset_expired (addrs : list N) : M unit :=
  match addrs with
  | [] => ret tt
  | a :: r => x <- m_lookup a ;; m_put a (clear_online x) ;;; reset_expired r
  end.

(* validateAbsentOnlineAccounts: the status / balance / eligibility conditions (whether the
   account really is absent is C27) *)
Fixpoint validate_absent (addrs : list N) : M unit :=
  match addrs with
  | [] => ret tt
  | a :: r => x <- m_lookup a ;;
              guard (status_eqb (a_status x) Online) E_BLOCK ;;;
              guard (negb (a_algos x =? 0)) E_BLOCK ;;;
              guard (a_elig x) E_BLOCK ;;;
              validate_absent r
  end.

Fixpoint suspend_absent (addrs : list N) : M unit :=
  match addrs with
  | [] => ret tt
  | a :: r => x <- m_lookup a ;; m_put a (suspend x) ;;; suspend_absent r
  end.

Definition perform_payout (E : env) (proposer payout : N) : M unit :=
  when (negb (proposer =? 0) && negb (payout =? 0))
       (_ <- move E (e_feesink E) proposer payout None None ;; ret tt).

Definition record_proposal (E : env) (proposer : N) : M unit :=
  when (negb (proposer =? 0))
       (prp <- m_lookup proposer ;;
        let p1 := if acct_is_zero prp then prp else set_lastprop prp (e_rnd E) in
        let p2 := if suspended p1 then set_status p1 Online else p1 in
        m_put proposer p2).

Definition end_block (E : env) (expired absent : list N) (proposer payout : N) : M unit :=
  when (e_validate E) (validate_expired E expired) ;;;
  guard (N.of_nat (length expired) <=? p_maxexpired (e_P E)) E_BLOCK ;;;
  reset_expired expired ;;;
  when (e_validate E) (validate_absent absent) ;;;
  suspend_absent absent ;;;
  perform_payout E proposer payout ;;;
  record_proposal E proposer.

(* ------------------------------------------------------------------ a whole block (eval.Eval) *)
Fixpoint eval_groups (E : env) (ev : evalst) (gs : list (list txn * N)) : res evalst :=
  match gs with
  | [] => Ok ev
  | (g, lf) :: r =>
    match transaction_group E ev g lf with
    | (ev1, Ok _) => eval_groups E ev1 r
    | (_, Err e) => Err e
    end
  end.

Definition eval_block (E : env) (b : base) (prevlvl ru : N) (gs : list (list txn * N))
           (expired absent : list N) (proposer payout : N) : res evalst :=
  match start_block E b prevlvl ru with
  | Err e => Err e
  | Ok ev0 =>
    match eval_groups E ev0 gs with
    | Err e => Err e
    | Ok ev1 =>
      match end_block E expired absent proposer payout (ev_cow ev1) with
      | (c2, Ok _) => Ok (mkEval c2 (ev_payset ev1) (ev_corrupt ev1))
      | (_, Err e) => Err e
      end
    end
  end.

(* ------------------------------------------------------------------ panics in TransactionGroup *)
(* TransactionGroup recovers panics.  Before the commit point ("committing = true") a recovered
   panic is a clean rejection: the deferred cow.recycle() drops the child and nothing else was
   written.  From the commit point on -- Payset append, blockTxBytes, the steps of
   commitToParent, the deferred tracer hook -- eval.state may hold a half-merged group, so the
   recover handler sets eval.corruptedState and every later TestTransactionGroup /
   TransactionGroup / GenerateBlock call refuses with ErrEvaluatorCorruptedState.
   [PLoop i]: a panic while transaction i of the per-transaction loop is evaluated (anywhere in
   it: the child is dropped as a whole).  [PCommit k]: a panic after the Payset append and after
   the first k steps of commitToParent:
     1 MergeAccounts (accounts, asset and app resources)   2 Txids   3 txnCount, feesCollected
     4 Txleases   5 Creatables   6 sdeltas   7 KvMods (k >= 7: after the whole commit). *)
Inductive ppoint := PLoop (i : nat) | PCommit (k : nat).

Definition commit_upto (k : nat) (p t : layer) : layer :=
  let m := merge_layer p t in
  mkLayer (if Nat.leb 1 k then l_accts m else l_accts p)
          (if Nat.leb 2 k then l_txids m else l_txids p)
          (if Nat.leb 4 k then l_leases m else l_leases p)
          (if Nat.leb 3 k then l_txncount m else l_txncount p)
          (if Nat.leb 3 k then l_fees m else l_fees p)
          (if Nat.leb 1 k then l_assets m else l_assets p)
          (if Nat.leb 5 k then l_creat m else l_creat p)
          (if Nat.leb 1 k then l_apps m else l_apps p)
          (if Nat.leb 5 k then l_acreat m else l_acreat p)
          (if Nat.leb 6 k then l_store m else l_store p)
          (if Nat.leb 7 k then l_boxes m else l_boxes p).

(* the parent after a commitToParent that was interrupted after k steps (the child is recycled
   by the deferred call) *)
Definition partial_commit (k : nat) (c : cow) : cow :=
  match c_parents c with
  | [] => c
  | p :: ps => mkCow (commit_upto k p (c_top c)) ps (c_base c)
  end.

Definition transaction_group_p (E : env) (ev : evalst) (g : list txn) (lsigfee : N) (pp : option ppoint)
  : evalst * res unit :=
  if ev_corrupt ev then (ev, Err E_CORRUPT)
  else match g with
       | [] => (ev, Ok tt)
       | _ =>
         if p_maxgroup (e_P E) <? N.of_nat (length g) then (ev, Err E_GSIZE)
         else
           match pp with
           | Some (PLoop i) =>
             if Nat.ltb i (length g) then
               (* the loop gets as far as transaction i (unless an earlier member fails first) *)
               match (when (e_validate E) (guard (forallb t_wf g) E_WF) ;;;
                      group_loop E (first_grp g) (1 <? N.of_nat (length g)) (firstn i g)) (child (ev_cow ev)) with
               | (c1, Err e) => (mkEval (recycle c1) (ev_payset ev) (ev_corrupt ev), Err e)
               | (c1, Ok _) => (mkEval (recycle c1) (ev_payset ev) (ev_corrupt ev), Err E_PANIC)
               end
             else transaction_group E ev g lsigfee
           | Some (PCommit k) =>
             match group_body E g lsigfee (child (ev_cow ev)) with
             | (c1, Err e) => (mkEval (recycle c1) (ev_payset ev) (ev_corrupt ev), Err e)
             | (c1, Ok _) =>   (* committing = true; Payset appended; commitToParent interrupted *)
               (mkEval (partial_commit k c1) (ev_payset ev ++ map t_txid g) true, Err E_PANIC)
             end
           | None => transaction_group E ev g lsigfee
           end
       end.

(* GenerateBlock as far as this property needs it: it refuses a corrupted evaluator before
   anything else, otherwise it runs endOfBlock *)
Definition generate_block (E : env) (ev : evalst) (expired absent : list N) : res evalst :=
  if ev_corrupt ev then Err E_CORRUPT
  else match end_block E expired absent 0 0 (ev_cow ev) with
       | (c2, Ok _) => Ok (mkEval c2 (ev_payset ev) (ev_corrupt ev))
       | (_, Err e) => Err e
       end.

(* a sequence of TransactionGroup calls with arbitrary panics *)
Fixpoint run_calls (E : env) (ev : evalst) (calls : list (list txn * N * option ppoint)) : evalst :=
  match calls with
  | [] => ev
  | (g, lf, pp) :: r => run_calls E (fst (transaction_group_p E ev g lf pp)) r
  end.
