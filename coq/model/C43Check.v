(* C43: the property as executable, model-independent predicates on what the implementation
   was observed to do ([spec_*]), the model's observations ([model_*]) and the line-protocol
   entry point [check].  No proofs here (proofs/C43SpecProofs.v shows that the model's
   observations satisfy the [spec_*] predicates for ALL inputs).

   Case formats (harness/go/network/zz_verif_c43_test.go):
     (consts step avg max fbuckets fsize)
     (tag #tt limit dedup)
     (slurp base max ((limit total script data (err size contentok nbuf remained alloc held bytes)) ...))
     (filter n max ((id add promote) ...) (has ...) (top (ids...) ...))
     (net n max npeers ((peer #tt id total script (delivered closed len contentok)) ...))
     (vnet n max npeers ((peer mode #wiretag wirelen voteid rawlen (delivered closed len contentok #dtag)) ...))
   script = ((k kind) ...), kind 0 data / 1 data, EOF with the last bytes / 2 error. *)
From Coq Require Import NArith ZArith List Bool String.
From Verif.lib Require Import Term.
From Verif.model Require Import Slurper MsgFilter PeerRead.
From Verif.gen Require Import TagLimits.
Import ListNotations.
Open Scope N_scope.

(* ------------------------------------------------------------------ slurper: specification *)
Definition has_err (script : list ev) : bool :=
  existsb (fun e => match e with EvErr _ => true | _ => false end) script.
(* the message exceeds what may be accepted: its tag limit (0 = none) or the connection maximum *)
Definition too_long (limit maxA total : N) : bool :=
  ((0 <? limit) && (limit <? total)) || (maxA <? total).
(* what one message may make the slurper hold: the base buffer, or at most one allocation step
   beyond the per-message limit, and never more than the connection maximum *)
Definition alloc_bound (base' maxA limit : N) : N :=
  if limit =? 0 then maxA else N.min maxA (N.max base' (limit + allocationStep)).

(* observation of one Reset+Read: outcome code (0 ok, 1 too large, 2 reader error, 3 panic,
   4 other/out of fuel), Size(), Bytes() = message prefix, remainedUnallocatedSpace, sum of caps *)
Definition spec_slurp_msg (base maxA limit total : N) (script : list ev)
           (err size : N) (cok : bool) (remained alloc held : N) : bool :=
  let base' := N.min base maxA in
  (alloc + remained =? maxA) && (base' <=? alloc) && (alloc <=? alloc_bound base' maxA limit) &&
  (* bytes of this message read into memory (currentMessageBytesRead): within what is allocated;
     beyond the per-message limit only when the message is being rejected for it *)
  (held <=? alloc) && (if (0 <? limit) && (limit <? held) then err =? 1 else true) &&
  (if err =? 0 then held =? size else true) &&
  (match err with
   | 0 => (size =? total) && cok && negb (too_long limit maxA total)
   | 1 => too_long limit maxA total
   | 2 => has_err script
   | _ => false
   end) &&
  (has_err script || (err =? (if too_long limit maxA total then 1 else 0))).

(* The property text read literally -- "never buffers more than that limit while reading":
   held <= limit.  This is FALSE of the code (props/C43.v: C43_literal_limit_refuted): a whole
   chunk is read into the free buffer space before the limit is checked, and a tag without a
   limit (MaxMessageSize() = 0) is read up to the connection maximum.  A case where only this
   literal bound fails, while the proved slack bound of [spec_slurp_msg] holds, carries the
   signature of a recorded finding. *)
Definition literal_ok (limit held : N) : bool := held <=? limit.
Definition literal_finding (limit : N) : string :=
  if limit =? 0 then "c43_unlimited_tag_buffered" else "c43_buffer_slack".

(* ------------------------------------------------------------------ slurper: model observation *)
Definition outcome_code (o : outcome) : N :=
  match o with ROk => 0 | RTooLarge => 1 | RReaderErr => 2 | RPanic => 3 | ROutOfFuel => 4 end.

(* segments laid end to end from [a]; returns the end *)
Fixpoint chain_end (a : N) (segs : list (N * N)) : option N :=
  match segs with
  | [] => Some a
  | (s, n) :: t => if s =? a then chain_end (a + n) t else None
  end.

Record sobs := mkSobs { so_err : N; so_size : N; so_cok : bool; so_nbuf : N; so_rem : N;
                        so_alloc : N; so_held : N; so_segs : list (N * N) }.

Definition model_slurp_msg (s : slurper) (limit total : N) (script : list ev) : slurper * sobs :=
  let '(o, s', r') := slurp s limit total script in
  let ok := match o with ROk => true | _ => false end in
  (s', mkSobs (outcome_code o) (if ok then size s' else 0)
              (if ok then match chain_end 0 (segments s') with
                          | Some e => (e =? size s') && (e <=? total) | None => false end
               else true)
              (N.of_nat (List.length (ext s'))) (remained s') (allocated s') (bytesRead s')
              (if ok then segments s' else [])).

(* ------------------------------------------------------------------ parsing helpers *)
Definition parse_ev (t : term) : option ev :=
  match t with
  | TL [TZ k; TZ 0] => if (k <? 0)%Z then None else Some (EvData (Z.to_N k) false)
  | TL [TZ k; TZ 1] => if (k <? 0)%Z then None else Some (EvData (Z.to_N k) true)
  | TL [TZ k; TZ 2] => if (k <? 0)%Z then None else Some (EvErr (Z.to_N k))
  | _ => None
  end.
Definition parse_script (t : term) : option (list ev) :=
  match t with TL l => map_opt parse_ev l | _ => None end.

Definition bytes_eqb : list N -> list N -> bool := list_eqb N.eqb.

(* verdict accumulation over the parts of one case: 4 parse error dominates, then 3, then 2 *)
Record acc := mkAcc { a_parse : bool; a_spec : bool; a_corr : bool; a_nontriv : bool;
                      a_known : option string }.
Definition acc0 : acc := mkAcc true true true false None.
Definition acc_and (a : acc) (spec corr nt : bool) (known : option string) : acc :=
  mkAcc (a_parse a) (a_spec a && spec) (a_corr a && corr) (a_nontriv a || nt)
        (match a_known a with Some k => Some k | None => known end).
Definition acc_bad (a : acc) : acc := mkAcc false (a_spec a) (a_corr a) (a_nontriv a) (a_known a).
(* 4 unparsable > 3 property violated > 2 model <> implementation > 5 recorded finding > 1/0 *)
Definition known_verdict (spec corr nontriv : bool) (known : option string) (detail : term) : term :=
  match known with
  | Some name => if spec && corr then v_known name detail else verdict spec corr nontriv detail
  | None => verdict spec corr nontriv detail
  end.
Definition acc_verdict (a : acc) (detail : term) : term :=
  if negb (a_parse a) then v_parse
  else known_verdict (a_spec a) (a_corr a) (a_nontriv a) (a_known a) detail.

(* ------------------------------------------------------------------ slurp cases *)
Definition sobs_term (o : sobs) : term :=
  TL [tn (so_err o); tn (so_size o); tb (so_cok o); tn (so_nbuf o); tn (so_rem o); tn (so_alloc o);
      tn (so_held o)].

Fixpoint slurp_msgs (base maxA : N) (s : slurper) (msgs : list term) (a : acc) (det : list term)
  : acc * list term :=
  match msgs with
  | [] => (a, rev det)
  | TL [TZ limit; TZ total; sc; data;
        TL [TZ err; TZ sz; TZ cok; TZ nbuf; TZ rem; TZ alloc; TZ held; bytes]] :: rest =>
      match parse_script sc, as_bool (TZ cok) with
      | Some script, Some cokb =>
          let limit := Z.to_N limit in let total := Z.to_N total in
          let err := Z.to_N err in let sz := Z.to_N sz in
          let rem := Z.to_N rem in let alloc := Z.to_N alloc in let held := Z.to_N held in
          let '(s', m) := model_slurp_msg s limit total script in
          let spec := spec_slurp_msg base maxA limit total script err sz cokb rem alloc held in
          let known := if literal_ok limit held then None else Some (literal_finding limit) in
          (* byte-exact comparison when the harness included the message bytes *)
          let bytes_spec := match data, bytes with
                            | TB d, TB b => if err =? 0 then bytes_eqb b d else true
                            | _, _ => true end in
          let bytes_corr := match data, bytes with
                            | TB d, TB b => if err =? 0 then bytes_eqb b (bytes_of d (so_segs m)) else true
                            | _, _ => true end in
          let data_ok := match data with TB d => N.of_nat (List.length d) =? total | _ => true end in
          let corr := (so_err m =? err) && (so_size m =? sz) && Bool.eqb (so_cok m) cokb &&
                      (so_nbuf m =? Z.to_N nbuf) && (so_rem m =? rem) && (so_alloc m =? alloc) &&
                      (so_held m =? held) && bytes_corr in
          let a' := if data_ok then acc_and a (spec && bytes_spec) corr (0 <? total) known else acc_bad a in
          slurp_msgs base maxA s' rest a' (sobs_term m :: det)
      | _, _ => (acc_bad a, rev det)
      end
  | _ :: _ => (acc_bad a, rev det)
  end.

(* ------------------------------------------------------------------ filter: specification *)
(* history table: digest id -> number of add-calls seen when it was last inserted/promoted *)
Fixpoint tbl_get (d : N) (t : list (N * N)) : option N :=
  match t with [] => None | (k, v) :: r => if k =? d then Some v else tbl_get d r end.
Fixpoint tbl_set (d v : N) (t : list (N * N)) : list (N * N) :=
  match t with
  | [] => [(d, v)]
  | (k, w) :: r => if k =? d then (k, v) :: r else (k, w) :: tbl_set d v r
  end.

(* retention window in add-calls: (buckets - 1) * bucketSize *)
Definition window (n : N) (maxsz : Z) : Z := ((Z.of_N n - 1) * maxsz)%Z.

(* walk over the calls with the OBSERVED answers:
     no false positive: has -> the digest was added before;
     retention: added/promoted at most window-1 add-calls ago (and bucketSize >= 1) -> has *)
Fixpoint spec_filter_walk (n : N) (maxsz : Z) (ops : list (N * bool * bool)) (has : list bool)
         (adds : N) (t : list (N * N)) : bool :=
  match ops, has with
  | [], [] => true
  | (d, add, promote) :: ops', h :: has' =>
      let e := tbl_get d t in
      let nofp := match e with None => negb h | Some _ => true end in
      let ret := match e with
                 | Some c => if ((1 <=? maxsz) && (Z.of_N (adds - c) <? window n maxsz))%Z then h else true
                 | None => true end in
      let adds' := if add then adds + 1 else adds in
      let t' := if add && (negb h || promote) then tbl_set d adds' t else t in
      nofp && ret && spec_filter_walk n maxsz ops' has' adds' t'
  | _, _ => false
  end.
Definition spec_filter (n : N) (maxsz : Z) (ops : list (N * bool * bool)) (has : list bool) : bool :=
  spec_filter_walk n maxsz ops has 0 [].

(* ------------------------------------------------------------------ filter cases *)
Definition parse_op (t : term) : option (N * bool * bool) :=
  match t with
  | TL [TZ id; a; p] =>
      match as_N (TZ id), as_bool a, as_bool p with
      | Some id, Some a, Some p => Some (id, a, p)
      | _, _, _ => None
      end
  | _ => None
  end.

Definition fkey (id : N) : list N := [id].
Definition subset_ids (a b : list N) : bool := forallb (fun x => existsb (N.eqb x) b) a.
Definition bucket_eq (m : list (list N)) (ids : list N) : bool :=
  let mids := map (fun k => match k with [id] => id | _ => 0 end) m in
  (N.of_nat (List.length mids) =? N.of_nat (List.length ids)) && subset_ids mids ids && subset_ids ids mids.
Fixpoint buckets_eq (ms : list (list (list N))) (os : list term) : bool :=
  match ms, os with
  | [], [] => true
  | m :: ms', o :: os' => match as_N_list o with
                          | Some ids => bucket_eq m ids && buckets_eq ms' os'
                          | None => false end
  | _, _ => false
  end.

Definition filter_case (n : Z) (maxsz : Z) (opst hast : list term) (stt : list term) : term :=
  match map_opt parse_op opst, map_opt as_bool hast, stt with
  | Some ops, Some has, TZ otop :: obuckets =>
      match make_filter (D:=list N) (Z.to_nat n) maxsz with
      | None => v_parse
      | Some f0 =>
          let mops := map (fun o => let '(id, a, p) := o in Op (fkey id) a p) ops in
          let '(f, mhas) := run_ops keqb f0 mops in
          let corr := list_eqb Bool.eqb mhas has && (Z.of_nat (top f) =? otop)%Z &&
                      buckets_eq (buckets f) obuckets in
          let spec := spec_filter (Z.to_N n) maxsz ops has in
          verdict spec corr (existsb (fun h => h) has)
                  (TL [TL (map tb mhas); TZ (Z.of_nat (top f))])
      end
  | _, _, _ => v_parse
  end.

(* ------------------------------------------------------------------ net: specification *)
Definition known_deliverable (t : tag) : bool := in_tags t deliver_tags.

Record nstep := mkNstep { ns_peer : nat; ns_frame : frame;
                          ns_delivered : N; ns_closed : bool; ns_len : N; ns_cok : bool }.

(* history: (key, step index) of the frames that were read completely on an open peer (they
   reached the filter if dedup-safe); closed peers *)
Fixpoint hist_last (k : list N) (h : list (list N * N)) : option N :=
  match h with [] => None | (k', i) :: r => if keqb k k' then Some i else hist_last k r end.

Fixpoint spec_net_walk (n : N) (maxsz : Z) (npeers : nat) (steps : list nstep) (idx : N)
         (hist : list (list N * N)) (closedp : list nat) : bool :=
  match steps with
  | [] => true
  | st :: rest =>
      let fr := ns_frame st in
      let tg := ftag fr in
      let limit := tag_limit tg in
      let gone := (npeers <=? ns_peer st)%nat || existsb (Nat.eqb (ns_peer st)) closedp in
      let key := key_of tg (fid fr) (ftotal fr) in
      let dd := dedup_safe tg && (0 <? ftotal fr) in
      let ok_here :=
        if gone then (ns_delivered st =? 0) && ns_closed st
        else if ns_closed st then
          (* the connection is torn down only for an over-long message or a reader error *)
          (ns_delivered st =? 0) && (too_long limit maxMessageLength (ftotal fr) || has_err (fscript fr))
        else
          negb (too_long limit maxMessageLength (ftotal fr)) &&
          match ns_delivered st with
          | 0 =>
              (* dropped: unknown / internal tag, or a duplicate of something seen before *)
              negb (known_deliverable tg) ||
              (dd && match hist_last key hist with Some _ => true | None => false end)
          | 1 =>
              (* delivered: known tag, within its limit, exactly the bytes sent, and not a
                 duplicate within the retention window *)
              known_deliverable tg && (0 <? limit) && (ns_len st <=? limit) &&
              (ns_len st =? ftotal fr) && ns_cok st &&
              (if dd then match hist_last key hist with
                          | Some i => negb ((1 <=? maxsz) && (Z.of_N (idx - i - 1) <? window n maxsz))%Z
                          | None => true end
               else true)
          | _ => false
          end in
      let hist' := if negb gone && negb (ns_closed st) then (key, idx) :: hist else hist in
      let closedp' := if ns_closed st then ns_peer st :: closedp else closedp in
      ok_here && spec_net_walk n maxsz npeers rest (idx + 1) hist' closedp'
  end.
Definition spec_net (n : N) (maxsz : Z) (npeers : nat) (steps : list nstep) : bool :=
  spec_net_walk n maxsz npeers steps 0 [] [].

(* signature of the recorded finding at this level: a non-empty frame of a tag without a limit
   was read completely (connection kept) and dropped -- it was buffered although its limit is 0 *)
Definition net_unlimited_buffered (steps : list nstep) : bool :=
  existsb (fun st => (tag_limit (ftag (ns_frame st)) =? 0) && (0 <? ftotal (ns_frame st)) &&
                     negb (ns_closed st) && (ns_delivered st =? 0)) steps.

(* ------------------------------------------------------------------ net cases *)
Definition parse_nstep (t : term) : option nstep :=
  match t with
  | TL [TZ p; TB tg; TZ id; TZ total; sc; TL [TZ del; cl; TZ len; cok]] =>
      match parse_script sc, as_bool cl, as_bool cok with
      | Some script, Some cl, Some cok =>
          if ((p <? 0) || (id <? 0) || (total <? 0) || (del <? 0) || (len <? 0))%Z then None
          else Some (mkNstep (Z.to_nat p) (mkFrame tg (Z.to_N id) (Z.to_N total) script)
                             (Z.to_N del) cl (Z.to_N len) cok)
      | _, _, _ => None
      end
  | _ => None
  end.

Definition pres_obs (r : pres) (total : N) : N * bool * N :=
  match r with
  | PDelivered len => (1, false, len)
  | PDropped => (0, false, 0)
  | PClosed _ => (0, true, 0)
  | PGone => (0, true, 0)
  end.

(* A vote sent in the encoding its connection negotiated (mode 0: AV raw, 1: AV stateless-
   compressed, 2: VP statefully compressed).  What readLoop hands on -- and what the filter must
   be keyed by -- is the DELIVERED message: tag AV and the raw vote bytes, whatever the wire
   encoding was.  The step is therefore judged (model and specification) as the frame
   (AV, vote id, raw length): the same vote over differently encoded connections is the same
   message.  The observation must show tag AV and the raw vote bytes ([contentok], #dtag). *)
Definition parse_vstep (t : term) : option nstep :=
  match t with
  | TL [TZ p; TZ mode; TB wtag; TZ wlen; TZ id; TZ rawlen; TL [TZ del; cl; TZ len; cok; TB dtag]] =>
      match as_bool cl, as_bool cok with
      | Some cl, Some cok =>
          if ((p <? 0) || (id <? 0) || (rawlen <? 0) || (del <? 0) || (len <? 0) || (wlen <? 0) ||
              (mode <? 0) || (2 <? mode))%Z then None
          else if negb (tag_eqb wtag (if (mode =? 2)%Z then tVP else tAV)) then None
          else if tag_limit wtag <? Z.to_N wlen then None
          else Some (mkNstep (Z.to_nat p) (mkFrame tAV (Z.to_N id) (Z.to_N rawlen) [])
                             (Z.to_N del) cl (Z.to_N len)
                             (cok && (if (del =? 0)%Z then true else tag_eqb dtag tAV)))
      | _, _ => None
      end
  | _ => None
  end.

Definition net_case (parse : term -> option nstep) (n maxsz npeers : Z) (stepst : list term) : term :=
  match map_opt parse stepst, make_filter (D:=list N) (Z.to_nat n) maxsz with
  | Some steps, Some f0 =>
      let sched := map (fun s => (ns_peer s, ns_frame s)) steps in
      let mres := net_run (repeat new_peer (Z.to_nat npeers)) f0 sched in
      let same := fix same (ms : list pres) (ss : list nstep) : bool :=
        match ms, ss with
        | [], [] => true
        | m :: ms', s :: ss' =>
            let '(d, c, l) := pres_obs m (ftotal (ns_frame s)) in
            (d =? ns_delivered s) && Bool.eqb c (ns_closed s) && (l =? ns_len s) && same ms' ss'
        | _, _ => false
        end in
      known_verdict (spec_net (Z.to_N n) maxsz (Z.to_nat npeers) steps) (same mres steps)
              (existsb (fun s => ns_delivered s =? 1) steps)
              (if net_unlimited_buffered steps then Some "c43_unlimited_tag_buffered"%string else None)
              (TL (map (fun m => let '(d, c, l) := pres_obs m 0 in TL [tn d; tb c; tn l]) mres))
  | _, _ => v_parse
  end.

(* ------------------------------------------------------------------ entry point *)
Definition check (t : term) : term :=
  match t with
  | TL [TS "consts"; TZ step; TZ avg; TZ mx; TZ fb; TZ fs] =>
      let ok := (Z.to_N step =? allocationStep) && (Z.to_N step =? allocationStep_code) &&
                (Z.to_N avg =? averageMessageLength) && (Z.to_N mx =? maxMessageLength) &&
                (Z.to_N fb =? incomingFilterBucketCount) && (Z.to_N fs =? incomingFilterBucketSize) in
      verdict true ok false (TL [tn allocationStep; tn averageMessageLength; tn maxMessageLength])
  | TL [TS "tag"; TB tg; TZ limit; dd] =>
      match as_bool dd with
      | Some dd =>
          verdict ((Z.to_N limit <=? maxMessageLength) &&
                   (if dd then 0 <? Z.to_N limit else true))
                  ((tag_limit tg =? Z.to_N limit) && Bool.eqb (dedup_safe tg) dd &&
                   Bool.eqb (in_tags tg dedup_safe_tags) dd)
                  (0 <? Z.to_N limit) (TL [tn (tag_limit tg); tb (dedup_safe tg)])
      | None => v_parse
      end
  | TL [TS "slurp"; TZ base; TZ maxA; TL msgs] =>
      if ((base <? 0) || (maxA <? 0))%Z then v_parse else
      let base := Z.to_N base in let maxA := Z.to_N maxA in
      let '(a, det) := slurp_msgs base maxA (make_slurper base maxA) msgs acc0 [] in
      acc_verdict a (TL det)
  | TL [TS "filter"; TZ n; TZ maxsz; TL ops; TL has; TL st] =>
      if (n <? 1)%Z then v_parse else filter_case n maxsz ops has st
  | TL [TS "net"; TZ n; TZ maxsz; TZ npeers; TL steps] =>
      if ((n <? 1) || (npeers <? 0))%Z then v_parse else net_case parse_nstep n maxsz npeers steps
  | TL [TS "vnet"; TZ n; TZ maxsz; TZ npeers; TL steps] =>
      if ((n <? 1) || (npeers <? 0))%Z then v_parse else net_case parse_vstep n maxsz npeers steps
  | _ => v_parse
  end.
