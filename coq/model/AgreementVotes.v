(* Agreement model -- part 2: the vote machines below the voteAggregator.
   Transcribes agreement/types.go (reachesQuorum), voteTracker.go (+ voteTrackerContract.go),
   bundle.go:makeBundle, voteAuxiliary.go (voteTrackerPeriod, voteTrackerRound),
   events.go:fresherThan, voteAggregator.go freshness filters, and the period/round router
   levels of router.go as far as the vote machines use them.  No proofs. *)
From Coq Require Import NArith List Bool String.
Import ListNotations.
From Verif.model Require Import AgreementTypes.
Open Scope N_scope.

(* ---------- types.go: step.threshold / reachesQuorum ---------- *)
Definition step_threshold (pm : params) (s : N) : option N :=
  if s =? s_propose then None
  else if s =? s_soft then Some (pm_soft pm)
  else if s =? s_cert then Some (pm_cert pm)
  else if s =? s_late then Some (pm_late pm)
  else if s =? s_redo then Some (pm_redo pm)
  else if s =? s_down then Some (pm_down pm)
  else Some (pm_next pm).
Definition reaches (pm : params) (s : N) (weight : N) : bool :=
  match step_threshold pm s with None => false | Some t => t <=? weight end.

(* ---------- voteTracker ---------- *)
Definition counter_of (t : vtracker) (v : value) : counter :=
  match aget value_eqb v (vt_counts t) with Some c => c | None => mkCounter 0 [] end.
Definition vt_count (t : vtracker) (v : value) : N := w64 (c_count (counter_of t v) + vt_eqcount t).

Inductive over := OvPanic | OvNone | OvSome (v : value).
Definition over_list (pm : params) (s : N) (t : vtracker) : list value :=
  map fst (filter (fun e => reaches pm s (w64 (c_count (snd e) + vt_eqcount t))) (vt_counts t)).
Definition over_threshold (pm : params) (s : N) (t : vtracker) : over :=
  match over_list pm s t with
  | [] => OvNone
  | [v] => OvSome v
  | _ => OvPanic
  end.

(* sort.SliceStable less: heavier first, ties by larger sender (bytes.Compare on addresses;
   the harness makes address order = index order) *)
Definition before (wa sa wb sb : N) : bool := (wb <? wa) || ((wa =? wb) && (sb <? sa)).
Definition vote_before (a b : vote) : bool := before (vt_w a) (vt_snd a) (vt_w b) (vt_snd b).
Definition eqv_before (a b : eqvote) : bool := before (eq_w a) (eq_snd a) (eq_w b) (eq_snd b).
Fixpoint insert_by {A} (less : A -> A -> bool) (x : A) (l : list A) : list A :=
  match l with
  | [] => [x]
  | y :: t => if less y x then y :: insert_by less x t else x :: y :: t
  end.
Fixpoint sort_by {A} (less : A -> A -> bool) (l : list A) : list A :=
  match l with
  | [] => []
  | x :: t => insert_by less x (sort_by less t)
  end.

(* for cutoff = 0; !reachesQuorum(weight) && cutoff < len(ws); cutoff++ { weight += ws[cutoff] } *)
Fixpoint pack (pm : params) (s : N) (ws : list N) (weight : N) : nat * N :=
  match ws with
  | [] => (O, weight)
  | w :: ws' =>
      if reaches pm s weight then (O, weight)
      else let '(n, wt) := pack pm s ws' (w64 (weight + w)) in (S n, wt)
  end.

(* bundle.go: makeBundle *)
Definition make_bundle (pm : params) (target : value) (votes : list vote) (eqs : list eqvote)
  : res ubundle :=
  match votes with
  | [] => Panic "makeBundle_novotes"
  | v0 :: _ =>
      if negb (forallb (fun v => value_eqb (vt_val v) target) votes) then Panic "makeBundle_badvote"
      else
        let s := vt_step v0 in
        let '(n1, packed1) := pack pm s (map vt_w votes) 0 in
        let '(n2, packed2) := pack pm s (map eq_w eqs) packed1 in
        if negb (reaches pm s packed2) then Panic "makeBundle_notenough"
        else Ok (mkUB (vt_rnd v0) (vt_per v0) (vt_step v0) target (firstn n1 votes) (firstn n2 eqs))
  end.

(* voteTracker.genBundle *)
Definition gen_bundle (pm : params) (t : vtracker) (c : counter) : res ubundle :=
  let votes := sort_by vote_before (map snd (c_votes c)) in
  match votes with
  | [] => Panic "genBundle_index"                       (* votes[0] of an empty slice *)
  | v0 :: _ =>
      let s := vt_step v0 in
      let '(cut, weight) := pack pm s (map vt_w votes) 0 in
      let votes' := firstn cut votes in
      let eqs := sort_by eqv_before (map snd (vt_equiv t)) in
      match votes' with
      | [] => Panic "genBundle_index"                   (* votes[0] after votes = votes[:0] *)
      | v0' :: _ =>
          let '(cut2, _) := pack pm (vt_step v0') (map eq_w eqs) weight in
          make_bundle pm (vt_val v0') votes' (firstn cut2 eqs)
      end
  end.

Definition tkind_of_step (s : N) : tkind :=
  if s =? s_soft then TSoft else if s =? s_cert then TCert else TNext.

Definition vt_finish (pm : params) (x : vote) (overBefore : bool) (t' : vtracker)
  : res (vtracker * option thresh) :=
  match over_threshold pm (vt_step x) t' with
  | OvPanic => Panic "voteTracker_two_values"
  | OvNone => Ok (t', None)
  | OvSome prop =>
      if overBefore then Ok (t', None)
      else
        do b <- gen_bundle pm t' (counter_of t' prop);
        Ok (t', Some (mkTh (tkind_of_step (vt_step x)) (vt_rnd x) (vt_per x) (vt_step x) prop b))
  end.

(* voteTracker.handle, case voteAccepted *)
Definition vt_accept (pm : params) (t : vtracker) (x : vote) : res (vtracker * option thresh) :=
  let s := vt_snd x in
  match aget N.eqb s (vt_equiv t) with
  | Some _ => Ok (t, None)
  | None =>
    match over_threshold pm (vt_step x) t with
    | OvPanic => Panic "voteTracker_two_values"
    | ob =>
      let overBefore := match ob with OvSome _ => true | _ => false end in
      match aget N.eqb s (vt_voters t) with
      | None =>
          let c := counter_of t (vt_val x) in
          let c' := mkCounter (w64 (c_count c + vt_w x)) (aset N.eqb s x (c_votes c)) in
          vt_finish pm x overBefore
            (mkVT (aset N.eqb s x (vt_voters t)) (aset value_eqb (vt_val x) c' (vt_counts t))
                  (vt_equiv t) (vt_eqcount t) (vc_step t) (vc_stepok t) (vc_emitted t))
      | Some old =>
          if value_eqb (vt_val old) (vt_val x) then Ok (t, None)
          else
            let ec := w64 (vt_eqcount t + vt_w x) in
            if reaches pm (vt_step x) ec then Panic "voteTracker_too_many_equivocators"
            else
              let oc := counter_of t (vt_val old) in
              let counts' :=
                if c_count oc <=? vt_w old then adel value_eqb (vt_val old) (vt_counts t)
                else aset value_eqb (vt_val old)
                       (mkCounter (c_count oc - vt_w old) (adel N.eqb s (c_votes oc))) (vt_counts t) in
              let ev := mkEqv (vt_snd old) (vt_rnd old) (vt_per old) (vt_step old) (vt_w old)
                              (vt_cred old) (vt_val old) (vt_val x) in
              let t' := mkVT (adel N.eqb s (vt_voters t)) counts'
                             (aset N.eqb s ev (vt_equiv t)) ec
                             (vc_step t) (vc_stepok t) (vc_emitted t) in
              match vt_voters t' with
              | [] => Ok (t', None)
              | _ => vt_finish pm x overBefore t'
              end
      end
    end
  end.

(* checkedListener{voteTracker, voteTrackerContract}.handle for voteAccepted *)
Definition vt_checked_accept (pm : params) (t : vtracker) (x : vote)
  : res (vtracker * option thresh) :=
  if vt_step x =? s_propose then Panic "voteTracker_pre_propose"
  else
    let t1 := if vc_stepok t then t
              else mkVT (vt_voters t) (vt_counts t) (vt_equiv t) (vt_eqcount t) (vt_step x) true (vc_emitted t) in
    if vc_stepok t && negb (vc_step t =? vt_step x) then Panic "voteTracker_pre_step"
    else
      do r <- vt_accept pm t1 x;
      let '(t2, oth) := r in
      match oth with
      | None => Ok (t2, None)
      | Some th =>
          (* post: type vs step always agree by construction; emitted twice; bottom rules *)
          if vc_emitted t2 then Panic "voteTracker_post_emitted_twice"
          else
            let t3 := mkVT (vt_voters t2) (vt_counts t2) (vt_equiv t2) (vt_eqcount t2)
                           (vc_step t2) (vc_stepok t2) true in
            if (match th_t th with TNext => false | _ => true end) && is_bottom (th_val th)
            then Panic "voteTracker_post_bottom"
            else if match ub_votes (th_b th) with [] => true | _ => false end
            then Panic "voteTracker_post_empty_bundle"
            else if is_bottom (th_val th) && (th_step th <? s_next)
            then Panic "voteTracker_post_bottom"
            else Ok (t3, Some th)
      end.

(* voteFilterRequest: true = voteFilteredStep *)
Definition vt_filter (t : vtracker) (x : vote) : bool :=
  match aget N.eqb (vt_snd x) (vt_equiv t) with
  | Some _ => true
  | None =>
      match aget N.eqb (vt_snd x) (vt_voters t) with
      | Some v => value_eqb (vt_val x) (vt_val v)
      | None => false
      end
  end.

(* dumpVotesRequest (Go map order is random: compared as a multiset) *)
Definition vt_dump (t : vtracker) : list vote :=
  map snd (vt_voters t) ++ flat_map (fun e => [eqv_first (snd e); eqv_second (snd e)]) (vt_equiv t).

(* ---------- periodRouter level ---------- *)
Definition pn_update (s : N) (pn : periodNode) : periodNode :=
  if ahas N.eqb s (pn_steps pn) then pn
  else mkPN (pn_pt pn) (pn_vp pn) (aset N.eqb s vt_zero (pn_steps pn)).
Definition pn_set_step (s : N) (t : vtracker) (pn : periodNode) : periodNode :=
  mkPN (pn_pt pn) (pn_vp pn) (aset N.eqb s t (pn_steps pn)).
Definition pn_step (s : N) (pn : periodNode) : vtracker := ngetd vt_zero s (pn_steps pn).

(* voteTrackerPeriod.handle(nextThreshold) *)
Definition vp_cache (th : thresh) (c : vperiod) : vperiod :=
  if is_bottom (th_val th) then mkVP true (vp_val c) else mkVP (vp_bottom c) (th_val th).

(* voteTrackerPeriod.handle(voteAccepted); called after periodRouter.update(0) *)
Definition pn_vote_accepted (pm : params) (pn : periodNode) (x : vote)
  : res (periodNode * option thresh) :=
  let pn1 := pn_update (vt_step x) pn in
  do r <- vt_checked_accept pm (pn_step (vt_step x) pn1) x;
  let '(t', oth) := r in
  let pn2 := pn_set_step (vt_step x) t' pn1 in
  match oth with
  | Some th =>
      if s_next <=? th_step th
      then let pn3 := pn_update 0 pn2 in
           Ok (mkPN (pn_pt pn3) (vp_cache th (pn_vp pn3)) (pn_steps pn3), oth)
      else Ok (pn2, oth)
  | None => Ok (pn2, None)
  end.

(* ---------- roundRouter level ---------- *)
(* roundRouter.update(state, p, gc=true) *)
Definition rn_update (pl : player) (p : N) (rn : roundNode) : roundNode :=
  let ps := if ahas N.eqb p (rn_periods rn) then rn_periods rn
            else aset N.eqb p pn_zero (rn_periods rn) in
  mkRN (rn_store rn) (rn_fresh rn)
       (filter (fun kv => (p_per pl <=? add1 (fst kv)) || (fst kv <=? 1)) ps).
Definition rn_set_period (p : N) (pn : periodNode) (rn : roundNode) : roundNode :=
  mkRN (rn_store rn) (rn_fresh rn) (aset N.eqb p pn (rn_periods rn)).

(* run f on the period node p as roundRouter.dispatch does for a destination below the
   round level: update(state,p); Children[p] (nil => runtime panic); periodRouter.update(s) *)
Definition with_period {A} (pl : player) (p s : N) (rn : roundNode)
           (f : periodNode -> res (periodNode * A)) : res (roundNode * A) :=
  let rn1 := rn_update pl p rn in
  match aget N.eqb p (rn_periods rn1) with
  | None => Panic "nil_router"
  | Some pn =>
      do r <- f (pn_update s pn);
      let '(pn', a) := r in Ok (rn_set_period p pn' rn1, a)
  end.

(* events.go: thresholdEvent.fresherThan (o = None is T == none) *)
Definition fresher_than (e : thresh) (o : option thresh) : res bool :=
  match o with
  | None => Ok true
  | Some o =>
      if negb (th_rnd e =? th_rnd o) then Panic "fresherThan_round_mismatch"
      else
        match th_t o with
        | TCert => Ok false
        | _ =>
          match th_t e with
          | TSoft => Ok (th_per o <? th_per e)
          | TCert => Ok true
          | TNext =>
              if th_per o <? th_per e then Ok true
              else if th_per e <? th_per o then Ok false
              else match th_t o with
                   | TSoft => Ok true
                   | _ => Ok (is_bottom (th_val e) && negb (is_bottom (th_val o)))
                   end
          end
        end
  end.

(* voteTrackerRound.handle(voteAccepted); called after roundRouter.update(state, period) *)
Definition rn_vote_accepted (pm : params) (pl : player) (rn : roundNode) (x : vote)
  : res (roundNode * option thresh) :=
  do r <- with_period pl (vt_per x) 0 rn (fun pn => pn_vote_accepted pm pn x);
  let '(rn2, oth) := r in
  match oth with
  | None => Ok (rn2, None)
  | Some th =>
      (* dispatch to self: roundRouter.dispatch(.., voteMachineRound, round, 0, 0) *)
      let rn3 := rn_update pl 0 rn2 in
      do f <- fresher_than th (rn_fresh rn3);
      if f then Ok (mkRN (rn_store rn3) (Some th) (rn_periods rn3), Some th)
      else Ok (rn3, None)
  end.

(* ---------- voteAggregator.go: freshness ---------- *)
(* voteStepFresh: true = fresh *)
Definition vote_step_fresh (mine v : N) : bool :=
  if v <=? s_next then true
  else if s_late <=? v then true
  else if negb (mine =? 0) && (v <? mine - 1) then false
  else if w64 (mine + 1) <? v then false
  else true.

(* freshnessData *)
Record fresh := mkFresh { f_rnd : N; f_per : N; f_step : N; f_last : N }.
Definition fresh_of (pl : player) : fresh := mkFresh (p_rnd pl) (p_per pl) (p_step pl) (p_last pl).

Definition vote_fresh (fd : fresh) (x : vote) : bool :=
  if negb (f_rnd fd =? vt_rnd x) && negb (add1 (f_rnd fd) =? vt_rnd x) then false
  else if add1 (f_rnd fd) =? vt_rnd x then
    if 0 <? vt_per x then false else vote_step_fresh 0 (vt_step x)
  else
    (* switch vote.R.Period { case P-1: if P != 0 ..; case P: ..; case P+1: .. } (first match) *)
    if vt_per x =? sub1 (f_per fd) then
      if negb (f_per fd =? 0) then vote_step_fresh (f_last fd) (vt_step x) else false
    else if vt_per x =? f_per fd then vote_step_fresh (f_step fd) (vt_step x)
    else if vt_per x =? add1 (f_per fd) then vote_step_fresh s_soft (vt_step x)
    else false.

Definition bundle_fresh (fd : fresh) (b : ubundle) : bool :=
  if negb (f_rnd fd =? ub_rnd b) then false
  else if ub_step b =? s_cert then true
  else if negb (f_per fd =? 0) && (ub_per b <? f_per fd - 1) then false
  else true.
