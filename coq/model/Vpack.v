(* C42 — executable model of /repo/network/vpack (vote compression).  No proofs here.

   Transcribed from
     msgp.go            msgpVaruintRemaining, msgpVoteParser.read*            -> read_* below
     parse.go           parseMsgpVote                                          -> parse_vote
     vpack.go           StatelessEncoder.CompressVote / StatelessDecoder       -> compress_vote / decompress_vote
     lru_table.go       lruTable lookup / insert / fetch (2-slot buckets, MRU) -> lru_*
     proposal_window.go propWindow lookup / byRef / insertNew (ring of 7)      -> win_*
     dynamic_vpack.go   StatefulEncoder.Compress / StatefulDecoder.Decompress  -> compress / decompress

   Conventions: a byte string is [list N]; a reader position is the remaining suffix of the
   input ("r.pos + n > len(src)" is "n > length rest"); every Go error return is [None];
   Go panics do not exist in the model (slices are only taken after the length test, exactly
   as in the Go code).  uint64/uint16 wrap-around is explicit ([mod 2^64], [mod 65536]).

   Two Boolean switches select the code as it was before the C42 fix:
     [strict = false]  parseMsgpVote without the "map keys strictly ascending" test
     [canon  = false]  StatefulEncoder.Compress without the "rnd is canonically encoded" test
   [true]/[true] is the code of /verif/fixes/C42.patch.  *)
From Coq Require Import NArith List Bool String Ascii.
From Verif.lib Require Import Term.
Import ListNotations.
Open Scope N_scope.

Definition bytes := list N.

Definition bind {A B : Type} (o : option A) (f : A -> option B) : option B :=
  match o with Some a => f a | None => None end.
Notation "x <- c1 ;; c2" := (bind c1 (fun x => c2))
  (at level 61, c1 at next level, right associativity).
Notation "' pat <- c1 ;; c2" := (bind c1 (fun x => match x with pat => c2 end))
  (at level 61, pat pattern, c1 at next level, right associativity).

Definition bytes_eqb (a b : bytes) : bool := list_eqb N.eqb a b.

(* bytes.Compare(a, b) < 0 *)
Fixpoint bytes_ltb (a b : bytes) : bool :=
  match a, b with
  | [], [] => false
  | [], _ :: _ => true
  | _ :: _, [] => false
  | x :: a', y :: b' => if x <? y then true else if y <? x then false else bytes_ltb a' b'
  end.

Fixpoint str (s : string) : bytes :=
  match s with EmptyString => [] | String c r => N_of_ascii c :: str r end.

Definition is_nil (b : bytes) : bool := match b with [] => true | _ => false end.

(* ------------------------------------------------------------------ readers ---- *)

(* "if pos+n > len(data) error; data[pos:pos+n]; pos += n" *)
Definition take_n (n : nat) (l : bytes) : option (bytes * bytes) :=
  if Nat.leb n (List.length l) then Some (firstn n l, skipn n l) else None.

(* msgp.go: msgpVaruintRemaining *)
Definition varuint_more (b : N) : option nat :=
  if b =? 204 then Some 1%nat
  else if b =? 205 then Some 2%nat
  else if b =? 206 then Some 4%nat
  else if b =? 207 then Some 8%nat
  else if N.shiftr b 7 =? 0 then Some 0%nat        (* isMsgpFixint *)
  else None.

(* msgpVoteParser.readUintBytes = statefulReader.readVaruintBytes = the reading half of
   StatelessDecoder.varuint: marker byte, then the marker's number of value bytes *)
Definition read_varuint_bytes (l : bytes) : option (bytes * bytes) :=
  match l with
  | [] => None
  | b :: _ => k <- varuint_more b ;; take_n (S k) l
  end.

Fixpoint be_val (acc : N) (l : bytes) : N :=
  match l with [] => acc | b :: r => be_val (acc * 256 + b) r end.

(* statefulReader.readVaruint: value by length of the (already validated) encoding *)
Definition varuint_value (data : bytes) : option N :=
  match data with
  | [b] => Some b
  | _ :: r => match List.length r with
              | 1%nat | 2%nat | 4%nat | 8%nat => Some (be_val 0 r)
              | _ => None
              end
  | [] => None
  end.

(* number of bytes msgp.AppendUint64 produces (helper added by the fix) *)
Definition varuint_size (u : N) : nat :=
  if u <=? 127 then 1 else if u <=? 255 then 2 else if u <=? 65535 then 3
  else if u <=? 4294967295 then 5 else 9.

Fixpoint be_bytes (k : nat) (v : N) : bytes :=
  match k with O => [] | S k' => be_bytes k' (v / 256) ++ [v mod 256] end.

(* msgp.AppendUint64 (github.com/algorand/msgp/msgp/write_bytes.go) *)
Definition append_uint64 (u : N) : bytes :=
  if u <=? 127 then [u]
  else if u <=? 255 then 204 :: be_bytes 1 u
  else if u <=? 65535 then 205 :: be_bytes 2 u
  else if u <=? 4294967295 then 206 :: be_bytes 4 u
  else 207 :: be_bytes 8 u.

Definition read_fixmap (l : bytes) : option (N * bytes) :=
  match l with
  | [] => None
  | b :: r => if (b <? 128) || (143 <? b) then None else Some (b - 128, r)     (* b & 0x0f *)
  end.

Definition read_string (l : bytes) : option (bytes * bytes) :=
  match l with
  | [] => None
  | b :: r => if (b <? 160) || (191 <? b) then None else take_n (N.to_nat (b - 160)) r   (* b & 0x1f *)
  end.

(* "if s, rErr := p.readString(); rErr != nil || string(s) != k" *)
Definition expect_key (k : bytes) (l : bytes) : option bytes :=
  '(s, r) <- read_string l ;; if bytes_eqb s k then Some r else None.

(* readBin80 / readBin32 / readBin64 *)
Definition read_bin (sz : N) (l : bytes) : option (bytes * bytes) :=
  '(d, r) <- take_n (N.to_nat sz + 2) l ;;
  match d with
  | m :: s :: v => if (m =? 196) && (s =? sz) then Some (v, r) else None
  | _ => None
  end.

(* ------------------------------------------------- stateless layer: the parser ---- *)

(* what parseMsgpVote accumulates in the StatelessEncoder *)
Record acc := { a_mask : N; a_req : N; a_out : bytes }.

(* writeVaruint / writeBin32 / ...: updateMask then writeBytes.  [mbit] = the header bit of an
   optional field (bitPer = 2^0, bitDig = 2^1, bitEncDig = 2^2, bitOper = 2^3, bitOprop = 2^4,
   bitStep = 2^5) or None for a required field (requiredFields++) *)
Definition wr (a : acc) (mbit : option N) (b : bytes) : acc :=
  match mbit with
  | Some i => {| a_mask := N.lor (a_mask a) (2 ^ i); a_req := a_req a; a_out := a_out a ++ b |}
  | None => {| a_mask := a_mask a; a_req := a_req a + 1; a_out := a_out a ++ b |}
  end.

(* the C42 fix: "if i > 0 && bytes.Compare(key, prevKey) <= 0 { error }" *)
Definition order_ok (strict : bool) (prev : option bytes) (key : bytes) : bool :=
  negb strict || match prev with None => true | Some p => bytes_ltb p key end.

Definition K_cred := str "cred".   Definition K_pf := str "pf".     Definition K_r := str "r".
Definition K_per := str "per".     Definition K_prop := str "prop". Definition K_rnd := str "rnd".
Definition K_snd := str "snd".     Definition K_step := str "step". Definition K_sig := str "sig".
Definition K_dig := str "dig".     Definition K_encdig := str "encdig".
Definition K_oper := str "oper".   Definition K_oprop := str "oprop".
Definition K_p := str "p".         Definition K_p1s := str "p1s".   Definition K_p2 := str "p2".
Definition K_p2s := str "p2s".     Definition K_ps := str "ps".     Definition K_s := str "s".

(* both map loops of parseMsgpVote have this shape: read a key, (fix: order test), switch *)
Fixpoint kv_loop (dispatch : bytes -> bytes -> acc -> option (bytes * acc))
         (strict : bool) (n : nat) (prev : option bytes) (l : bytes) (a : acc) : option (bytes * acc) :=
  match n with
  | O => Some (l, a)
  | S n' =>
      '(key, l1) <- read_string l ;;
      if negb (order_ok strict prev key) then None else
      '(l2, a2) <- dispatch key l1 a ;;
      kv_loop dispatch strict n' (Some key) l2 a2
  end.

(* switch string(propKey) *)
Definition dispatch_p (key : bytes) (l : bytes) (a : acc) : option (bytes * acc) :=
  if bytes_eqb key K_dig then '(v, l) <- read_bin 32 l ;; Some (l, wr a (Some 1) v)
  else if bytes_eqb key K_encdig then '(v, l) <- read_bin 32 l ;; Some (l, wr a (Some 2) v)
  else if bytes_eqb key K_oper then '(v, l) <- read_varuint_bytes l ;; Some (l, wr a (Some 3) v)
  else if bytes_eqb key K_oprop then '(v, l) <- read_bin 32 l ;; Some (l, wr a (Some 4) v)
  else None.

(* switch string(voteKey) *)
Definition dispatch_r (strict : bool) (key : bytes) (l : bytes) (a : acc) : option (bytes * acc) :=
  if bytes_eqb key K_per then '(v, l) <- read_varuint_bytes l ;; Some (l, wr a (Some 0) v)
  else if bytes_eqb key K_prop then
    '(cnt, l) <- read_fixmap l ;;
    if (cnt <? 1) || (4 <? cnt) then None else
    kv_loop dispatch_p strict (N.to_nat cnt) None l a
  else if bytes_eqb key K_rnd then '(v, l) <- read_varuint_bytes l ;; Some (l, wr a None v)
  else if bytes_eqb key K_snd then '(v, l) <- read_bin 32 l ;; Some (l, wr a None v)
  else if bytes_eqb key K_step then '(v, l) <- read_varuint_bytes l ;; Some (l, wr a (Some 5) v)
  else None.

Definition zeros (n : nat) : bytes := repeat 0 n.

Definition parse_vote (strict : bool) (m : bytes) : option acc :=
  '(cnt, l) <- read_fixmap m ;;
  if negb (cnt =? 3) then None else
  l <- expect_key K_cred l ;;
  '(cnt, l) <- read_fixmap l ;;
  if negb (cnt =? 1) then None else
  l <- expect_key K_pf l ;;
  '(pf, l) <- read_bin 80 l ;;
  let a := wr {| a_mask := 0; a_req := 0; a_out := [] |} None pf in
  l <- expect_key K_r l ;;
  '(cnt, l) <- read_fixmap l ;;
  if (cnt <? 1) || (5 <? cnt) then None else
  '(l, a) <- kv_loop (dispatch_r strict) strict (N.to_nat cnt) None l a ;;
  l <- expect_key K_sig l ;;
  '(cnt, l) <- read_fixmap l ;;
  if negb (cnt =? 6) then None else
  l <- expect_key K_p l ;;   '(v, l) <- read_bin 32 l ;; let a := wr a None v in
  l <- expect_key K_p1s l ;; '(v, l) <- read_bin 64 l ;; let a := wr a None v in
  l <- expect_key K_p2 l ;;  '(v, l) <- read_bin 32 l ;; let a := wr a None v in
  l <- expect_key K_p2s l ;; '(v, l) <- read_bin 64 l ;; let a := wr a None v in
  l <- expect_key K_ps l ;;  '(v, l) <- read_bin 64 l ;;
  if negb (bytes_eqb v (zeros 64)) then None else
  l <- expect_key K_s l ;;   '(v, l) <- read_bin 64 l ;; let a := wr a None v in
  if negb (is_nil l) then None else Some a.

Definition max_compressed_vote_size : nat := 502.   (* MaxCompressedVoteSize *)

(* StatelessEncoder.CompressVote with dst = nil (fresh zeroed buffer: header byte 1 is 0) *)
Definition compress_vote (strict : bool) (m : bytes) : option bytes :=
  a <- parse_vote strict m ;;
  if Nat.ltb max_compressed_vote_size (2 + List.length (a_out a)) then None      (* ErrBufferTooSmall *)
  else if negb (a_req a =? 8) then None                                       (* missing required fields *)
  else Some (a_mask a :: 0 :: a_out a).

(* ------------------------------------------------ stateless layer: the decoder ---- *)

Definition bit (m i : N) : bool := N.testbit m i.        (* (mask & (1<<i)) != 0 *)
Definition b2n (b : bool) : N := if b then 1 else 0.

Definition fx (s : string) : bytes := (160 + N.of_nat (String.length s)) :: str s.   (* "\xa3per" ... *)

Definition raw_vote_map_size (mask : N) : N :=
  2 + b2n (bit mask 0) + b2n (bit mask 5) + (if N.land mask 30 =? 0 then 0 else 1).
Definition proposal_value_map_size (mask : N) : N :=
  b2n (bit mask 1) + b2n (bit mask 2) + b2n (bit mask 3) + b2n (bit mask 4).

(* d.bin32/64/80: key, bin8 marker with length, payload *)
Definition d_bin (present : bool) (key : bytes) (n : nat) (l : bytes) : option (bytes * bytes) :=
  if present then '(d, l) <- take_n n l ;; Some (key ++ [196; N.of_nat n] ++ d, l) else Some ([], l).
(* d.varuint *)
Definition d_varuint (present : bool) (key : bytes) (l : bytes) : option (bytes * bytes) :=
  if present then '(d, l) <- read_varuint_bytes l ;; Some (key ++ d, l) else Some ([], l).

Definition decompress_vote (src : bytes) : option bytes :=
  match src with
  | mask :: _ :: l =>
      '(pf, l) <- d_bin true (fx "pf") 80 l ;;
      '(per, l) <- d_varuint (bit mask 0) (fx "per") l ;;
      let hasprop := negb (N.land mask 30 =? 0) in
      '(dig, l) <- d_bin (hasprop && bit mask 1) (fx "dig") 32 l ;;
      '(encdig, l) <- d_bin (hasprop && bit mask 2) (fx "encdig") 32 l ;;
      '(oper, l) <- d_varuint (hasprop && bit mask 3) (fx "oper") l ;;
      '(oprop, l) <- d_bin (hasprop && bit mask 4) (fx "oprop") 32 l ;;
      '(rnd, l) <- d_varuint true (fx "rnd") l ;;
      '(snd, l) <- d_bin true (fx "snd") 32 l ;;
      '(step, l) <- d_varuint (bit mask 5) (fx "step") l ;;
      '(p, l) <- d_bin true (fx "p") 32 l ;;
      '(p1s, l) <- d_bin true (fx "p1s") 64 l ;;
      '(p2, l) <- d_bin true (fx "p2") 32 l ;;
      '(p2s, l) <- d_bin true (fx "p2s") 64 l ;;
      '(s, l) <- d_bin true (fx "s") 64 l ;;
      if negb (is_nil l) then None else                                   (* trailing data *)
      Some ([131] ++ fx "cred" ++ [129] ++ pf ++
            fx "r" ++ [128 + raw_vote_map_size mask] ++ per ++
            (if hasprop then fx "prop" ++ [128 + proposal_value_map_size mask] else []) ++
            dig ++ encdig ++ oper ++ oprop ++ rnd ++ snd ++ step ++
            fx "sig" ++ [134] ++ p ++ p1s ++ p2 ++ p2s ++
            fx "ps" ++ [196; 64] ++ zeros 64 ++ s)
  | _ => None                                                              (* header missing *)
  end.

(* ------------------------------------------------------------- lru_table.go ---- *)

(* twoSlotBucket + its MRU bit: [mru1 = true] <-> slot 1 is MRU *)
Record bucket := { s0 : bytes; s1 : bytes; mru1 : bool }.
Record lru := { nb : N; bks : list bucket }.

Definition new_lru (klen : nat) (n : N) : option lru :=
  if (n <? 16) || negb (N.land n (n - 1) =? 0) then None
  else Some {| nb := n / 2;
               bks := repeat {| s0 := zeros klen; s1 := zeros klen; mru1 := false |} (N.to_nat (n / 2)) |}.

Definition dflt_bucket : bucket := {| s0 := []; s1 := []; mru1 := false |}.
Definition get_bk (t : lru) (b : N) : bucket := nth (N.to_nat b) (bks t) dflt_bucket.

Fixpoint list_upd {A} (i : nat) (f : A -> A) (l : list A) : list A :=
  match l, i with
  | [], _ => []
  | x :: r, O => f x :: r
  | x :: r, S i' => x :: list_upd i' f r
  end.
Definition upd_bk (t : lru) (b : N) (f : bucket -> bucket) : lru :=
  {| nb := nb t; bks := list_upd (N.to_nat b) f (bks t) |}.

Definition bucket_of (t : lru) (h : N) : N := N.land h (nb t - 1).       (* hashToBucketIndex *)
Definition set_mru (t : lru) (b : N) (slot1 : bool) : lru :=            (* setMRUSlot *)
  upd_bk t b (fun k => {| s0 := s0 k; s1 := s1 k; mru1 := slot1 |}).

(* lookup: returns the reference id (uint16!) and the table with the hit marked MRU *)
Definition lru_lookup (t : lru) (k : bytes) (h : N) : option (N * lru) :=
  let b := bucket_of t h in
  let bk := get_bk t b in
  if bytes_eqb (s0 bk) k then Some ((2 * b) mod 65536, set_mru t b false)
  else if bytes_eqb (s1 bk) k then Some ((2 * b + 1) mod 65536, set_mru t b true)
  else None.

(* insert: overwrite the LRU slot, mark it MRU *)
Definition lru_insert (t : lru) (k : bytes) (h : N) : lru :=
  let b := bucket_of t h in
  if mru1 (get_bk t b)
  then upd_bk t b (fun bk => {| s0 := k; s1 := s1 bk; mru1 := false |})     (* slot 0 is LRU *)
  else upd_bk t b (fun bk => {| s0 := s0 bk; s1 := k; mru1 := true |}).     (* slot 1 is LRU *)

Definition lru_fetch (t : lru) (id : N) : option (bytes * lru) :=
  let b := N.shiftr id 1 in
  let slot1 := N.testbit id 0 in
  if nb t <=? b then None
  else Some ((if slot1 then s1 (get_bk t b) else s0 (get_bk t b)), set_mru t b slot1).

(* ------------------------------------------------------- proposal_window.go ---- *)

Record pentry := { e_dig : bytes; e_encdig : bytes; e_oprop : bytes;
                   e_oper : bytes; e_operlen : N; e_mask : N }.
Definition pentry_eqb (a b : pentry) : bool :=
  bytes_eqb (e_dig a) (e_dig b) && bytes_eqb (e_encdig a) (e_encdig b) &&
  bytes_eqb (e_oprop a) (e_oprop b) && bytes_eqb (e_oper a) (e_oper b) &&
  (e_operlen a =? e_operlen b) && (e_mask a =? e_mask b).
Definition zero_pentry : pentry :=
  {| e_dig := zeros 32; e_encdig := zeros 32; e_oprop := zeros 32; e_oper := zeros 9;
     e_operlen := 0; e_mask := 0 |}.

Record pwin := { w_ent : list pentry; w_head : N; w_size : N }.
Definition new_win : pwin := {| w_ent := repeat zero_pentry 7; w_head := 0; w_size := 0 |}.
Definition win_get (w : pwin) (slot : N) : pentry := nth (N.to_nat slot) (w_ent w) zero_pentry.

(* lookup: oldest first; HPACK index size - i; 0 = not found *)
Fixpoint win_lookup_from (fuel : nat) (w : pwin) (pv : pentry) (i : N) : N :=
  match fuel with
  | O => 0
  | S f => if w_size w <=? i then 0
           else if pentry_eqb (win_get w ((w_head w + i) mod 7)) pv then w_size w - i
           else win_lookup_from f w pv (i + 1)
  end.
Definition win_lookup (w : pwin) (pv : pentry) : N := win_lookup_from 7 w pv 0.

Definition win_byref (w : pwin) (idx : N) : option pentry :=
  if (idx <? 1) || (w_size w <? idx) then None
  else Some (win_get w ((w_head w + w_size w - idx) mod 7)).

Definition win_insert (w : pwin) (pv : pentry) : pwin :=
  if w_size w =? 7
  then {| w_ent := list_upd (N.to_nat (w_head w)) (fun _ => pv) (w_ent w);
          w_head := (w_head w + 1) mod 7; w_size := w_size w |}
  else {| w_ent := list_upd (N.to_nat ((w_head w + w_size w) mod 7)) (fun _ => pv) (w_ent w);
          w_head := w_head w; w_size := w_size w + 1 |}.

(* --------------------------------------------------------- dynamic_vpack.go ---- *)

Record dstate := { snd_t : lru; pk_t : lru; pk2_t : lru; win : pwin; last_rnd : N }.

Definition new_state (n : N) : option dstate :=
  s <- new_lru 32 n ;; p <- new_lru 96 n ;; p2 <- new_lru 96 n ;;
  Some {| snd_t := s; pk_t := p; pk2_t := p2; win := new_win; last_rnd := 0 |}.

Fixpoint le_val (l : bytes) : N := match l with [] => 0 | b :: r => b + 256 * le_val r end.
Definition le64_at (off : nat) (k : bytes) : N := le_val (firstn 8 (skipn off k)).
(* addressValue.hash *)
Definition snd_hash (k : bytes) : N :=
  N.lxor (N.lxor (N.lxor (le64_at 0 k) (le64_at 8 k)) (le64_at 16 k)) (le64_at 24 k).
(* pkSigPair.hash; the key is pk (32) ++ sig (64) *)
Definition pk_hash (k : bytes) : N := N.lxor (le64_at 0 k) (le64_at 32 k).

Definition opt_read (present : bool) (rd : bytes -> option (bytes * bytes)) (l : bytes)
  : option (bytes * bytes) := if present then rd l else Some ([], l).

(* "copy(arr[:], data)" into a zeroed array of length n (data is never longer than n) *)
Definition pad_to (n : nat) (d : bytes) : bytes := d ++ zeros (n - List.length d).

(* the proposal-reading block shared (textually) by Compress and Decompress *)
Definition read_prop (hdr0 : N) (l : bytes) : option (pentry * bytes) :=
  '(dig, l) <- opt_read (bit hdr0 1) (take_n 32) l ;;
  '(encdig, l) <- opt_read (bit hdr0 2) (take_n 32) l ;;
  '(oper, l) <- opt_read (bit hdr0 3) read_varuint_bytes l ;;
  '(oprop, l) <- opt_read (bit hdr0 4) (take_n 32) l ;;
  Some ({| e_dig := pad_to 32 dig; e_encdig := pad_to 32 encdig; e_oprop := pad_to 32 oprop;
           e_oper := pad_to 9 oper; e_operlen := N.of_nat (List.length oper);
           e_mask := N.land hdr0 30 |}, l).

(* "write proposal bytes": the fields whose bit is set in [mask] *)
Definition prop_bytes (mask : N) (p : pentry) : bytes :=
  (if bit mask 1 then e_dig p else []) ++ (if bit mask 2 then e_encdig p else []) ++
  (if bit mask 3 then firstn (N.to_nat (e_operlen p)) (e_oper p) else []) ++
  (if bit mask 4 then e_oprop p else []).

Definition ref_bytes (id : N) : bytes := [id / 256; id mod 256].            (* appendDynamicRef *)
Definition ref_id (b : bytes) : N := nth 0 b 0 * 256 + nth 1 b 0.            (* readDynamicRef *)

(* encoder side of one LRU-coded field: (reference bit, bytes written, table) *)
Definition enc_ref (hash : bytes -> N) (t : lru) (k : bytes) : bool * bytes * lru :=
  match lru_lookup t k (hash k) with
  | Some (id, t') => (true, ref_bytes id, t')
  | None => (false, k, lru_insert t k (hash k))
  end.

(* decoder side *)
Definition dec_ref (hash : bytes -> N) (klen : nat) (t : lru) (isref : bool) (l : bytes)
  : option (bytes * lru * bytes) :=
  if isref then
    '(r, l) <- take_n 2 l ;; '(k, t') <- lru_fetch t (ref_id r) ;; Some (k, t', l)
  else
    '(k, l) <- take_n klen l ;; Some (k, lru_insert t k (hash k), l).

Definition max_u64 : N := 18446744073709551615.
Definition w64 (x : N) : N := x mod 18446744073709551616.

(* the delta-encoding switch of Compress: (2-bit code, literal bytes written) *)
Definition enc_rnd (canon : bool) (last : N) (rndData : bytes) (rnd : N) : N * bytes :=
  if canon && negb (Nat.eqb (List.length rndData) (varuint_size rnd)) then (0, rndData)  (* the fix *)
  else if rnd =? last then (3, [])
  else if (rnd =? w64 (last + 1)) && (last <? max_u64) then (1, [])
  else if (rnd =? w64 (last + max_u64)) && (0 <? last) then (2, [])            (* lastRnd-1 wraps *)
  else (0, rndData).

(* the delta-decoding switch of Decompress: (bytes emitted, round, rest) *)
Definition dec_rnd (last : N) (code : N) (l : bytes) : option (bytes * N * bytes) :=
  if code =? 3 then Some (append_uint64 last, last, l)
  else if code =? 1 then (if last =? max_u64 then None else Some (append_uint64 (last + 1), last + 1, l))
  else if code =? 2 then (if last =? 0 then None else Some (append_uint64 (last - 1), last - 1, l))
  else '(d, l) <- read_varuint_bytes l ;; v <- varuint_value d ;; Some (d, v, l).

Definition hdr1_of (rc idx : N) (sref pkref pk2ref : bool) : N :=
  rc + 4 * idx + 32 * b2n sref + 64 * b2n pkref + 128 * b2n pk2ref.

(* StatefulEncoder.Compress *)
Definition compress (canon : bool) (st : dstate) (src : bytes) : option (bytes * dstate) :=
  '(hdr, l) <- take_n 2 src ;;
  let hdr0 := nth 0 hdr 0 in
  '(pf, l) <- take_n 80 l ;;
  '(per, l) <- opt_read (bit hdr0 0) read_varuint_bytes l ;;
  '(prop, l) <- read_prop hdr0 l ;;
  let idx := win_lookup (win st) prop in
  let propout := if idx =? 0 then prop_bytes hdr0 prop else [] in
  let w' := if idx =? 0 then win_insert (win st) prop else win st in
  '(rndData, l) <- read_varuint_bytes l ;;
  rnd <- varuint_value rndData ;;
  let '(rc, rndout) := enc_rnd canon (last_rnd st) rndData rnd in
  '(snd, l) <- take_n 32 l ;;
  let '(sref, sout, st1) := enc_ref snd_hash (snd_t st) snd in
  '(step, l) <- opt_read (bit hdr0 5) read_varuint_bytes l ;;
  '(pk, l) <- take_n 96 l ;;
  let '(pref, pout, pt1) := enc_ref pk_hash (pk_t st) pk in
  '(pk2, l) <- take_n 96 l ;;
  let '(p2ref, p2out, p2t1) := enc_ref pk_hash (pk2_t st) pk2 in
  '(sigs, l) <- take_n 64 l ;;
  if negb (is_nil l) then None else                                         (* length mismatch *)
  Some (hdr0 :: hdr1_of rc idx sref pref p2ref ::
        pf ++ per ++ propout ++ rndout ++ sout ++ step ++ pout ++ p2out ++ sigs,
        {| snd_t := st1; pk_t := pt1; pk2_t := p2t1; win := w'; last_rnd := rnd |}).

(* StatefulDecoder.Decompress *)
Definition decompress (st : dstate) (src : bytes) : option (bytes * dstate) :=
  '(hdr, l) <- take_n 2 src ;;
  let hdr0 := nth 0 hdr 0 in
  let hdr1 := nth 1 hdr 0 in
  '(pf, l) <- take_n 80 l ;;
  '(per, l) <- opt_read (bit hdr0 0) read_varuint_bytes l ;;
  let propRef := N.shiftr (N.land hdr1 28) 2 in
  '(prop, w', l) <-
     (if propRef =? 0
      then '(prop, l) <- read_prop hdr0 l ;; Some (prop, win_insert (win st) prop, l)
      else prop <- win_byref (win st) propRef ;; Some (prop, win st, l)) ;;
  let propout := prop_bytes (e_mask prop) prop in
  '(rndout, rnd, l) <- dec_rnd (last_rnd st) (N.land hdr1 3) l ;;
  '(snd, st1, l) <- dec_ref snd_hash 32 (snd_t st) (bit hdr1 5) l ;;
  '(step, l) <- opt_read (bit hdr0 5) read_varuint_bytes l ;;
  '(pk, pt1, l) <- dec_ref pk_hash 96 (pk_t st) (bit hdr1 6) l ;;
  '(pk2, p2t1, l) <- dec_ref pk_hash 96 (pk2_t st) (bit hdr1 7) l ;;
  '(sigs, l) <- take_n 64 l ;;
  if negb (is_nil l) then None else
  Some (hdr0 :: 0 :: pf ++ per ++ propout ++ rndout ++ snd ++ step ++ pk ++ pk2 ++ sigs,
        {| snd_t := st1; pk_t := pt1; pk2_t := p2t1; win := w'; last_rnd := rnd |}).

(* ------------------------------------------------ one connection, both ends ---- *)

(* sender: CompressVote then Compress.  A vote the stateless layer rejects is not sent
   through the stateful encoder at all (the caller falls back to the uncompressed message). *)
Definition send (strict canon : bool) (e : dstate) (m : bytes) : option (bytes * dstate) :=
  x <- compress_vote strict m ;; compress canon e x.

(* receiver: Decompress then DecompressVote *)
Definition recv (d : dstate) (f : bytes) : option (bytes * dstate) :=
  '(x, d') <- decompress d f ;; m <- decompress_vote x ;; Some (m, d').
