(* Shared executable model of the agreement state machine (DESIGN.md 4.A) -- part 1: data.

   INTERFACE (for C01/C02/C03/C05/C07 builders)
   ------------------------------------------------------------------------------------
   AgreementTypes.v      data: [params], [value], [vote], [eqvote], [ubundle], [mevent],
                         [ext_event], [action], trackers, router tree, [player], [state],
                         the result monad [res] (Ok / Panic tag / OutOfFuel), alists.
   AgreementVotes.v      voteTracker (+contract), voteTrackerPeriod/Round, fresherThan,
                         freshness filters, reachesQuorum.
   AgreementProposals.v  proposalSeeker/Tracker (+contract), blockAssembler, proposalStore.
   AgreementPlayer.v     router updates (garbage collection), voteAggregator,
                         proposalManager, player.handle and
                             init   : params -> N (round) -> state
                             step   : params -> state -> ext_event -> res (state * list action)
                             run    : params -> state -> list ext_event -> list obs * outcome
                         (step = rootRouter.submitTop).
   AgreementPersist.v    persisted projection / restore (persistence.go encode/decode).
   AgreementRender.v     canonical rendering of actions / states as [term]s (the wire format
                         shared with harness/go/agreement/zz_verif_sm_test.go) and the parser
                         of scripts.
   AgreementCheck.v      [check_sm], [check_c03], [check_c07] : term -> term.

   ABSTRACTIONS.  A vote is (sender id, round, period, step, proposal-value, weight,
   credential rank); signatures/VRF proofs do not exist (the state machine only sees votes
   that were verified, or unverified votes of which it reads only the R fields).  A proposal-value is
   (id, block round, OriginalPeriod, OriginalProposer): [v_id] stands for the pair
   (BlockDigest, EncodingDigest); [v_rnd] is the round of the block hashed by the digest
   (hash injectivity: a digest determines its block).  A payload is identified with its
   proposal-value (payload.value() is injective for the same reason).  Time is the Deadline
   value only; validatedAt/receivedAt, telemetry, tracing, credentialArrivalHistory are not
   in the state: [calculateFilterTimeout] takes the "history not full" path, i.e. returns
   FilterTimeout(period, version) (harness checks isFull() never becomes true).
   time.Duration / step arithmetic is unbounded (exact while no int64 overflow: step < 30).
   round/period arithmetic that can wrap in Go (p.Period-1 at 0, p+1, r+credentialRoundLag)
   wraps modulo 2^64 here too.  Every log.Panicf / runtime panic site is [Panic tag].

   No proofs in this file. *)
From Coq Require Import NArith List Bool String.
Import ListNotations.
Open Scope N_scope.

(* ---------- result monad ---------- *)
Inductive res (A : Type) : Type :=
| Ok (a : A)
| Panic (tag : string)
| OutOfFuel.
Arguments Ok {A} a.
Arguments Panic {A} tag%string.
Arguments OutOfFuel {A}.

Definition bind {A B} (x : res A) (f : A -> res B) : res B :=
  match x with Ok a => f a | Panic t => Panic t | OutOfFuel => OutOfFuel end.
Notation "'do' x <- e ; k" := (bind e (fun x => k)) (at level 200, x pattern, e at level 100, k at level 200, right associativity).

Definition w64 (x : N) : N := x mod 2 ^ 64.
Definition add1 (x : N) : N := w64 (x + 1).                  (* uint64 x+1 *)
Definition sub1 (x : N) : N := if x =? 0 then 2 ^ 64 - 1 else x - 1.   (* uint64 x-1 *)

(* ---------- Go maps as association lists (unique keys; insertion order kept) ---------- *)
Section AList.
  Context {K V : Type} (eqb : K -> K -> bool).
  Fixpoint aget (k : K) (l : list (K * V)) : option V :=
    match l with
    | [] => None
    | (k', v) :: t => if eqb k k' then Some v else aget k t
    end.
  Fixpoint aset (k : K) (v : V) (l : list (K * V)) : list (K * V) :=
    match l with
    | [] => [(k, v)]
    | (k', v') :: t => if eqb k k' then (k, v) :: t else (k', v') :: aset k v t
    end.
  Definition adel (k : K) (l : list (K * V)) : list (K * V) :=
    filter (fun kv => negb (eqb k (fst kv))) l.
  Definition ahas (k : K) (l : list (K * V)) : bool :=
    match aget k l with Some _ => true | None => false end.
End AList.

Definition ngetd {V} (d : V) (k : N) (l : list (N * V)) : V :=
  match aget N.eqb k l with Some v => v | None => d end.

(* ---------- consensus parameters read by the state machine ---------- *)
Record params := mkParams {
  pm_soft : N; pm_cert : N; pm_next : N; pm_late : N; pm_redo : N; pm_down : N;
  pm_filter0 : N;      (* AgreementFilterTimeoutPeriod0 *)
  pm_filter : N;       (* AgreementFilterTimeout *)
  pm_deadline0 : N;    (* AgreementDeadlineTimeoutPeriod0 *)
  pm_deadline : N;     (* defaultDeadlineTimeout = BigLambda + SmallLambda *)
  pm_extra : N;        (* recoveryExtraTimeout = SmallLambda *)
  pm_frlambda : N;     (* FastRecoveryLambda *)
  pm_dynfilter : bool; (* DynamicFilterTimeout *)
  pm_crlag : N         (* credentialRoundLag *)
}.

(* steps *)
Definition s_propose : N := 0.
Definition s_soft : N := 1.
Definition s_cert : N := 2.
Definition s_next : N := 3.
Definition s_late : N := 253.
Definition s_redo : N := 254.
Definition s_down : N := 255.
Definition partition_step : N := 6.      (* next + 3 *)

(* ---------- values, votes, bundles ---------- *)
Record value := mkV { v_id : N; v_rnd : N; v_oper : N; v_oprop : N }.
Definition value_eqb (a b : value) : bool :=
  (v_id a =? v_id b) && (v_rnd a =? v_rnd b) && (v_oper a =? v_oper b) && (v_oprop a =? v_oprop b).
Definition bottom : value := mkV 0 0 0 0.
Definition is_bottom (v : value) : bool := value_eqb v bottom.

Record vote := mkVote {
  vt_snd : N; vt_rnd : N; vt_per : N; vt_step : N; vt_val : value;
  vt_w : N;      (* Cred.Weight *)
  vt_cred : N    (* rank of Cred.lowestOutput(): Cred.Less a b <-> vt_cred a < vt_cred b *)
}.
Definition vote_eqb (a b : vote) : bool :=
  (vt_snd a =? vt_snd b) && (vt_rnd a =? vt_rnd b) && (vt_per a =? vt_per b) &&
  (vt_step a =? vt_step b) && value_eqb (vt_val a) (vt_val b) && (vt_w a =? vt_w b) &&
  (vt_cred a =? vt_cred b).
Definition zero_vote : vote := mkVote 0 0 0 0 bottom 0 0.

(* equivocationVote: Sender, Round, Period, Step, Cred (of the first vote), Proposals *)
Record eqvote := mkEqv {
  eq_snd : N; eq_rnd : N; eq_per : N; eq_step : N; eq_w : N; eq_cred : N;
  eq_v0 : value; eq_v1 : value }.
Definition eqv_first (e : eqvote) : vote :=
  mkVote (eq_snd e) (eq_rnd e) (eq_per e) (eq_step e) (eq_v0 e) (eq_w e) (eq_cred e).
Definition eqv_second (e : eqvote) : vote :=
  mkVote (eq_snd e) (eq_rnd e) (eq_per e) (eq_step e) (eq_v1 e) (eq_w e) (eq_cred e).

(* unauthenticatedBundle / bundle / Certificate.  The model keeps the full votes (the Go
   unauthenticated form keeps sender + proof); only senders are rendered. *)
Record ubundle := mkUB {
  ub_rnd : N; ub_per : N; ub_step : N; ub_val : value;
  ub_votes : list vote; ub_eqs : list eqvote }.

(* ---------- events ---------- *)
Record mmeta := mkMeta {
  mm_err : bool;         (* e.Err != nil: verification failed *)
  mm_cancelled : bool;   (* e.Cancelled *)
  mm_proto_err : bool;   (* e.Proto.Err != nil *)
  mm_hnil : bool;        (* e.Input.messageHandle == nil (own message via loopback) *)
  mm_task : N            (* e.TaskIndex *)
}.
Inductive minput :=
| InVote (v : vote)
| InBundle (b : ubundle)
| InPayload (pl : value).
(* Tail: a payloadPresent event without further tail (demux.setupCompoundMessage) *)
Record mevent := mkME {
  me_verified : bool; me_in : minput; me_meta : mmeta; me_tail : option (value * mmeta) }.

Inductive ext_event :=
| EvMsg (m : mevent)
| EvTimeout (fast : bool) (entropy : N) (proto_bad : bool)   (* proto_bad: Version=="" or Err *)
| EvRoundInterruption (r : N)
| EvCheckpoint (r p s : N) (err : bool).

(* threshold events *)
Inductive tkind := TSoft | TCert | TNext.
Definition tkind_eqb (a b : tkind) : bool :=
  match a, b with TSoft, TSoft | TCert, TCert | TNext, TNext => true | _, _ => false end.
Record thresh := mkTh {
  th_t : tkind; th_rnd : N; th_per : N; th_step : N; th_val : value; th_b : ubundle }.

(* ---------- actions ---------- *)
Inductive action :=
| AIgnore
| ADisconnect
| ARelayVote (v : vote)
| ARelayBundle (b : ubundle)
| ABroadcastBundle (b : ubundle)
| ARelayCompound (pl : value) (v : option vote)
| ABroadcastCompound (pl : value) (v : option vote)
| ABroadcastVotes (vs : list vote)
| AVerifyVote (v : vote) (r p task : N)
| AVerifyPayload (pl : value) (r p : N) (pinned : bool)
| AVerifyBundle (b : ubundle) (r p s : N)
| AEnsure (pl : value) (cert : ubundle)
| AStageDigest (cert : ubundle)
| ARezero (r : N)
| AAttest (r p s : N) (v : value)
| AAssemble (r p : N)
| ARepropose (r p : N) (v : value)
| ACheckpoint (r p s : N) (err : bool).

Definition persistent_action (a : action) : bool :=
  match a with AAttest _ _ _ _ => true | _ => false end.
Definition persistent (l : list action) : bool := existsb persistent_action l.

(* ---------- vote machines ---------- *)
(* proposalVoteCounter *)
Record counter := mkCounter { c_count : N; c_votes : list (N * vote) }.
(* voteTracker + voteTrackerContract *)
Record vtracker := mkVT {
  vt_voters : list (N * vote);
  vt_counts : list (value * counter);
  vt_equiv : list (N * eqvote);
  vt_eqcount : N;
  vc_step : N; vc_stepok : bool; vc_emitted : bool }.
Definition vt_zero : vtracker := mkVT [] [] [] 0 0 false false.

(* voteTrackerPeriod.Cached *)
Record vperiod := mkVP { vp_bottom : bool; vp_val : value }.
Definition vp_zero : vperiod := mkVP false bottom.

(* ---------- proposal machines ---------- *)
Record seeker := mkSeeker {
  sk_lowest : vote; sk_filled : bool; sk_frozen : bool;
  sk_late : vote; sk_haslate : bool           (* unexported: NOT persisted *)
}.
Definition sk_zero : seeker := mkSeeker zero_vote false false zero_vote false.

(* proposalTracker + proposalTrackerContract *)
Record ptracker := mkPT {
  pt_dup : list N; pt_freezer : seeker; pt_staging : value;
  pc_one : bool; pc_froze : bool; pc_soft : bool; pc_cert : bool }.
Definition pt_zero : ptracker := mkPT [] sk_zero bottom false false false false.

(* blockAssembler: Pipeline / Payload are the key of the map entry *)
Record assembler := mkAsm { as_filled : bool; as_assembled : bool; as_auth : list vote }.
Definition as_zero : assembler := mkAsm false false [].

Record pstore := mkPS {
  ps_relevant : list (N * value); ps_pinned : value; ps_asm : list (value * assembler) }.
Definition ps_zero : pstore := mkPS [] bottom [].

(* ---------- router tree ---------- *)
Record periodNode := mkPN { pn_pt : ptracker; pn_vp : vperiod; pn_steps : list (N * vtracker) }.
Definition pn_zero : periodNode := mkPN pt_zero vp_zero [].
Record roundNode := mkRN { rn_store : pstore; rn_fresh : option thresh; rn_periods : list (N * periodNode) }.
Definition rn_zero : roundNode := mkRN ps_zero None [].
Definition router := list (N * roundNode).

(* ---------- player ---------- *)
Definition dl_deadline : N := 0.
Definition dl_filter : N := 2.
Record player := mkPlayer {
  p_rnd : N; p_per : N; p_step : N; p_last : N;
  p_dl : N; p_dlt : N;            (* Deadline.Duration, Deadline.Type *)
  p_nap : bool; p_frd : N;
  p_pending : list (N * option (value * mmeta)); p_pnext : N }.

Record state := mkState { s_pl : player; s_rt : router }.
