(* C16: executable [check] run on the observations of harness/go/ledger/zz_verif_c16_test.go.

   case = (c16 KIND MUTANT (LOOKBACK NX MAXRES B) (SRC ORACLE (round #blockdigest #label)) HONEST FILE OUTCOME)
     SRC     = (world ACCTS KVS (#oa ...) (#orp ...) #totals #root CRE) dump of the producer's tracker DB at the balances round
     CRE     = ((cidx ctype #creator) ...)            the assetcreators table: LookupCreator of every creatable index of the history
     ACCTS   = ((#addr #enc ((cidx #enc) ...)) ...)   sorted by address / index;  KVS = ((#k #v) ...) sorted by key
     ORACLE  = (oracle ACCTS KVS #totals #root CRE)   the harness' fold of the deltas (state_at, creators) and its fresh-trie root
     HONEST, FILE = (SECTION ...) the producer's file and the file given to the accessor, decoded:
       (hdr version balancesRound blocksRound #totals nacct nkv noa norp nchunks #label #digest)
       (sp #bytes n) | (raw kind) | (other #name)
       (bal ((#addr #enc expecting (tap tals tasp tas) #leaf|nil ((cidx #enc isapp isasset owning holding #leaf) ...)) ...)
            ((#k #v #leaf) ...) (#oa ...) (#orp ...))
       the counters / flags / leaves are what the accessor's decoders and hash builders return for that record
     OUTCOME = (rejected process|trie|verify|finish) | (accepted WORLD)   WORLD as SRC, dumped from the restored ledger

   [spec_ok] (no model): the producer's DB is the state of the history; the honest file is accepted
   and restores exactly SRC; any other file is rejected or restores exactly SRC.
   Model: [restore] of model/CatchpointFile.v with H = identity -- "the label verifies" is decided by
   comparing the label components the file yields with those of the producer (equal up to a hash
   collision) -- and the tables / hash builders read off the case.   No proofs in this file. *)
From Coq Require Import List NArith ZArith Bool String.
From Verif.lib Require Import Term.
From Verif.model Require Import MerkleTrie MerkleTrieSpec CatchpointHash CatchpointFile.
Import ListNotations.
Open Scope N_scope.

(* ---------- decoding ---------- *)
Definition as_cb (t : term) : option (N * bytes) :=
  match t with TL [c; TB e] => match as_N c with Some c => Some (c, e) | None => None end | _ => None end.

Definition as_acct (t : term) : option (bytes * bytes * list (N * bytes)) :=
  match t with
  | TL [TB a; TB e; TL rs] => match map_opt as_cb rs with Some rs => Some (a, e, rs) | None => None end
  | _ => None
  end.

Definition as_kv (t : term) : option (bytes * bytes) :=
  match t with TL [TB k; TB v] => Some (k, v) | _ => None end.

Record dump := mkDump { d_accts : list (bytes * bytes * list (N * bytes)); d_kvs : list (bytes * bytes);
                        d_oa : list bytes; d_orp : list bytes; d_totals : bytes; d_root : bytes; d_cre : list term }.

Definition as_dump (t : term) : option dump :=
  match t with
  | TL [TS "world"; TL accts; TL kvs; TL oa; TL orp; TB tot; TB root; TL cre] =>
      match map_opt as_acct accts, map_opt as_kv kvs, map_opt as_bytes oa, map_opt as_bytes orp with
      | Some a, Some k, Some o, Some p => Some (mkDump a k o p tot root cre)
      | _, _, _, _ => None
      end
  | TL [TS "oracle"; TL accts; TL kvs; TB tot; TB root; TL cre] =>
      match map_opt as_acct accts, map_opt as_kv kvs with
      | Some a, Some k => Some (mkDump a k [] [] tot root cre)
      | _, _ => None
      end
  | _ => None
  end.

(* what the accessor's decoders / builders return, collected from the case *)
Record tables := mkT {
  t_tot : list (bytes * counts);
  t_flags : list (bytes * (bool * bool * bool * bool));
  t_leafA : list (bytes * bytes * bytes);
  t_leafR : list (bytes * N * bytes * bytes);
  t_leafK : list (bytes * bytes * bytes) }.
Definition t_empty_tables : tables := mkT [] [] [] [] [].

Definition as_res (addr : bytes) (t : term) : option ((N * bytes) * (bool * bool * bool * bool) * bytes) :=
  match t with
  | TL [c; TB e; f1; f2; f3; f4; TB l] =>
      match as_N c, as_bool f1, as_bool f2, as_bool f3, as_bool f4 with
      | Some c, Some f1, Some f2, Some f3, Some f4 => Some ((c, e), (f1, f2, f3, f4), l)
      | _, _, _, _, _ => None
      end
  | _ => None
  end.

Definition as_rec (t : term) (T : tables) : option (brec * tables) :=
  match t with
  | TL [TB a; TB e; m; TL [c1; c2; c3; c4]; leaf; TL rs] =>
      match as_bool m, as_N c1, as_N c2, as_N c3, as_N c4, map_opt (as_res a) rs with
      | Some m, Some c1, Some c2, Some c3, Some c4, Some rs =>
          let T1 := mkT ((e, (c1, c2, c3, c4)) :: t_tot T)
                        (map (fun r => (snd (fst (fst r)), snd (fst r))) rs ++ t_flags T)
                        (match leaf with TB l => (a, e, l) :: t_leafA T | _ => t_leafA T end)
                        (map (fun r => (a, fst (fst (fst r)), snd (fst (fst r)), snd r)) rs ++ t_leafR T)
                        (t_leafK T) in
          Some (mkRec a e m (map (fun r => fst (fst r)) rs), T1)
      | _, _, _, _, _, _ => None
      end
  | _ => None
  end.

Fixpoint as_recs (l : list term) (T : tables) : option (list brec * tables) :=
  match l with
  | [] => Some ([], T)
  | t :: l' => match as_rec t T with
               | Some (r, T1) => match as_recs l' T1 with Some (rs, T2) => Some (r :: rs, T2) | None => None end
               | None => None
               end
  end.

Definition as_kvl (t : term) : option (bytes * bytes * bytes) :=
  match t with TL [TB k; TB v; TB l] => Some (k, v, l) | _ => None end.

Definition as_section (t : term) (T : tables) : option (section * tables) :=
  match t with
  | TL [TS "hdr"; v; br; kr; TB tot; _; _; _; _; _; TB _; TB _] =>
      match as_N v, as_N br, as_N kr with
      | Some v, Some br, Some kr => Some (SHdr v br kr tot, T)
      | _, _, _ => None
      end
  | TL [TS "sp"; TB d; n] => match as_N n with Some n => Some (SSp d n, T) | None => None end
  | TL [TS "raw"; _] => Some (SRaw, T)
  | TL [TS "other"; _] => Some (SOther, T)
  | TL [TS "bal"; TL bals; TL kvs; TL oa; TL orp] =>
      match as_recs bals T, map_opt as_kvl kvs, map_opt as_bytes oa, map_opt as_bytes orp with
      | Some (rs, T1), Some kvs, Some oa, Some orp =>
          Some (SBal rs (map (fun e => (fst (fst e), snd (fst e))) kvs) oa orp,
                mkT (t_tot T1) (t_flags T1) (t_leafA T1) (t_leafR T1) (kvs ++ t_leafK T1))
      | _, _, _, _ => None
      end
  | _ => None
  end.

Fixpoint as_file (l : list term) (T : tables) : option (list section * tables) :=
  match l with
  | [] => Some ([], T)
  | t :: l' => match as_section t T with
               | Some (s, T1) => match as_file l' T1 with Some (ss, T2) => Some (s :: ss, T2) | None => None end
               | None => None
               end
  end.

(* ---------- the decoders / builders as functions ---------- *)
Definition tot_fn (T : tables) (e : bytes) : counts :=
  match List.find (fun x => beqb (fst x) e) (t_tot T) with Some x => snd x | None => counts_zero end.
Definition flags_fn (T : tables) (e : bytes) : bool * bool * bool * bool :=
  match List.find (fun x => beqb (fst x) e) (t_flags T) with Some x => snd x | None => (false, false, false, false) end.
Definition leafA_fn (T : tables) (a e : bytes) : bytes :=
  match List.find (fun x => beqb (fst (fst x)) a && beqb (snd (fst x)) e) (t_leafA T) with
  | Some x => snd x | None => 0 :: a ++ e end.
Definition leafR_fn (T : tables) (a : bytes) (c : N) (e : bytes) : bytes :=
  match List.find (fun x => beqb (fst (fst (fst x))) a && (snd (fst (fst x)) =? c) && beqb (snd (fst x)) e) (t_leafR T) with
  | Some x => snd x | None => 1 :: a ++ e end.
Definition leafK_fn (T : tables) (k v : bytes) : bytes :=
  match List.find (fun x => beqb (fst (fst x)) k && beqb (snd (fst x)) v) (t_leafK T) with
  | Some x => snd x | None => 3 :: k ++ v end.

(* ---------- canonical order of a dump ---------- *)
Fixpoint bytes_ltb (a b : bytes) : bool :=
  match a, b with
  | [], [] => false
  | [], _ :: _ => true
  | _ :: _, [] => false
  | x :: a', y :: b' => if x <? y then true else if y <? x then false else bytes_ltb a' b'
  end.

Fixpoint insert_by {A} (ltb : A -> A -> bool) (x : A) (l : list A) : list A :=
  match l with
  | [] => [x]
  | y :: l' => if ltb x y then x :: y :: l' else y :: insert_by ltb x l'
  end.
Definition sort_by {A} (ltb : A -> A -> bool) (l : list A) : list A := fold_right (insert_by ltb) [] l.

Definition canon_accts (l : list (bytes * bytes * list (N * bytes))) :=
  sort_by (fun a b => bytes_ltb (fst (fst a)) (fst (fst b)))
          (map (fun a => (fst a, sort_by (fun x y => fst x <? fst y) (snd a))) l).
Definition canon_kvs (l : list (bytes * bytes)) := sort_by (fun a b => bytes_ltb (fst a) (fst b)) l.

Definition term_of_accts (l : list (bytes * bytes * list (N * bytes))) : term :=
  TL (map (fun a => TL [TB (fst (fst a)); TB (snd (fst a)); TL (map (fun r => TL [tn (fst r); TB (snd r)]) (snd a))]) l).
Definition term_of_kvs (l : list (bytes * bytes)) : term := TL (map (fun e => TL [TB (fst e); TB (snd e)]) l).

Definition dump_eqb (a b : dump) : bool :=
  term_eqb (term_of_accts (d_accts a)) (term_of_accts (d_accts b)) &&
  term_eqb (term_of_kvs (d_kvs a)) (term_of_kvs (d_kvs b)) &&
  term_eqb (TL (map TB (d_oa a))) (TL (map TB (d_oa b))) &&
  term_eqb (TL (map TB (d_orp a))) (TL (map TB (d_orp b))) &&
  beqb (d_totals a) (d_totals b) && beqb (d_root a) (d_root b) && term_eqb (TL (d_cre a)) (TL (d_cre b)).

(* ---------- signatures of the findings ---------- *)
(* a record with ExpectingMoreEntries whose account data is not the data of the record that follows
   for the same address, or that nothing follows *)
Fixpoint all_recs (f : list section) : list brec :=
  match f with
  | [] => []
  | SBal bals _ _ _ :: f' => bals ++ all_recs f'
  | _ :: f' => all_recs f'
  end.

Fixpoint partial_unbound (rs : list brec) : bool :=
  match rs with
  | [] => false
  | r :: rs' =>
      (b_more r && match rs' with
                   | [] => true
                   | r' :: _ => negb (beqb (b_addr r) (b_addr r') && beqb (b_enc r) (b_enc r'))
                   end) || partial_unbound rs'
  end.

Definition kv_concats (l : list (bytes * bytes)) : list bytes := map (fun e => fst e ++ snd e) l.
Definition kv_has_collision (l : list (bytes * bytes)) : bool :=
  existsb (fun e1 => existsb (fun e2 => negb (beqb (fst e1) (fst e2)) && beqb (fst e1 ++ snd e1) (fst e2 ++ snd e2)) l) l.
Definition same_concats (a b : list (bytes * bytes)) : bool :=
  let ca := sort_by bytes_ltb (kv_concats a) in
  let cb := sort_by bytes_ltb (kv_concats b) in
  term_eqb (TL (map TB ca)) (TL (map TB cb)).

(* the producer's trie is a SET: duplicates are ignored (C14) *)
Fixpoint set_trie (hs : list bytes) (st : tstate) : tstate :=
  match hs with
  | [] => st
  | h :: hs' => set_trie hs' (fst (fst (trie_add st h)))
  end.

(* finishBalances: the creators table is filled from the OWNING resources of the staged accounts
   (writeCreatables per chunk; asset = 0, app = 1), listed by index *)
Definition creators_of (fl : bytes -> bool * bool * bool * bool) (accts : list (bytes * bytes * list (N * bytes))) : list term :=
  let rows := flat_map (fun a => flat_map (fun r =>
                 let '(isapp, isasset, own, _) := fl (snd r) in
                 if own then (if isasset then [(fst r * 2, fst (fst a))] else []) ++ (if isapp then [(fst r * 2 + 1, fst (fst a))] else [])
                 else []) (snd a)) accts in
  map (fun x => TL [tn (fst x / 2); tn (fst x mod 2); TB (snd x)]) (sort_by (fun x y => fst x <? fst y) rows).

Definition idH (x : bytes) : bytes := x.

(* ---------- the writer: the producer's file must be what [write_file] makes of its content ---------- *)
Fixpoint group_recs (rs : list brec) (acc : list (bytes * bytes * list (N * bytes))) : list (bytes * bytes * list (N * bytes)) :=
  match rs with
  | [] => rev acc
  | r :: rs' =>
      match acc with
      | (a, e, l) :: acc' => if beqb a (b_addr r) then group_recs rs' ((a, e, l ++ b_res r) :: acc')
                             else group_recs rs' ((b_addr r, b_enc r, b_res r) :: acc)
      | [] => group_recs rs' [(b_addr r, b_enc r, b_res r)]
      end
  end.

Definition world_of_file (f : list section) : world :=
  mkWorld (group_recs (all_recs f) [])
          (flat_map (fun s => match s with SBal _ kvs _ _ => kvs | _ => [] end) f)
          (flat_map (fun s => match s with SBal _ _ oa _ => oa | _ => [] end) f)
          (flat_map (fun s => match s with SBal _ _ _ orp => orp | _ => [] end) f)
          (match List.find (fun s => match s with SSp _ _ => true | _ => false end) f with Some (SSp d _) => d | _ => [128] end)
          (match f with SHdr _ _ _ t :: _ => t | _ => [] end).

Definition term_of_rec (r : brec) : term :=
  TL [TB (b_addr r); TB (b_enc r); tb (b_more r); TL (map (fun e => TL [tn (fst e); TB (snd e)]) (b_res r))].
Definition term_of_section (s : section) : term :=
  match s with
  | SHdr v br kr t => TL [TS "hdr"; tn v; tn br; tn kr; TB t]
  | SSp d _ => TL [TS "sp"; TB d]
  | SBal bals kvs oa orp => TL [TS "bal"; TL (map term_of_rec bals); term_of_kvs kvs; TL (map TB oa); TL (map TB orp)]
  | SRaw => TS "raw"
  | SOther => TS "other"
  end.

Definition writer_agrees (kind : string) (maxres B : N) (hf : list section) : bool :=
  match hf with
  | SHdr v br kr _ :: _ =>
      let R := if String.eqb kind "tracker" then N.to_nat 100000 else N.to_nat maxres in
      term_eqb (TL (map term_of_section (write_file v (N.to_nat B) R br kr (world_of_file hf))))
               (TL (map term_of_section hf))
  | _ => false
  end.

Definition stage_sym (s : stage) : string :=
  match s with StProcess => "process" | StTrie => "trie" | StVerify => "verify" end.

Definition check (t : term) : term :=
  match t with
  | TL [TS "c16"; TS kind; TS mname; TL [_; _; pmaxres; pB]; TL [src; orc; TL [rnd; TB digest; TB label]]; TL honest; TL file; outcome] =>
      match as_dump src, as_dump orc, as_N rnd, as_file honest t_empty_tables with
      | Some src, Some orc, Some rnd, Some (hf, T0) =>
          match as_file file T0 with
          | Some (ff, T) =>
              let tot := tot_fn T in let fl := flags_fn T in
              let lA := leafA_fn T in let lR := leafR_fn T in let lK := leafK_fn T in
              let is_honest := term_eqb (TL honest) (TL file) in
              (* ---- spec ---- *)
              let src_ok := term_eqb (term_of_accts (d_accts src)) (term_of_accts (d_accts orc)) &&
                            term_eqb (term_of_kvs (d_kvs src)) (term_of_kvs (d_kvs orc)) &&
                            beqb (d_totals src) (d_totals orc) && beqb (d_root src) (d_root orc) &&
                            term_eqb (TL (d_cre src)) (TL (d_cre orc)) in
              let impl_restored := match outcome with TL [TS "accepted"; w] => as_dump w | _ => None end in
              let impl_rejected := match outcome with TL [TS "rejected"; TS _] => true | _ => false end in
              let restored_ok := match impl_restored with Some w => dump_eqb w src | None => false end in
              let spec_ok := src_ok && (if is_honest then restored_ok else impl_rejected || restored_ok) in
              (* ---- model ---- *)
              (* the label the producer made: root of the SET of hashes of its own file *)
              let lab0 :=
                match process_all true tot fl lA lR lK hf (a_init) with
                | Some a0 => staged_label idH a0 (set_trie (a_hashes a0) MerkleTrie.t_empty) digest
                | None => []
                end in
              let m := restore true idH tot fl lA lR lK ff lab0 rnd digest in
              let term_of_outcome (m : CatchpointFile.outcome (world * tstate)) :=
                match m with
                | Rejected s => TL [TS "rejected"; TS (stage_sym s)]
                | Accepted (w, _) =>
                    TL [TS "accepted"; TL [TS "world"; term_of_accts (canon_accts (w_accts w)); term_of_kvs (canon_kvs (w_kvs w));
                                           TL (map TB (w_oa w)); TL (map TB (w_orp w)); TB (w_totals w);
                                           TL (creators_of fl (w_accts w))]]
                end in
              let mterm := term_of_outcome m in
              (* the accessor without fixes/C16.patch *)
              let uterm := term_of_outcome (restore false idH tot fl lA lR lK ff lab0 rnd digest) in
              let iterm :=
                match outcome with
                | TL [TS "accepted"; TL [TS "world"; a; k; o; p; tot; _; cre]] => TL [TS "accepted"; TL [TS "world"; a; k; o; p; tot; cre]]
                | x => x
                end in
              let wr_ok := negb is_honest ||
                           match as_N pmaxres, as_N pB with
                           | Some mr, Some pb => writer_agrees kind mr pb hf
                           | _, _ => false
                           end in
              let corr := term_eqb mterm iterm && wr_ok in
              let nontrivial := negb is_honest || (2 <=? List.length (all_recs ff))%nat in
              if spec_ok then verdict true corr nontrivial mterm
              else if negb src_ok then v_viol mterm
              else if negb corr then
                (* the unrepaired accessor: a record with ExpectingMoreEntries whose account data is never hashed *)
                if term_eqb uterm iterm && partial_unbound (all_recs ff) then v_known "c16_partial_record_data_unbound" uterm
                else v_viol mterm
              else
                (* the spec fails and the model reproduces the observation: which finding is it? *)
                match impl_restored with
                | Some w =>
                    if kv_has_collision (d_kvs src) then v_known "c16_kv_collision_honest_file_rejected" mterm
                    else if term_eqb (term_of_accts (d_accts w)) (term_of_accts (d_accts src)) &&
                            same_concats (d_kvs w) (d_kvs src) && beqb (d_totals w) (d_totals src) then
                      v_known "c16_kv_boundary_shift_accepted" mterm
                    else v_viol mterm
                | None =>
                    (* an honest file was rejected *)
                    if is_honest && kv_has_collision (d_kvs src) then v_known "c16_kv_collision_honest_file_rejected" mterm
                    else v_viol mterm
                end
          | None => v_parse
          end
      | _, _, _, _ => v_parse
      end
  | _ => v_parse
  end.
