(* FROZEN, hand-maintained specification of the AVM field tables: for every field group and
   field name its byte encoding, the version it was introduced in and whether it is
   application-mode only.  It is NOT regenerated: proofs/AvmTableProofs.v:field_spec_agrees
   compares the regenerated run-time tables (coq/gen/AvmTables.v) with it in both directions,
   so a field whose version or mode changes, a removed field, and a NEW field all fail the
   obligation until this list has been reviewed and updated by hand.

   Rule for "app only": the value comes from application-call context or from ledger state
   reached through LedgerForLogic (nil in signature mode).  global fields decided by reading
   eval.go:globalFieldToValue; txn "effects" fields (ApplyData: Logs, NumLogs, CreatedAssetID,
   CreatedApplicationID, LastLog) are results of application execution; every field of
   asset_holding / asset_params / app_params / app_params_set / acct_params / voter_params reads
   the ledger (their opcodes are application-mode only as well).  Everything else (transaction
   fields, consensus parameters, curve / encoding / configuration selectors, block header fields
   read through LedgerForSignature) is available to both modes.  Groups sharing a name (the
   scalar / array / full views of the txn fields) share entries. *)
From Coq Require Import List NArith String.
Import ListNotations.
Local Open Scope string_scope.
Local Open Scope N_scope.

(* (group, field name, byte encoding, introduced in version, application-mode only) *)
Definition field_spec : list (string * string * N * N * bool) := [
  ("ECDSA", "Secp256k1", 0, 5, false);
  ("ECDSA", "Secp256r1", 1, 7, false);
  ("txn", "Sender", 0, 0, false);
  ("txn", "Fee", 1, 0, false);
  ("txn", "FirstValid", 2, 0, false);
  ("txn", "FirstValidTime", 3, 7, false);
  ("txn", "LastValid", 4, 0, false);
  ("txn", "Note", 5, 0, false);
  ("txn", "Lease", 6, 0, false);
  ("txn", "Receiver", 7, 0, false);
  ("txn", "Amount", 8, 0, false);
  ("txn", "CloseRemainderTo", 9, 0, false);
  ("txn", "VotePK", 10, 0, false);
  ("txn", "SelectionPK", 11, 0, false);
  ("txn", "VoteFirst", 12, 0, false);
  ("txn", "VoteLast", 13, 0, false);
  ("txn", "VoteKeyDilution", 14, 0, false);
  ("txn", "Type", 15, 0, false);
  ("txn", "TypeEnum", 16, 0, false);
  ("txn", "XferAsset", 17, 0, false);
  ("txn", "AssetAmount", 18, 0, false);
  ("txn", "AssetSender", 19, 0, false);
  ("txn", "AssetReceiver", 20, 0, false);
  ("txn", "AssetCloseTo", 21, 0, false);
  ("txn", "GroupIndex", 22, 0, false);
  ("txn", "TxID", 23, 0, false);
  ("txn", "ApplicationID", 24, 2, false);
  ("txn", "OnCompletion", 25, 2, false);
  ("txn", "NumAppArgs", 27, 2, false);
  ("txn", "NumAccounts", 29, 2, false);
  ("txn", "ApprovalProgram", 30, 2, false);
  ("txn", "ClearStateProgram", 31, 2, false);
  ("txn", "RekeyTo", 32, 2, false);
  ("txn", "ConfigAsset", 33, 2, false);
  ("txn", "ConfigAssetTotal", 34, 2, false);
  ("txn", "ConfigAssetDecimals", 35, 2, false);
  ("txn", "ConfigAssetDefaultFrozen", 36, 2, false);
  ("txn", "ConfigAssetUnitName", 37, 2, false);
  ("txn", "ConfigAssetName", 38, 2, false);
  ("txn", "ConfigAssetURL", 39, 2, false);
  ("txn", "ConfigAssetMetadataHash", 40, 2, false);
  ("txn", "ConfigAssetManager", 41, 2, false);
  ("txn", "ConfigAssetReserve", 42, 2, false);
  ("txn", "ConfigAssetFreeze", 43, 2, false);
  ("txn", "ConfigAssetClawback", 44, 2, false);
  ("txn", "FreezeAsset", 45, 2, false);
  ("txn", "FreezeAssetAccount", 46, 2, false);
  ("txn", "FreezeAssetFrozen", 47, 2, false);
  ("txn", "NumAssets", 49, 3, false);
  ("txn", "NumApplications", 51, 3, false);
  ("txn", "GlobalNumUint", 52, 3, false);
  ("txn", "GlobalNumByteSlice", 53, 3, false);
  ("txn", "LocalNumUint", 54, 3, false);
  ("txn", "LocalNumByteSlice", 55, 3, false);
  ("txn", "ExtraProgramPages", 56, 4, false);
  ("txn", "Nonparticipation", 57, 5, false);
  ("txn", "NumLogs", 59, 5, true);
  ("txn", "CreatedAssetID", 60, 5, true);
  ("txn", "CreatedApplicationID", 61, 5, true);
  ("txn", "LastLog", 62, 6, true);
  ("txn", "StateProofPK", 63, 6, false);
  ("txn", "NumApprovalProgramPages", 65, 7, false);
  ("txn", "NumClearStateProgramPages", 67, 7, false);
  ("txn", "RejectVersion", 68, 12, false);
  ("global", "MinTxnFee", 0, 0, false);
  ("global", "MinBalance", 1, 0, false);
  ("global", "MaxTxnLife", 2, 0, false);
  ("global", "ZeroAddress", 3, 0, false);
  ("global", "GroupSize", 4, 0, false);
  ("global", "LogicSigVersion", 5, 2, false);  (* cx.Proto constant *)
  ("global", "Round", 6, 2, true);  (* cx.getRound() -> cx.Ledger.Round(): LedgerForLogic, nil for LogicSigs *)
  ("global", "LatestTimestamp", 7, 2, true);  (* cx.Ledger.PrevTimestamp(): LedgerForLogic *)
  ("global", "CurrentApplicationID", 8, 2, true);  (* cx.appID: application-call context *)
  ("global", "CreatorAddress", 9, 3, true);  (* creator of the current app, read from the ledger *)
  ("global", "CurrentApplicationAddress", 10, 5, true);  (* address of the current app *)
  ("global", "GroupID", 11, 5, false);  (* txn.Group of the transaction itself: available to both modes *)
  ("global", "OpcodeBudget", 12, 6, false);  (* cx.remainingBudget(): defined for both modes *)
  ("global", "CallerApplicationID", 13, 6, true);  (* cx.caller: inner application-call context *)
  ("global", "CallerApplicationAddress", 14, 6, true);  (* cx.caller: inner application-call context *)
  ("global", "AssetCreateMinBalance", 15, 10, false);
  ("global", "AssetOptInMinBalance", 16, 10, false);
  ("global", "GenesisHash", 17, 10, false);  (* SigLedger.GenesisHash(): LedgerForSignature, both modes *)
  ("global", "PayoutsEnabled", 18, 11, false);
  ("global", "PayoutsGoOnlineFee", 19, 11, false);
  ("global", "PayoutsPercent", 20, 11, false);
  ("global", "PayoutsMinBalance", 21, 11, false);
  ("global", "PayoutsMaxBalance", 22, 11, false);
  ("txna", "ApplicationArgs", 26, 2, false);
  ("txna", "Accounts", 28, 2, false);
  ("txna", "Assets", 48, 3, false);
  ("txna", "Applications", 50, 3, false);
  ("txna", "Logs", 58, 5, true);
  ("txna", "ApprovalProgramPages", 64, 7, false);
  ("txna", "ClearStateProgramPages", 66, 7, false);
  ("base64", "URLEncoding", 0, 6, false);
  ("base64", "StdEncoding", 1, 6, false);
  ("json_ref", "JSONString", 0, 7, false);
  ("json_ref", "JSONUint64", 1, 7, false);
  ("json_ref", "JSONObject", 2, 7, false);
  ("asset_holding", "AssetBalance", 0, 2, true);
  ("asset_holding", "AssetFrozen", 1, 2, true);
  ("asset_params", "AssetTotal", 0, 2, true);
  ("asset_params", "AssetDecimals", 1, 2, true);
  ("asset_params", "AssetDefaultFrozen", 2, 2, true);
  ("asset_params", "AssetUnitName", 3, 2, true);
  ("asset_params", "AssetName", 4, 2, true);
  ("asset_params", "AssetURL", 5, 2, true);
  ("asset_params", "AssetMetadataHash", 6, 2, true);
  ("asset_params", "AssetManager", 7, 2, true);
  ("asset_params", "AssetReserve", 8, 2, true);
  ("asset_params", "AssetFreeze", 9, 2, true);
  ("asset_params", "AssetClawback", 10, 2, true);
  ("asset_params", "AssetCreator", 11, 5, true);
  ("app_params", "AppApprovalProgram", 0, 5, true);
  ("app_params", "AppClearStateProgram", 1, 5, true);
  ("app_params", "AppGlobalNumUint", 2, 5, true);
  ("app_params", "AppGlobalNumByteSlice", 3, 5, true);
  ("app_params", "AppLocalNumUint", 4, 5, true);
  ("app_params", "AppLocalNumByteSlice", 5, 5, true);
  ("app_params", "AppExtraProgramPages", 6, 5, true);
  ("app_params", "AppCreator", 7, 5, true);
  ("app_params", "AppAddress", 8, 5, true);
  ("app_params", "AppVersion", 9, 12, true);
  ("app_params", "AppSizeSponsor", 10, 13, true);
  ("app_params", "AppForeignBoxReads", 11, 13, true);
  ("app_params", "AppFamilyBoxAccess", 12, 13, true);
  ("acct_params", "AcctBalance", 0, 6, true);
  ("acct_params", "AcctMinBalance", 1, 6, true);
  ("acct_params", "AcctAuthAddr", 2, 6, true);
  ("acct_params", "AcctTotalNumUint", 3, 8, true);
  ("acct_params", "AcctTotalNumByteSlice", 4, 8, true);
  ("acct_params", "AcctTotalExtraAppPages", 5, 8, true);
  ("acct_params", "AcctTotalAppsCreated", 6, 8, true);
  ("acct_params", "AcctTotalAppsOptedIn", 7, 8, true);
  ("acct_params", "AcctTotalAssetsCreated", 8, 8, true);
  ("acct_params", "AcctTotalAssets", 9, 8, true);
  ("acct_params", "AcctTotalBoxes", 10, 8, true);
  ("acct_params", "AcctTotalBoxBytes", 11, 8, true);
  ("acct_params", "AcctIncentiveEligible", 12, 11, true);
  ("acct_params", "AcctLastProposed", 13, 11, true);
  ("acct_params", "AcctLastHeartbeat", 14, 11, true);
  ("voter_params", "VoterBalance", 0, 11, true);
  ("voter_params", "VoterIncentiveEligible", 1, 11, true);
  ("app_params_set", "AppForeignBoxReads", 11, 13, true);
  ("app_params_set", "AppFamilyBoxAccess", 12, 13, true);
  ("txn", "ApplicationArgs", 26, 2, false);
  ("txn", "Accounts", 28, 2, false);
  ("txn", "Assets", 48, 3, false);
  ("txn", "Applications", 50, 3, false);
  ("txn", "Logs", 58, 5, true);
  ("txn", "ApprovalProgramPages", 64, 7, false);
  ("txn", "ClearStateProgramPages", 66, 7, false);
  ("vrf_verify", "VrfAlgorand", 0, 7, false);
  ("block", "BlkSeed", 0, 7, false);
  ("block", "BlkTimestamp", 1, 7, false);
  ("block", "BlkProposer", 2, 11, false);
  ("block", "BlkFeesCollected", 3, 11, false);
  ("block", "BlkBonus", 4, 11, false);
  ("block", "BlkBranch", 5, 11, false);
  ("block", "BlkFeeSink", 6, 11, false);
  ("block", "BlkProtocol", 7, 11, false);
  ("block", "BlkTxnCounter", 8, 11, false);
  ("block", "BlkProposerPayout", 9, 11, false);
  ("block", "BlkBranch512", 10, 13, false);
  ("block", "BlkSha512_256TxnCommitment", 11, 13, false);
  ("block", "BlkSha256TxnCommitment", 12, 13, false);
  ("block", "BlkSha512TxnCommitment", 13, 13, false);
  ("EC", "BN254g1", 0, 10, false);
  ("EC", "BN254g2", 1, 10, false);
  ("EC", "BLS12_381g1", 2, 10, false);
  ("EC", "BLS12_381g2", 3, 10, false);
  ("MimcConfigurations", "BN254Mp110", 0, 11, false);
  ("MimcConfigurations", "BLS12_381Mp111", 1, 11, false);
  ("Poseidon2 Configurations", "BN254t2", 0, 13, false);
  ("Poseidon2 Configurations", "BLS12_381t2", 1, 13, false);
  ("itxn_field", "Sender", 0, 5, false);
  ("itxn_field", "Fee", 1, 5, false);
  ("itxn_field", "Note", 5, 6, false);
  ("itxn_field", "Receiver", 7, 5, false);
  ("itxn_field", "Amount", 8, 5, false);
  ("itxn_field", "CloseRemainderTo", 9, 5, false);
  ("itxn_field", "VotePK", 10, 6, false);
  ("itxn_field", "SelectionPK", 11, 6, false);
  ("itxn_field", "VoteFirst", 12, 6, false);
  ("itxn_field", "VoteLast", 13, 6, false);
  ("itxn_field", "VoteKeyDilution", 14, 6, false);
  ("itxn_field", "Type", 15, 5, false);
  ("itxn_field", "TypeEnum", 16, 5, false);
  ("itxn_field", "XferAsset", 17, 5, false);
  ("itxn_field", "AssetAmount", 18, 5, false);
  ("itxn_field", "AssetSender", 19, 5, false);
  ("itxn_field", "AssetReceiver", 20, 5, false);
  ("itxn_field", "AssetCloseTo", 21, 5, false);
  ("itxn_field", "ApplicationID", 24, 6, false);
  ("itxn_field", "OnCompletion", 25, 6, false);
  ("itxn_field", "ApplicationArgs", 26, 6, false);
  ("itxn_field", "Accounts", 28, 6, false);
  ("itxn_field", "ApprovalProgram", 30, 6, false);
  ("itxn_field", "ClearStateProgram", 31, 6, false);
  ("itxn_field", "RekeyTo", 32, 6, false);
  ("itxn_field", "ConfigAsset", 33, 5, false);
  ("itxn_field", "ConfigAssetTotal", 34, 5, false);
  ("itxn_field", "ConfigAssetDecimals", 35, 5, false);
  ("itxn_field", "ConfigAssetDefaultFrozen", 36, 5, false);
  ("itxn_field", "ConfigAssetUnitName", 37, 5, false);
  ("itxn_field", "ConfigAssetName", 38, 5, false);
  ("itxn_field", "ConfigAssetURL", 39, 5, false);
  ("itxn_field", "ConfigAssetMetadataHash", 40, 5, false);
  ("itxn_field", "ConfigAssetManager", 41, 5, false);
  ("itxn_field", "ConfigAssetReserve", 42, 5, false);
  ("itxn_field", "ConfigAssetFreeze", 43, 5, false);
  ("itxn_field", "ConfigAssetClawback", 44, 5, false);
  ("itxn_field", "FreezeAsset", 45, 5, false);
  ("itxn_field", "FreezeAssetAccount", 46, 5, false);
  ("itxn_field", "FreezeAssetFrozen", 47, 5, false);
  ("itxn_field", "Assets", 48, 6, false);
  ("itxn_field", "Applications", 50, 6, false);
  ("itxn_field", "GlobalNumUint", 52, 6, false);
  ("itxn_field", "GlobalNumByteSlice", 53, 6, false);
  ("itxn_field", "LocalNumUint", 54, 6, false);
  ("itxn_field", "LocalNumByteSlice", 55, 6, false);
  ("itxn_field", "ExtraProgramPages", 56, 6, false);
  ("itxn_field", "Nonparticipation", 57, 6, false);
  ("itxn_field", "StateProofPK", 63, 6, false);
  ("itxn_field", "ApprovalProgramPages", 64, 7, false);
  ("itxn_field", "ClearStateProgramPages", 66, 7, false);
  ("itxn_field", "RejectVersion", 68, 12, false)].
