(* C26: the property stated over histories (votes + observed upgrade states), its executable
   form [spec_ok_hist] that is evaluated on the IMPLEMENTATION's observed states, and the
   line-protocol [check].  The history predicates never call [step]: they only relate the
   observed states to the votes and to the consensus table.  No proofs in this file. *)
From Coq Require Import NArith ZArith List Bool String.
From Verif.lib Require Import Term.
From Verif.model Require Import Upgrade.
Import ListNotations.
Open Scope N_scope.

(* ---------- the property over a history ----------
   vs   : the votes of the blocks of rounds r0, r0+1, ...
   bef  : the upgrade state BEFORE each block (bef[0] = the starting state), so bef = s0 :: sts
   sts  : the upgrade state in each block header                                              *)
Fixpoint count_approve (vs : list vote) : N :=
  match vs with
  | [] => 0
  | v :: rest => (if v_approve v then 1 else 0) + count_approve rest
  end.

(* the votes cast in rounds [p, p + UpgradeVoteRounds) where p is the round of block j *)
Definition window (P : uparams) (j : nat) (vs : list vote) : list vote :=
  firstn (N.to_nat (up_voteRounds P)) (skipn j vs).

(* Block k changed the protocol from [us_current s] to [us_current s'].  Justified when: some
   block j <= k proposed exactly that protocol while nothing was pending, with a permitted
   delay; k is exactly the announced round (proposal round + vote rounds + effective delay);
   at least UpgradeThreshold of the blocks in the voting window approved; and every header
   in between carried that proposal with that deadline and that switch round, under the
   unchanged current protocol (so nothing else happened in between). *)
Definition switch_justified (cons : consensus) (r0 : N) (vs : list vote) (bef : list ustate)
           (k : nat) (s s' : ustate) : Prop :=
  exists j vp P,
    (j <= k)%nat /\ nth_error vs j = Some vp /\ cons (us_current s) = Some P /\
    v_propose vp = us_current s' /\ v_propose vp <> [] /\
    up_minwait P <= v_delay vp /\ v_delay vp <= up_maxwait P /\
    N.of_nat k = N.of_nat j + up_voteRounds P + eff_delay P (v_delay vp) /\
    up_threshold P <= count_approve (window P j vs) /\
    (forall sj, nth_error bef j = Some sj ->
        us_next sj = [] /\ us_current sj = us_current s) /\
    (forall i si, (j < i <= k)%nat -> nth_error bef i = Some si ->
        us_current si = us_current s /\ us_next si = v_propose vp /\
        us_voteBefore si = r0 + N.of_nat j + up_voteRounds P /\
        us_switchOn si = r0 + N.of_nat k).

(* the whole property on a history *)
Definition hist_ok (cons : consensus) (r0 : N) (s0 : ustate) (vs : list vote) (sts : list ustate)
  : Prop :=
  forall k s s' v,
    nth_error (s0 :: sts) k = Some s -> nth_error sts k = Some s' -> nth_error vs k = Some v ->
    (* the protocol changes only at an announced, approved switch *)
    (us_current s' <> us_current s -> switch_justified cons r0 vs (s0 :: sts) k s s') /\
    (* at most one proposal pending: a proposal is only accepted when none is pending ... *)
    (v_propose v <> [] -> us_next s = []) /\
    (* ... and a pending proposal's announcement never changes while it stays pending *)
    (us_next s <> [] -> us_next s' <> [] ->
       us_next s' = us_next s /\ us_voteBefore s' = us_voteBefore s /\
       us_switchOn s' = us_switchOn s /\ us_current s' = us_current s).

(* ---------- the same, executable ---------- *)
Definition justified_by_b (cons : consensus) (r0 : N) (vs : list vote) (bef : list ustate)
           (k : nat) (s s' : ustate) (j : nat) : bool :=
  match nth_error vs j, cons (us_current s) with
  | Some vp, Some P =>
      ver_eqb (v_propose vp) (us_current s') && negb (ver_empty (v_propose vp)) &&
      (up_minwait P <=? v_delay vp) && (v_delay vp <=? up_maxwait P) &&
      (N.of_nat k =? N.of_nat j + up_voteRounds P + eff_delay P (v_delay vp)) &&
      (up_threshold P <=? count_approve (window P j vs)) &&
      (match nth_error bef j with
       | Some sj => ver_empty (us_next sj) && ver_eqb (us_current sj) (us_current s)
       | None => true end) &&
      forallb (fun i =>
                 match nth_error bef i with
                 | Some si =>
                     ver_eqb (us_current si) (us_current s) && ver_eqb (us_next si) (v_propose vp) &&
                     (us_voteBefore si =? r0 + N.of_nat j + up_voteRounds P) &&
                     (us_switchOn si =? r0 + N.of_nat k)
                 | None => true
                 end) (seq (S j) (k - j))
  | _, _ => false
  end.

Definition switch_justified_b cons r0 vs bef k s s' : bool :=
  existsb (justified_by_b cons r0 vs bef k s s') (seq 0 (S k)).

Definition block_ok_b cons r0 vs bef k (s s' : ustate) (v : vote) : bool :=
  (ver_eqb (us_current s') (us_current s) || switch_justified_b cons r0 vs bef k s s') &&
  (ver_empty (v_propose v) || ver_empty (us_next s)) &&
  (ver_empty (us_next s) || ver_empty (us_next s') ||
   (ver_eqb (us_next s') (us_next s) && (us_voteBefore s' =? us_voteBefore s) &&
    (us_switchOn s' =? us_switchOn s) && ver_eqb (us_current s') (us_current s))).

Definition spec_ok_hist (cons : consensus) (r0 : N) (s0 : ustate) (vs : list vote)
           (sts : list ustate) : bool :=
  Nat.eqb (List.length sts) (List.length vs) &&
  forallb (fun k =>
             match nth_error (s0 :: sts) k, nth_error sts k, nth_error vs k with
             | Some s, Some s', Some v => block_ok_b cons r0 vs (s0 :: sts) k s s' v
             | _, _, _ => false
             end) (seq 0 (List.length vs)).

(* ---------- well-formedness hypotheses of the theorems ---------- *)
Definition quiescent (s : ustate) : Prop :=
  us_next s = [] /\ us_approvals s = 0 /\ us_voteBefore s = 0 /\ us_switchOn s = 0.

(* every supported parameter set keeps  vote rounds + wait  below B; with
   r0 + length + B < 2^64 no round computation of the history wraps *)
Definition wf_cons (cons : consensus) (B : N) : Prop :=
  forall v P, cons v = Some P ->
    up_voteRounds P + up_maxwait P <= B /\ up_voteRounds P + up_defwait P <= B.

(* a state in the middle of a vote, about to process round r: a proposal is pending under
   parameters P, its deadline is not after its switch round, the switch round is still ahead,
   and once the deadline has passed the threshold was reached *)
Definition PendingOK (cons : consensus) (s : ustate) (r : N) (P : uparams) : Prop :=
  us_next s <> [] /\ cons (us_current s) = Some P /\
  us_voteBefore s <= us_switchOn s /\ r <= us_switchOn s /\ us_switchOn s < W /\
  us_approvals s <= r /\
  (us_voteBefore s < r -> up_threshold P <= us_approvals s).

(* the switch at block k is the switch of the proposal that was already pending in [s] *)
Definition concl_pending (r : N) (vs : list vote) (s : ustate) (bef : list ustate)
           (k : nat) (sk' : ustate) (P : uparams) : Prop :=
  r + N.of_nat k = us_switchOn s /\ us_current sk' = us_next s /\
  up_threshold P <=
    us_approvals s + count_approve (firstn (N.to_nat (us_voteBefore s - r)) vs) /\
  (forall i si, (i <= k)%nat -> nth_error bef i = Some si ->
     us_current si = us_current s /\ us_next si = us_next s /\
     us_voteBefore si = us_voteBefore s /\ us_switchOn si = us_switchOn s).


(* ---------- one-step rules checked on single-step observations from ARBITRARY states ----------
   (local, hold without any invariant): an accepted proposal found nothing pending; the
   protocol can only become the pending or the proposed one *)
Definition step_rules_b (s : ustate) (v : vote) (o : ures) : bool :=
  match o with
  | UErr _ => true
  | UOk s' =>
      (ver_empty (v_propose v) || ver_empty (us_next s)) &&
      (ver_eqb (us_current s') (us_current s) || ver_eqb (us_current s') (us_next s) ||
       ver_eqb (us_current s') (v_propose v))
  end.

(* ---------- line protocol ---------- *)
Definition cons_of (tbl : list (ver * uparams)) : consensus :=
  fun v => match find (fun e => ver_eqb (fst e) v) tbl with
           | Some e => Some (snd e)
           | None => None
           end.

Definition p_entry (t : term) : option (ver * uparams) :=
  match t with
  | TL [TB v; TZ vr; TZ th; TZ df; TZ mn; TZ mx; TZ ml] =>
      if (0 <=? vr)%Z && (0 <=? th)%Z && (0 <=? df)%Z && (0 <=? mn)%Z && (0 <=? mx)%Z
      then Some (v, mkUP (Z.to_N vr) (Z.to_N th) (Z.to_N df) (Z.to_N mn) (Z.to_N mx) ml)
      else None
  | _ => None
  end.

Definition p_cons (t : term) : option (list (ver * uparams)) :=
  match t with TL l => map_opt p_entry l | _ => None end.

Definition lt64 (x : N) : bool := x <? 2 ^ 64.

Definition p_state (t : term) : option ustate :=
  match t with
  | TL [TB c; TB n; TZ a; TZ vb; TZ so] =>
      if (0 <=? a)%Z && (0 <=? vb)%Z && (0 <=? so)%Z &&
         lt64 (Z.to_N a) && lt64 (Z.to_N vb) && lt64 (Z.to_N so)
      then Some (mkUS c n (Z.to_N a) (Z.to_N vb) (Z.to_N so)) else None
  | _ => None
  end.

Definition p_vote (t : term) : option vote :=
  match t with
  | TL [TB p; TZ d; TZ a] =>
      if (0 <=? d)%Z && lt64 (Z.to_N d) && ((a =? 0) || (a =? 1))%Z
      then Some (mkV p (Z.to_N d) (a =? 1)%Z) else None
  | _ => None
  end.

Definition p_round (t : term) : option N :=
  match t with
  | TZ r => if (0 <=? r)%Z && lt64 (Z.to_N r) then Some (Z.to_N r) else None
  | _ => None
  end.

Definition t_state (s : ustate) : term :=
  TL [TB (us_current s); TB (us_next s); tn (us_approvals s); tn (us_voteBefore s); tn (us_switchOn s)].

Definition err_sym (e : uerr) : string :=
  match e with
  | EUnsupported => "unsupported"
  | EProposalDuringProposal => "during"
  | ETooLong => "toolong"
  | EDelayRange => "range"
  | EDelayNonzero => "nonzero"
  | EApproveNoProposal => "noproposal"
  | EApproveLate => "late"
  end%string.

Definition t_ures (o : ures) : term :=
  match o with
  | UOk s => TL [TS "ok"; t_state s]
  | UErr e => TL [TS "err"; TS (err_sym e)]
  end.

Definition all_errs : list uerr :=
  [EUnsupported; EProposalDuringProposal; ETooLong; EDelayRange; EDelayNonzero;
   EApproveNoProposal; EApproveLate].

Definition p_ures (t : term) : option ures :=
  match t with
  | TL [TS "ok"; st] => match p_state st with Some s => Some (UOk s) | None => None end
  | TL [TS "err"; TS e] =>
      match find (fun x => String.eqb (err_sym x) e) all_errs with
      | Some x => Some (UErr x)
      | None => None
      end
  | _ => None
  end.

Definition t_pre (p : pre_res) : term :=
  match p with
  | PreOk => TS "ok"
  | PreUnsupported => TS "unsupported"
  | PreBadRound => TS "badround"
  | PreMismatch => TS "mismatch"
  | PreUpgradeErr e => TL [TS "uerr"; TS (err_sym e)]
  end.

Definition t_states (o : option (list ustate)) : term :=
  match o with
  | Some l => TL (map t_state l)
  | None => TS "rejected"
  end.

Definition is_ok (t : term) : bool := term_eqb t (TS "ok").

Definition check (t : term) : term :=
  match t with
  (* (hist CONS S0 r0 (VOTE...) (STATE...)): a chain of accepted blocks *)
  | TL [TS "hist"; tc; ts0; tr0; TL tvs; TL tsts] =>
      match p_cons tc, p_state ts0, p_round tr0, map_opt p_vote tvs, map_opt p_state tsts with
      | Some tbl, Some s0, Some r0, Some vs, Some sts =>
          let cons := cons_of tbl in
          let m := trace cons s0 r0 vs in
          let switches :=
            existsb (fun p => negb (ver_eqb (us_current (fst p)) (us_current (snd p))))
                    (combine (s0 :: sts) sts) in
          verdict (spec_ok_hist cons r0 s0 vs sts)
                  (term_eqb (TL tsts) (t_states m))
                  (switches || existsb (fun v => negb (ver_empty (v_propose v))) vs)
                  (t_states m)
      | _, _, _, _, _ => v_parse
      end
  (* (step CONS S r VOTE RES): one call of applyUpgradeVote from an arbitrary state *)
  | TL [TS "step"; tc; ts; tr; tv; tres] =>
      match p_cons tc, p_state ts, p_round tr, p_vote tv, p_ures tres with
      | Some tbl, Some s, Some r, Some v, Some o =>
          let m := step (cons_of tbl) s r v in
          verdict (step_rules_b s v o) (term_eqb tres (t_ures m))
                  (match m with UOk s' => negb (ustate_eqb s' s) | UErr _ => true end)
                  (t_ures m)
      | _, _, _, _, _ => v_parse
      end
  (* (pre CONS prevRound PREVSTATE hdrRound VOTE HDRSTATE IMPLSTEP OBS): PreCheck.
     IMPLSTEP is what the implementation's own applyUpgradeVote returned for
     (PREVSTATE, prevRound+1, VOTE).  Property: a header is accepted only if its round is the
     successor round and its upgrade state IS that result. *)
  | TL [TS "pre"; tc; tpr; tps; thr; tv; ths; timpl; obs] =>
      match p_cons tc, p_round tpr, p_state tps, p_round thr, p_vote tv, p_state ths, p_ures timpl with
      | Some tbl, Some pr, Some ps, Some hr, Some v, Some hs, Some impl =>
          let m := precheck (cons_of tbl) (mkUH pr (mkV [] 0 false) ps) (mkUH hr v hs) in
          let accepted := is_ok obs in
          let follows := (hr =? wadd pr 1) &&
                         match impl with UOk s' => ustate_eqb s' hs | UErr _ => false end in
          verdict (negb accepted || follows) (term_eqb obs (t_pre m)) true (t_pre m)
      | _, _, _, _, _, _, _ => v_parse
      end
  | _ => v_parse
  end.
