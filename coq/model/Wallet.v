(* C46 model of daemon/kmd/wallet/driver/sqlite.go (+ sqlite_crypto.go): one SQLite wallet
   database together with the one handle (a SQLiteWallet value) the operations go through.

   State = the database rows plus the two handle fields the code branches on:
     keys    : table `keys`      (address PRIMARY KEY, secret key, key_idx or NULL), insertion order
     msigs   : table `msig_addrs`(address PRIMARY KEY, preimage)
     maxidx  : metadata.max_key_idx_encrypted (decrypted)
     pwh     : what unlocks metadata.mep_encrypted: the slow KDF of the creation password
     mdk     : metadata.mdk_encrypted (decrypted)
     name    : metadata.wallet_name
     hpw     : the handle's walletPasswordHash (Some = Init succeeded on this handle, which then
               also holds masterEncryptionKey/masterDerivationKey; None = fresh handle)

   Abstracted as Section variables (external behaviour, never unfolded):
     derive m i   the ed25519 seed HKDF-Expand(SHA-512/256, m, "AlgorandDeterministicKey-<i>")
                  that extractKeyWithIndex reads from the keystream
     addr k       the address (= public key) GenerateSignatureSecrets(k) yields
     maddr p      crypto.MultisigAddrGen of a preimage (None = it returns an error)
     kdf pw       the slow path: Init, CheckPassword on a fresh handle and RenameWallet (which
                  fetches a fresh handle) succeed iff secretbox.Open of the master key under
                  scrypt(pw, salt) succeeds: modelled as [kdf pw] = [kdf] of the creation
                  password (salt, scrypt, secretbox are assumed, not modelled).  NOTE: scrypt is
                  PBKDF2-HMAC-SHA256 and HMAC zero-pads its key, so the real [kdf] is NOT
                  injective: pw and pw followed by 0x00 bytes coincide (finding
                  c46_password_trailing_nul; see WalletSpec.hmac_key).
     kdff pw      the fast path: an initialised handle compares fastHashWithSalt(pw, salt) with
                  the hash of the password Init succeeded with (salted SHA-512/256: assumed
                  injective).
     mdk0         the all-zero MasterDerivationKey (what ExportMasterDerivationKey copies out
                  of a nil slice on a handle that was never initialised)
   SQLite is modelled by its contract: INSERT into a table with a PRIMARY KEY fails with a
   constraint error when the key is present (checkDBError -> errKeyExists), DELETE of an
   absent row succeeds, a rolled-back transaction leaves no trace.

   Go uint64 arithmetic is explicit where the code computes (highestIndex + 1, nextIndex++).
   The skip loop of generateKeyTxLocked is unbounded in Go; here it runs on fuel
   [S (length keys)] and returns [GOutOfFuel] beyond (proved unreachable when addr o derive m is
   injective: WalletProofs.gen_search_fuel_enough).  No proofs here. *)
From Coq Require Import NArith List Bool.
Import ListNotations.
Open Scope N_scope.

Definition W64 : N := 18446744073709551616.            (* 2^64 *)
Definition sqliteIntOverflow : N := 9223372036854775808. (* 1 << 63 *)
Definition w64add (a b : N) : N := (a + b) mod W64.

Fixpoint seqN (a : N) (len : nat) : list N :=
  match len with O => [] | S l => a :: seqN (a + 1) l end.

Inductive err : Type :=
| EDecrypt        (* errDecrypt         "error decrypting. wrong password?" *)
| EDeriveKey      (* errDeriveKey       key of the wrong length (handle not initialised) *)
| EKeyExists      (* errKeyExists       constraint violation on INSERT *)
| EKeyNotFound    (* errKeyNotFound *)
| ENoMnemonicUX   (* errNoMnemonicUX *)
| ETooManyKeys    (* errTooManyKeys *)
| ESameName       (* errSameName *)
| EMsig           (* error of crypto.MultisigAddrGen *)
| EOutOfFuel.     (* model artefact: the skip loop ran out of fuel (proved unreachable) *)

Inductive gsearch : Type := GFound (n : N) | GTooMany | GOutOfFuel.

Section Wallet.
  Variables A K M P H F Nm PW : Type.
  Variable A_eqb : A -> A -> bool.
  Variable H_eqb : H -> H -> bool.
  Variable F_eqb : F -> F -> bool.
  Variable Nm_eqb : Nm -> Nm -> bool.
  Variable derive : M -> N -> K.
  Variable addr : K -> A.
  Variable maddr : P -> option A.
  Variable kdf : PW -> H.
  Variable kdff : PW -> F.
  Variable mdk0 : M.

  Record state : Type := mkSt {
    keys : list (A * K * option N);
    msigs : list (A * P);
    maxidx : N;
    pwh : H;
    mdk : M;
    name : Nm;
    hpw : option F }.

  Definition inited (s : state) : bool := match hpw s with Some _ => true | None => false end.

  Inductive op : Type :=
  | OReopen                         (* driver.FetchWallet: a new handle on the same database *)
  | OInit (pw : PW)
  | OCheckPw (pw : PW)
  | OGenerate (displayMnemonic : bool)
  | OImport (k : K)                 (* ImportKey: only the seed half of the raw key is used *)
  | OExport (a : A) (pw : PW)
  | ODelete (a : A) (pw : PW)
  | OExportMDK (pw : PW)
  | OSign (a : A) (pw : PW)         (* SignProgram; the signature itself is not modelled *)
  | ORename (nm : Nm) (pw : PW)     (* driver.RenameWallet (this wallet alone in its directory) *)
  | OImportMsig (p : P)
  | ODeleteMsig (a : A) (pw : PW).

  Inductive res : Type :=
  | ROk
  | RAddr (a : A)
  | RKey (k : K)
  | RMdk (m : M)
  | RErr (e : err).

  (* CreateWallet(name, id, pw, mdk) followed by FetchWallet(id) *)
  Definition create (m : M) (pw : PW) (nm : Nm) : state :=
    mkSt [] [] 0 (kdf pw) m nm None.

  Definition key_addr (r : A * K * option N) : A := fst (fst r).
  Definition key_sk (r : A * K * option N) : K := snd (fst r).
  Definition key_idx (r : A * K * option N) : option N := snd r.
  Definition addrs (s : state) : list A := map key_addr (keys s).
  Definition maddrs (s : state) : list A := map fst (msigs s).

  Definition memA (a : A) (l : list A) : bool := existsb (A_eqb a) l.
  Definition find_key (a : A) (l : list (A * K * option N)) : option (A * K * option N) :=
    find (fun r => A_eqb a (key_addr r)) l.
  Definition del_key (a : A) (l : list (A * K * option N)) : list (A * K * option N) :=
    filter (fun r => negb (A_eqb a (key_addr r))) l.
  Definition del_msig (a : A) (l : list (A * P)) : list (A * P) :=
    filter (fun r => negb (A_eqb a (fst r))) l.

  (* decryptAndGetMasterKey succeeds *)
  Definition slow_ok (s : state) (pw : PW) : bool := H_eqb (kdf pw) (pwh s).
  (* CheckPassword *)
  Definition pw_ok (s : state) (pw : PW) : bool :=
    match hpw s with
    | Some h => F_eqb (kdff pw) h
    | None => slow_ok s pw
    end.

  (* the `for` loop of generateKeyTxLocked, entered with nextIndex = n *)
  Fixpoint gen_search (fuel : nat) (m : M) (present : list A) (n : N) : gsearch :=
    match fuel with
    | O => GOutOfFuel
    | S f =>
        if n =? sqliteIntOverflow then GTooMany
        else if memA (addr (derive m n)) present then gen_search f m present (w64add n 1)
        else GFound n
    end.

  Definition set_keys (s : state) (l : list (A * K * option N)) (mx : N) : state :=
    mkSt l (msigs s) mx (pwh s) (mdk s) (name s) (hpw s).
  Definition set_msigs (s : state) (l : list (A * P)) : state :=
    mkSt (keys s) l (maxidx s) (pwh s) (mdk s) (name s) (hpw s).
  Definition set_hpw (s : state) (h : option F) : state :=
    mkSt (keys s) (msigs s) (maxidx s) (pwh s) (mdk s) (name s) h.
  Definition set_name (s : state) (nm : Nm) : state :=
    mkSt (keys s) (msigs s) (maxidx s) (pwh s) (mdk s) nm (hpw s).

  (* fetchSecretKey on this handle (the tampering checks cannot fire on rows this code wrote) *)
  Definition fetch (s : state) (a : A) : err + K :=
    match find_key a (keys s) with
    | None => inl EKeyNotFound
    | Some r => if inited s then inr (key_sk r) else inl EDeriveKey
    end.

  Definition step (s : state) (o : op) : state * res :=
    match o with
    | OReopen => (set_hpw s None, ROk)
    | OInit pw =>                       (* always the slow path, also on an initialised handle *)
        if slow_ok s pw then (set_hpw s (Some (kdff pw)), ROk) else (s, RErr EDecrypt)
    | OCheckPw pw =>
        if pw_ok s pw then (s, ROk) else (s, RErr EDecrypt)
    | OGenerate dm =>
        if dm then (s, RErr ENoMnemonicUX)
        else if negb (inited s) then (s, RErr EDeriveKey)   (* decrypt of max_key_idx with a nil key *)
        else
          match gen_search (S (length (keys s))) (mdk s) (addrs s) (w64add (maxidx s) 1) with
          | GFound n =>
              let k := derive (mdk s) n in
              (set_keys s (keys s ++ [(addr k, k, Some n)]) n, RAddr (addr k))
          | GTooMany => (s, RErr ETooManyKeys)
          | GOutOfFuel => (s, RErr EOutOfFuel)
          end
    | OImport k =>
        if negb (inited s) then (s, RErr EDeriveKey)         (* encryptBlobWithKey with a nil key *)
        else if memA (addr k) (addrs s) then (s, RErr EKeyExists)
        else (set_keys s (keys s ++ [(addr k, k, None)]) (maxidx s), RAddr (addr k))
    | OExport a pw =>
        if negb (pw_ok s pw) then (s, RErr EDecrypt)
        else match fetch s a with inl e => (s, RErr e) | inr k => (s, RKey k) end
    | ODelete a pw =>
        if negb (pw_ok s pw) then (s, RErr EDecrypt)
        else (set_keys s (del_key a (keys s)) (maxidx s), ROk)
    | OExportMDK pw =>
        if negb (pw_ok s pw) then (s, RErr EDecrypt)
        else (s, RMdk (if inited s then mdk s else mdk0))
    | OSign a pw =>
        if negb (pw_ok s pw) then (s, RErr EDecrypt)
        else match fetch s a with inl e => (s, RErr e) | inr _ => (s, ROk) end
    | ORename nm pw =>
        if Nm_eqb nm (name s) then (s, RErr ESameName)      (* findDBPathsByName finds the wallet itself *)
        else if negb (slow_ok s pw) then (s, RErr EDecrypt)   (* CheckPassword on a fresh handle *)
        else (set_name s nm, ROk)
    | OImportMsig p =>
        match maddr p with
        | None => (s, RErr EMsig)
        | Some a =>
            if memA a (maddrs s) then (s, RErr EKeyExists)
            else (set_msigs s (msigs s ++ [(a, p)]), RAddr a)
        end
    | ODeleteMsig a pw =>
        if negb (pw_ok s pw) then (s, RErr EDecrypt)
        else (set_msigs s (del_msig a (msigs s)), ROk)
    end.

  Fixpoint run (s : state) (ops : list op) : state :=
    match ops with
    | [] => s
    | o :: rest => run (fst (step s o)) rest
    end.

  (* the operations whose effect/result is guarded by CheckPassword *)
  Definition op_pw (o : op) : option PW :=
    match o with
    | OInit pw | OCheckPw pw | OExport _ pw | ODelete _ pw | OExportMDK pw | OSign _ pw
    | ORename _ pw | ODeleteMsig _ pw => Some pw
    | _ => None
    end.

  Definition is_err (r : res) : bool := match r with RErr _ => true | _ => false end.

  (* the rows present without a derivation index: imported keys *)
  Definition imported (s : state) : list A :=
    map key_addr (filter (fun r => match key_idx r with None => true | Some _ => false end) (keys s)).

  (* one successful GenerateKey: the state it ran in, the index it stored, the address returned *)
  Record gen_event : Type := mkGen { g_pre : state; g_idx : N; g_addr : A }.

  Fixpoint gen_trace (s : state) (ops : list op) : list gen_event :=
    match ops with
    | [] => []
    | o :: rest =>
        let '(s', r) := step s o in
        match o, r with
        | OGenerate _, RAddr a => mkGen s (maxidx s') a :: gen_trace s' rest
        | _, _ => gen_trace s' rest
        end
    end.
  (* the statement about the generated keys of a run (C46_generated_are_derived): the events
     chain from index [lo] to [hi]; every one returns addr (derive m n) for an index n above
     the previous one, the address was not in the wallet, and every index skipped in between
     was at that moment the address of an imported row *)
  Fixpoint gen_chain (m : M) (lo : N) (l : list gen_event) (hi : N) : Prop :=
    match l with
    | [] => lo = hi
    | e :: t =>
        maxidx (g_pre e) = lo /\ lo < g_idx e /\
        g_addr e = addr (derive m (g_idx e)) /\
        ~ In (g_addr e) (addrs (g_pre e)) /\
        (forall j, lo < j < g_idx e -> In (addr (derive m j)) (imported (g_pre e))) /\
        gen_chain m (g_idx e) t hi
    end.
End Wallet.

Arguments mkSt {A K M P H F Nm}.
Arguments keys {A K M P H F Nm}.
Arguments msigs {A K M P H F Nm}.
Arguments maxidx {A K M P H F Nm}.
Arguments pwh {A K M P H F Nm}.
Arguments mdk {A K M P H F Nm}.
Arguments name {A K M P H F Nm}.
Arguments hpw {A K M P H F Nm}.
Arguments inited {A K M P H F Nm}.
Arguments gen_event : clear implicits.
Arguments mkGen {A K M P H F Nm}.
Arguments g_pre {A K M P H F Nm}.
Arguments g_idx {A K M P H F Nm}.
Arguments g_addr {A K M P H F Nm}.
Arguments OReopen {A K P Nm PW}.
Arguments OInit {A K P Nm PW}.
Arguments OCheckPw {A K P Nm PW}.
Arguments OGenerate {A K P Nm PW}.
Arguments OImport {A K P Nm PW}.
Arguments OExport {A K P Nm PW}.
Arguments ODelete {A K P Nm PW}.
Arguments OExportMDK {A K P Nm PW}.
Arguments OSign {A K P Nm PW}.
Arguments ORename {A K P Nm PW}.
Arguments OImportMsig {A K P Nm PW}.
Arguments ODeleteMsig {A K P Nm PW}.
Arguments ROk {A K M}.
Arguments RAddr {A K M}.
Arguments RKey {A K M}.
Arguments RMdk {A K M}.
Arguments RErr {A K M}.
Arguments create {A K M P H F Nm PW}.
Arguments key_addr {A K}.
Arguments key_sk {A K}.
Arguments key_idx {A K}.
Arguments addrs {A K M P H F Nm}.
Arguments maddrs {A K M P H F Nm}.
Arguments memA {A}.
Arguments find_key {A K}.
Arguments del_key {A K}.
Arguments del_msig {A P}.
Arguments pw_ok {A K M P H F Nm PW}.
Arguments slow_ok {A K M P H F Nm PW}.
Arguments gen_search {A K M}.
Arguments set_keys {A K M P H F Nm}.
Arguments set_msigs {A K M P H F Nm}.
Arguments set_hpw {A K M P H F Nm}.
Arguments set_name {A K M P H F Nm}.
Arguments fetch {A K M P H F Nm}.
Arguments step {A K M P H F Nm PW}.
Arguments run {A K M P H F Nm PW}.
Arguments op_pw {A K P Nm PW}.
Arguments is_err {A K M}.
Arguments imported {A K M P H F Nm}.
Arguments gen_trace {A K M P H F Nm PW}.
Arguments gen_chain {A K M P H F Nm}.
