(* C23: the property as an executable predicate on an observed storage state, and the [check]
   function run on the implementation's observations.

   [spec_state] is the property itself, evaluated on what the ledger reports after a block:
   the application account's TotalBoxes equals the number of the application's boxes,
   TotalBoxBytes equals the sum of len(name)+len(value) over them, the global state holds at
   most GlobalStateSchema.NumUint integers and .NumByteSlice byte strings, and every opted-in
   account's local state stays within the schema recorded in its AppLocalState.
   No proofs in this file. *)
From Coq Require Import NArith ZArith List Bool String.
From Verif.lib Require Import Term.
From Verif.model Require Import Overflow AssocList AppStorage.
Import ListNotations.
Open Scope N_scope.

(* ------------------------------------------------------------------ the property *)
Definition schema_holds (kv : list (bytes * tval)) (sch : N * N) : bool :=
  (fst (count_kv kv) <=? fst sch) && (snd (count_kv kv) <=? snd sch).

Definition spec_boxes (w : world) : bool :=
  (w_tb w =? box_count (w_box w)) && (w_tbb w =? box_bytes (w_box w)).

Definition spec_schemas (w : world) : bool :=
  match w_global w with
  | Some s => schema_holds (st_kv s) (w_gschema w)
  | None => true
  end &&
  forallb (fun e => schema_holds (st_kv (fst (snd e))) (snd (snd e))) (w_local w).

Definition spec_state (w : world) : bool := spec_boxes w && spec_schemas w.

(* ------------------------------------------------------------------ decoding *)
Definition as_tval (t : term) : option tval :=
  match t with
  | TL [TS "u"; TZ n] => Some (TVu (Z.to_N n))
  | TL [TS "b"; TB b] => Some (TVb b)
  | _ => None
  end.

Definition as_sop (t : term) : option sop :=
  match t with
  | TL [TS "bc"; TB n; TZ s] => Some (SBoxCreate n (Z.to_N s))
  | TL [TS "br"; TB n; TZ s] => Some (SBoxResize n (Z.to_N s))
  | TL [TS "bp"; TB n; TZ st; TB d] => Some (SBoxReplace n (Z.to_N st) d)
  | TL [TS "bput"; TB n; TB d] => Some (SBoxPut n d)
  | TL [TS "bd"; TB n] => Some (SBoxDel n)
  | TL [TS "gp"; TB k; v] => match as_tval v with Some v => Some (SGlobalPut k v) | None => None end
  | TL [TS "gd"; TB k] => Some (SGlobalDel k)
  | TL [TS "lp"; TZ i; TB k; v] => match as_tval v with Some v => Some (SLocalPut (Z.to_N i) k v) | None => None end
  | TL [TS "ld"; TZ i; TB k] => Some (SLocalDel (Z.to_N i) k)
  | TL [TS "rej"] => Some SReject
  | TL [TS "err"] => Some SErr
  | _ => None
  end.

Definition as_oc (t : term) : option oncomp :=
  match t with
  | TS "noop" => Some NoOp
  | TS "optin" => Some OptIn
  | TS "closeout" => Some CloseOut
  | TS "clear" => Some ClearState
  | TS "delete" => Some DeleteApp
  | TL [TS "update"; TZ u; TZ b] => Some (UpdateApp (Z.to_N u, Z.to_N b))
  | _ => None
  end.

Definition as_pair (t : term) : option (N * N) :=
  match t with TL [TZ a; TZ b] => Some (Z.to_N a, Z.to_N b) | _ => None end.

Definition as_kv (t : term) : option (bytes * tval) :=
  match t with
  | TL [TB k; v] => match as_tval v with Some v => Some (k, v) | None => None end
  | _ => None
  end.

Definition as_box (t : term) : option (bytes * bytes) :=
  match t with TL [TB n; TB v] => Some (n, v) | _ => None end.

(* observed storage: counts / limits are not observable; they are filled with what the next
   block would start from *)
Definition obs_storage (kv : list (bytes * tval)) (lim : N * N) : storage := mkSt kv (count_kv kv) lim.

Definition as_local (lschema : N * N) (ex : bool) (t : term) : option (N * (storage * (N * N))) :=
  match t with
  | TL [TZ a; sch; TL kvs] =>
      match as_pair sch, map_opt as_kv kvs with
      | Some sch, Some kv => Some (Z.to_N a, (obs_storage kv (if ex then lschema else (0, 0)), sch))
      | _, _ => None
      end
  | _ => None
  end.

Definition as_dump (lschema : N * N) (t : term) : option world :=
  match t with
  | TL [TZ tb; TZ tbb; TL boxes; g; TL locals] =>
      let og := match g with
                | TL [TZ 1; sch; TL kvs] =>
                    match as_pair sch, map_opt as_kv kvs with
                    | Some sch, Some kv => Some (Some (obs_storage kv sch), sch)
                    | _, _ => None
                    end
                | TL [TZ 0] => Some (None, (0, 0))
                | _ => None
                end in
      match og, map_opt as_box boxes with
      | Some (gl, gsch), Some bx =>
          let ex := match gl with Some _ => true | None => false end in
          match map_opt (as_local lschema ex) locals with
          | Some ls => Some (mkW gl gsch lschema ls bx (Z.to_N tb) (Z.to_N tbb) (mkCI 0 0 false))
          | None => None
          end
      | _, _ => None
      end
  | _ => None
  end.

(* ------------------------------------------------------------------ comparison *)
Definition tval_eqb (a b : tval) : bool :=
  match a, b with
  | TVu x, TVu y => x =? y
  | TVb x, TVb y => bytes_eqb x y
  | _, _ => false
  end.
Definition pair_n_eqb (a b : N * N) : bool := (fst a =? fst b) && (snd a =? snd b).
Definition kv_equiv (a b : list (bytes * tval)) : bool := aequiv bytes_eqb tval_eqb a b.
Definition local_eqb (a b : storage * (N * N)) : bool :=
  kv_equiv (st_kv (fst a)) (st_kv (fst b)) && pair_n_eqb (snd a) (snd b).

(* model world (after end_block) against the observed one *)
Definition world_matches (m i : world) : bool :=
  match w_global m, w_global i with
  | Some a, Some b => kv_equiv (st_kv a) (st_kv b) && pair_n_eqb (w_gschema m) (w_gschema i)
  | None, None => true
  | _, _ => false
  end &&
  aequiv N.eqb local_eqb (w_local m) (w_local i) &&
  aequiv bytes_eqb bytes_eqb (w_box m) (w_box i) &&
  (w_tb m =? w_tb i) && (w_tbb m =? w_tbb i).

Definition res_code (r : res (list N)) : N := match r with Ok _ => 0 | Err e => e end.
Definition res_logs (r : res (list N)) : list N := match r with Ok l => l | Err _ => [] end.

Definition dump_kv (kv : list (bytes * tval)) : term :=
  TL (map (fun e => TL [TB (fst e); match snd e with TVu n => TL [TS "u"; tn n] | TVb b => TL [TS "b"; TB b] end]) kv).
Definition dump_world (w : world) : term :=
  TL [ tn (w_tb w); tn (w_tbb w);
       TL (map (fun e => TL [TB (fst e); tn (blen (snd e))]) (w_box w));
       match w_global w with
       | Some s => TL [TZ 1; TL [tn (fst (w_gschema w)); tn (snd (w_gschema w))]; dump_kv (st_kv s)]
       | None => TL [TZ 0]
       end;
       TL (map (fun e => TL [tn (fst e); dump_kv (st_kv (fst (snd e)))]) (w_local w)) ].

Record cst := mkCst {
  c_model : world;
  c_spec : bool;
  c_corr : bool;
  c_nt : N;
  c_bad : bool;
  c_first : term
}.

Definition script_nontrivial (sc : list sop) : bool :=
  existsb (fun o => match o with SReject | SErr => false | _ => true end) sc.

Definition do_call (P : params) (c : cst) (idx : N) (t : term) : cst :=
  if c_bad c then c else
  let bad := mkCst (c_model c) (c_spec c) (c_corr c) (c_nt c) true (c_first c) in
  match t with
  | TL [TS "call"; TZ s; acl; oc; TL sc; TZ code; lg] =>
      match as_N_list acl, as_oc oc, map_opt as_sop sc, as_N_list lg with
      | Some accts, Some oc, Some sc, Some logs =>
          let '(m', r) := step P (c_model c) (OCall (Z.to_N s) accts oc sc) in
          let good := (res_code r =? Z.to_N code) && list_eqb N.eqb (res_logs r) logs in
          mkCst m' (c_spec c) (c_corr c && good)
                (if (Z.to_N code =? 0) && script_nontrivial sc then c_nt c + 1 else c_nt c) false
                (if c_corr c && negb good then TL [tn idx; tn (res_code r); TL (map tn (res_logs r))] else c_first c)
      | _, _, _, _ => bad
      end
  | _ => bad
  end.

Fixpoint do_calls (P : params) (c : cst) (idx : N) (l : list term) : cst :=
  match l with [] => c | t :: l' => do_calls P (do_call P c idx t) (idx + 1) l' end.

Definition do_block (P : params) (lschema : N * N) (c : cst) (idx : N) (t : term) : cst :=
  if c_bad c then c else
  let bad := mkCst (c_model c) (c_spec c) (c_corr c) (c_nt c) true (c_first c) in
  match t with
  | TL [TL calls; dump] =>
      let c1 := do_calls P c (idx * 100) calls in
      if c_bad c1 then c1 else
      match as_dump lschema dump with
      | None => bad
      | Some iw =>
          let m' := fst (step P (c_model c1) OEndBlock) in
          let good := world_matches m' iw in
          let sp := spec_state iw in
          mkCst m' (c_spec c1 && sp) (c_corr c1 && good) (c_nt c1) false
                (if c_spec c1 && negb sp then TL [tn idx; TS "spec"]
                 else if c_corr c1 && negb good then TL [tn idx; TS "state"; dump_world m'] else c_first c1)
      end
  | _ => bad
  end.

Fixpoint do_blocks (P : params) (lschema : N * N) (c : cst) (idx : N) (l : list term) : cst :=
  match l with [] => c | t :: l' => do_blocks P lschema (do_block P lschema c idx t) (idx + 1) l' end.

Definition check (t : term) : term :=
  match t with
  | TL [TS "c23"; TL [TZ mk; TZ mb; TZ mv; TZ ms]; TZ creator; gs; ls; TL blocks] =>
      match as_pair gs, as_pair ls with
      | Some gs, Some ls =>
          let P := mkPar (Z.to_N mk) (Z.to_N mb) (Z.to_N mv) (Z.to_N ms) in
          let c := do_blocks P ls (mkCst (winit (Z.to_N creator) gs ls) true true 0 false (TL [])) 0 blocks in
          if c_bad c then v_parse else verdict (c_spec c) (c_corr c) (3 <=? c_nt c) (c_first c)
      | _, _ => v_parse
      end
  | _ => v_parse
  end.
