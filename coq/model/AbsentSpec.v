(* C27: the eligibility predicates as declarative arithmetic, the executable oracle evaluated
   on the implementation's observation, and the line-protocol [check].  The oracle is written
   independently of the transcription's control flow (model/Absent.v): duplicate-freeness by
   counting, the absence rule without wrap-around and with the quotient written out, the
   challenge window by division instead of remainder, the bit-prefix comparison by division
   instead of xor / leading zeros.  No proofs in this file. *)
From Coq Require Import NArith ZArith List Bool String.
From Verif.lib Require Import Term.
From Verif.model Require Import Overflow Absent.
Import ListNotations.
Open Scope N_scope.

(* ---- the stake-proportional absence rule (rounds below 2^63: no wrap-around) ---- *)
Definition allowable_lag (total stake : N) : N := absent_factor * total / stake.
Definition is_absent_spec (total stake lastSeen current : N) : bool :=
  negb (lastSeen =? 0) && negb (stake =? 0) &&
  (allowable_lag total stake <=? max_u32) &&
  (lastSeen + allowable_lag total stake <? current).

(* ---- the challenge rule ---- *)
(* the first n bits of both byte strings exist and are equal *)
Definition top_bits_equal (a b : list N) (n : Z) : bool :=
  (0 <=? n)%Z && (n <=? 8 * Z.of_nat (List.length a))%Z && (n <=? 8 * Z.of_nat (List.length b))%Z &&
  let n := Z.to_N n in
  let k := N.to_nat (n / 8) in
  let r := n mod 8 in
  list_eqb N.eqb (firstn k a) (firstn k b) &&
  ((r =? 0) || (nth k a 0 / 2 ^ (8 - r) =? nth k b 0 / 2 ^ (8 - r))).

(* round of the challenge whose suspension window (grace, 2*grace] contains [current] *)
Definition challenge_round (ru : rules) (current : N) : option N :=
  if r_interval ru =? 0 then None
  else
    let lc := r_interval ru * (current / r_interval ru) in
    if negb (lc =? 0) && (lc + r_grace ru <? current) && (current <=? lc + 2 * r_grace ru)
    then Some lc else None.

Definition challenge_failed_spec (ru : rules) (h : hdrs) (current : N) (a : addr) (lastSeen : N) : bool :=
  match challenge_round ru current with
  | None => false
  | Some lc =>
      match hdr_of h lc with
      | Some (seed, true) => top_bits_equal seed a (r_bits ru) && (lastSeen <? lc)
      | _ => false
      end
  end.

(* ---- justified lists ---- *)
Definition count (a : addr) (l : list addr) : nat := List.length (filter (addr_eqb a) l).
Definition nodupb (l : list addr) : bool := forallb (fun a => Nat.eqb (count a l) 1) l.

Definition expired_member_ok (st : state) (round : N) (a : addr) : bool :=
  let d := lookup st a in a_hasvote d && (a_lastvalid d <? round).

Definition expired_ok (st : state) (p : kparams) (l : list addr) : bool :=
  nodupb l && Nat.leb (List.length l) (k_max_exp p) && forallb (expired_member_ok st (k_round p)) l.

Definition absent_by_rule (st : state) (sk : stakes) (p : kparams) (a : addr) : bool :=
  is_absent_spec (k_total p) (stake_of sk a) (last_seen (lookup st a)) (k_round p).
Definition absent_by_challenge (st : state) (h : hdrs) (p : kparams) (a : addr) : bool :=
  challenge_failed_spec (k_rules p) h (k_round p) a (last_seen (lookup st a)).

Definition absent_member_ok (st : state) (sk : stakes) (h : hdrs) (p : kparams) (a : addr) : bool :=
  let d := lookup st a in
  (a_status d =? st_online) && (0 <? a_algos d) && a_elig d &&
  (absent_by_rule st sk p a || absent_by_challenge st h p a).

Definition absent_ok (st : state) (sk : stakes) (h : hdrs) (p : kparams) (l : list addr) : bool :=
  nodupb l && Nat.leb (List.length l) (k_max_abs p) && forallb (absent_member_ok st sk h p) l.

(* a block whose lists were accepted: both justified against the state before the lists
   are applied *)
Definition spec_knockoff_ok (st : state) (sk : stakes) (h : hdrs) (p : kparams)
           (expired absent : list addr) (accepted : bool) : bool :=
  if accepted then expired_ok st p expired && absent_ok st sk h p absent else true.

(* which disjunct justified the accepted absent members: (rule only, challenge only, both) *)
Definition justified_by (st : state) (sk : stakes) (h : hdrs) (p : kparams) (l : list addr) : N * N * N :=
  fold_left (fun '(r, c, b) a =>
               match absent_by_rule st sk p a, absent_by_challenge st h p a with
               | true, true => (r, c, b + 1)
               | true, false => (r + 1, c, b)
               | false, true => (r, c + 1, b)
               | false, false => (r, c, b)
               end) l (0, 0, 0).

(* ---------------- line protocol ---------------- *)
Definition lt63 (x : N) : bool := x <? 2 ^ 63.
Definition lt64 (x : N) : bool := x <? 2 ^ 64.
Definition nn64 (z : Z) : bool := (0 <=? z)%Z && lt64 (Z.to_N z).
Definition nn63 (z : Z) : bool := (0 <=? z)%Z && lt63 (Z.to_N z).
Definition zb (z : Z) : option bool := match z with 0%Z => Some false | 1%Z => Some true | _ => None end.
Definition bytes_ok (b : list N) : bool := forallb (fun x => x <? 256) b.

Definition t_kres (r : kres) : term :=
  TS (match r with
      | KOk => "ok"
      | KExpTooMany => "exp_too_many" | KExpDup => "exp_dup" | KExpNoKey => "exp_no_key"
      | KExpNotExpired => "exp_not_expired"
      | KAbsTooMany => "abs_too_many" | KAbsDup => "abs_dup" | KAbsNotOnline => "abs_not_online"
      | KAbsZeroAlgos => "abs_zero_algos" | KAbsNotEligible => "abs_not_eligible"
      | KAbsNotAbsent => "abs_not_absent"
      end)%string.

(* (#addr status algos elig hasvote lastvalid lastprop lasthb stake) *)
Definition parse_acct (t : term) : option (addr * acct * N) :=
  match t with
  | TL [TB a; TZ s; TZ al; TZ el; TZ hv; TZ lv; TZ lp; TZ lh; TZ sk] =>
      match zb el, zb hv with
      | Some el, Some hv =>
          if bytes_ok a && nn64 s && nn64 al && nn63 lv && nn63 lp && nn63 lh && nn64 sk
          then Some (a, mkAcct (Z.to_N s) (Z.to_N al) el hv (Z.to_N lv) (Z.to_N lp) (Z.to_N lh), Z.to_N sk)
          else None
      | _, _ => None
      end
  | _ => None
  end.

(* (round #seed sameRules) *)
Definition parse_hdr (t : term) : option (N * (list N * bool)) :=
  match t with
  | TL [TZ r; TB seed; TZ same] =>
      match zb same with
      | Some same => if nn63 r && bytes_ok seed then Some (Z.to_N r, (seed, same)) else None
      | None => None
      end
  | _ => None
  end.

Definition parse_addr (t : term) : option addr :=
  match t with TB a => if bytes_ok a then Some a else None | _ => None end.

Definition int_ok (z : Z) : bool := (- 2 ^ 31 <=? z)%Z && (z <=? 2 ^ 31)%Z.

(* post-state of the listed accounts, as observed: (status elig hasvote lastvalid) each *)
Definition t_post (st : state) (as_ : list addr) : term :=
  TL (map (fun a => let d := lookup st a in
                    TL [tn (a_status d); tb (a_elig d); tb (a_hasvote d); tn (a_lastvalid d)]) as_).

(* cases (see harness/go/ledger/eval/zz_verif_c27_test.go):
   (ia total stake lastSeen current ABSENT)
   (fc interval grace bits current (hdr ...) #addr lastSeen (ISZERO FAILED))
   (ko tag (maxExp maxAbs round total interval grace bits) (hdr ...) (acct ...)
       (#expired ...) (#absent ...) (RESULT POST))
   tag: d = the four functions driven directly on a hand-built evaluator, e = eval.Eval of a
   block with manipulated header lists.  Rounds are below 2^63. *)
Definition check (t : term) : term :=
  match t with
  | TL [TS "ia"; TZ total; TZ stake; TZ ls; TZ cur; TZ obs] =>
      match zb obs with
      | None => v_parse
      | Some o =>
          if negb (nn64 total && nn64 stake && nn63 ls && nn63 cur) then v_parse else
          let m := is_absent (Z.to_N total) (Z.to_N stake) (Z.to_N ls) (Z.to_N cur) in
          verdict (Bool.eqb o (is_absent_spec (Z.to_N total) (Z.to_N stake) (Z.to_N ls) (Z.to_N cur)))
                  (Bool.eqb o m) (negb (Z.to_N ls =? 0) && negb (Z.to_N stake =? 0)) (tb m)
      end
  | TL [TS "fc"; TZ interval; TZ grace; TZ bits; TZ cur; TL hs; TB a; TZ ls; TL [TZ oz; TZ ofl]] =>
      match map_opt parse_hdr hs, zb oz, zb ofl with
      | Some h, Some oz, Some ofl =>
          if negb (nn63 interval && nn63 grace && int_ok bits && nn63 cur && nn63 ls && bytes_ok a)
          then v_parse else
          let ru := mkRules (Z.to_N interval) (Z.to_N grace) bits in
          let ch := find_challenge ru (Z.to_N cur) h in
          let mz := (ch_round ch =? 0) in
          let mf := ch_failed ch a (Z.to_N ls) in
          (* oracle: the challenge object is non-zero exactly when a usable header exists for
             the active window; Failed is the declarative predicate *)
          let sz := match challenge_round ru (Z.to_N cur) with
                    | Some lc => match hdr_of h lc with Some (_, true) => false | _ => true end
                    | None => true end in
          let sf := challenge_failed_spec ru h (Z.to_N cur) a (Z.to_N ls) in
          verdict (Bool.eqb oz sz && Bool.eqb ofl sf) (Bool.eqb oz mz && Bool.eqb ofl mf)
                  (negb mz) (TL [tb mz; tb mf])
      | _, _, _ => v_parse
      end
  | TL [TS "ko"; TS _; TL [TZ maxExp; TZ maxAbs; TZ round; TZ total; TZ interval; TZ grace; TZ bits];
        TL hs; TL accts; TL expired; TL absent; TL [res; post]] =>
      match map_opt parse_hdr hs, map_opt parse_acct accts, map_opt parse_addr expired,
            map_opt parse_addr absent with
      | Some h, Some acs, Some ex, Some ab =>
          if negb ((0 <=? maxExp)%Z && int_ok maxExp && (0 <=? maxAbs)%Z && int_ok maxAbs &&
                   nn63 round && nn64 total && nn63 interval && nn63 grace && int_ok bits)
          then v_parse else
          let st := map (fun x => (fst (fst x), snd (fst x))) acs in
          let sk := map (fun x => (fst (fst x), snd x)) acs in
          let p := mkKP (Z.to_nat maxExp) (Z.to_nat maxAbs) (Z.to_N round) (Z.to_N total)
                        (mkRules (Z.to_N interval) (Z.to_N grace) bits) in
          let '(mr, st') := knockoff st sk h p ex ab in
          let mpost := match mr with KOk => t_post st' (map fst st) | _ => TL [] end in
          let m := TL [t_kres mr; mpost] in
          let accepted := term_eqb res (TS "ok") in
          let v := verdict (spec_knockoff_ok st sk h p ex ab accepted)
                           (term_eqb (TL [res; post]) m)
                           (negb (Nat.eqb (List.length ex + List.length ab) 0)) m in
          (* on agreeing accepted cases, report which disjunct justified the absent members *)
          if term_eqb v v_ok && accepted then
            let '(r, c, b) := justified_by st sk h p ab in
            TL [TZ 1; TL [tn r; tn c; tn b]]
          else v
      | _, _, _, _ => v_parse
      end
  | _ => v_parse
  end.
