(* C24: the property as closed-form unbounded arithmetic, the executable oracles evaluated on
   the implementation's observations, and the line-protocol [check].  The oracles do not
   refer to the transcription's control flow (model/Fees.v).  No proofs in this file. *)
From Coq Require Import NArith ZArith List Bool String.
From Verif.lib Require Import Term.
From Verif.model Require Import Overflow Fees.
Import ListNotations.
Open Scope N_scope.

Definition max_u64 : N := 2 ^ 64 - 1.
Definition sat (x : N) : N := N.min x max_u64.

(* ---- the group's minimum fee requirement ---- *)
Definition sum_factors (g : list gtx) : N := fold_right (fun t s => g_factor t + s) 0 g.
Definition sum_fees (g : list gtx) : N := fold_right (fun t s => g_fee t + s) 0 g.
Definition sum_lsig (g : list gtx) : Z := fold_right (fun t s => (g_lsig t + s)%Z) 0%Z g.

(* priced LogicSig program bytes beyond the group's allowance *)
Definition spec_lsig (perByte : N) (lsigMax : Z) (g : list gtx) : N :=
  sat (perByte * Z.to_N (sum_lsig g - Z.of_nat (List.length g) * lsigMax)).

Definition spec_usage (perByte : N) (lsigMax : Z) (g : list gtx) : N :=
  sat (sum_factors g + spec_lsig perByte lsigMax g).
Definition spec_paid (g : list gtx) : N := sat (sum_fees g).

(* ceil(minFee * usage / 10^6) over unbounded N *)
Definition fee_required (minFee usage : N) : N := (minFee * usage + (micro - 1)) / micro.

(* accepted <-> the requirement fits in uint64 and is covered *)
Definition spec_accepts (paid usage minFee : N) : bool :=
  (fee_required minFee usage <? 2 ^ 64) && (fee_required minFee usage <=? paid).

(* closed form of SignedTxn.FeeFactor *)
Definition spec_extra (perByte : N) (extra : Z) : N := sat (perByte * Z.to_N extra).
Definition spec_fee_factor (k : txkind) (perByte : N) (noteLen maxNote : Z)
           (hbDiscount singleton : bool) (sigc : N)
           (progBytes basicLimit argBytes maxArg : Z) : N :=
  let base := sat (micro + spec_extra perByte (noteLen - maxNote)) in
  let txf :=
    match k with
    | KStateProof => 0
    | KHeartbeat =>
        if (if perByte =? 0 then singleton else hbDiscount) then base - micro else base
    | KAppCall =>
        sat (base + sat (spec_extra perByte (progBytes - basicLimit) +
                         spec_extra perByte (argBytes - maxArg)))
    | KOther => base
    end in
  sat (sigc + txf).

(* ---- payout ---- *)
(* the configured share of the collected fees plus the bonus, and what the sink can spare *)
Definition payout_cap (pct fees bonus : N) : N := (fees * pct) / 100 + bonus.
Definition sink_spare (sink sinkMin : N) : N := sink - sinkMin.     (* truncated on N *)
Definition payout_limit (pct fees bonus sink sinkMin : N) : N :=
  N.min (payout_cap pct fees bonus) (sink_spare sink sinkMin).

(* observation of one end-of-block payout step *)
Inductive pf_obs := PONa | PONoop | POMoved (s' p' : N) | POOverspend | POOverflow | POPanic.

(* [accepted]: validateForPayouts returned nil *)
Definition spec_payout_ok (i : payout_in) (accepted : bool) (pf : pf_obs) : bool :=
  if negb accepted then true
  else if negb (pi_enabled i) then (pi_payout i =? 0) && (pi_hdr_fees i =? 0)
  else
    (pi_hdr_fees i =? pi_state_fees i) &&
    (pi_payout i <=? payout_cap (pi_pct i) (pi_hdr_fees i) (pi_bonus i)) &&
    (pi_payout i <=? sink_spare (pi_sink i) (pi_sink_min i)) &&
    match pf with
    | POMoved s' _ =>
        (* the sink loses exactly the payout (pending rewards can only add) and stays at or
           above its minimum balance if it was there before *)
        (pi_sink i <=? s' + pi_payout i) &&
        ((pi_sink i <? pi_sink_min i) || (pi_sink_min i <=? s'))
    | POOverspend => false      (* an accepted payout can always be paid *)
    | _ => true
    end.

(* ---------------- line protocol ---------------- *)
Definition lt64 (x : N) : bool := x <? 2 ^ 64.
Definition nn (z : Z) : bool := (0 <=? z)%Z && lt64 (Z.to_N z).
Definition zb (z : Z) : option bool := match z with 0%Z => Some false | 1%Z => Some true | _ => None end.
Definition int_ok (z : Z) : bool := (- 2 ^ 62 <=? z)%Z && (z <=? 2 ^ 62)%Z.

Definition parse_kind (z : Z) : option txkind :=
  match z with 0%Z => Some KOther | 1%Z => Some KStateProof | 2%Z => Some KHeartbeat
          | 3%Z => Some KAppCall | _ => None end.

Definition parse_gtx (t : term) : option gtx :=
  match t with
  | TL [TZ f; TZ fee; TZ l] =>
      if nn f && nn fee && (0 <=? l)%Z && int_ok l then Some (Z.to_N f, Z.to_N fee, l) else None
  | _ => None
  end.

Definition t_gf (r : gfres) : term :=
  match r with
  | GFOk => TL [TS "ok"]
  | GFOverflow => TL [TS "overflow"]
  | GFTooLow n => TL [TS "toolow"; tn n]
  end.

Definition t_pp (r : ppres) : term :=
  match r with
  | PPOk a => TL [TS "ok"; tn a]
  | PPErrBonus => TL [TS "bonus_overflow"]
  | PPPanic => TL [TS "panic"]
  end.

Definition t_vp (r : vpres) : term :=
  match r with
  | VPOk => TL [TS "ok"]
  | VPFeesWhenDisabled => TL [TS "fees_when_disabled"]
  | VPProposerWhenDisabled => TL [TS "proposer_when_disabled"]
  | VPPayoutWhenDisabled => TL [TS "payout_when_disabled"]
  | VPFeesWrong => TL [TS "fees_wrong"]
  | VPBonusOverflow => TL [TS "bonus_overflow"]
  | VPTooMuch a => TL [TS "too_much"; tn a]
  | VPProposerMissing => TL [TS "proposer_missing"]
  | VPProposerClosed => TL [TS "proposer_closed"]
  | VPPanic => TL [TS "panic"]
  end.

Definition t_pf (r : pfres) : term :=
  match r with
  | PFNoop => TL [TS "noop"]
  | PFMoved s p => TL [TS "moved"; tn s; tn p]
  | PFOverspend => TL [TS "overspend"]
  | PFOverflow => TL [TS "overflow"]
  | PFPanic => TL [TS "panic"]
  end.

Definition parse_pf (t : term) : option pf_obs :=
  match t with
  | TL [TS "na"] => Some PONa
  | TL [TS "noop"] => Some PONoop
  | TL [TS "moved"; TZ s; TZ p] => if nn s && nn p then Some (POMoved (Z.to_N s) (Z.to_N p)) else None
  | TL [TS "overspend"] => Some POOverspend
  | TL [TS "overflow"] => Some POOverflow
  | TL [TS "panic"] => Some POPanic
  | _ => None
  end.

Definition is_na (t : term) : bool := term_eqb t (TL [TS "na"]).
Definition is_ok (t : term) : bool := term_eqb t (TL [TS "ok"]).

(* cases (see harness/go/ledger/eval/zz_verif_c24_test.go):
   (ff kind perByte noteLen maxNote hbDiscount singleton sigc progBytes basicLimit argBytes maxArg FACTOR)
   (cg paid usage minFee RESULT)
   (gf tag minFee perByte lsigMax ((factor fee lsigLen) ...) (usage paid RESULT))
   (po tag enabled pct hdrFees stateFees bonus sink sinkMin payout propZero generate propClosed
       unit level sinkStatus sinkBase propStatus propAlgos propBase (PP VP PF))
   tag: d = function driven directly, e = through BlockEvaluator.TransactionGroup / eval.Eval *)
Definition check (t : term) : term :=
  match t with
  | TL [TS "ff"; TZ k; TZ perByte; TZ noteLen; TZ maxNote; TZ hbd; TZ sing; TZ sigc;
        TZ prog; TZ basic; TZ args; TZ maxArg; TZ obs] =>
      match parse_kind k, zb hbd, zb sing with
      | Some k, Some hbd, Some sing =>
          if negb (nn perByte && nn sigc && nn obs && int_ok noteLen && int_ok maxNote &&
                   int_ok prog && int_ok basic && int_ok args && int_ok maxArg) then v_parse else
          let pb := Z.to_N perByte in
          let m := signed_fee_factor (Z.to_N sigc)
                     (txn_fee_factor k pb noteLen maxNote hbd sing
                        (app_contribution pb prog basic args maxArg)) in
          let s := spec_fee_factor k pb noteLen maxNote hbd sing (Z.to_N sigc) prog basic args maxArg in
          verdict (Z.to_N obs =? s) (Z.to_N obs =? m)
                  (negb (Z.to_N obs =? micro)) (tn m)
      | _, _, _ => v_parse
      end
  | TL [TS "cg"; TZ paid; TZ usage; TZ minFee; res] =>
      if negb (nn paid && nn usage && nn minFee) then v_parse else
      let p := Z.to_N paid in let u := Z.to_N usage in let mf := Z.to_N minFee in
      let m := t_gf (check_group_fees p u mf) in
      verdict (Bool.eqb (is_ok res) (spec_accepts p u mf)) (term_eqb res m)
              (negb (mf =? 0) && negb (u =? 0)) m
  | TL [TS "gf"; TS _; TZ minFee; TZ perByte; TZ lsigMax; TL txs; TL [TZ usage; TZ paid; res]] =>
      match map_opt parse_gtx txs with
      | None => v_parse
      | Some g =>
          if negb (nn minFee && nn perByte && nn usage && nn paid && (0 <=? lsigMax)%Z && int_ok lsigMax)
          then v_parse else
          let mf := Z.to_N minFee in let pb := Z.to_N perByte in
          let '(mu, mp, mr) := group_fee_check mf pb lsigMax g in
          let m := TL [tn mu; tn mp; t_gf mr] in
          let u := Z.to_N usage in let p := Z.to_N paid in
          (* oracle: the observed summary is the saturated sum, and the observed decision is
             "paid covers ceil(minFee*usage/10^6)" on the observed summary *)
          let spec := (u =? spec_usage pb lsigMax g) && (p =? spec_paid g) &&
                      Bool.eqb (is_ok res) (spec_accepts p u mf) in
          verdict spec (term_eqb (TL [TZ usage; TZ paid; res]) m)
                  (negb (mf =? 0) && negb (u =? 0)) m
      end
  | TL [TS "po"; TS _; TZ en; TZ pct; TZ hf; TZ sf; TZ bonus; TZ sink; TZ smin; TZ payout;
        TZ pz; TZ gen; TZ pc; TZ unit; TZ level; TZ sst; TZ sbase; TZ pst; TZ palgos; TZ pbase;
        TL [pp; vp; pf]] =>
      match zb en, zb pz, zb gen, zb pc, parse_pf pf with
      | Some en, Some pz, Some gen, Some pc, Some pfo =>
          if negb (nn pct && nn hf && nn sf && nn bonus && nn sink && nn smin && nn payout &&
                   nn unit && nn level && nn sst && nn sbase && nn pst && nn palgos && nn pbase)
          then v_parse else
          let i := mkPI en (Z.to_N pct) (Z.to_N hf) (Z.to_N sf) (Z.to_N bonus) (Z.to_N sink)
                        (Z.to_N smin) (Z.to_N payout) pz gen pc in
          let mpp := t_pp (proposer_payout (pi_pct i) (pi_hdr_fees i) (pi_bonus i) (pi_sink i) (pi_sink_min i)) in
          let mvp := t_vp (validate_for_payouts i) in
          let sinkUp := with_rewards (Z.to_N unit) (Z.to_N sst) (pi_sink i) (Z.to_N sbase) (Z.to_N level) in
          let propUp := with_rewards (Z.to_N unit) (Z.to_N pst) (Z.to_N palgos) (Z.to_N pbase) (Z.to_N level) in
          let mpf := t_pf (perform_payout pz (pi_payout i) sinkUp propUp) in
          let m := TL [mpp; mvp; mpf] in
          let corr := (is_na pp || term_eqb pp mpp) && term_eqb vp mvp &&
                      (is_na pf || term_eqb pf mpf) in
          verdict (spec_payout_ok i (is_ok vp) pfo) corr
                  (en && (negb (pi_payout i =? 0) || negb (is_ok vp))) m
      | _, _, _, _, _ => v_parse
      end
  | _ => v_parse
  end.
