(* C15: executable checker for the line protocol (extracted to OCaml by bin/build_runner.sh).
   The abstract hash of model/CatchpointHash.v is instantiated with the executable SHA-512/256
   of model/MerkleTrieSha.v, so the model's leaves / labels are compared BYTE FOR BYTE with the
   ones computed by the real builders.

   Case formats (one term per line; E = entry, L = observed leaf, I = label input, S = label):
     E ::= (acct #addr upd rb #enc) | (res #addr cidx isAsset isApp upd #enc) | (kv #key #value)
     L ::= #leaf | (err)
     I ::= (ver round #blockhash #root (onMon onRwd offMon offRwd npMon npRwd lvl) #totalsEnc #spver #onl #onlrp)
     (leafpair TAG E1 E2 L1 L2 SAME)      SAME: 1/0 = Go-level equality of (address, index, data), 2 = crafted bytes
     (labelpair TAG I1 I2 S1 S2)
     (statepair TAG (E..) (E..) (L..) (L..) I1 I2 S1 S2)     I.root = root of the real trie over the leaves
                                                              (memo histories: the PERSISTED balances trie of each fork)
     (memo TAG (OP..) #persistedRoot #refRoot)   OP ::= (r on db hash) | (c k db hash): a node start with tracking
                                                 on/off resp. a tracker commit of k rounds, each with the accounts round
                                                 and the hash round read from the database afterwards; persistedRoot = root
                                                 of the stored balances trie at the end, refRoot = root of a fresh trie
                                                 over the leaves of the account tables

   spec_ok (on the implementation's observations only; never uses the model's leaves):
     * two DIFFERENT entries (different (address, data) / (address, index, kind, data) / (key, value), or
       different classes) have different leaves; two different label inputs / states have different labels;
     * the byte at offset 4 of a 36-byte leaf is the HashKind of the entry's class (domain separation);
     * Go-level equality of the data agrees with equality of the encodings (injective encoding).
     * memo: when the last start had tracking on, the persisted trie root is the root over the account tables
       (the label is a function of the state, not of the tracking history).
   A collision between two different KV entries whose key‖value concatenations coincide is the
   recorded finding [kv_leaf_key_value_boundary]; every other collision is a violation.
   No proofs in this file. *)
From Coq Require Import List NArith ZArith Bool String.
Import ListNotations.
From Verif.lib Require Import Term.
From Verif.model Require Import CatchpointHash CatchpointMemo MerkleTrieSha.
Open Scope N_scope.

Definition sha : bytes -> bytes := sha512_256.

Definition bytes_eqb (a b : bytes) : bool := list_eqb N.eqb a b.
Definition optN_eqb (a b : option N) : bool :=
  match a, b with Some x, Some y => x =? y | None, None => true | _, _ => false end.

Definition u64 (x : N) : bool := x <? 18446744073709551616.
Definition is32 (b : bytes) : bool := (N.of_nat (List.length b) =? 32).

(* ---------- parsing ---------- *)
Definition parse_entry (t : term) : option entry :=
  match t with
  | TL [TS "acct"; TB a; u; r; TB enc] =>
      match as_N u, as_N r with
      | Some u', Some r' => if is32 a && u64 u' && u64 r' then Some (EAcct a u' r' enc) else None
      | _, _ => None
      end
  | TL [TS "res"; TB a; c; ia; ip; u; TB enc] =>
      match as_N c, as_bool ia, as_bool ip, as_N u with
      | Some c', Some ia', Some ip', Some u' =>
          if is32 a && u64 c' && u64 u' then Some (ERes a c' ia' ip' u' enc) else None
      | _, _, _, _ => None
      end
  | TL [TS "kv"; TB k; TB v] => Some (EKv k v)
  | _ => None
  end.

Definition parse_obs (t : term) : option (option bytes) :=
  match t with
  | TB l => Some (Some l)
  | TL [TS "err"] => Some None
  | _ => None
  end.

Record linput := { li_ver : N; li_round : N; li_bh : bytes; li_root : bytes; li_tot : totals;
                   li_totenc : bytes; li_spver : bytes; li_onl : bytes; li_onlrp : bytes }.

Definition parse_linput (t : term) : option linput :=
  match t with
  | TL [ver; rnd; TB bh; TB root; tot; TB totenc; TB sp; TB onl; TB onlrp] =>
      match as_N ver, as_N rnd, as_N_list tot with
      | Some v, Some r, Some [a; b; c; d; e; f; g] =>
          if ((v =? 6) || (v =? 7) || (v =? 8)) && u64 r && is32 bh && is32 root && is32 sp && is32 onl && is32 onlrp
             && forallb u64 [a; b; c; d; e; f; g]
          then Some {| li_ver := v; li_round := r; li_bh := bh; li_root := root;
                       li_tot := {| t_on_mon := a; t_on_rwd := b; t_off_mon := c; t_off_rwd := d;
                                    t_np_mon := e; t_np_rwd := f; t_lvl := g |};
                       li_totenc := totenc; li_spver := sp; li_onl := onl; li_onlrp := onlrp |}
          else None
      | _, _, _ => None
      end
  | _ => None
  end.

(* ---------- identities (what "the same entry / label input / state" means) ---------- *)
Definition ident_eqb (e1 e2 : entry) : bool :=
  match e1, e2 with
  | EAcct a1 _ _ n1, EAcct a2 _ _ n2 => bytes_eqb a1 a2 && bytes_eqb n1 n2
  | ERes a1 c1 ia1 ip1 _ n1, ERes a2 c2 ia2 ip2 _ n2 =>
      bytes_eqb a1 a2 && (c1 =? c2) && optN_eqb (resource_kind ia1 ip1) (resource_kind ia2 ip2) && bytes_eqb n1 n2
  | EKv k1 v1, EKv k2 v2 => bytes_eqb k1 k2 && bytes_eqb v1 v2
  | _, _ => false
  end.

Definition entry_eqb (e1 e2 : entry) : bool :=
  match e1, e2 with
  | EAcct a1 u1 r1 n1, EAcct a2 u2 r2 n2 => bytes_eqb a1 a2 && (u1 =? u2) && (r1 =? r2) && bytes_eqb n1 n2
  | ERes a1 c1 ia1 ip1 u1 n1, ERes a2 c2 ia2 ip2 u2 n2 =>
      bytes_eqb a1 a2 && (c1 =? c2) && Bool.eqb ia1 ia2 && Bool.eqb ip1 ip2 && (u1 =? u2) && bytes_eqb n1 n2
  | EKv k1 v1, EKv k2 v2 => bytes_eqb k1 k2 && bytes_eqb v1 v2
  | _, _ => false
  end.

(* the finding's signature: two different KV entries with the same key‖value concatenation *)
Definition kv_boundary (e1 e2 : entry) : bool :=
  match e1, e2 with
  | EKv k1 v1, EKv k2 v2 => negb (ident_eqb e1 e2) && bytes_eqb (k1 ++ v1) (k2 ++ v2)
  | _, _ => false
  end.

(* entries up to the finding's ambiguity: a KV entry is known by key‖value only *)
Definition blur (e : entry) : entry :=
  match e with EKv k v => EKv (k ++ v) [] | _ => e end.

Definition subset {A} (eqb : A -> A -> bool) (l1 l2 : list A) : bool :=
  forallb (fun x => existsb (eqb x) l2) l1.
Definition same_set {A} (eqb : A -> A -> bool) (l1 l2 : list A) : bool :=
  subset eqb l1 l2 && subset eqb l2 l1.

Definition tot_list (t : totals) : list N :=
  [t_on_mon t; t_on_rwd t; t_off_mon t; t_off_rwd t; t_np_mon t; t_np_rwd t; t_lvl t].

Definition li_extras (i : linput) : list bytes := label_extras (li_ver i) (li_spver i) (li_onl i) (li_onlrp i).

(* label inputs other than the trie root *)
Definition linput_rest_eqb (i1 i2 : linput) : bool :=
  (li_ver i1 =? li_ver i2) && (li_round i1 =? li_round i2) && bytes_eqb (li_bh i1) (li_bh i2)
  && list_eqb N.eqb (tot_list (li_tot i1)) (tot_list (li_tot i2))
  && list_eqb bytes_eqb (li_extras i1) (li_extras i2).
Definition linput_eqb (i1 i2 : linput) : bool :=
  linput_rest_eqb i1 i2 && bytes_eqb (li_root i1) (li_root i2).

(* ---------- spec oracles on the implementation's observations ---------- *)
(* leaf shape: 36 bytes, HashKind of the entry's class at offset 4; builder error iff no kind *)
Definition shape_ok (e : entry) (o : option bytes) : bool :=
  match o with
  | Some l => (N.of_nat (List.length l) =? 36) && (nth 4 l 255 =? kind_of e) && (kind_of e <? 4)
  | None => kind_of e =? 4
  end.

Definition obs_eqb (o1 o2 : option bytes) : bool :=
  match o1, o2 with
  | Some a, Some b => bytes_eqb a b
  | None, None => true
  | _, _ => false
  end.

(* two observed leaves collide (both present and equal) *)
Definition collide (o1 o2 : option bytes) : bool :=
  match o1, o2 with Some a, Some b => bytes_eqb a b | _, _ => false end.

Definition b32_alpha (c : N) : bool := ((65 <=? c) && (c <=? 90)) || ((50 <=? c) && (c <=? 55)).

Fixpoint strip_prefix (p s : bytes) : option bytes :=
  match p, s with
  | [], _ => Some s
  | x :: p', y :: s' => if x =? y then strip_prefix p' s' else None
  | _, _ => None
  end.

(* "<round>#<52 base32 characters>" *)
Definition label_shape_ok (round : N) (s : bytes) : bool :=
  match strip_prefix (decimal round ++ [35]) s with
  | Some rest => (N.of_nat (List.length rest) =? 52) && forallb b32_alpha rest
  | None => false
  end.

Definition obs_term (o : option bytes) : term :=
  match o with Some l => TB l | None => TL [TS "err"] end.

Section Check.
Variable H : bytes -> bytes.      (* instantiated with [sha] below; the soundness lemmas hold for every H *)

Definition model_label (i : linput) : bytes :=
  make_label H (li_round i) (li_bh i) (li_root i) (enc_totals (li_tot i)) (li_extras i).

(* ---------- the three case kinds ---------- *)
Definition check_leafpair (e1 e2 : entry) (o1 o2 : option bytes) (same : N) : term :=
  let m1 := leaf_of H e1 in
  let m2 := leaf_of H e2 in
  let corr := obs_eqb m1 o1 && obs_eqb m2 o2 in
  let idn := ident_eqb e1 e2 in
  let s_shape := shape_ok e1 o1 && shape_ok e2 o2 in
  let s_same := if same =? 1 then idn else if same =? 0 then negb idn else true in
  let s_fun := if entry_eqb e1 e2 then obs_eqb o1 o2 else true in
  let s_inj := idn || negb (collide o1 o2) in
  let detail := TL [obs_term m1; obs_term m2] in
  if s_shape && s_same && s_fun && negb s_inj && kv_boundary e1 e2
  then v_known "kv_leaf_key_value_boundary" detail
  else verdict (s_shape && s_same && s_fun && s_inj) corr (negb idn) detail.

Definition check_labelpair (i1 i2 : linput) (s1 s2 : bytes) : term :=
  let m1 := model_label i1 in
  let m2 := model_label i2 in
  let corr := bytes_eqb m1 s1 && bytes_eqb m2 s2
              && bytes_eqb (enc_totals (li_tot i1)) (li_totenc i1)
              && bytes_eqb (enc_totals (li_tot i2)) (li_totenc i2) in
  let idn := linput_eqb i1 i2 in
  let s_shape := label_shape_ok (li_round i1) s1 && label_shape_ok (li_round i2) s2 in
  let s_inj := if idn then bytes_eqb s1 s2 else negb (bytes_eqb s1 s2) in
  verdict (s_shape && s_inj) corr (negb idn) (TL [TB m1; TB m2]).

Definition check_statepair (es1 es2 : list entry) (os1 os2 : list (option bytes))
           (i1 i2 : linput) (s1 s2 : bytes) : term :=
  let ms1 := map (leaf_of H) es1 in
  let ms2 := map (leaf_of H) es2 in
  let m1 := model_label i1 in
  let m2 := model_label i2 in
  let rest := linput_rest_eqb i1 i2 in
  let same_states := same_set ident_eqb es1 es2 in
  let same_leaves := same_set obs_eqb ms1 ms2 in
  let corr := list_eqb obs_eqb ms1 os1 && list_eqb obs_eqb ms2 os2
              && Bool.eqb (bytes_eqb (li_root i1) (li_root i2)) same_leaves
              && bytes_eqb m1 s1 && bytes_eqb m2 s2
              && (if same_states && rest then bytes_eqb s1 s2 else true) in
  let idn := same_states && rest in
  let s_shape := label_shape_ok (li_round i1) s1 && label_shape_ok (li_round i2) s2
                 && forallb (fun eo => shape_ok (fst eo) (snd eo)) (combine es1 os1 ++ combine es2 os2)
                 && (List.length es1 =? List.length os1)%nat && (List.length es2 =? List.length os2)%nat in
  let s_inj := idn || negb (bytes_eqb s1 s2) in
  let detail := TL [TB m1; TB m2] in
  if s_shape && negb s_inj && rest && same_set ident_eqb (map blur es1) (map blur es2)
  then v_known "kv_leaf_key_value_boundary" detail
  else verdict (s_shape && s_inj) corr (negb idn) detail.

Definition check_H (t : term) : term :=
  match t with
  | TL [TS "leafpair"; _; te1; te2; to1; to2; tsame] =>
      match parse_entry te1, parse_entry te2, parse_obs to1, parse_obs to2, as_N tsame with
      | Some e1, Some e2, Some o1, Some o2, Some same => check_leafpair e1 e2 o1 o2 same
      | _, _, _, _, _ => v_parse
      end
  | TL [TS "labelpair"; _; ti1; ti2; TB s1; TB s2] =>
      match parse_linput ti1, parse_linput ti2 with
      | Some i1, Some i2 => check_labelpair i1 i2 s1 s2
      | _, _ => v_parse
      end
  | TL [TS "statepair"; _; TL tes1; TL tes2; TL tos1; TL tos2; ti1; ti2; TB s1; TB s2] =>
      match map_opt parse_entry tes1, map_opt parse_entry tes2,
            map_opt parse_obs tos1, map_opt parse_obs tos2, parse_linput ti1, parse_linput ti2 with
      | Some es1, Some es2, Some os1, Some os2, Some i1, Some i2 =>
          check_statepair es1 es2 os1 os2 i1 i2 s1 s2
      | _, _, _, _, _, _ => v_parse
      end
  | _ => v_parse
  end.
End Check.


(* ---------- tracking-mode histories (model/CatchpointMemo.v) ---------- *)
(* result: final model state, all (db, hash) observations matched, an off-commit was followed by a start with tracking on *)
Fixpoint memo_go (ops : list term) (s : x_state) (ok offc exercised : bool) : option (x_state * bool * bool) :=
  match ops with
  | [] => Some (s, ok, exercised)
  | TL [TS "r"; b; db; hash] :: rest =>
      match as_bool b, as_N db, as_N hash with
      | Some b', Some db', Some hash' =>
          let s' := x_step false s (Restart b') in
          memo_go rest s' (ok && (m_db s' =? db') && (m_hash s' =? hash')) offc (exercised || (b' && offc))
      | _, _, _ => None
      end
  | TL [TS "c"; k; db; hash] :: rest =>
      match as_N k, as_N db, as_N hash with
      | Some (Npos k'), Some db', Some hash' =>
          let s' := x_step false s (Commit k' tt) in
          memo_go rest s' (ok && (m_db s' =? db') && (m_hash s' =? hash')) (offc || negb (m_on s)) exercised
      | _, _, _ => None
      end
  | _ => None
  end.

Definition check_memo (ops : list term) (persisted ref : bytes) : term :=
  match memo_go ops x_fresh true false false with
  | None => v_parse
  | Some (s, ok, exercised) =>
      let same := bytes_eqb persisted ref in
      let spec := if m_on s then same else true in
      let corr := ok && Bool.eqb (x_current s) same in
      verdict spec corr exercised (TL [tn (m_db s); tn (m_hash s); tb (x_current s)])
  end.

Definition check (t : term) : term :=
  match t with
  | TL [TS "memo"; _; TL ops; TB persisted; TB ref] => check_memo ops persisted ref
  | _ => check_H sha t
  end.
