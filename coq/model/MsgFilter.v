(* C43: executable model of network/messageFilter.go (messageFilter).  No proofs here.

   buckets []map[Digest]struct{}  -> [buckets : list (list D)]: a map used as a set is a
   duplicate-free list (insertion of a present key is a no-op, as for a Go map); a nil map and
   an empty map behave alike for the reads/deletes the code performs, and the only bucket
   written to is buckets[currentTopBucket], which is always made before it is written.
   maxBucketSize is a Go int (may be <= 0) -> Z.  The mutex makes CheckDigest atomic; the model
   is the sequential specification of one call. *)
From Coq Require Import NArith ZArith List Bool.
Import ListNotations.

Section Filter.
Context {D : Type} (deqb : D -> D -> bool).

Record filt := mkF { buckets : list (list D); maxsz : Z; top : nat }.

Definition mem (d : D) (l : list D) : bool := existsb (deqb d) l.
Definition set_add (d : D) (l : list D) : list D := if mem d l then l else d :: l.
Definition set_del (d : D) (l : list D) : list D := filter (fun x => negb (deqb d x)) l.

Fixpoint upd {A} (i : nat) (f : A -> A) (l : list A) : list A :=
  match l, i with
  | [], _ => []
  | x :: xs, O => f x :: xs
  | x :: xs, S i' => x :: upd i' f xs
  end.

Definition bucket (f : filt) (i : nat) : list D := nth i (buckets f) [].
Definition nb (f : filt) : nat := length (buckets f).

(* makeMessageFilter(bucketsCount, maxBucketSize); bucketsCount = 0 panics in Go (index out of
   range) and is excluded by [None] *)
Definition make_filter (bucketsCount : nat) (maxBucketSize : Z) : option filt :=
  match bucketsCount with
  | O => None
  | _ => Some (mkF (repeat [] bucketsCount) maxBucketSize 0)
  end.

(* find: for i := len(buckets); i > 0; i-- { bucketIdx := (top + i) % len; ... } *)
Fixpoint find_from (f : filt) (d : D) (i : nat) : option nat :=
  match i with
  | O => None
  | S i' =>
      let idx := Nat.modulo (top f + i) (nb f) in
      if mem d (bucket f idx) then Some idx else find_from f d i'
  end.
Definition find (f : filt) (d : D) : option nat := find_from f d (nb f).

Definition with_buckets (f : filt) (bs : list (list D)) : filt := mkF bs (maxsz f) (top f).

(* rotation: currentTopBucket = (top + len - 1) % len; buckets[top] = make(map) *)
Definition rotate (f : filt) : filt :=
  let t := Nat.modulo (top f + nb f - 1) (nb f) in
  mkF (upd t (fun _ => []) (buckets f)) (maxsz f) t.

(* CheckDigest(msgHash, add, promote) *)
Definition check_digest (f : filt) (d : D) (add promote : bool) : filt * bool :=
  let r := find f d in
  let has := match r with Some _ => true | None => false end in
  if negb add then (f, has)
  else
    let f1 :=
      match r with
      | None => with_buckets f (upd (top f) (set_add d) (buckets f))
      | Some idx =>
          if promote && negb (Nat.eqb (top f) idx)
          then with_buckets f (upd (top f) (set_add d) (upd idx (set_del d) (buckets f)))
          else f
      end in
    let f2 := if (maxsz f1 <=? Z.of_nat (length (bucket f1 (top f1))))%Z then rotate f1 else f1 in
    (f2, has).

Inductive op := Op (d : D) (add promote : bool).

Fixpoint run_ops (f : filt) (ops : list op) : filt * list bool :=
  match ops with
  | [] => (f, [])
  | Op d a p :: rest =>
      let '(f1, h) := check_digest f d a p in
      let '(f2, hs) := run_ops f1 rest in
      (f2, h :: hs)
  end.

Definition present (f : filt) (d : D) : bool := snd (check_digest f d false false).
End Filter.

Arguments mkF {D}.
Arguments Op {D}.
