(* C06: term-protocol front end: decode a case written by the Go harness
   (harness/go/agreement/zz_verif_c06_test.go), run the model, evaluate the oracle on the
   implementation's observation.  No proofs here.

   case  = (c06 step (soft cert late redo down next) ((sender value weight) ...) (OBS ...))
   OBS   = (n SNAP) | (t KIND p bp (sender ...) ((sender p0 p1) ...) SNAP) | (p TAG)
   SNAP  = (((key sender value weight) ...)                      Voters, by key
            ((p count ((key sender value weight) ...)) ...)      Counts, by p; Votes by key
            ((key sender credweight p0 p1) ...)                  Equivocators, by key
            eqcount)
   KIND  = soft | cert | next  (event type)                                            *)
From Coq Require Import NArith ZArith List Bool String.
From Verif.lib Require Import Term.
From Verif.model Require Import VoteTracker VoteTrackerSpec.
Import ListNotations.
Open Scope N_scope.

(* ---- printing the model's trace ---- *)
Definition by_key {A} (l : list (N * A)) : list (N * A) := sort_by (fun a b => fst a <? fst b) l.
Definition t_vote (e : N * vote) : term :=
  TL [tn (fst e); tn (v_sender (snd e)); tn (v_value (snd e)); tn (v_weight (snd e))].
Definition t_counter (e : N * counter) : term :=
  TL [tn (fst e); tn (c_count (snd e)); TL (map t_vote (by_key (c_votes (snd e))))].
Definition t_eq (e : N * eqvote) : term :=
  TL [tn (fst e); tn (e_sender (snd e)); tn (e_weight (snd e)); tn (e_p0 (snd e)); tn (e_p1 (snd e))].
Definition t_state (st : state) : term :=
  TL [TL (map t_vote (by_key (voters st))); TL (map t_counter (by_key (counts st)));
      TL (map t_eq (by_key (equivocators st))); tn (eqcount st)].
Definition kind_of_step (step : N) : string :=
  if step =? 1 then "soft" else if step =? 2 then "cert" else "next".
Definition t_obs (step : N) (e : out * option state) : term :=
  let snap := match snd e with Some st => t_state st | None => TL [] end in
  match fst e with
  | ONone => TL [TS "n"; snap]
  | OThreshold p b =>
      TL [TS "t"; TS (kind_of_step step); tn p; tn (b_value b); TL (map tn (b_votes b));
          TL (map (fun x => TL [tn (fst (fst x)); tn (snd (fst x)); tn (snd x)]) (b_eqs b)); snap]
  | OPanic t => TL [TS "p"; TS t]
  end.

(* ---- decoding ---- *)
Definition d_vote3 (t : term) : option vote :=
  match t with TL [a; b; c] =>
    match as_N a, as_N b, as_N c with Some s, Some p, Some w => Some (mkVote s p w) | _, _, _ => None end
  | _ => None end.
Definition d_kvote (t : term) : option (N * vote) :=
  match t with TL [k; a; b; c] =>
    match as_N k, as_N a, as_N b, as_N c with
    | Some k, Some s, Some p, Some w => Some (k, mkVote s p w) | _, _, _, _ => None end
  | _ => None end.
Definition d_counter (t : term) : option (N * counter) :=
  match t with TL [p; c; TL vs] =>
    match as_N p, as_N c, map_opt d_kvote vs with
    | Some p, Some c, Some vs => Some (p, mkCounter c vs) | _, _, _ => None end
  | _ => None end.
Definition d_eq (t : term) : option (N * eqvote) :=
  match t with TL [k; s; w; p0; p1] =>
    match as_N k, as_N s, as_N w, as_N p0, as_N p1 with
    | Some k, Some s, Some w, Some p0, Some p1 => Some (k, mkEq s w p0 p1) | _, _, _, _, _ => None end
  | _ => None end.
Definition d_state (t : term) : option state :=
  match t with TL [TL vs; TL cs; TL es; n] =>
    match map_opt d_kvote vs, map_opt d_counter cs, map_opt d_eq es, as_N n with
    | Some vs, Some cs, Some es, Some n => Some (mkState vs cs es n) | _, _, _, _ => None end
  | _ => None end.
Definition d_triple (t : term) : option (N * N * N) :=
  match t with TL [a; b; c] =>
    match as_N a, as_N b, as_N c with Some a, Some b, Some c => Some (a, b, c) | _, _, _ => None end
  | _ => None end.
(* returns the observation and, for thresholds, the event kind symbol *)
Definition d_obs (t : term) : option (out * option state * string) :=
  match t with
  | TL [TS "n"; snap] =>
      match d_state snap with Some st => Some (ONone, Some st, ""%string) | None => None end
  | TL [TS "t"; TS k; p; bp; TL vs; TL es; snap] =>
      match as_N p, as_N bp, map_opt as_N vs, map_opt d_triple es, d_state snap with
      | Some p, Some bp, Some vs, Some es, Some st => Some (OThreshold p (mkBundle bp vs es), Some st, k)
      | _, _, _, _, _ => None end
  | TL [TS "p"; TS tag] => Some (OPanic tag, None, ""%string)
  | _ => None
  end.
Definition d_params (t : term) : option params :=
  match t with TL [a; b; c; d; e; f] =>
    match as_N a, as_N b, as_N c, as_N d, as_N e, as_N f with
    | Some a, Some b, Some c, Some d, Some e, Some f => Some (mkParams a b c d e f)
    | _, _, _, _, _, _ => None end
  | _ => None end.

Definition kinds_ok (step : N) (obs : list (out * option state * string)) : bool :=
  forallb (fun e => match fst (fst e) with
                    | OThreshold _ _ => String.eqb (snd e) (kind_of_step step)
                    | _ => true end) obs.

(* a history on which the property speaks: positive, consistent weights, no uint64 overflow
   of the total stake, and a quorum that the empty set does not reach *)
Definition in_domain (q : option N) (l : list vote) : bool := wf_votes_b l && negb (reaches q 0).

Definition check_parsed (step : N) (pr : params) (l : list vote)
           (ob : list (out * option state * string)) (obs_t : term) : term :=
  let q := step_quorum pr step in
  let model := run q init l in
  let mterm := TL (map (t_obs step) model) in
  let dom := in_domain q l in
  let spec := negb dom || (spec_ok q l (map fst ob) && kinds_ok step ob) in
  verdict spec (term_eqb obs_t mterm) (dom && negb (isnil l)) mterm.

Definition check (t : term) : term :=
  match t with
  | TL [TS "c06"; stp; pr; TL vs; TL obs] =>
      match as_N stp, d_params pr, map_opt d_vote3 vs, map_opt d_obs obs with
      | Some step, Some pr, Some l, Some ob => check_parsed step pr l ob (TL obs)
      | _, _, _, _ => v_parse
      end
  | _ => v_parse
  end.
