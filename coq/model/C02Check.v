(* C02: executable checker run by bin/check on the case lines of
   harness/go/agreement/zz_verif_c02_test.go (real Service.mainLoop + persistence loop + crash DB,
   emulated demuxLoop, enumerated crash points).

     (c02 params round0 (own ...) (op ...) plan_tag)        plan_tag: name of the crash plan (not used)
     op = (start restored (action ...)) | (ev src event (action ...)) | (do (vote ...))
        | (write ok ((rnd per step) (action ...)) digest) | (write ok (nodisk)) | (crash)

   MODEL SIDE (corr).  The operation list is replayed through the fine-grained persist-before-release
   wrapper [DurableFine.fstep] (simulated by Durable.drun: DurableFineProofs.fine_refines)
   instantiated with THE FULL AGREEMENT MODEL as the machine: state = option AgreementTypes.state
   (None after a model panic), step = AgreementPlayer.step restricted to its attest outputs
   ([mstep]: one vote (sender, round, period, step, value) per own sender and attest action),
   restore = AgreementPersist.persist (the model of decode . encode).
   ev -> FEv, write -> FWrite, the do after a checkpoint event of the persistence loop -> FRelease,
   crash -> FCrash.  Compared: the full action list of every event (recomputed from the wrapper's
   cached machine state), the re-emitted action list after every restart, the votes released by every
   do, and after every write the decoded crash-DB content (player round/period/step, saved actions,
   full state digest = r_state (persist snapshot)).

   SPEC SIDE (spec_ok), computed from the observations only (no model step):
     S1  no two released votes with equal (sender, round, period, step) and different value;
     S2  persist-before-release: votes are released only by the do that executes the checkpoint of
         their own request, only if that request's write succeeded, and are exactly the votes of the
         attest actions of that request; a successful write stores the action list of the event that
         made the request (so the run on disk contains the attest of every released vote);
     S3  attest-once on every real single run: along the run that is on disk plus its continuation,
         two observed attest actions with equal (round, period, step) carry equal values.
     (S1/S3 for step redo only when the delivered votes do not back two redo values: [redo_excused].)
   The F6 signature (a successful write for the RE-EMITTED attest of a restored start stores the
   zero player and no actions) is reported as v_known "c02_restored_attest_persists_empty_state".
   No proofs in this file. *)
From Coq Require Import NArith ZArith List Bool String.
Import ListNotations.
From Verif.lib Require Import Term.
From Verif.model Require Import AgreementTypes AgreementVotes AgreementProposals AgreementPlayer
     AgreementPersist AgreementRender Durable DurableFine.
Open Scope N_scope.
#[local] Arguments FEv {E} e.
#[local] Arguments FWrite {E} ok.
#[local] Arguments FRelease {E}.
#[local] Arguments FCrash {E}.

(* ---------- the machine plugged into the wrapper ---------- *)
Record cvote := mkCV { cv_snd : N; cv_rnd : N; cv_per : N; cv_step : N; cv_val : value }.

Definition attest_votes (own : list N) (acts : list action) : list cvote :=
  flat_map (fun a => match a with
                     | AAttest r p s v => map (fun snd => mkCV snd r p s v) own
                     | _ => []
                     end) acts.

Definition mstate : Type := option state.
Definition mstep (pm : params) (own : list N) (ms : mstate) (e : ext_event) : mstate * list cvote :=
  match ms with
  | None => (None, [])
  | Some st =>
      match step pm st e with
      | Ok (st', acts) => (Some st', attest_votes own acts)
      | _ => (None, [])
      end
  end.

Definition r_cvote (v : cvote) : term :=
  TL [tn (cv_snd v); tn (cv_rnd v); tn (cv_per v); tn (cv_step v); r_value (cv_val v)].
Definition p_cvote (t : term) : option cvote :=
  match t with
  | TL [s; r; p; st; v] =>
      olet s <- as_N s; olet r <- as_N r; olet p <- as_N p; olet st <- as_N st; olet v <- p_value v;
      Some (mkCV s r p st v)
  | _ => None
  end.

Definition cv_same_key (a b : cvote) : bool :=
  (cv_snd a =? cv_snd b) && (cv_rnd a =? cv_rnd b) && (cv_per a =? cv_per b) && (cv_step a =? cv_step b).
Definition cv_conflict (a b : cvote) : bool := cv_same_key a b && negb (value_eqb (cv_val a) (cv_val b)).
Definition cv_eqb (a b : cvote) : bool := cv_same_key a b && value_eqb (cv_val a) (cv_val b).

(* ---------- operations ---------- *)
Inductive cop :=
| OStart (restored : bool) (acts : term)
| OEv (k : bool) (e : ext_event) (acts : term)       (* k: checkpoint event from the persistence loop *)
| ODo (rel : list term)
| OWrite (ok : bool) (disk : term)                   (* TL [rps; acts; digest] or TL [TS "nodisk"] *)
| OCrash.

Definition p_op (t : term) : option cop :=
  match t with
  | TL [TS "start"; r; acts] => olet r <- as_bool r; Some (OStart r acts)
  | TL [TS "ev"; TS src; e; acts] => olet e <- p_event e; Some (OEv (String.eqb src "k") e acts)
  | TL [TS "do"; TL rel] => Some (ODo rel)
  | TL [TS "write"; ok; TL [TS s]] => olet ok <- as_bool ok; Some (OWrite ok (TL [TS s]))
  | TL [TS "write"; ok; TL [rps; acts]; dig] => olet ok <- as_bool ok; Some (OWrite ok (TL [rps; acts; dig]))
  | TL [TS "crash"] => Some OCrash
  | _ => None
  end.

Record c02_case := mkC02 { k_pm : params; k_r0 : N; k_own : list N; k_ops : list cop }.

Definition p_c02 (t : term) : option c02_case :=
  match t with
  | TL [TS "c02"; pm; r0; TL own; TL ops; TS _] =>
      olet pm <- p_params pm; olet r0 <- as_N r0; olet own <- map_opt as_N own; olet ops <- map_opt p_op ops;
      Some (mkC02 pm r0 own ops)
  | _ => None
  end.

(* ---------- model side: replay through the fine wrapper ---------- *)
Definition wstate : Type := fstate mstate ext_event cvote.

Record rstate := mkR {
  r_f : wstate;
  r_lastk : bool;          (* the last output came from a checkpoint event of the persistence loop *)
  r_qacts : list term;     (* rendered action list of every queued request (parallel to f_queue) *)
  r_dacts : term;          (* rendered saved actions of the snapshot on disk *)
  r_corr : bool;
  r_detail : term;
  r_i : N }.

Definition chk (r : rstate) (b : bool) (what : string) (expected : term) : rstate :=
  if r_corr r && negb b
  then mkR (r_f r) (r_lastk r) (r_qacts r) (r_dacts r) false (TL [TS what; tn (r_i r); expected]) (r_i r)
  else r.

Definition fresh_acts (r0 : N) : term :=
  TL [TL [TS "assemble"; tn r0; tn 0]; TL [TS "rezero"; tn 0]].

Definition model_acts (pm : params) (ms : mstate) (e : ext_event) : term :=
  match ms with
  | None => TL [TS "model_dead"]
  | Some st =>
      match step pm st e with
      | Ok (_, acts) => r_actions acts
      | Panic t => TL [TS "model_panic"; TS t]
      | OutOfFuel => TL [TS "model_fuel"]
      end
  end.

Definition disk_term (f : wstate) (dacts : term) : term :=
  match f_disk mstate ext_event cvote f with
  | None => TL [TS "nodisk"]
  | Some (_, Some st, _) =>
      TL [TL [tn (p_rnd (s_pl st)); tn (p_per (s_pl st)); tn (p_step (s_pl st))]; dacts; r_state (persist st)]
  | Some (_, None, _) => TL [TS "model_dead"]
  end.

Section Replay.
  Variables (pm : params) (r0 : N) (own : list N).
  Definition winit : mstate := Some (init pm r0).
  (* decode (encode st) = AgreementPersist.persist st *)
  Definition wrestore : mstate -> mstate := option_map persist.
  Definition wstep : wstate -> fop ext_event -> wstate := fstep mstate ext_event cvote winit (mstep pm own) wrestore.

  Definition replay_op (r : rstate) (o : cop) : rstate :=
    let f := r_f r in
    let r' :=
      match o with
      | OStart restored acts =>
          let exp_restored := match f_disk mstate ext_event cvote f with Some _ => true | None => false end in
          let exp_acts := if exp_restored then r_dacts r else fresh_acts r0 in
          chk (mkR f false (r_qacts r) (r_dacts r) (r_corr r) (r_detail r) (r_i r))
              (Bool.eqb restored exp_restored && term_eqb acts exp_acts) "start" (TL [tb exp_restored; exp_acts])
      | OEv k e acts =>
          let macts := model_acts pm (f_st mstate ext_event cvote f) e in
          let f' := wstep f (FEv e) in
          let grew := Nat.ltb (List.length (f_queue mstate ext_event cvote f)) (List.length (f_queue mstate ext_event cvote f')) in
          chk (mkR f' k (if grew then r_qacts r ++ [macts] else r_qacts r) (r_dacts r) (r_corr r) (r_detail r) (r_i r))
              (term_eqb macts acts) "ev" macts
      | ODo rel =>
          if r_lastk r then
            let exp := match f_await mstate ext_event cvote f with
                       | (true, vs) :: _ => map r_cvote vs
                       | _ => []
                       end in
            chk (mkR (wstep f FRelease) false (r_qacts r) (r_dacts r) (r_corr r) (r_detail r) (r_i r))
                (list_eqb term_eqb exp rel) "release" (TL exp)
          else
            chk (mkR f false (r_qacts r) (r_dacts r) (r_corr r) (r_detail r) (r_i r))
                (match rel with [] => true | _ => false end) "release_without_checkpoint" (TL [])
      | OWrite ok disk =>
          let f' := wstep f (FWrite ok) in
          let dacts' := if ok then hd (r_dacts r) (r_qacts r) else r_dacts r in
          let exp := disk_term f' dacts' in
          chk (mkR f' (r_lastk r) (tl (r_qacts r)) dacts' (r_corr r) (r_detail r) (r_i r))
              (negb (match f_queue mstate ext_event cvote f with [] => true | _ => false end) && term_eqb exp disk) "write" exp
      | OCrash =>
          mkR (wstep f FCrash) false
              (match f_disk mstate ext_event cvote f with Some _ => [r_dacts r] | None => [] end)
              (r_dacts r) (r_corr r) (r_detail r) (r_i r)
      end in
    mkR (r_f r') (r_lastk r') (r_qacts r') (r_dacts r') (r_corr r') (r_detail r') (r_i r + 1).

  Definition replay (ops : list cop) : rstate :=
    fold_left replay_op ops (mkR (f_init mstate ext_event cvote winit) false [] (TL []) true (TL []) 0).
End Replay.

(* the fine operation list that the replay executes (for the statement of the soundness theorem) *)
Fixpoint fops_of (lastk : bool) (ops : list cop) : list (fop ext_event) :=
  match ops with
  | [] => []
  | OStart _ _ :: t => fops_of false t
  | OEv k e _ :: t => FEv e :: fops_of k t
  | ODo _ :: t => if lastk then FRelease :: fops_of false t else fops_of false t
  | OWrite ok _ :: t => FWrite ok :: fops_of lastk t
  | OCrash :: t => FCrash :: fops_of false t
  end.

(* ---------- spec side: the property on the observations ---------- *)
Definition att : Type := (N * N * N * value)%type.
Definition att_same_key (a b : att) : bool :=
  match a, b with (r, p, s, _), (r', p', s', _) => (r =? r') && (p =? p') && (s =? s') end.
Definition att_ok (a b : att) : bool :=
  negb (att_same_key a b) || value_eqb (snd a) (snd b).

(* votes delivered as verified by the events of the case *)
Definition ev_votes (e : ext_event) : list vote :=
  match e with
  | EvMsg m =>
      if me_verified m && negb (mm_err (me_meta m)) && negb (mm_cancelled (me_meta m)) then
        match me_in m with
        | InVote x => [x]
        | InBundle b => ub_votes b ++ flat_map (fun e => [eqv_first e; eqv_second e]) (ub_eqs b)
        | InPayload _ => []
        end
      else []
  | _ => []
  end.

(* The redo value of (r, p) is the cached non-bottom value of the next-type thresholds of period p-1
   (voteTrackerPeriod.Cached): it is unique only if those thresholds agree (hypothesis
   thresholds_consistent of attest-once; AgreementAttestOnce.script_redo shows two redo values in one
   run without it).  A redo conflict is therefore EXCUSED when the case delivered next-type votes of
   (r, p-1) for both values, i.e. when the script violates the hypothesis. *)
Definition redo_backed (D : list vote) (r p : N) (v : value) : bool :=
  existsb (fun x => (vt_rnd x =? r) && (vt_per x =? sub1 p) && (s_next <=? vt_step x) && value_eqb (vt_val x) v) D.
Definition redo_excused (D : list vote) (r p s : N) (v v' : value) : bool :=
  (s =? s_redo) && redo_backed D r p v && redo_backed D r p v'.
Definition att_ok_exc (D : list vote) (a b : att) : bool :=
  att_ok a b || match a with (r, p, s, v) => redo_excused D r p s v (snd b) end.
Definition cv_conflict_exc (D : list vote) (a b : cvote) : bool :=
  cv_conflict a b && negb (redo_excused D (cv_rnd a) (cv_per a) (cv_step a) (cv_val a) (cv_val b)).

Definition obs_attests (acts : term) : list att :=
  match acts with
  | TL l =>
      flat_map (fun a => match a with
                         | TL [TS "attest"; r; p; s; v] =>
                             match as_N r, as_N p, as_N s, p_value v with
                             | Some r, Some p, Some s, Some v => [(r, p, s, v)]
                             | _, _, _, _ => []
                             end
                         | _ => []
                         end) l
  | _ => []
  end.

(* add the attests of one action list to the lineage, checking attest-once *)
Fixpoint lin_add (D : list vote) (lin : list att) (new : list att) : list att * bool :=
  match new with
  | [] => (lin, true)
  | a :: t =>
      let ok := forallb (att_ok_exc D a) lin in
      let '(lin', ok') := lin_add D (lin ++ [a]) t in
      (lin', ok && ok')
  end.

Definition votes_of (own : list N) (atts : list att) : list cvote :=
  flat_map (fun a => match a with (r, p, s, v) => map (fun snd => mkCV snd r p s v) own end) atts.

(* S1: a new released vote does not conflict with the earlier ones *)
Fixpoint rel_add (D : list vote) (old : list cvote) (new : list cvote) : list cvote * bool :=
  match new with
  | [] => (old, true)
  | v :: t =>
      let ok := negb (existsb (cv_conflict_exc D v) old) in
      let '(old', ok') := rel_add D (old ++ [v]) t in
      (old', ok && ok')
  end.

Fixpoint no_conflict_b (l : list cvote) : bool :=
  match l with
  | [] => true
  | v :: t => negb (existsb (cv_conflict v) t) && no_conflict_b t
  end.
Fixpoint no_conflict_exc_b (D : list vote) (l : list cvote) : bool :=
  match l with
  | [] => true
  | v :: t => negb (existsb (cv_conflict_exc D v) t) && no_conflict_exc_b D t
  end.

Record oreq := mkReq { q_acts : term; q_lin : list att; q_votes : list cvote; q_restored : bool }.

Record ostate := mkO {
  o_lin : list att;              (* attests along the current single run (disk run + continuation) *)
  o_cur : term;                  (* last observed output, not yet executed *)
  o_curk : bool;
  o_cur_restored : bool;
  o_reqs : list oreq;            (* requests not yet written *)
  o_await : list (bool * list cvote);
  o_dlin : option (list att);    (* attests of the run whose snapshot is on disk *)
  o_rel : list cvote;
  o_ok : bool;
  o_f6 : bool;
  o_crashes : N;
  o_why : term }.

Definition obad (o : ostate) (b : bool) (why : string) : ostate :=
  if o_ok o && negb b
  then mkO (o_lin o) (o_cur o) (o_curk o) (o_cur_restored o) (o_reqs o) (o_await o) (o_dlin o) (o_rel o)
           false (o_f6 o) (o_crashes o) (TL [TS why])
  else o.

Definition zero_rps : term := TL [TZ 0; TZ 0; TZ 0].

Definition spec_op (own : list N) (D : list vote) (o : ostate) (op : cop) : ostate :=
  match op with
  | OStart restored acts =>
      let base := if restored then match o_dlin o with Some l => l | None => [] end else [] in
      let '(lin', ok) := lin_add D base (obs_attests acts) in
      (* the re-emitted attests are already part of the run on disk: only their consistency is checked *)
      let lin'' := if restored then base else lin' in
      obad (obad (mkO lin'' acts false restored [] [] (o_dlin o) (o_rel o) (o_ok o) (o_f6 o) (o_crashes o) (o_why o))
                 ok "attest_once_on_restart")
           (negb restored || match o_dlin o with Some _ => true | None => false end) "restored_without_write"
  | OEv k _ acts =>
      let '(lin', ok) := lin_add D (o_lin o) (obs_attests acts) in
      obad (mkO lin' acts k false (o_reqs o) (o_await o) (o_dlin o) (o_rel o) (o_ok o) (o_f6 o) (o_crashes o) (o_why o))
           ok "attest_once"
  | ODo rel =>
      match map_opt p_cvote rel with
      | None => obad o false "unparsable_release"
      | Some relv =>
          let atts := obs_attests (o_cur o) in
          let reqs' := match atts with
                       | [] => o_reqs o
                       | _ => o_reqs o ++ [mkReq (o_cur o) (o_lin o) (votes_of own atts) (o_cur_restored o)]
                       end in
          let '(exp, await') :=
            if o_curk o then
              match o_await o with
              | (ok, vs) :: aw => (if ok then vs else [], aw)
              | [] => ([], [])
              end
            else ([], o_await o) in
          let '(rel', ok1) := rel_add D (o_rel o) relv in
          obad (obad (mkO (o_lin o) (TL []) false false reqs' await' (o_dlin o) rel' (o_ok o) (o_f6 o) (o_crashes o) (o_why o))
                     (list_eqb cv_eqb relv exp) "release_not_after_own_persist")
               ok1 "conflicting_votes_released"
      end
  | OWrite ok disk =>
      match o_reqs o with
      | [] => obad o false "write_without_request"
      | q :: qs =>
          let o1 := mkO (o_lin o) (o_cur o) (o_curk o) (o_cur_restored o) qs (o_await o ++ [(ok, q_votes q)])
                        (if ok then Some (q_lin q) else o_dlin o) (o_rel o) (o_ok o) (o_f6 o) (o_crashes o) (o_why o) in
          if ok then
            match disk with
            | TL [rps; dacts; _] =>
                let same := term_eqb dacts (q_acts q) in
                let f6 := negb same && q_restored q && term_eqb rps zero_rps && term_eqb dacts (TL []) in
                let o2 := mkO (o_lin o1) (o_cur o1) (o_curk o1) (o_cur_restored o1) (o_reqs o1) (o_await o1)
                              (o_dlin o1) (o_rel o1) (o_ok o1) (o_f6 o1 || f6) (o_crashes o1) (o_why o1) in
                obad o2 same "disk_does_not_hold_the_attesting_state"
            | _ => obad o1 false "nothing_on_disk_after_write"
            end
          else o1
      end
  | OCrash =>
      mkO (o_lin o) (TL []) false false [] [] (o_dlin o) (o_rel o) (o_ok o) (o_f6 o) (o_crashes o + 1) (o_why o)
  end.

Definition all_delivered (ops : list cop) : list vote :=
  flat_map (fun o => match o with OEv _ e _ => ev_votes e | _ => [] end) ops.

Definition spec_run (own : list N) (ops : list cop) : ostate :=
  fold_left (spec_op own (all_delivered ops)) ops (mkO [] (TL []) false false [] [] None [] true false 0 (TL [])).

(* ---------- part 2: the REAL pseudonode (zz_verif_c02p_test.go) ----------
     (c02p mode expected (event ...) tag)    event = vote | signal_ok | signal_err | closed
   persistStateDone is signalled by the harness (signal_* is recorded before the channel is touched);
   model = one request with [expected] votes through the wrapper: [FEv; FWrite ok; FRelease];
   spec_ok = no vote before signal_ok, no vote after signal_err, the task does not finish before the
   signal unless it has nothing to release, the output channel is closed in the end. *)
Inductive pev := PVote | PSigOk | PSigErr | PClosed | POther.
Definition p_pev (t : term) : pev :=
  match t with
  | TS "vote" => PVote | TS "signal_ok" => PSigOk | TS "signal_err" => PSigErr | TS "closed" => PClosed
  | _ => POther
  end.
Record c02p_case := mkC02P { pp_expected : N; pp_evs : list pev }.
Definition p_c02p (t : term) : option c02p_case :=
  match t with
  | TL [TS "c02p"; TS _; n; TL evs; TS _] => olet n <- as_N n; Some (mkC02P n (map p_pev evs))
  | _ => None
  end.

Definition seqN (n : N) : list N := map N.of_nat (seq 0 (N.to_nat n)).
Definition p_model_released (n : N) (ok : bool) : N :=
  N.of_nat (List.length
    (f_released unit N N
       (fold_left (fstep unit N N tt (fun s k => (s, seqN k)) (fun s => s))
                  [FEv n; FWrite ok; FRelease] (f_init unit N N tt)))).

(* (signal state 0 none / 1 ok / 2 err, closed, votes seen, rule ok) *)
Fixpoint p_walk (expected : N) (sig : N) (closed : bool) (votes : N) (ok : bool) (l : list pev) : N * bool * N * bool :=
  match l with
  | [] => (sig, closed, votes, ok)
  | PVote :: t => p_walk expected sig closed (votes + 1) (ok && (sig =? 1) && negb closed) t
  | PSigOk :: t => p_walk expected 1 closed votes (ok && (sig =? 0)) t
  | PSigErr :: t => p_walk expected 2 closed votes (ok && (sig =? 0)) t
  | PClosed :: t => p_walk expected sig true votes (ok && negb closed && (negb (sig =? 0) || (expected =? 0))) t
  | POther :: t => p_walk expected sig closed votes false t
  end.

Definition check_p (c : c02p_case) : term :=
  let '(sig, closed, votes, ok) := p_walk (pp_expected c) 0 false 0 true (pp_evs c) in
  let model := p_model_released (pp_expected c) (sig =? 1) in
  verdict (ok && closed) (votes =? model) (0 <? pp_expected c) (TL [TS "pseudonode"; tn model]).

(* ---------- the check ---------- *)
Definition check (t : term) : term :=
  match p_c02 t with
  | None => match p_c02p t with Some c => check_p c | None => v_parse end
  | Some c =>
      let o := spec_run (k_own c) (k_ops c) in
      let r := replay (k_pm c) (k_r0 c) (k_own c) (k_ops c) in
      (* the wrapper's released list must be the observed one (they are compared do by do above) *)
      let corr := r_corr r &&
                  list_eqb cv_eqb (f_released mstate ext_event cvote (r_f r)) (o_rel o) in
      (* strict: no conflict at all (C02_spec_ok_sound); a case whose only conflicts are excused redo
         votes (script violates thresholds_consistent) is accepted but counted as trivial *)
      let strict := no_conflict_b (o_rel o) in
      let nontrivial := strict && (0 <? o_crashes o) && negb (match o_rel o with [] => true | _ => false end) in
      let detail := TL [o_why o; TS (if strict then "no_conflicting_votes_released"
                                     else "CONFLICTING_VOTES_RELEASED")] in
      if o_f6 o then v_known "c02_restored_attest_persists_empty_state" detail
      else if negb (o_ok o && no_conflict_exc_b (all_delivered (k_ops c)) (o_rel o)) then v_viol detail
      else verdict true corr nontrivial (r_detail r)
  end.
