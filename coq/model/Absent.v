(* C27 model: validation and application of the expired / absent participation lists of a
   block header.  Transcribes (same order of checks)
     ledger/eval/eval.go     validateExpiredOnlineAccounts, resetExpiredOnlineAccountsParticipationKeys,
                             validateAbsentOnlineAccounts, suspendAbsentAccounts, isAbsent
     ledger/apply/challenge.go  FindChallenge (period ChActive), challenge.Failed, bitsMatch
     ledger/ledgercore/accountdata.go  LastSeen, ClearOnlineState, Suspend
   The evaluator state is an association list address -> the account fields these functions
   read or write (first binding wins; an unknown address is the zero AccountData, exactly as
   roundCowState.lookup returns for an account that does not exist).  Ledger look-ups that can
   fail with an I/O error (lookup, lookupAgreement, onlineStake) are modelled as total.
   No proofs in this file. *)
From Coq Require Import NArith ZArith List Bool.
From Verif.lib Require Import Term.
From Verif.model Require Import Overflow.
Import ListNotations.
Open Scope N_scope.

Definition addr := list N.                       (* the 32 address bytes *)
Definition addr_eqb (a b : addr) : bool := list_eqb N.eqb a b.

(* basics.Status *)
Definition st_offline : N := 0.
Definition st_online : N := 1.
Definition st_notpart : N := 2.

Record acct := mkAcct {
  a_status : N;
  a_algos : N;             (* MicroAlgos, without pending rewards *)
  a_elig : bool;           (* IncentiveEligible *)
  a_hasvote : bool;        (* !VoteID.IsEmpty() *)
  a_lastvalid : N;         (* VoteLastValid *)
  a_lastprop : N;          (* LastProposed *)
  a_lasthb : N             (* LastHeartbeat *)
}.
Definition zero_acct : acct := mkAcct 0 0 false false 0 0 0.

Definition state := list (addr * acct).

Fixpoint lookup (st : state) (a : addr) : acct :=
  match st with
  | [] => zero_acct
  | (b, d) :: r => if addr_eqb a b then d else lookup r a
  end.

(* putAccount: the newest binding shadows older ones *)
Definition put (st : state) (a : addr) (d : acct) : state := (a, d) :: st.

(* lookupAgreement(addr).VotingStake(): stake of the balance round; unknown = 0 *)
Definition stakes := list (addr * N).
Fixpoint stake_of (sk : stakes) (a : addr) : N :=
  match sk with
  | [] => 0
  | (b, s) :: r => if addr_eqb a b then s else stake_of r a
  end.

Definition mem (a : addr) (l : list addr) : bool := existsb (addr_eqb a) l.

Definition last_seen (d : acct) : N := N.max (a_lastprop d) (a_lasthb d).

(* ---------------- isAbsent ---------------- *)
Definition absent_factor : N := 20.
Definition max_u32 : N := 2 ^ 32 - 1.

Definition is_absent (total stake lastSeen current : N) : bool :=
  if (lastSeen =? 0) || (stake =? 0) then false
  else
    let '(lag, o) := Muldiv absent_factor total stake in
    if o || (max_u32 <? lag) then false
    else (lastSeen + lag) mod W64 <? current.

(* ---------------- challenges ---------------- *)
(* bits.LeadingZeros8 on a byte *)
Definition lz8 (x : N) : N := 8 - N.size x.

(* bitsMatch(a, b, n): n is a Go int *)
Definition bits_match (a b : list N) (n : Z) : bool :=
  if (n <? 0)%Z || (Z.of_nat (length a) * 8 <? n)%Z || (Z.of_nat (length b) * 8 <? n)%Z then false
  else
    let n := Z.to_N n in
    let k := N.to_nat (n / 8) in
    if negb (list_eqb N.eqb (firstn k a) (firstn k b)) then false
    else
      let remaining := n mod 8 in
      if remaining =? 0 then true
      else remaining <=? lz8 (N.lxor (nth k a 0) (nth k b 0)).

Record chal := mkChal { ch_round : N; ch_seed : list N; ch_bits : Z }.
Definition no_chal : chal := mkChal 0 [] 0.

(* block headers as seen through BlockHdr: round -> (Seed, whether the payout rules of the
   header's protocol equal the current rules); an absent round is a lookup error *)
Definition hdrs := list (N * (list N * bool)).
Fixpoint hdr_of (h : hdrs) (r : N) : option (list N * bool) :=
  match h with
  | [] => None
  | (r', v) :: t => if r =? r' then Some v else hdr_of t r
  end.

Record rules := mkRules {
  r_interval : N;          (* Payouts.ChallengeInterval *)
  r_grace : N;             (* Payouts.ChallengeGracePeriod *)
  r_bits : Z               (* Payouts.ChallengeBits *)
}.

(* FindChallenge(rules, current, headers, ChActive); Round arithmetic wraps at 2^64 *)
Definition find_challenge (ru : rules) (current : N) (h : hdrs) : chal :=
  if (r_interval ru =? 0) || (current <? r_interval ru) then no_chal
  else
    let lastChallenge := current - current mod r_interval ru in
    let grace := r_grace ru in
    if (current <=? (lastChallenge + grace) mod W64) ||
       ((lastChallenge + (2 * grace) mod W64) mod W64 <? current) then no_chal
    else match hdr_of h lastChallenge with
         | None => no_chal
         | Some (seed, same_rules) =>
             if negb same_rules then no_chal
             else mkChal lastChallenge seed (r_bits ru)
         end.

(* challenge.Failed *)
Definition ch_failed (ch : chal) (a : addr) (lastSeen : N) : bool :=
  negb (ch_round ch =? 0) && bits_match (ch_seed ch) a (ch_bits ch) && (lastSeen <? ch_round ch).

(* ---------------- validation results ---------------- *)
Inductive kres :=
| KOk
| KExpTooMany | KExpDup | KExpNoKey | KExpNotExpired
| KAbsTooMany | KAbsDup | KAbsNotOnline | KAbsZeroAlgos | KAbsNotEligible | KAbsNotAbsent.

(* validateExpiredOnlineAccounts (eval.validate = true) *)
Fixpoint ve_loop (st : state) (round : N) (seen l : list addr) : kres :=
  match l with
  | [] => KOk
  | a :: r =>
      if mem a seen then KExpDup
      else
        let d := lookup st a in
        if negb (a_hasvote d) then KExpNoKey
        else if round <=? a_lastvalid d then KExpNotExpired
        else ve_loop st round (a :: seen) r
  end.

Definition validate_expired (st : state) (maxExp : nat) (round : N) (l : list addr) : kres :=
  if Nat.ltb maxExp (length l) then KExpTooMany else ve_loop st round [] l.

(* ClearOnlineState: Status = Offline, VotingData = {} *)
Definition clear_online (d : acct) : acct :=
  mkAcct st_offline (a_algos d) (a_elig d) false 0 (a_lastprop d) (a_lasthb d).

(* resetExpiredOnlineAccountsParticipationKeys; None = its own length error *)
Definition reset_expired (st : state) (maxExp : nat) (l : list addr) : option state :=
  if Nat.ltb maxExp (length l) then None
  else Some (fold_left (fun s a => put s a (clear_online (lookup s a))) l st).

(* validateAbsentOnlineAccounts (eval.validate = true) *)
Fixpoint va_loop (st : state) (sk : stakes) (total : N) (ch : chal) (round : N)
         (seen l : list addr) : kres :=
  match l with
  | [] => KOk
  | a :: r =>
      if mem a seen then KAbsDup
      else
        let d := lookup st a in
        if negb (a_status d =? st_online) then KAbsNotOnline
        else if a_algos d =? 0 then KAbsZeroAlgos
        else if negb (a_elig d) then KAbsNotEligible
        else if is_absent total (stake_of sk a) (last_seen d) round
             then va_loop st sk total ch round (a :: seen) r
        else if ch_failed ch a (last_seen d)
             then va_loop st sk total ch round (a :: seen) r
        else KAbsNotAbsent
  end.

Record kparams := mkKP {
  k_max_exp : nat;          (* MaxProposedExpiredOnlineAccounts *)
  k_max_abs : nat;          (* Payouts.MaxMarkAbsent *)
  k_round : N;              (* eval.Round() *)
  k_total : N;              (* onlineStake() *)
  k_rules : rules
}.

Definition validate_absent (st : state) (sk : stakes) (h : hdrs) (p : kparams) (l : list addr) : kres :=
  if Nat.ltb (k_max_abs p) (length l) then KAbsTooMany
  else va_loop st sk (k_total p) (find_challenge (k_rules p) (k_round p) h) (k_round p) [] l.

(* Suspend: Status = Offline, IncentiveEligible = false, keys kept *)
Definition suspend (d : acct) : acct :=
  mkAcct st_offline (a_algos d) false (a_hasvote d) (a_lastvalid d) (a_lastprop d) (a_lasthb d).

Definition suspend_absent (st : state) (l : list addr) : state :=
  fold_left (fun s a => put s a (suspend (lookup s a))) l st.

(* the participation part of endOfBlock in validate mode: validate expired, reset them,
   validate absent on the resulting state, suspend them *)
Definition knockoff (st : state) (sk : stakes) (h : hdrs) (p : kparams)
           (expired absent : list addr) : kres * state :=
  match validate_expired st (k_max_exp p) (k_round p) expired with
  | KOk =>
      match reset_expired st (k_max_exp p) expired with
      | None => (KExpTooMany, st)
      | Some st1 =>
          match validate_absent st1 sk h p absent with
          | KOk => (KOk, suspend_absent st1 absent)
          | e => (e, st1)
          end
      end
  | e => (e, st)
  end.
