(* C02: the persist-before-release wrapper at the granularity at which the real code can be
   crashed (agreement/service.go, persistence.go, pseudonode.go, actions.go).  [Durable.v] makes
   "row written + checkpoint delivered + votes released" one atomic step (PersistOk); here they are
   separate operations, so that a crash can fall between any two of them:

     FEv e      mainLoop handles one event; attest actions enqueue a persist request (persistState)
     FWrite ok  asyncPersistenceLoop.loop handles its oldest request: persist() writes the row (ok) or
                fails; the request's votes now wait for the checkpoint event
     FRelease   the checkpoint event went through the state machine and checkpointAction.do closed
                (or sent the error on) persistStateDone: the oldest waiting votes are released / dropped
     FCrash     process dies; restart = restore + decode + re-emit the saved actions (with the repair
                of fixes/C02.patch: the re-executed attest persists the restored state).  The decoded
                state is [restore s] for the encoded state s: encode/decode drop what is not
                exported (AgreementPersist.persist); [restore := fun s => s] gives Durable.v's reading

   The volatile machine state is cached next to the ghost path (so that the extracted checker does
   not replay the whole path at every event); [DurableFineProofs.fine_refines] shows that every run
   of this wrapper is simulated by [Durable.drun] on the coarsened operation list.

   Also here: the NON-persistent release path of proposal-votes (step 0: assemble / repropose are
   not persistent actions; repropose passes an already closed persistStateDone), used for the
   scope statement C02_propose_step_not_persisted.
   No proofs in this file. *)
From Coq Require Import List Bool.
From Verif.model Require Import Durable.
Import ListNotations.

Section Fine.

Variables S E V : Type.
Variable init : S.
Variable step : S -> E -> S * list V.
Variable restore : S -> S.               (* decode (encode s) *)

(* what a persist request carries: ghost path, the encoded state, votes of the saved attest actions *)
Definition fsnap : Type := (list E * S * list V)%type.

Record fstate := {
  f_path : list E;
  f_st : S;                               (* = state_of init f_path *)
  f_disk : option fsnap;
  f_queue : list (fsnap * list V);        (* requests not yet handled by the persistence loop *)
  f_await : list (bool * list V);         (* handled requests whose checkpoint was not yet executed *)
  f_released : list V
}.

Definition f_init : fstate :=
  {| f_path := []; f_st := init; f_disk := None; f_queue := []; f_await := []; f_released := [] |}.

Inductive fop := FEv (e : E) | FWrite (ok : bool) | FRelease | FCrash.

Definition fstep (d : fstate) (o : fop) : fstate :=
  match o with
  | FEv e =>
      let '(s', vs) := step (f_st d) e in
      let p' := f_path d ++ [e] in
      {| f_path := p'; f_st := s'; f_disk := f_disk d;
         f_queue := match vs with [] => f_queue d | _ => f_queue d ++ [((p', s', vs), vs)] end;
         f_await := f_await d; f_released := f_released d |}
  | FWrite ok =>
      match f_queue d with
      | [] => d
      | (snap, vs) :: q =>
          {| f_path := f_path d; f_st := f_st d; f_disk := if ok then Some snap else f_disk d;
             f_queue := q; f_await := f_await d ++ [(ok, vs)]; f_released := f_released d |}
      end
  | FRelease =>
      match f_await d with
      | [] => d
      | (ok, vs) :: a =>
          {| f_path := f_path d; f_st := f_st d; f_disk := f_disk d; f_queue := f_queue d; f_await := a;
             f_released := if ok then f_released d ++ vs else f_released d |}
      end
  | FCrash =>
      match f_disk d with
      | Some (p, s, vs) =>
          {| f_path := p; f_st := restore s; f_disk := f_disk d; f_queue := [((p, restore s, vs), vs)];
             f_await := []; f_released := f_released d |}
      | None =>
          {| f_path := []; f_st := init; f_disk := None; f_queue := []; f_await := [];
             f_released := f_released d |}
      end
  end.

Definition frun (ops : list fop) : fstate := fold_left fstep ops f_init.

(* the operation list of Durable.v that simulates a fine run *)
Definition coarsen (o : fop) : list (dop E) :=
  match o with
  | FEv e => [Ev E e]
  | FWrite true => [PersistOk E]
  | FWrite false => [PersistFail E]
  | FRelease => []
  | FCrash => [Crash E]
  end.

(* ---- release WITHOUT persistence (proposal-votes): Some e = event, None = crash + restart ---- *)
Definition np_step (d : S * list V) (o : option E) : S * list V :=
  match o with
  | Some e => let '(s', vs) := step (fst d) e in (s', snd d ++ vs)
  | None => (init, snd d)
  end.
Definition np_run (ops : list (option E)) : S * list V := fold_left np_step ops (init, []).

End Fine.
