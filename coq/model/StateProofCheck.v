(* C39: executable [check] for the crypto/stateproof harness
   (harness/go/crypto/stateproof/zz_verif_c39_test.go) and the stateproof/verify harness.
   The abstract functions of model/StateProof.v (signature / salt / commit validity, the two
   vector-commitment verifications, the coin stream) are instantiated by the FACTS the harness
   recorded with the real primitives, called directly and not through Verifier.Verify /
   Prover.CreateProof.  The property itself is recomputed on the implementation's observation
   by [facts_ok] (closed form, own lookups, natural-number intervals) and the [expect] label of
   the mutation.  No proofs here.

   cases
     (verify label expect st lnpw sw dS dP (positions..) ((pos L w saltok commitok sigok)..)
             vcsOk vcpOk (coins..) d0 (pos0..) obs)
        expect: 1 = must verify (honest, above threshold), 0 = must be rejected (a checked
                quantity was tampered with), 2 = either (only the coin seed / the reveal count
                changed: acceptance is then decided by the recorded facts)
        d0/pos0: tree depth and positions of the honest proof the mutation started from
     (prove (w..) (adds..) (commitok..) allvalid pw lnpw st (coins..) obs)
        adds = positions in the order Prover.Add was called; commitok per position (1 for
        positions never added); allvalid = every added signature had passed IsValid(.., true)
        obs = (ok sw (positions..) ((pos L w)..)) | (err class)
     (isvalid w verifySig saltok sigok commitok obs)
     (validate interval threshold strength total last atRound sw lnres inner obs)
        lnres = LnIntApproximation(provenWeight) or -1; inner = result of the exported
        Verifier.Verify on the same arguments *)
From Coq Require Import NArith ZArith List Bool String.
From Verif.lib Require Import Term.
From Verif.model Require Import SpWeights MerkleArray StateProof.
Import ListNotations.
Open Scope N_scope.

(* ---------------------------------------------------------------- result encodings *)
Definition werr_name (e : werr) : string :=
  match e with
  | ErrTooManyReveals => "toomany"
  | ErrZeroSignedWeight => "zerosw"
  | ErrInsufficientSignedWeight => "insufficient"
  | ErrNegativeNumOfRevealsEquation => "negative"
  end.

Definition err_name (e : sperr) : string :=
  match e with
  | ENotReady => "notready"
  | EWeights w => werr_name w
  | ECommit => "commit"
  | ECoinIndex => "coinindex"
  | EPosBound => "posbound"
  | EPresent => "present"
  | EZeroWeight => "zeroweight"
  | EProve => "prove"
  | EDepth => "depth"
  | ESalt => "salt"
  | ESig => "sig"
  | EVcSig => "vc"            (* the Go errors of the two VerifyVectorCommitment calls are the same *)
  | EVcPart => "vc"
  | ENoReveal => "noreveal"
  | ECoin => "coin"
  | ENotEnabled => "notenabled"
  | ENotMultiple => "notmultiple"
  | EInsufficientWeight => "insufficientweight"
  | EOverflow => "overflow"
  | ELnZero => "lnzero"
  end.

Definition t_err (e : sperr) : term := TL [TS "err"; TS (err_name e)].
Definition t_unit (r : spres unit) : term :=
  match r with
  | SOk _ => TL [TS "ok"]
  | SErr e => t_err e
  | SPanic => TL [TS "panic"]
  | SFuel => TL [TS "outoffuel"]
  end.
Definition is_ok (t : term) : bool := match t with TL (TS "ok" :: _) => true | _ => false end.

(* ---------------------------------------------------------------- decoding *)
Definition nthb (l : list bool) (i : N) : bool := nth (N.to_nat i) l false.
Definition nthN (l : list N) (i : nat) : N := nth i l 0.

Record rfact := mkRF { rf_pos : N; rf_L : N; rf_w : N; rf_salt : bool; rf_commit : bool; rf_sig : bool }.

Definition as_rfact (t : term) : option rfact :=
  match t with
  | TL [p; l; w; a; b; c] =>
      match as_N p, as_N l, as_N w, as_bool a, as_bool b, as_bool c with
      | Some p, Some l, Some w, Some a, Some b, Some c => Some (mkRF p l w a b c)
      | _, _, _, _, _, _ => None
      end
  | _ => None
  end.

Definition in64 (n : N) : bool := n <? W64.

(* ---------------------------------------------------------------- verify cases *)
(* the model: reveal number i carries signature i and key i; proofs are their TreeDepth *)
Fixpoint mk_reveals (i : N) (l : list rfact) : list (N * reveal N N) :=
  match l with
  | [] => []
  | f :: r => (rf_pos f, mkReveal (mkSlotC i (rf_L f)) (mkPart i (rf_w f))) :: mk_reveals (i + 1) r
  end.

Definition model_verify (st lnpw sw dS dP : N) (positions : list N) (rf : list rfact)
           (vcs vcp : bool) (coins : list N) : spres unit :=
  verify (PK := N) (Sig := N) (Msg := N) (Dig := N) (Prf := N)
         (fun sig _ => nthb (map rf_salt rf) sig)
         (fun sig => nthb (map rf_commit rf) sig)
         (fun _ _ _ sig => nthb (map rf_sig rf) sig)
         (fun _ j => nthN coins j)
         (fun d => d)
         (fun _ _ _ => vcs) (fun _ _ _ => vcp)
         (mkVerifier st lnpw 0) 0 0
         (mkSP 0 sw dS dP 0 (mk_reveals 0 rf) positions).

(* the oracle: everything the property says an accepted proof must have, on the recorded facts *)
Fixpoint find_fact (pos : N) (rf : list rfact) : option rfact :=
  match rf with
  | [] => None
  | f :: r => if rf_pos f =? pos then Some f else find_fact pos r
  end.

Fixpoint coins_ok (positions coins : list N) (rf : list rfact) : bool :=
  match positions, coins with
  | [], _ => true
  | p :: ps, c :: cs =>
      match find_fact p rf with
      | Some f => (rf_L f <=? c) && (c - rf_L f <? rf_w f) && coins_ok ps cs rf
      | None => false
      end
  | _ :: _, [] => false
  end.

Definition facts_ok (st lnpw sw dS dP : N) (positions : list N) (rf : list rfact)
           (vcs vcp : bool) (coins : list N) : bool :=
  (dS <=? 20) && (dP <=? 20) &&
  spec_verify (Z.of_N sw) (Z.of_N lnpw) (Z.of_nat (List.length positions)) (Z.of_N st) &&
  forallb (fun f => rf_salt f && rf_commit f && rf_sig f) rf &&
  vcs && vcp && coins_ok positions coins rf.

(* the recorded finding: positions renamed through a changed TreeDepth (C37: the depth is not
   bound by VerifyVectorCommitment).  i -> the index that reaches the same leaf at depth d' *)
Definition relab (d0 d' i : N) : option N :=
  match vcIndex i d0 with
  | Some p => vcIndex p d'
  | None => None
  end.

Fixpoint relabelled (d0 dS dP : N) (pos0 positions : list N) : bool :=
  match pos0, positions with
  | [], [] => true
  | a :: r0, b :: r =>
      match relab d0 dS a, relab d0 dP a with
      | Some x, Some y => (x =? b) && (y =? b) && relabelled d0 dS dP r0 r
      | _, _ => false
      end
  | _, _ => false
  end.

Definition is_relabel_signature (d0 dS dP : N) (pos0 positions : list N) : bool :=
  negb ((dS =? d0) && (dP =? d0)) && relabelled d0 dS dP pos0 positions.

Definition check_verify (label : string) (expect st lnpw sw dS dP : N) (positions : list N)
           (rf : list rfact) (vcs vcp : bool) (coins : list N) (d0 : N) (pos0 : list N) (obs : term) : term :=
  let m := t_unit (model_verify st lnpw sw dS dP positions rf vcs vcp coins) in
  let acc := is_ok obs in
  let facts := facts_ok st lnpw sw dS dP positions rf vcs vcp coins in
  let sound := negb acc || facts in
  let corr := term_eqb obs m in
  let nontriv := negb (List.length positions =? 0)%nat in
  if negb sound then v_viol m
  else if (expect =? 1) && negb acc then v_viol m
  else if (expect =? 0) && acc then
         if is_relabel_signature d0 dS dP pos0 positions
         then v_known "c39_position_relabel_via_treedepth" m
         else v_viol m
  else verdict true corr nontriv m.

(* ---------------------------------------------------------------- prove cases *)
Fixpoint insR (x : N * reveal N N) (l : list (N * reveal N N)) : list (N * reveal N N) :=
  match l with
  | [] => [x]
  | y :: r => if fst x <=? fst y then x :: l else y :: insR x r
  end.
Definition sortR (l : list (N * reveal N N)) : list (N * reveal N N) := fold_right insR [] l.

Fixpoint run_adds (b : builder N N N) (adds : list N) : spres (builder N N N) :=
  match adds with
  | [] => SOk b
  | p :: r => match add b p (p + 1) with          (* the signature added at position p is p+1 *)
              | SOk b' => run_adds b' r
              | e => e
              end
  end.

Definition t_reveal (pr : N * reveal N N) : term :=
  TL [tn (fst pr); tn (sc_L (rv_slot (snd pr))); tn (pt_weight (rv_part (snd pr)))].

Definition t_proof (r : spres (stateproof N N N N)) : term :=
  match r with
  | SOk s => TL [TS "ok"; tn (sp_sw s); TL (map tn (sp_positions s)); TL (map t_reveal (sortR (sp_reveals s)))]
  | SErr e => t_err e
  | SPanic => TL [TS "panic"]
  | SFuel => TL [TS "outoffuel"]
  end.

Fixpoint mk_parts (i : N) (ws : list N) : list (participant N) :=
  match ws with [] => [] | w :: r => mkPart i w :: mk_parts (i + 1) r end.

Definition model_prove (ws adds : list N) (commitoks : list bool) (pw lnpw st : N) (coins : list N)
  : spres (stateproof N N N N) :=
  match run_adds (makeProver 0 0 0 pw lnpw (mk_parts 0 ws) st) adds with
  | SOk b =>
      createProof (PK := N) (Sig := N) (Msg := N) (Dig := N) (Prf := N) 0
                  (fun sig => if sig =? 0 then true else nthb commitoks (sig - 1))
                  (fun _ j => nthN coins j)
                  (fun _ => 0) (fun _ _ => Some 0) (fun _ => 0) (fun _ _ => Some 0) b
  | SErr e => SErr e
  | SPanic => SPanic
  | SFuel => SFuel
  end.

(* signed weight recomputed from the inputs (no wrap: the harness keeps totals below 2^64) *)
Fixpoint signed_sum (ws adds : list N) : N :=
  match adds with [] => 0 | p :: r => nth (N.to_nat p) ws 0 + signed_sum ws r end.

Definition obs_err (obs : term) : string :=
  match obs with TL [TS "err"; TS s] => s | _ => "" end.

Definition check_prove (ws adds : list N) (commitoks : list bool) (allvalid : bool) (pw lnpw st : N)
           (coins : list N) (obs : term) : term :=
  let m := t_proof (model_prove ws adds commitoks pw lnpw st coins) in
  let sw := signed_sum ws adds in
  let corr := term_eqb obs m in
  let e := obs_err obs in
  (* a proof is produced only above the proven weight, "not ready" only at or below it *)
  let thr_ok := (negb (is_ok obs) || (pw <? sw)) && (negb (String.eqb e "notready") || (sw <=? pw)) in
  if negb thr_ok then v_viol m
  else if allvalid && String.eqb e "commit" then v_known "c39_valid_sig_blocks_createproof" m
  else verdict true corr (negb (List.length adds =? 0)%nat) m.

(* ---------------------------------------------------------------- isvalid cases *)
Definition model_isvalid (w : N) (vs saltok sigok commitok : bool) : spres unit :=
  isValid (PK := N) (Sig := N) (Msg := N) 0 (fun _ _ => saltok) (fun _ => commitok) (fun _ _ _ _ => sigok)
          (makeProver 0 0 0 0 0 [mkPart 0 w] 0) 0 1 vs.

Definition check_isvalid (w : N) (vs saltok sigok commitok : bool) (obs : term) : term :=
  let m := t_unit (model_isvalid w vs saltok sigok commitok) in
  let acc := is_ok obs in
  let base := negb (w =? 0) && (negb vs || (saltok && sigok)) in
  if acc && negb base then v_viol m
  else if acc && negb commitok then v_known "c39_valid_sig_blocks_createproof" m
  else verdict true (term_eqb obs m) true m.

(* ---------------------------------------------------------------- validate cases *)
Definition inner_of (t : term) : option (spres unit) :=
  match t with
  | TL [TS "ok"] => Some (SOk tt)
  | TL [TS "err"; TS _] => Some (SErr ECoin)          (* any crypto error: errStateProofCrypto *)
  | _ => None
  end.

Definition model_validate (inner : spres unit) (interval threshold strength total last atRound sw : N)
           (lnres : option N) : spres unit :=
  validate_with (PK := N) (Sig := N) (Msg := N) (Dig := N) (Prf := N)
    (fun _ => lnres) (fun _ _ _ _ => inner)
    (mkCtx interval threshold strength last total 0)
    (mkSP 0 sw 0 0 0 [] []) atRound 0.

Definition check_validate (interval threshold strength total last atRound sw : N) (lnres : option N)
           (inner obs : term) : term :=
  match inner_of inner with
  | None => v_parse
  | Some i =>
      let m := match model_validate i interval threshold strength total last atRound sw lnres with
               | SErr ECoin => TL [TS "err"; TS "crypto"]      (* the recorded inner failure *)
               | x => t_unit x
               end in
      let acc := is_ok obs in
      (* the property on the observation: accepted only at a multiple of the interval, with
         at least the acceptable weight, and only if the inner verification accepted *)
      let spec := negb acc ||
                  (negb (interval =? 0) && (last mod interval =? 0) &&
                   (acceptableWeight interval threshold total last atRound <=? sw) && is_ok inner) in
      verdict spec (term_eqb obs m) true m
  end.

(* ---------------------------------------------------------------- dispatcher *)
Definition as_bool_list (t : term) : option (list bool) :=
  match t with TL l => map_opt as_bool l | _ => None end.

Definition check (t : term) : term :=
  match t with
  | TL [TS "verify"; TS label; expect; st; lnpw; sw; dS; dP; positions; TL rfs; vcs; vcp; coins; d0; pos0; obs] =>
      match as_N expect, as_N st, as_N lnpw, as_N sw, as_N dS, as_N dP with
      | Some expect, Some st, Some lnpw, Some sw, Some dS, Some dP =>
          match as_N_list positions, map_opt as_rfact rfs, as_bool vcs, as_bool vcp, as_N_list coins,
                as_N d0, as_N_list pos0 with
          | Some positions, Some rf, Some vcs, Some vcp, Some coins, Some d0, Some pos0 =>
              if in64 st && in64 lnpw && in64 sw
              then check_verify label expect st lnpw sw dS dP positions rf vcs vcp coins d0 pos0 obs
              else v_parse
          | _, _, _, _, _, _, _ => v_parse
          end
      | _, _, _, _, _, _ => v_parse
      end
  | TL [TS "prove"; ws; adds; commitoks; allvalid; pw; lnpw; st; coins; obs] =>
      match as_N_list ws, as_N_list adds, as_bool_list commitoks, as_bool allvalid with
      | Some ws, Some adds, Some commitoks, Some allvalid =>
          match as_N pw, as_N lnpw, as_N st, as_N_list coins with
          | Some pw, Some lnpw, Some st, Some coins =>
              if in64 pw && in64 lnpw && in64 st
              then check_prove ws adds commitoks allvalid pw lnpw st coins obs
              else v_parse
          | _, _, _, _ => v_parse
          end
      | _, _, _, _ => v_parse
      end
  | TL [TS "isvalid"; w; vs; a; b; c; obs] =>
      match as_N w, as_bool vs, as_bool a, as_bool b, as_bool c with
      | Some w, Some vs, Some a, Some b, Some c => check_isvalid w vs a b c obs
      | _, _, _, _, _ => v_parse
      end
  | TL [TS "validate"; interval; threshold; strength; total; last; atRound; sw; TZ lnres; inner; obs] =>
      match as_N interval, as_N threshold, as_N strength, as_N total with
      | Some interval, Some threshold, Some strength, Some total =>
          match as_N last, as_N atRound, as_N sw with
          | Some last, Some atRound, Some sw =>
              check_validate interval threshold strength total last atRound sw
                             (if (lnres <? 0)%Z then None else Some (Z.to_N lnres)) inner obs
          | _, _, _ => v_parse
          end
      | _, _, _, _ => v_parse
      end
  | _ => v_parse
  end.
