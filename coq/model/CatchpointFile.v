(* C16 model: what a catchpoint file is and how CatchpointCatchupAccessor turns it into a ledger.

   Transcribed from /repo/ledger
     catchpointfilewriter.go   the chunk stream: balances chunks (accounts in DB order, an account
                               whose resources exceed the per-chunk budget is split into records with
                               ExpectingMoreEntries = true followed by a final one), KV chunks, online
                               account / online round params chunks; catchpointtracker.go repackCatchpoint
                               (content.msgpack first) -- [write_file]
     catchupaccessor.go        ProcessStagingBalances (section dispatch), processStagingContent (header
                               once, version check, totals / block round staged),
                               processStagingStateProofVerificationContext, processStagingBalances
                               (header required, empty chunk refused, the expectingSpecificAccount /
                               resource counter checks, then the staging writers), BuildMerkleTrie
                               (every pending hash added, a duplicate is an error), GetVerifyData +
                               VerifyCatchpoint (label recomputed from the staged trie root, totals and
                               digests), finishBalances (the staging tables become the ledger)
     acctdeltas.go             prepareNormalizedBalancesV6: account hash only for the record with
                               ExpectingMoreEntries = false, one hash per resource
     store/trackerdb/sqlitedriver/catchpoint.go
                               WriteCatchpointStagingBalances: catchpointbalances has a UNIQUE address
                               index -- the FIRST record of an address creates the row, later ones
                               ("overflowed account record") only add resources; resources (addrid,aidx),
                               kvstore(key), onlineaccounts(address,updround), onlineroundparamstail(rnd)
                               are primary keys
   over abstract decoders / leaf builders / hash: [tot_of] and [flags_of] are what the accessor reads
   in the decoded AccountData / ResourcesData, [leafA] / [leafR] / [leafK] the HashBuilderV6 functions.
   msgpack / tar / gzip decoding happens before the model: a section that does not decode is [SRaw].
   No proofs in this file. *)
From Coq Require Import List NArith ZArith Bool.
From Verif.model Require Import MerkleTrie MerkleTrieSpec CatchpointHash.
Import ListNotations.
Open Scope N_scope.

Definition counts := (N * N * N * N)%type.            (* appParams, appLocalStates, assetParams, assets *)
Definition counts_zero : counts := (0, 0, 0, 0).
Definition counts_eqb (a b : counts) : bool :=
  let '(a1, a2, a3, a4) := a in let '(b1, b2, b3, b4) := b in
  (a1 =? b1) && (a2 =? b2) && (a3 =? b3) && (a4 =? b4).

Definition beqb (a b : bytes) : bool :=
  (fix go (x y : bytes) : bool :=
     match x, y with
     | [], [] => true
     | p :: x', q :: y' => (p =? q) && go x' y'
     | _, _ => false
     end) a b.

(* ---------- file ---------- *)
Record brec := mkRec {
  b_addr : bytes;
  b_enc : bytes;                          (* msgp encoding of BaseAccountData *)
  b_more : bool;                          (* ExpectingMoreEntries *)
  b_res : list (N * bytes) }.             (* creatable index, msgp encoding of ResourcesData *)

Inductive section : Type :=
| SHdr (version balround blkround : N) (totals : bytes)
| SSp (data : bytes) (n : N)              (* stateProofVerificationContext.msgpack, number of contexts *)
| SBal (bals : list brec) (kvs : list (bytes * bytes)) (oa orp : list bytes)
| SRaw                                    (* a known section that does not decode *)
| SOther.                                 (* unknown section name: ignored *)

(* ---------- the ledger state a catchpoint carries ---------- *)
Record world := mkWorld {
  w_accts : list (bytes * bytes * list (N * bytes));    (* address, account data, resources *)
  w_kvs : list (bytes * bytes);
  w_oa : list bytes;                                    (* onlineaccounts rows in (address, updround) order *)
  w_orp : list bytes;                                   (* onlineroundparams rows in round order *)
  w_sp : bytes;                                         (* encoded state-proof verification contexts *)
  w_totals : bytes }.

Inductive stage := StProcess | StTrie | StVerify.
Inductive outcome (A : Type) := Rejected (s : stage) | Accepted (a : A).
Arguments Rejected {A}. Arguments Accepted {A}.

Section Accessor.
  (* [fixed] = true: the accessor with fixes/C16.patch (a continuation record must repeat the account
     data of the partial record before it; BuildMerkleTrie refuses a stream that ended inside an
     account); false: the accessor as it was (finding c16_partial_record_data_unbound) *)
  Variable fixed : bool.
  Variable H : bytes -> bytes.
  Variable tot_of : bytes -> counts.                       (* Total{AppParams,AppLocalStates,AssetParams,Assets} of an account *)
  Variable flags_of : bytes -> bool * bool * bool * bool.  (* IsApp, IsAsset, IsOwning, IsHolding of a resource *)
  Variable leafA : bytes -> bytes -> bytes.                (* AccountHashBuilderV6 addr enc *)
  Variable leafR : bytes -> N -> bytes -> bytes.           (* ResourcesHashBuilderV6 addr cidx enc *)
  Variable leafK : bytes -> bytes -> bytes.                (* KvHashBuilderV6 key value *)

  Definition count_res (c : counts) (enc : bytes) : counts :=
    let '(tap, tals, tasp, tas) := c in
    let '(isapp, isasset, own, hold) := flags_of enc in
    ((if isapp && own then tap + 1 else tap), (if isapp && hold then tals + 1 else tals),
     (if isasset && own then tasp + 1 else tasp), (if isasset && hold then tas + 1 else tas)).

  Record astate := mkA {
    a_seen : bool;                      (* progress.SeenHeader *)
    a_version : N;
    a_blkround : N;
    a_totals : bytes;
    a_expect : option (bytes * bytes);  (* expectingSpecificAccount: nextExpectedAccount, nextExpectedAccountData *)
    a_cnt : counts;                     (* acctResCnt *)
    a_accts : list (bytes * bytes);     (* catchpointbalances, insertion order *)
    a_res : list (bytes * N * bytes);   (* catchpointresources *)
    a_kvs : list (bytes * bytes);       (* catchpointkvstore *)
    a_oa : list bytes;
    a_orp : list bytes;
    a_sp : bytes;
    a_hashes : list bytes }.            (* catchpointpendinghashes *)

  Definition a_init : astate := mkA false 0 0 [] None counts_zero [] [] [] [] [] [128] [].

  (* the loop over the records of a chunk: "received incomplete chunks" / resource counter checks *)
  Fixpoint check_records (bals : list brec) (expect : option (bytes * bytes)) (cnt : counts)
    : option (option (bytes * bytes) * counts) :=
    match bals with
    | [] => Some (expect, cnt)
    | r :: bals' =>
        if match expect with
           | Some (a, e) => negb (beqb (b_addr r) a) || (fixed && negb (beqb (b_enc r) e))
           | None => false
           end then None else
        let cnt' := fold_left (fun c e => count_res c (snd e)) (b_res r) cnt in
        if b_more r then check_records bals' (Some (b_addr r, b_enc r)) cnt'
        else if counts_eqb cnt' (tot_of (b_enc r)) then check_records bals' None counts_zero
        else None
    end.

  Definition has_key {A} (k : bytes) (l : list (bytes * A)) : bool := existsb (fun e => beqb (fst e) k) l.
  Definition has_res (a : bytes) (c : N) (l : list (bytes * N * bytes)) : bool :=
    existsb (fun e => beqb (fst (fst e)) a && (snd (fst e) =? c)) l.

  (* WriteCatchpointStagingBalances: first record of an address creates the row; a resource
     (address, index) seen twice violates the primary key *)
  Fixpoint write_balances (bals : list brec) (accts : list (bytes * bytes)) (res : list (bytes * N * bytes))
    : option (list (bytes * bytes) * list (bytes * N * bytes)) :=
    match bals with
    | [] => Some (accts, res)
    | r :: bals' =>
        let accts' := if has_key (b_addr r) accts then accts else accts ++ [(b_addr r, b_enc r)] in
        match (fix go (rs : list (N * bytes)) (res : list (bytes * N * bytes)) :=
                 match rs with
                 | [] => Some res
                 | (c, e) :: rs' => if has_res (b_addr r) c res then None else go rs' (res ++ [(b_addr r, c, e)])
                 end) (b_res r) res with
        | None => None
        | Some res' => write_balances bals' accts' res'
        end
    end.

  (* prepareNormalizedBalancesV6: the hashes a chunk contributes *)
  Definition record_hashes (r : brec) : list bytes :=
    (if b_more r then [] else [leafA (b_addr r) (b_enc r)]) ++
    map (fun e => leafR (b_addr r) (fst e) (snd e)) (b_res r).

  Fixpoint write_kvs (kvs : list (bytes * bytes)) (st : list (bytes * bytes)) : option (list (bytes * bytes)) :=
    match kvs with
    | [] => Some st
    | (k, v) :: kvs' => if has_key k st then None else write_kvs kvs' (st ++ [(k, v)])
    end.

  (* onlineaccounts (address, updround) / onlineroundparamstail (rnd) primary keys: the rows are opaque
     here, so only an IDENTICAL row counts as a key violation *)
  Fixpoint write_rows (rows : list bytes) (st : list bytes) : option (list bytes) :=
    match rows with
    | [] => Some st
    | r :: rows' => if existsb (beqb r) st then None else write_rows rows' (st ++ [r])
    end.

  Definition process_section (s : section) (a : astate) : option astate :=
    match s with
    | SOther => Some a
    | SRaw => None
    | SHdr ver balr blkr tot =>
        if a_seen a then None
        else if (128 <=? ver) && (ver <=? 131) then      (* CatchpointFileVersionV5 .. V8 = 0200 .. 0203 *)
          Some (mkA true ver blkr tot (a_expect a) (a_cnt a) (a_accts a) (a_res a) (a_kvs a) (a_oa a) (a_orp a) (a_sp a) (a_hashes a))
        else None
    | SSp data n =>
        Some (mkA (a_seen a) (a_version a) (a_blkround a) (a_totals a) (a_expect a) (a_cnt a) (a_accts a) (a_res a)
                  (a_kvs a) (a_oa a) (a_orp a) (if n =? 0 then a_sp a else data) (a_hashes a))
    | SBal bals kvs oa orp =>
        if negb (a_seen a) then None
        else if a_version a =? 128 then None                         (* V5 files: not modelled *)
        else match bals, kvs, oa, orp with
             | [], [], [], [] => None                              (* "received an empty chunk" *)
             | _, _, _, _ =>
                 match check_records bals (a_expect a) (a_cnt a) with
                 | None => None
                 | Some (expect', cnt') =>
                     match write_balances bals (a_accts a) (a_res a), write_kvs kvs (a_kvs a),
                           write_rows oa (a_oa a), write_rows orp (a_orp a) with
                     | Some (accts', res'), Some kvs', Some oa', Some orp' =>
                         Some (mkA true (a_version a) (a_blkround a) (a_totals a) expect' cnt' accts' res' kvs'
                                   oa' orp' (a_sp a)
                                   (a_hashes a ++ flat_map record_hashes bals ++ map (fun e => leafK (fst e) (snd e)) kvs))
                     | _, _, _, _ => None
                     end
                 end
             end
    end.

  Fixpoint process_all (f : list section) (a : astate) : option astate :=
    match f with
    | [] => Some a
    | s :: f' => match process_section s a with None => None | Some a' => process_all f' a' end
    end.

  (* BuildMerkleTrie: Add every pending hash; "contained the same account more than once" *)
  Fixpoint build_trie (hs : list bytes) (st : tstate) : option tstate :=
    match hs with
    | [] => Some st
    | h :: hs' => match trie_add st h with
                  | (st', RBool true, _) => build_trie hs' st'
                  | _ => None
                  end
    end.

  Definition tag_spv : bytes := [115; 112; 118].      (* "spv" *)
  Definition tag_oa : bytes := [79; 65].              (* "OA"  *)
  Definition tag_orp : bytes := [79; 82; 80].         (* "ORP" *)
  (* calculateVerificationHash: hash of the concatenated item hashes *)
  Definition rows_hash (tag : bytes) (rows : list bytes) : bytes := H (concat (map (fun r => H (tag ++ r)) rows)).

  Definition label_extras_of (ver : N) (sp : bytes) (oa orp : list bytes) : list bytes :=
    if ver <=? 129 then [] else if ver =? 130 then [H (tag_spv ++ sp)]
    else [H (tag_spv ++ sp); rows_hash tag_oa oa; rows_hash tag_orp orp].

  (* the label VerifyCatchpoint recomputes from the staged data and the trusted block *)
  Definition staged_label (a : astate) (t : tstate) (blkdigest : bytes) : bytes :=
    make_label H (a_blkround a) blkdigest (root_hash H (t_root t)) (a_totals a)
               (label_extras_of (a_version a) (a_sp a) (a_oa a) (a_orp a)).

  (* finishBalances: the staging tables become the ledger *)
  Definition world_of (a : astate) : world :=
    mkWorld (map (fun e => (fst e, snd e, map (fun r => (snd (fst r), snd r))
                                              (filter (fun r => beqb (fst (fst r)) (fst e)) (a_res a)))) (a_accts a))
            (a_kvs a) (a_oa a) (a_orp a) (a_sp a) (a_totals a).

  (* the whole catchup of the balances: sections, trie, label check against the trusted
     (label, block round, block digest); returns the adopted world and its trie *)
  Definition restore (f : list section) (label : bytes) (blkround : N) (blkdigest : bytes) : outcome (world * tstate) :=
    match process_all f a_init with
    | None => Rejected StProcess
    | Some a =>
        if fixed && match a_expect a with Some _ => true | None => false end then Rejected StTrie else
        match build_trie (a_hashes a) t_empty with
        | None => Rejected StTrie
        | Some t =>
            if negb (a_blkround a =? blkround) then Rejected StVerify
            else if beqb (staged_label a t blkdigest) label then Accepted (world_of a, t)
            else Rejected StVerify
        end
    end.

  (* ---------- the writer ---------- *)
  (* one Next() of the accounts iterator: up to [B] accounts and [R] resources; an account that does
     not fit is cut ([b_more] = true) and resumed in the next chunk.  [nacc] / [nres]: accounts and
     resources already in the current chunk, [cur]: its records in reverse *)
  Fixpoint split_at {A} (n : nat) (l : list A) : list A * list A :=
    match n, l with
    | O, _ => ([], l)
    | S n', x :: l' => let '(a, b) := split_at n' l' in (x :: a, b)
    | S _, [] => ([], [])
    end.

  Fixpoint chunk_accounts (fuel : nat) (B R : nat) (accts : list (bytes * bytes * list (N * bytes)))
           (cur : list brec) (nacc nres : nat) : list (list brec) :=
    match fuel with
    | O => []
    | S fuel' =>
        match accts with
        | [] => match cur with [] => [] | _ => [rev cur] end
        | (a, e, rs) :: accts' =>
            let budget := (R - nres)%nat in
            if Nat.ltb (length rs) budget then
              (* the account fits with room to spare *)
              let cur' := mkRec a e false rs :: cur in
              if Nat.eqb (S nacc) B then rev cur' :: chunk_accounts fuel' B R accts' [] 0 0
              else chunk_accounts fuel' B R accts' cur' (S nacc) (nres + length rs)
            else
              let '(now, later) := split_at budget rs in
              match later with
              | [] => (* exactly fills the chunk: complete record, the chunk ends; the iterator revisits
                         the account at the start of the next call (no output, counted as one account) *)
                  rev (mkRec a e false now :: cur) :: chunk_accounts fuel' B R accts' [] 1 0
              | _ => rev (mkRec a e true now :: cur) :: chunk_accounts fuel' B R ((a, e, later) :: accts') [] 0 0
              end
        end
    end.

  Fixpoint chunk_list {A} (fuel : nat) (B : nat) (l : list A) : list (list A) :=
    match fuel with
    | O => []
    | S fuel' => match l with
                 | [] => []
                 | _ => let '(a, b) := split_at B l in a :: chunk_list fuel' B b
                 end
    end.

  Definition write_file (ver : N) (B R : nat) (balround blkround : N) (w : world) : list section :=
    let nres := fold_left (fun n a => (n + length (snd a))%nat) (w_accts w) 0%nat in
    let fuel := S (length (w_accts w) + nres) in
    SHdr ver balround blkround (w_totals w) :: SSp (w_sp w) 1 ::
    map (fun c => SBal c [] [] []) (chunk_accounts fuel B R (w_accts w) [] 0 0) ++
    map (fun c => SBal [] c [] []) (chunk_list (S (length (w_kvs w))) B (w_kvs w)) ++
    (if 131 <=? ver then
       map (fun c => SBal [] [] c []) (chunk_list (S (length (w_oa w))) B (w_oa w)) ++
       map (fun c => SBal [] [] [] c) (chunk_list (S (length (w_orp w))) B (w_orp w))
     else []).
End Accessor.
