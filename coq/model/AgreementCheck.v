(* Agreement model -- part 7: the executable checkers run by bin/check on the case lines written by
   harness/go/agreement/zz_verif_sm*_test.go.  One case = one whole script:

     (sm params round0 (event ...) ((actions digest) ...) end (fork ...))
     fork = (fork k reflect actsEq dropped digest0 (actions ...) end digest (actions ...) end digest)
                                                  ^ original machine        ^ restored machine
          | (fork k reflect decode_failed #msg) | (forkerr k replay_diverged)

   [check_sm]   correspondence only (main run + forks)
   [check_c03]  correspondence of the main run + spec_ok_c03 on the observed ensureActions
   [check_c07]  correspondence of main run and forks + spec_ok_c07 on the observed forks
   No proofs. *)
From Coq Require Import NArith ZArith List Bool String.
Import ListNotations.
From Verif.lib Require Import Term.
From Verif.model Require Import AgreementTypes AgreementVotes AgreementProposals AgreementPlayer
     AgreementPersist AgreementRender.
Open Scope N_scope.

(* ---------- running the model on a script ---------- *)
(* per event: (actions, digest or "=" when unchanged) ; outcome ; final state (None after a panic) *)
Fixpoint run_obs (pm : params) (st : state) (prev : term) (es : list ext_event)
  : list term * outcome * option state :=
  match es with
  | [] => ([], Finished, Some st)
  | e :: es' =>
      match step pm st e with
      | Ok (st', acts) =>
          let d := r_state st' in
          let same := term_eqb d prev in
          let '(l, o, fin) := run_obs pm st' (if same then prev else d) es' in
          (TL [r_actions acts; if same then TS "=" else d] :: l, o, fin)
      | Panic t => ([], Panicked t, None)
      | OutOfFuel => ([], Exhausted, None)
      end
  end.

Fixpoint run_acts (pm : params) (st : state) (es : list ext_event) : list term * outcome * option state :=
  match es with
  | [] => ([], Finished, Some st)
  | e :: es' =>
      match step pm st e with
      | Ok (st', acts) => let '(l, o, fin) := run_acts pm st' es' in (r_actions acts :: l, o, fin)
      | Panic t => ([], Panicked t, None)
      | OutOfFuel => ([], Exhausted, None)
      end
  end.

Fixpoint state_after (pm : params) (st : state) (es : list ext_event) : option state :=
  match es with
  | [] => Some st
  | e :: es' => match step pm st e with Ok (st', _) => state_after pm st' es' | _ => None end
  end.

Definition r_final (o : option state) : term := match o with Some st => r_state st | None => TL [] end.

(* ---------- the case ---------- *)
Record sm_case := mkCase {
  c_pm : params; c_r0 : N; c_events : list ext_event;
  c_obs : list term; c_end : term; c_forks : list term }.

Definition p_case (t : term) : option sm_case :=
  match t with
  | TL [TS "sm"; pm; r0; TL evs; TL obs; e; TL forks] =>
      olet pm <- p_params pm; olet r0 <- as_N r0; olet evs <- map_opt p_event evs;
      Some (mkCase pm r0 evs obs e forks)
  | _ => None
  end.

Fixpoint first_diff (i : N) (a b : list term) : option N :=
  match a, b with
  | [], [] => None
  | x :: a', y :: b' => if term_eqb x y then first_diff (i + 1) a' b' else Some i
  | _, _ => Some i
  end.

(* main run: (corr, detail) *)
Definition main_corr (c : sm_case) : bool * term :=
  let '(l, o, _) := run_obs (c_pm c) (init (c_pm c) (c_r0 c)) (TL []) (c_events c) in
  match first_diff 0 l (c_obs c) with
  | Some i => (false, TL [TS "main"; tn i; nth (N.to_nat i) l (TL [])])
  | None => if term_eqb (r_outcome o) (c_end c) then (true, TL [])
            else (false, TL [TS "main_end"; r_outcome o])
  end.

(* ---------- forks ---------- *)
Record fork_obs := mkFork {
  f_k : N; f_acts_eq : bool; f_dropped : N; f_d0 : term;
  f_oacts : list term; f_oend : term; f_odig : term;
  f_racts : list term; f_rend : term; f_rdig : term }.

Inductive fork_parse := FOk (f : fork_obs) | FDecodeFailed (k : N) | FBad.
Definition p_fork (t : term) : fork_parse :=
  match t with
  | TL [TS "fork"; k; _; ae; dr; d0; TL oa; oe; od; TL ra; re; rd] =>
      match as_N k, as_bool ae, as_N dr with
      | Some k, Some ae, Some dr => FOk (mkFork k ae dr d0 oa oe od ra re rd)
      | _, _, _ => FBad
      end
  | TL [TS "fork"; k; _; TS "decode_failed"; _] => match as_N k with Some k => FDecodeFailed k | None => FBad end
  | _ => FBad
  end.

(* the model's prediction for a fork: (live events, digest0, orig acts/end/digest, restored acts/end/digest) *)
Definition fork_model (c : sm_case) (k : N)
  : option (list ext_event * state * (list term * outcome * option state) * (list term * outcome * option state)) :=
  let pm := c_pm c in
  match state_after pm (init pm (c_r0 c)) (firstn (N.to_nat k) (c_events c)) with
  | None => None
  | Some sk =>
      let rest := live_events sk (skipn (N.to_nat k) (c_events c)) in
      let s' := restore (persist sk) in
      Some (rest, sk, run_acts pm sk rest, run_acts pm s' rest)
  end.

Definition fork_corr (c : sm_case) (f : fork_obs) : bool :=
  match fork_model c (f_k f) with
  | None => false
  | Some (rest, sk, (oa, oo, of_), (ra, ro, rf)) =>
      (N.of_nat (List.length (skipn (N.to_nat (f_k f)) (c_events c))) - N.of_nat (List.length rest) =? f_dropped f) &&
      term_eqb (r_state (restore (persist sk))) (f_d0 f) &&
      list_eqb term_eqb oa (f_oacts f) && term_eqb (r_outcome oo) (f_oend f) && term_eqb (r_final of_) (f_odig f) &&
      list_eqb term_eqb ra (f_racts f) && term_eqb (r_outcome ro) (f_rend f) && term_eqb (r_final rf) (f_rdig f)
  end.

(* projection of a rendered digest onto the persisted observables (old rounds, late-credential
   fields and message handles of Pending tails are not part of the comparison) *)
Definition proj_tail (t : term) : term :=
  match t with
  | TL [v; TL [a; b; c; _; e]] => TL [v; TL [a; b; c; TZ 1; e]]
  | _ => t
  end.
Definition proj_player (t : term) : term :=
  match t with
  | TL [r; p; s; l; d; dt; nap; frd; TL pend; nx] =>
      TL [r; p; s; l; d; dt; nap; frd;
          TL (map (fun kv => match kv with TL [k; tl] => TL [k; proj_tail tl] | _ => kv end) pend); nx]
  | _ => t
  end.
Definition proj_ptracker (t : term) : term :=
  match t with
  | TL [dup; low; filled; frozen; _; _; staging; a; b; c; d] =>
      TL [dup; low; filled; frozen; TL []; TZ 0; staging; a; b; c; d]
  | _ => t
  end.
Definition proj_period (t : term) : term :=
  match t with
  | TL [p; pt; vp; steps] => TL [p; proj_ptracker pt; vp; steps]
  | _ => t
  end.
Definition proj_round (t : term) : term :=
  match t with
  | TL [r; st; fr; TL ps] => TL [r; st; fr; TL (map proj_period ps)]
  | _ => t
  end.
Definition term_round (t : term) : Z :=
  match t with TL (TZ r :: _) => r | _ => 0%Z end.
Definition proj_digest (t : term) : term :=
  match t with
  | TL [pl; TL rounds] =>
      let cur := term_round pl in
      TL [proj_player pl; TL (map proj_round (filter (fun r => (cur <=? term_round r)%Z) rounds))]
  | _ => t
  end.

(* the property on the implementation's observations of one fork *)
Definition fork_spec (f : fork_obs) : bool :=
  f_acts_eq f && list_eqb term_eqb (f_oacts f) (f_racts f) && term_eqb (f_oend f) (f_rend f) &&
  term_eqb (proj_digest (f_odig f)) (proj_digest (f_rdig f)).

(* signature of the recorded findings: the FIRST difference between the original and the restored
   run is on a proposal-vote message, both sides answered with a single-headed ignore / relay(vote) /
   verify(vote), and DynamicFilterTimeout is on.  Old-round votes (round below the player's round at
   the crash) name the dropped-router finding, the others the late-credential-tracking finding. *)
Definition head_sym (t : term) : string :=
  match t with TL (TL (TS s :: _) :: _) => s | _ => ""%string end.
Definition sig_head (s : string) : bool :=
  String.eqb s "ignore" || String.eqb s "relayV" || String.eqb s "verV".
Definition fork_signature (c : sm_case) (f : fork_obs) : option string :=
  if negb (pm_dynfilter (c_pm c)) then None
  else if negb (f_acts_eq f) then None
  else
    match fork_model c (f_k f) with
    | None => None
    | Some (rest, sk, _, _) =>
        match first_diff 0 (f_oacts f) (f_racts f) with
        | None => None
        | Some i =>
            let oa := nth (N.to_nat i) (f_oacts f) (TL []) in
            let ra := nth (N.to_nat i) (f_racts f) (TL []) in
            match nth_error rest (N.to_nat i) with
            | Some (EvMsg m) =>
                match me_in m with
                | InVote x =>
                    if (vt_step x =? s_propose) && sig_head (head_sym oa) && sig_head (head_sym ra)
                    then Some (if vt_rnd x <? p_rnd (s_pl sk)
                               then "c07_old_round_router_dropped"%string
                               else "c07_late_credential_tracking_not_persisted"%string)
                    else None
                | _ => None
                end
            | _ => None
            end
        end
    end.

(* ---------- C03: the property recomputed on the observed ensureActions ---------- *)
Definition delivered_of (e : ext_event) : list vote :=
  match e with
  | EvMsg m =>
      if me_verified m && negb (mm_err (me_meta m)) && negb (mm_cancelled (me_meta m)) then
        match me_in m with
        | InVote x => [x]
        | InBundle b => ub_votes b ++ flat_map (fun e => [eqv_first e; eqv_second e]) (ub_eqs b)
        | InPayload _ => []
        end
      else []
  | _ => []
  end.

Definition find_vote (dv : list vote) (s r p st : N) (v : value) : option vote :=
  find (fun x => (vt_snd x =? s) && (vt_rnd x =? r) && (vt_per x =? p) && (vt_step x =? st) && value_eqb (vt_val x) v) dv.

Fixpoint nodup_n (l : list N) : bool :=
  match l with [] => true | x :: t => negb (existsb (N.eqb x) t) && nodup_n t end.

Definition opt_sum (l : list (option N)) : option N :=
  fold_right (fun o acc => match o, acc with Some a, Some b => Some (a + b) | _, _ => None end) (Some 0) l.

(* one observed (ensure value payloadRound cert) *)
Definition ensure_ok (pm : params) (dv : list vote) (round_premise : bool) (a : term) : bool :=
  match a with
  | TL [TS "ensure"; plv; plr; TL [r; p; s; v; TL snds; TL eqs]] =>
      match p_value plv, as_N plr, as_N r, as_N p, as_N s, p_value v, map_opt as_N snds with
      | Some plv, Some plr, Some r, Some p, Some s, Some v, Some snds =>
          let eqp := map (fun e => match e with
                                   | TL [sn; v0; v1] =>
                                       match as_N sn, p_value v0, p_value v1 with
                                       | Some sn, Some v0, Some v1 => Some (sn, v0, v1)
                                       | _, _, _ => None
                                       end
                                   | _ => None end) eqs in
          if existsb (fun o => match o with None => true | Some _ => false end) eqp then false
          else
            let eqp := flat_map (fun o => match o with Some x => [x] | None => [] end) eqp in
            (s =? s_cert) &&
            (negb round_premise || (r =? plr)) &&
            value_eqb v plv &&
            nodup_n (snds ++ map (fun x => fst (fst x)) eqp) &&
            match opt_sum (map (fun sn => option_map vt_w (find_vote dv sn r p s_cert v)) snds ++
                           map (fun x => let '(sn, v0, v1) := x in
                                         if value_eqb v0 v1 then None
                                         else match find_vote dv sn r p s_cert v0, find_vote dv sn r p s_cert v1 with
                                              | Some a, Some _ => Some (vt_w a)
                                              | _, _ => None
                                              end) eqp) with
            | Some w => pm_cert pm <=? w
            | None => false
            end
      | _, _, _, _, _, _, _ => false
      end
  | _ => true      (* not an ensure action *)
  end.

Definition obs_actions (o : term) : list term := match o with TL [TL acts; _] => acts | _ => [] end.
Definition obs_digest (o : term) : term := match o with TL [_; d] => d | _ => TL [] end.
Definition digest_round (d : term) : option N :=
  match d with TL [TL (r :: _); _] => as_N r | _ => None end.

(* payloadVerified events must carry a payload of the player's round (cryptoVerifier validates the
   payload for the round it was requested for): premise of the round clause *)
Definition payload_round_ok (cur : N) (e : ext_event) : bool :=
  match e with
  | EvMsg m =>
      match me_in m with
      | InPayload pv => negb (me_verified m) || mm_err (me_meta m) || mm_cancelled (me_meta m) || (v_rnd pv =? cur)
      | _ => true
      end
  | _ => true
  end.

Fixpoint c03_walk (pm : params) (cur : N) (dv : list vote) (premise : bool) (es : list ext_event) (obs : list term)
  : bool * bool :=        (* (all ensure ok, saw an ensure) *)
  match es, obs with
  | e :: es', o :: obs' =>
      let dv' := delivered_of e ++ dv in
      let premise' := premise && payload_round_ok cur e in
      let acts := obs_actions o in
      let ok := forallb (ensure_ok pm dv' premise') acts in
      let saw := existsb (fun a => match a with TL (TS "ensure" :: _) => true | _ => false end) acts in
      let cur' := match digest_round (obs_digest o) with Some r => r | None => cur end in
      let '(ok2, saw2) := c03_walk pm cur' dv' premise' es' obs' in
      (ok && ok2, saw || saw2)
  | _, _ => (true, false)
  end.

Definition spec_ok_c03 (c : sm_case) : bool * bool :=
  c03_walk (c_pm c) (c_r0 c) [] true (c_events c) (c_obs c).

(* ---------- the check functions ---------- *)
Definition forks_corr (c : sm_case) : bool :=
  forallb (fun t => match p_fork t with
                    | FOk f => fork_corr c f
                    | FDecodeFailed _ => false
                    | FBad => false
                    end) (c_forks c).

Definition check_sm (t : term) : term :=
  match p_case t with
  | None => v_parse
  | Some c =>
      let '(mc, detail) := main_corr c in
      if negb mc then v_diff detail
      else if negb (forks_corr c) then v_diff (TL [TS "fork"])
      else verdict true true (match c_events c with [] => false | _ => true end) (TL [])
  end.

Definition check_c03 (t : term) : term :=
  match p_case t with
  | None => v_parse
  | Some c =>
      let '(ok, saw) := spec_ok_c03 c in
      let '(mc, detail) := main_corr c in
      verdict ok mc saw detail
  end.

Definition check_c07 (t : term) : term :=
  match p_case t with
  | None => v_parse
  | Some c =>
      let fs := map p_fork (c_forks c) in
      if existsb (fun f => match f with FBad => true | _ => false end) fs then v_parse
      else
        let '(mc, detail) := main_corr c in
        let bad := flat_map (fun f => match f with
                                      | FOk f => if fork_spec f then [] else [Some f]
                                      | FDecodeFailed _ => [None]
                                      | FBad => []
                                      end) fs in
        let fc := forks_corr c in
        match bad with
        | [] =>
            verdict true (mc && fc)
                    (existsb (fun f => match f with FOk f => negb (match f_oacts f with [] => true | _ => false end) | _ => false end) fs)
                    (if mc then TL [TS "fork"] else detail)
        | _ =>
            (* a failing fork without the shape of a recorded finding is a violation; with the shape it
               is the finding only if the model predicts the whole case, else the correspondence is broken *)
            let sigs := map (fun o => match o with Some f => fork_signature c f | None => None end) bad in
            let predicted := forallb (fun o => match o with Some f => fork_corr c f | None => false end) bad in
            match sigs with
            | Some name :: _ =>
                if negb (forallb (fun s => match s with Some _ => true | None => false end) sigs)
                then v_viol (TL [TS "fork_spec"])
                else if mc && fc && predicted then v_known name (TL [tn (N.of_nat (List.length bad))])
                else v_diff (if mc then TL [TS "fork"] else detail)
            | _ => v_viol (TL [TS "fork_spec"])
            end
        end
  end.
