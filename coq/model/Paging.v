(* C10 model: the paginated listings of ledger/acctupdates.go

     accountUpdates.LookupKvPairsByPrefix            (boxes / kvstore, cursor + limit + byte cap)
     accountUpdates.lookupAssetResources             (an account's assets,   "id greater than" + limit)
     accountUpdates.lookupApplicationResources       (an account's apps,     "id greater than" + limit)

   together with the SQL side they call (ledger/store/trackerdb/sqlitedriver/sql.go):
   keyPrefixIntervalPreprocessing, LookupKeysByPrefixCursor / processKvRows, LookupLimitedResources
   (the six-way join), LookupCreator, LookupResources.  The Ledger entry points
   Ledger.LookupKvPairsByPrefix / LookupAssets / LookupApplications only take trackerMu and forward.

   Conventions.
   * KV keys and values are byte strings [list N]; Go string comparison, SQLite BLOB comparison
     and strings.Compare are all the byte-wise lexicographic order [bcmp].
   * Go maps are association lists, new keys appended; Go's random map iteration order is
     immaterial because every map that is iterated is either only tested for membership or
     sorted afterwards (keys are unique).
   * The database is a snapshot: [db] (kvstore rows) resp. [rows] (resources rows of ONE
     creatable type) and [crs] (assetcreators rows of that type).  SQL "ORDER BY" is an
     insertion sort, "LIMIT n" is [firstn].  The retry loop on a database round that does not match
     the in-memory round (a concurrent flush) is not modelled (C08/C09 cover the flush window).
   * In-memory deltas are given newest round LAST (as au.deltas); both delta walks visit rounds
     newest first and the entries of one round in slice order, i.e. they fold over
     [concat (rev deltas)].
   * Resources: an address is an [N], 0 is the zero address (basics.Address{}.IsZero()).  A holding
     (AssetHolding / AppLocalState) and params (AssetParams / AppParams) are abstracted to one
     [N] each (the harness stores it in Amount / Total resp. the schema's NumUint).
     [lookupAssetResources] and [lookupApplicationResources] are one function with a flag [app]:
     the Go sources are two copies that differ in (1) the membership test (holding present vs.
     local state present OR creator = addr), (2) the third loop (apps created by addr only in the
     deltas), (3) includeParams.
   * uint64 wrap-around of [limit + numDeltaDeleted] is kept ([mod 2^64]); a LIMIT with the high
     bit set reaches SQLite as a negative number, i.e. no limit.  Byte accounting
     ([bytesAccum + itemBytes]) is not wrapped: operands are lengths of strings held in memory.
   No proofs in this file. *)
From Coq Require Import NArith List Bool.
Import ListNotations.
Open Scope N_scope.

Inductive res (A : Type) : Type :=
| Ok (a : A)
| Err (code : N).      (* 1 strange prefix; 2 round below the DB round; 3 round too high *)
Arguments Ok {A} a.
Arguments Err {A} code.

(* ------------------------------------------------------------------------------------------ *)
(* byte strings                                                                               *)
(* ------------------------------------------------------------------------------------------ *)
Definition bytes := list N.

Fixpoint bcmp (a b : bytes) : comparison :=
  match a, b with
  | [], [] => Eq
  | [], _ :: _ => Lt
  | _ :: _, [] => Gt
  | x :: a', y :: b' => match x ?= y with Eq => bcmp a' b' | c => c end
  end.
Definition bltb (a b : bytes) : bool := match bcmp a b with Lt => true | _ => false end.
Definition bleb (a b : bytes) : bool := match bcmp a b with Gt => false | _ => true end.
Definition beqb (a b : bytes) : bool := match bcmp a b with Eq => true | _ => false end.

Fixpoint has_prefix (p k : bytes) : bool :=          (* strings.HasPrefix(k, p) *)
  match p, k with
  | [], _ => true
  | _ :: _, [] => false
  | x :: p', y :: k' => (x =? y) && has_prefix p' k'
  end.

Definition blen (b : bytes) : N := N.of_nat (length b).
Definition nlen {A} (l : list A) : N := N.of_nat (length l).
Definition is_nil {A} (l : list A) : bool := match l with [] => true | _ => false end.

(* ------------------------------------------------------------------------------------------ *)
(* keyed lists: insertion sort (slices.SortFunc / ORDER BY on unique keys)                    *)
(* ------------------------------------------------------------------------------------------ *)
Section Keyed.
  Context {K V : Type}.
  Variable ltb : K -> K -> bool.
  Fixpoint ins (x : K * V) (l : list (K * V)) : list (K * V) :=
    match l with
    | [] => [x]
    | y :: t => if ltb (fst y) (fst x) then y :: ins x t else x :: l
    end.
  Definition isort (l : list (K * V)) : list (K * V) := fold_right ins [] l.
End Keyed.

Definition sort_n (l : list N) : list N :=                       (* slices.Sort on ids *)
  map fst (isort N.ltb (map (fun i => (i, tt)) l)).

Fixpoint last_opt {A} (l : list A) : option A :=
  match l with [] => None | [x] => Some x | _ :: t => last_opt t end.

(* ------------------------------------------------------------------------------------------ *)
(* KV: LookupKvPairsByPrefix                                                                  *)
(* ------------------------------------------------------------------------------------------ *)
Definition kvmod := (bytes * option bytes)%type.          (* KvMods entry; None = Data == nil = deleted *)
Definition kvrow := (bytes * bytes)%type.                 (* kvstore row / KvPairResult *)

Fixpoint kfind {A} (k : bytes) (l : list (bytes * A)) : option A :=
  match l with
  | [] => None
  | (k', v) :: t => if beqb k k' then Some v else kfind k t
  end.
Definition kmem {A} (k : bytes) (l : list (bytes * A)) : bool :=
  match kfind k l with Some _ => true | None => false end.

(* keyPrefixIntervalPreprocessing: the exclusive upper end of the key range; None = "strange prefix".
   Works on the reversed prefix: trailing 0xff bytes are dropped, the last other byte incremented. *)
Fixpoint incr_rev (r : bytes) : option bytes :=
  match r with
  | [] => None
  | b :: r' => if 255 <? b + 1 then incr_rev r' else Some (b + 1 :: r')
  end.
Definition prefix_end (p : bytes) : option bytes :=
  match incr_rev (rev p) with Some r => Some (rev r) | None => None end.

(* the delta walk of LookupKvPairsByPrefix: deltaResults *)
Definition kv_walk_step (prefix cursor : bytes) (acc : list kvmod) (e : kvmod) : list kvmod :=
  let k := fst e in
  if negb (has_prefix prefix k) then acc
  else if bleb k cursor then acc
  else if kmem k acc then acc              (* already seen from a more recent round *)
  else acc ++ [e].
Definition kv_walk (prefix cursor : bytes) (deltas : list (list kvmod)) : list kvmod :=
  fold_left (fun acc d => fold_left (kv_walk_step prefix cursor) d acc) (rev deltas) [].

(* processKvRows *)
Definition kv_qualifies (cursor : bytes) (exclude : list kvmod) (k : bytes) : bool :=
  bltb cursor k && negb (kmem k exclude).

Fixpoint kv_peek (rows : list kvrow) (cursor : bytes) (exclude : list kvmod) : bool :=
  match rows with
  | [] => false
  | (k, _) :: r => if kv_qualifies cursor exclude k then true else kv_peek r cursor exclude
  end.

Definition kv_proj (incl : bool) (v : bytes) : bytes := if incl then v else [].
Definition kv_size (e : kvrow) : N := blen (fst e) + blen (snd e).      (* KvPairResult.ByteSize *)

Fixpoint kv_scan (rows : list kvrow) (cursor : bytes) (limit maxBytes : N) (incl : bool)
         (exclude : list kvmod) (acc : list kvrow) (bytesAccum collected : N) : list kvrow * bool :=
  match rows with
  | [] => (acc, false)                          (* rows exhausted; the peek loop finds nothing *)
  | (k, v) :: r =>
      if negb (kv_qualifies cursor exclude k) then kv_scan r cursor limit maxBytes incl exclude acc bytesAccum collected
      else
        let kv := (k, kv_proj incl v) in
        let itemBytes := kv_size kv in
        if (0 <? maxBytes) && (maxBytes <? bytesAccum + itemBytes) && (0 <? collected)
        then (acc, true)                        (* qualifying item exceeds the byte budget *)
        else
          let acc' := acc ++ [kv] in
          if (0 <? limit) && (limit <=? collected + 1)
          then (acc', kv_peek r cursor exclude)
          else kv_scan r cursor limit maxBytes incl exclude acc' (bytesAccum + itemBytes) (collected + 1)
  end.

(* LookupKeysByPrefixCursor *)
Definition kv_db_scan (db : list kvrow) (prefix cursor : bytes) (limit maxBytes : N) (incl : bool)
           (exclude : list kvmod) : res (list kvrow * bool) :=
  match prefix_end prefix with
  | None => Err 1
  | Some e =>
      let queryStart := if negb (is_nil cursor) && bleb prefix cursor then cursor else prefix in
      let rows := isort bltb (filter (fun r => bleb queryStart (fst r) && bltb (fst r) e) db) in
      Ok (kv_scan rows cursor limit maxBytes incl exclude [] 0 0)
  end.

(* the trim loop of LookupKvPairsByPrefix: Some i = broke out with trimAt = i, None = ran to the end *)
Fixpoint kv_trim_at (l : list kvrow) (i bytesAccum limit maxBytes : N) : option N :=
  match l with
  | [] => None
  | kv :: r =>
      let itemBytes := kv_size kv in
      if (maxBytes <? bytesAccum + itemBytes) && (0 <? i) then Some i
      else if limit <=? i + 1 then Some (i + 1)
      else kv_trim_at r (i + 1) (bytesAccum + itemBytes) limit maxBytes
  end.
Definition kv_trim (l : list kvrow) (limit maxBytes : N) : list kvrow :=
  match kv_trim_at l 0 0 limit maxBytes with
  | Some t => firstn (N.to_nat t) l
  | None => l
  end.

(* one page at a fixed offset into the deltas (the body of the retry loop) *)
Definition kv_page (db : list kvrow) (deltas : list (list kvmod)) (prefix cursor : bytes)
           (limit maxBytes : N) (incl : bool) : res (list kvrow * bool) :=
  if limit =? 0 then Ok ([], false) else
  let deltaResults := kv_walk prefix cursor deltas in
  match kv_db_scan db prefix cursor limit maxBytes incl deltaResults with
  | Err e => Err e
  | Ok (dbResults, dbMoreData) =>
      let cutoff : bytes :=
        if dbMoreData then match last_opt dbResults with Some kv => fst kv | None => [] end else [] in
      let extra := flat_map (fun e : kvmod =>
                     match snd e with
                     | None => []
                     | Some val => if negb (is_nil cutoff) && bltb cutoff (fst e) then []
                                   else [(fst e, kv_proj incl val)]
                     end) deltaResults in
      let allResults := isort bltb (dbResults ++ extra) in
      let page := kv_trim allResults limit maxBytes in
      let moreData := if Nat.ltb (length page) (length allResults) then true else dbMoreData in
      Ok (page, moreData)
  end.

(* accountUpdates.LookupKvPairsByPrefix: limit check, roundOffset, then the page over deltas[0..offset) *)
Definition kv_lookup (db : list kvrow) (dbRound : N) (deltas : list (list kvmod)) (rnd : N)
           (prefix cursor : bytes) (limit maxBytes : N) (incl : bool) : res (list kvrow * bool) :=
  if limit =? 0 then Ok ([], false)
  else if rnd <? dbRound then Err 2
  else if nlen deltas <? rnd - dbRound then Err 3
  else kv_page db (firstn (N.to_nat (rnd - dbRound)) deltas) prefix cursor limit maxBytes incl.

(* ------------------------------------------------------------------------------------------ *)
(* resources: lookupAssetResources / lookupApplicationResources                               *)
(* ------------------------------------------------------------------------------------------ *)
Inductive dlt : Type :=          (* AssetHoldingDelta / AssetParamsDelta / AppLocalStateDelta / AppParamsDelta *)
| DNone                          (* zero value: not affected *)
| DDel                           (* Deleted = true *)
| DSet (v : N).                  (* pointer non-nil *)
Definition affects (d : dlt) : bool := match d with DNone => false | _ => true end.
Definition is_del (d : dlt) : bool := match d with DDel => true | _ => false end.

Record rrec := mkRec { rc_addr : N; rc_aidx : N; rc_par : dlt; rc_hold : dlt }.     (* AssetResourceRecord *)
Record dbrow := mkRow { rw_addr : N; rw_aidx : N; rw_hold : option N; rw_par : option N }.  (* resources row *)
(* PersistedResourcesDataWithCreator as produced by LookupLimitedResources *)
Record prow := mkPRow { pr_aidx : N; pr_hold : option N; pr_creator : N; pr_par : N }.
(* AssetResourceWithIDs / AppResourceWithIDs: id ↦ (holding, creator, params) *)
Definition ritem := (option N * N * option N)%type.

Fixpoint alookup {V} (k : N) (m : list (N * V)) : option V :=
  match m with
  | [] => None
  | (k', v) :: t => if k =? k' then Some v else alookup k t
  end.
Definition amem {V} (k : N) (m : list (N * V)) : bool :=
  match alookup k m with Some _ => true | None => false end.
Fixpoint nmem (k : N) (l : list N) : bool :=
  match l with [] => false | x :: t => (k =? x) || nmem k t end.

Definition find_row (rows : list dbrow) (a i : N) : option dbrow :=
  find (fun r => (rw_addr r =? a) && (rw_aidx r =? i)) rows.

(* walk state: deltaHoldingResults / deltaLocalsResults, deltaParamsResults (+ deltaCreatorResults),
   numDeltaDeleted *)
Record wstate := mkW { w_dh : list (N * dlt); w_dp : list (N * (dlt * N)); w_nd : N }.
Definition w0 : wstate := mkW [] [] 0.

Definition walk_rec (addr gt : N) (st : wstate) (r : rrec) : wstate :=
  let i := rc_aidx r in
  if i <=? gt then st else
  let st1 :=
    if affects (rc_par r) then
      (if amem i (w_dp st) then st
       else mkW (w_dh st) (w_dp st ++ [(i, (rc_par r, rc_addr r))])
                (w_nd st + (if is_del (rc_par r) then 1 else 0)))
    else st in
  if negb (rc_addr r =? addr) then st1 else
  if affects (rc_hold r) then
    (if amem i (w_dh st1) then st1
     else mkW (w_dh st1 ++ [(i, rc_hold r)]) (w_dp st1)
              (w_nd st1 + (if is_del (rc_hold r) then 1 else 0)))
  else st1.
Definition walk (addr gt : N) (deltas : list (list rrec)) : wstate :=
  fold_left (fun st d => fold_left (walk_rec addr gt) d st) (rev deltas) w0.

(* LookupLimitedResources(addr, gt, lim, ctype): rows of addr above gt, ascending, joined with the
   creator (assetcreators) and the creator's own resources row (which carries the params) *)
Definition sql_limit {A} (lim : N) (l : list A) : list A :=
  if 2 ^ 63 <=? lim then l else firstn (N.to_nat lim) l.
Definition db_join (rows : list dbrow) (crs : list (N * N)) (r : dbrow) : prow :=
  match alookup (rw_aidx r) crs with
  | Some c =>
      match find_row rows c (rw_aidx r) with
      | Some cr => mkPRow (rw_aidx r) (rw_hold r) c (match rw_par cr with Some p => p | None => 0 end)
      | None => mkPRow (rw_aidx r) (rw_hold r) 0 0        (* "no creator found" branch *)
      end
  | None => mkPRow (rw_aidx r) (rw_hold r) 0 0
  end.
Definition db_limited (rows : list dbrow) (crs : list (N * N)) (addr gt lim : N) : list prow :=
  let mine := filter (fun r => (rw_addr r =? addr) && (gt <? rw_aidx r)) rows in
  let sorted := map snd (isort N.ltb (map (fun r => (rw_aidx r, r)) mine)) in
  sql_limit lim (map (db_join rows crs) sorted).

(* membership test of the result *)
Definition is_some {A} (o : option A) : bool := match o with Some _ => true | None => false end.
Definition member (app : bool) (addr : N) (hold : option N) (creator : N) : bool :=
  if app then is_some hold || (creator =? addr) else is_some hold.
(* params pointer that is handed out: apps drop it unless includeParams *)
Definition par_out (app incl : bool) (p : option N) : option N :=
  if app && negb incl then None else p.

(* the loop over persistedResources *)
Definition db_item (app incl : bool) (addr : N) (w : wstate) (pd : prow) : option (N * ritem) :=
  let i := pr_aidx pd in
  let hold := match alookup i (w_dh w) with
              | Some DDel => None
              | Some (DSet h) => Some h
              | _ => pr_hold pd                          (* pd.Data.IsHolding() *)
              end in
  let cp := match alookup i (w_dp w) with
            | Some (DDel, _) => (0, None)
            | Some (DSet p, c) => (c, par_out app incl (Some p))
            | _ => if negb (pr_creator pd =? 0) then (pr_creator pd, par_out app incl (Some (pr_par pd)))
                   else (0, None)
            end in
  if member app addr hold (fst cp) then Some (i, (hold, fst cp, snd cp)) else None.

(* the body of the loop over sortedDeltaOnlyIDs (ids present in the holding/locals delta map) *)
Definition delta_item (app incl : bool) (rows : list dbrow) (crs : list (N * N)) (addr : N)
           (w : wstate) (i : N) : option (N * ritem) :=
  let hold := match alookup i (w_dh w) with Some (DSet h) => Some h | _ => None end in
  let cp := match alookup i (w_dp w) with
            | Some (DDel, _) => (0, None)
            | Some (DSet p, c) => (c, par_out app incl (Some p))
            | Some (DNone, c) => (c, None)                (* unreachable: only affecting records are stored *)
            | None =>
                match alookup i crs with                  (* LookupCreator *)
                | Some c =>
                    (c, if app && negb incl then None
                        else match find_row rows c i with      (* LookupResources(creator, cid) *)
                             | Some cr => rw_par cr
                             | None => None
                             end)
                | None => (0, None)
                end
            end in
  if member app addr hold (fst cp) then Some (i, (hold, fst cp, snd cp)) else None.

(* apps only: the body of the loop over sortedCreatorOnlyIDs *)
Definition creator_item (incl : bool) (w : wstate) (i : N) : option (N * ritem) :=
  match alookup i (w_dp w) with
  | Some (d, c) => Some (i, (None, c, if incl then match d with DSet p => Some p | _ => None end else None))
  | None => None
  end.

(* the two "delta only" loops with their early exit on (len(result) >= limit && id > resultMaxID) *)
Fixpoint delta_loop (f : N -> option (N * ritem)) (limit : N) (ids : list N)
         (result : list (N * ritem)) (mx : N) : list (N * ritem) * N :=
  match ids with
  | [] => (result, mx)
  | i :: rest =>
      if (limit <=? nlen result) && (mx <? i) then (result, mx)
      else match f i with
           | Some it => delta_loop f limit rest (result ++ [it]) (if mx <? i then i else mx)
           | None => delta_loop f limit rest result mx
           end
  end.

Fixpoint filter_map {A B} (f : A -> option B) (l : list A) : list B :=
  match l with
  | [] => []
  | x :: t => match f x with Some y => y :: filter_map f t | None => filter_map f t end
  end.

Definition res_dblimit (deltas : list (list rrec)) (addr gt limit : N) : N :=
  (limit + w_nd (walk addr gt deltas)) mod 2 ^ 64.

Definition res_page (app incl : bool) (rows : list dbrow) (crs : list (N * N))
           (deltas : list (list rrec)) (addr gt limit : N) : list (N * ritem) :=
  if limit =? 0 then [] else
  let w := walk addr gt deltas in
  let dbLimit := res_dblimit deltas addr gt limit in
  let persisted := db_limited rows crs addr gt dbLimit in
  let dbHasMore := negb (is_nil persisted) && (nlen persisted =? dbLimit) in
  let dbMaxID := match last_opt persisted with Some pd => pr_aidx pd | None => 0 end in
  let seen := map pr_aidx persisted in
  let result0 := filter_map (db_item app incl addr w) persisted in
  let mx0 := match last_opt result0 with Some it => fst it | None => 0 end in
  let in_page (i : N) := nmem i seen || (dbHasMore && (dbMaxID <? i)) in
  let ids2 := sort_n (filter (fun i => negb (in_page i)) (map fst (w_dh w))) in
  let '(result1, mx1) := delta_loop (delta_item app incl rows crs addr w) limit ids2 result0 mx0 in
  let '(result2, mx2) :=
    if app then
      let ids3 := sort_n (map fst (filter (fun e : N * (dlt * N) =>
                     negb (in_page (fst e)) && negb (is_del (fst (snd e)))
                     && (snd (snd e) =? addr) && negb (amem (fst e) (w_dh w))) (w_dp w))) in
      delta_loop (creator_item incl w) limit ids3 result1 mx1
    else (result1, mx1) in
  firstn (N.to_nat limit) (isort N.ltb result2).
