(* C30: executable model of catchup/service.go: Service.fetchAndWrite (one worker per round) and
   Service.pipelinedFetch (N workers + in-order collection), the ledger seen through
   AddBlock / Validate / AddValidatedBlock / WaitMem, and an adversarial environment
   (peers, scheduler, service cancellation, somebody else -- agreement -- writing blocks).
   No proofs here.

   Granularity.  A worker is a little program counter machine; every [select], every call that
   leaves the goroutine (getNextPeer, innerFetch, Authenticate, ledger calls) is its own atomic
   step, so "all interleavings of the atomic steps" = all label sequences accepted by [step].
   Everything the worker reads from its environment at a step is an input of the step
   ([winput]); a guard restricts inputs that the environment cannot produce (a channel that is
   not closed cannot be received from).  Where Go reads something racy (a [select] with several
   ready branches, a non-blocking read of a channel that may be closed concurrently) the model
   lets the adversary pick any branch that is *possible*, which over-approximates the real
   behaviours (sound for the safety theorems).

   Blocks and certificates are abstract ([Block], [Cert] section variables) with the three
   observations the code makes: the round in the header, ContentsMatchHeader, whether
   config.Consensus knows the block's protocol, and BlockAuthenticator.Authenticate. *)
From Coq Require Import NArith List Bool.
Import ListNotations.
Open Scope N_scope.

(* ---- configuration (config.Local switches + constants of service.go) -------------------- *)
Record config := mkConfig {
  c_verify_payset : bool;   (* cfg.CatchupVerifyPaysetHash()      default true  *)
  c_verify_cert   : bool;   (* cfg.CatchupVerifyCertificate()     default true  *)
  c_validate      : bool;   (* CatchupVerifyTransactionSignatures() || CatchupVerifyApplyData(), default false *)
  c_parallel      : N;      (* cfg.CatchupParallelBlocks *)
  c_seed          : N;      (* seedLookback passed to pipelinedFetch *)
  c_follow        : bool;   (* s.followLatest *)
  c_retry_limit   : N;      (* catchupRetryLimit = 500 *)
  c_noblock_thr   : N       (* errNoBlockForRoundThreshold = 5 *)
}.

(* exit reasons of fetchAndWrite (nil = ROk) *)
Inductive result :=
| ROk | RCtx | RSyncDisabled | RRetryLimit | RNoPeer | RAlreadyHas | RNoBlock
| RUnsupportedProto | RParamsErr | RValidateFailed | REvalPanic | RWriteFailed.

(* what evaluating a block for round latest+1 does inside the ledger (environment input) *)
Inductive evalres := EvOk | EvProtoErr | EvPanic | EvOther.

(* Ledger.AddBlock / AddValidatedBlock outcomes *)
Inductive addres := AddOk | AddInLedger | AddNonSeq | AddProtoErr | AddPanic | AddOther.
(* Ledger.Validate outcomes *)
Inductive valres := VOk | VNonSeqOld | VNonSeqAhead | VProtoErr | VPanic | VOther.

Definition eval_add (e : evalres) : addres :=
  match e with EvOk => AddOk | EvProtoErr => AddProtoErr | EvPanic => AddPanic | EvOther => AddOther end.
Definition eval_val (e : evalres) : valres :=
  match e with EvOk => VOk | EvProtoErr => VProtoErr | EvPanic => VPanic | EvOther => VOther end.

(* ledger.AddBlock: eval.Eval fails with ErrNonSequentialBlockEval unless round = latest+1;
   AddBlock turns that into BlockInLedgerError when round <= latest (ledger/ledger.go:819). *)
Definition ledger_add (latest r : N) (e : evalres) : addres :=
  if r =? latest + 1 then eval_add e
  else if r <=? latest then AddInLedger else AddNonSeq.
(* ledger.Validate: the same evaluator start check, error returned unchanged *)
Definition ledger_validate (latest r : N) (e : evalres) : valres :=
  if r =? latest + 1 then eval_val e
  else if r <=? latest then VNonSeqOld else VNonSeqAhead.
(* ledger.AddValidatedBlock: blockQ.putBlock gives BlockInLedgerError for any round <> next *)
Definition ledger_add_validated (latest r : N) : addres :=
  if r =? latest + 1 then AddOk else AddInLedger.

(* peerErrors map[network.Peer]int *)
Fixpoint perr_get (p : N) (m : list (N * N)) : N :=
  match m with
  | [] => 0
  | (q, n) :: t => if q =? p then n else perr_get p t
  end.
Fixpoint perr_incr (p : N) (m : list (N * N)) : list (N * N) :=
  match m with
  | [] => [(p, 1)]
  | (q, n) :: t => if q =? p then (q, n + 1) :: t else (q, n) :: perr_incr p t
  end.

Section Catchup.
Variables Block Cert : Type.
Variable blk_round : Block -> N.            (* block.Round() *)
Variable cert_round : Cert -> N.            (* cert.Round *)
Variable contents_ok : Block -> bool.       (* block.ContentsMatchHeader() *)
Variable proto_supported : Block -> bool.   (* _, ok := config.Consensus[block.CurrentProtocol] *)
Variable authenticate : Block -> Cert -> bool.   (* s.auth.Authenticate(block, cert) == nil *)
Variable blk_digest : Block -> N.           (* block.Hash() (header digest); only used by fetchRound *)

(* what the peer sends back for one request, before processBlockBytes looks at it *)
Inductive resp :=
| RespErr                         (* transport error, timeout, undecodable bytes, context cancelled ... *)
| RespNoBlock                     (* noBlockForRoundError *)
| RespPair (b : Block) (c : Cert) (* decodable (block, cert) -- ANY pair the peer likes *)
| RespNil.                        (* (nil, nil, nil): handled by fetchAndWrite, not produced by universalFetcher *)

Inductive fetched := FErr (noblock : bool) | FPair (b : Block) (c : Cert) | FNil.

(* universalFetcher.go: processBlockBytes -- errWrongBlockFromPeer / errWrongCertFromPeer *)
Definition process (r : N) (rs : resp) : fetched :=
  match rs with
  | RespErr => FErr false
  | RespNoBlock => FErr true
  | RespNil => FNil
  | RespPair b c =>
      if negb (blk_round b =? r) then FErr false
      else if negb (cert_round c =? r) then FErr false
      else FPair b c
  end.

(* program counter of fetchAndWrite(ctx, r, prevFetchCompleteChan, lookbackComplete, peerSelector) *)
Inductive pc :=
| PStart                                  (* the disableSyncRound test *)
| PTop                                    (* loop head: i++, ctx poll, retry limit, getNextPeer *)
| PFetch (p : N)                          (* innerFetch(ctx, r, peer p) *)
| PErrWait                                (* fetch failed: select { ctx.Done | lookbackComplete }; continue *)
| PCheck (p : N) (b : Block) (c : Cert)   (* block and cert in hand: the ContentsMatchHeader block *)
| PLookback (p : N) (b : Block) (c : Cert)(* select { ctx.Done | lookbackComplete }, then Authenticate *)
| PWaitPrev (b : Block) (c : Cert)        (* select { ctx.Done | prevFetchCompleteChan }, ConsensusParams *)
| PBacklog (b : Block) (c : Cert)         (* select { ledger.Wait(backlog) | s.ctx.Done }, then Validate or AddBlock *)
| PValidated (b : Block) (c : Cert)       (* Validate succeeded: AddValidatedBlock *)
| PDone (res : result).

Record worker := mkWorker { w_i : N; w_pc : pc; w_perr : list (N * N) }.

Definition new_worker : worker := mkWorker 0 PStart [].

(* everything a worker step may read from the environment *)
Record winput := mkIn {
  in_cancel : bool;      (* take a ctx.Done branch (possible only when that context is cancelled) *)
  in_disable : N;        (* s.GetDisableSyncRound() *)
  in_peer : option N;    (* peerSelector.getNextPeer(): None = error *)
  in_pre_has : bool;     (* innerFetch: WaitMem(r) already closed before fetching (possible only if r <= latest) *)
  in_resp : resp;        (* the peer's answer *)
  in_post_has : bool;    (* innerFetch: after a fetch error WaitMem(r) is closed (possible only if r <= latest) *)
  in_params_ok : bool;   (* ledger.ConsensusParams(r-1) succeeded *)
  in_eval : evalres      (* how the ledger evaluates the block if it is for latest+1 *)
}.

(* observable actions, newest first in the state's trace *)
Inductive event :=
| EFetch (r p : N) (rs : resp)
| EContents (r : N) (b : Block) (ok : bool)
| EAuth (r : N) (b : Block) (c : Cert) (ok : bool)
| EValidate (r : N) (b : Block) (lat : N) (res : valres)
| EAdd (r : N) (b : Block) (c : Cert) (lat : N) (res : addres) (validated : bool)
| EExt (b : Block) (c : Cert) (lat : N).     (* a write by somebody else (agreement) *)

Record wout := mkOut { o_w : worker; o_ev : list event; o_write : bool }.

Definition goto (w : worker) (p : pc) : worker := mkWorker (w_i w) p (w_perr w).
Definition fin (w : worker) (res : result) : worker := goto w (PDone res).
Definition out (w : worker) (ev : list event) : option wout := Some (mkOut w ev false).

(* the error switch after AddBlock / AddValidatedBlock (service.go:482-513) *)
Definition finish_add (w : worker) (ev : event) (ar : addres) : option wout :=
  match ar with
  | AddOk => Some (mkOut (fin w ROk) [ev] true)
  | AddNonSeq => out (fin w ROk) [ev]            (* "no need to re-evaluate historical block": return nil *)
  | AddInLedger => out (fin w RAlreadyHas) [ev]
  | AddProtoErr | AddPanic | AddOther => out (fin w RWriteFailed) [ev]
  end.

Section Step.
Variable cfg : config.

(* lookbackComplete = WaitMem(r.SubSaturate(seedLookback)); prevFetchCompleteChan = WaitMem(r-1).
   [N] subtraction saturates like SubSaturate; rounds handed to workers are >= 1. *)
Definition lookback_done (latest r : N) : bool := r - c_seed cfg <=? latest.
Definition prev_done (latest r : N) : bool := r - 1 <=? latest.

(* one atomic step of the worker for round [r].  [ctxd]: the pipeline context is cancelled;
   [svcd]: the service context s.ctx is cancelled.  None = step not enabled. *)
Definition wstep (latest : N) (ctxd svcd : bool) (r : N) (w : worker) (i : winput) : option wout :=
  match w_pc w with
  | PDone _ => None
  | PStart =>
      if negb (in_disable i =? 0) && (in_disable i <=? r) then out (fin w RSyncDisabled) []
      else out (goto w PTop) []
  | PTop =>
      let w' := mkWorker (w_i w + 1) (w_pc w) (w_perr w) in
      if in_cancel i then (if ctxd then out (fin w' RCtx) [] else None)
      else if c_retry_limit cfg <? w_i w' then out (fin w' RRetryLimit) []
      else match in_peer i with
           | None => out (fin w' RNoPeer) []
           | Some p => out (goto w' (PFetch p)) []
           end
  | PFetch p =>
      if in_pre_has i then (if r <=? latest then out (fin w RAlreadyHas) [] else None)
      else
        let ev := EFetch r p (in_resp i) in
        match process r (in_resp i) with
        | FErr nb =>
            if in_post_has i then (if r <=? latest then out (fin w RAlreadyHas) [ev] else None)
            else if nb then
              if c_follow cfg then out (goto w PErrWait) [ev]
              else if c_noblock_thr cfg <? perr_get p (w_perr w) then out (fin w RNoBlock) [ev]
              else out (mkWorker (w_i w) PErrWait (perr_incr p (w_perr w))) [ev]
            else out (goto w PErrWait) [ev]
        | FNil => out (fin w RAlreadyHas) [ev]
        | FPair b c => out (goto w (PCheck p b c)) [ev]
        end
  | PErrWait =>
      if in_cancel i then (if ctxd then out (fin w RCtx) [] else None)
      else if lookback_done latest r then out (goto w PTop) [] else None
  | PCheck p b c =>
      if c_verify_payset cfg then
        let ev := EContents r b (contents_ok b) in
        if contents_ok b then out (goto w (PLookback p b c)) [ev]
        else if proto_supported b then out (goto w PTop) [ev]
        else out (fin w RUnsupportedProto) [ev]
      else out (goto w (PLookback p b c)) []
  | PLookback p b c =>
      if in_cancel i then (if ctxd then out (fin w RCtx) [] else None)
      else if lookback_done latest r then
        if c_verify_cert cfg then
          let ev := EAuth r b c (authenticate b c) in
          if authenticate b c then out (goto w (PWaitPrev b c)) [ev]
          else out (goto w PTop) [ev]
        else out (goto w (PWaitPrev b c)) []
      else None
  | PWaitPrev b c =>
      if in_cancel i then (if ctxd then out (fin w RCtx) [] else None)
      else if prev_done latest r then
        if in_params_ok i then out (goto w (PBacklog b c)) [] else out (fin w RParamsErr) []
      else None
  | PBacklog b c =>
      if in_cancel i then (if svcd then out (fin w RCtx) [] else None)
      else if c_validate cfg then
        let vr := ledger_validate latest (blk_round b) (in_eval i) in
        let ev := EValidate r b latest vr in
        match vr with
        | VOk => out (goto w (PValidated b c)) [ev]
        | VNonSeqOld => out (fin w RAlreadyHas) [ev]
        | VPanic => out (fin w REvalPanic) [ev]
        | VNonSeqAhead | VProtoErr | VOther => out (fin w RValidateFailed) [ev]
        end
      else
        let ar := ledger_add latest (blk_round b) (in_eval i) in
        finish_add w (EAdd r b c latest ar false) ar
  | PValidated b c =>
      let ar := ledger_add_validated latest (blk_round b) in
      finish_add w (EAdd r b c latest ar true) ar
  end.

(* ---- pipelinedFetch ------------------------------------------------------------------- *)
Inductive pipe_end := PipeStopped (res : result) | PipeBusy | PipeCtx.

Record state := mkState {
  s_latest : N;                       (* ledger.LastRound() *)
  s_first : N;                        (* firstRound *)
  s_next : N;                         (* nextRound *)
  s_workers : list (N * worker);      (* running / finished-but-uncollected fetchAndWrite goroutines *)
  s_pipe : option pipe_end;           (* Some = pipelinedFetch has returned (its ctx is cancelled) *)
  s_svc : bool;                       (* s.ctx cancelled *)
  s_trace : list event                (* newest first *)
}.

Definition init (lat0 : N) : state := mkState lat0 (lat0 + 1) (lat0 + 1) [] None false [].

Inductive label :=
| LSpawn                       (* the inner for loop launches fetchAndWrite(nextRound) *)
| LCollect (busy : bool)       (* <-completed[firstRound]; busy = ledger still busy after the pause *)
| LPipeCtx                     (* pipelinedFetch takes its <-s.ctx.Done() branch *)
| LCancel                      (* somebody cancels s.ctx (Stop, unsupportedRoundMonitor) *)
| LExt (b : Block) (c : Cert)  (* somebody else appends a block to the ledger *)
| LWorker (r : N) (i : winput).

(* the loop bound limitedParallelRequests is time dependent; it never exceeds this *)
Definition par_limit : N := N.max 1 (N.max (c_parallel cfg) (c_seed cfg)).

Fixpoint find_worker (r : N) (ws : list (N * worker)) : option worker :=
  match ws with
  | [] => None
  | (q, w) :: t => if q =? r then Some w else find_worker r t
  end.
Fixpoint set_worker (r : N) (w' : worker) (ws : list (N * worker)) : list (N * worker) :=
  match ws with
  | [] => []
  | (q, w) :: t => if q =? r then (q, w') :: t else (q, w) :: set_worker r w' t
  end.
Fixpoint del_worker (r : N) (ws : list (N * worker)) : list (N * worker) :=
  match ws with
  | [] => []
  | (q, w) :: t => if q =? r then t else (q, w) :: del_worker r t
  end.

Definition running (st : state) : bool := match s_pipe st with None => true | Some _ => false end.
Definition ctx_done (st : state) : bool := s_svc st || negb (running st).

Definition step (st : state) (l : label) : option state :=
  match l with
  | LSpawn =>
      if running st && (s_next st <? s_first st + par_limit) then
        Some (mkState (s_latest st) (s_first st) (s_next st + 1)
                      (s_workers st ++ [(s_next st, new_worker)]) (s_pipe st) (s_svc st) (s_trace st))
      else None
  | LCollect busy =>
      if running st then
        match find_worker (s_first st) (s_workers st) with
        | Some w =>
            match w_pc w with
            | PDone res =>
                let ws := del_worker (s_first st) (s_workers st) in
                let pe := match res with
                          | ROk => if busy then Some PipeBusy else None
                          | _ => Some (PipeStopped res)
                          end in
                Some (mkState (s_latest st) (s_first st + 1) (s_next st) ws pe (s_svc st) (s_trace st))
            | _ => None
            end
        | None => None
        end
      else None
  | LPipeCtx =>
      if running st && s_svc st then
        Some (mkState (s_latest st) (s_first st) (s_next st) (s_workers st) (Some PipeCtx) (s_svc st) (s_trace st))
      else None
  | LCancel =>
      Some (mkState (s_latest st) (s_first st) (s_next st) (s_workers st) (s_pipe st) true (s_trace st))
  | LExt b c =>
      if blk_round b =? s_latest st + 1 then
        Some (mkState (s_latest st + 1) (s_first st) (s_next st) (s_workers st) (s_pipe st) (s_svc st)
                      (EExt b c (s_latest st) :: s_trace st))
      else None
  | LWorker r i =>
      match find_worker r (s_workers st) with
      | Some w =>
          match wstep (s_latest st) (ctx_done st) (s_svc st) r w i with
          | Some o =>
              Some (mkState (if o_write o then s_latest st + 1 else s_latest st)
                            (s_first st) (s_next st) (set_worker r (o_w o) (s_workers st))
                            (s_pipe st) (s_svc st) (o_ev o ++ s_trace st))
          | None => None
          end
      | None => None
      end
  end.

Fixpoint run (st : state) (ls : list label) : option state :=
  match ls with
  | [] => Some st
  | l :: t => match step st l with Some st' => run st' t | None => None end
  end.

End Step.
(* ---- fetchRound(cert, verifier) (via syncCert): agreement holds a certificate for round [cround]
   committing to digest [cdigest] but not the block; catchup fetches that one block and hands it
   to ledger.EnsureBlock together with agreement's certificate.  No configuration switch here. *)
Inductive fr_pc := FRTop | FRFetch (p : N) | FRDone | FRPanic.
Inductive fr_event := FRFetched (p : N) (rs : resp) | FREnsure (b : Block).
Record fr_state := mkFR { fr_p : fr_pc; fr_latest : N; fr_trace : list fr_event }.
Record fr_input := mkFRIn {
  fri_cancel : bool;      (* s.ctx is done when polled *)
  fri_peer : option N;    (* ps.getNextPeer() *)
  fri_pre_has : bool;     (* innerFetch: the ledger already has the round (possible only if cround <= latest) *)
  fri_resp : resp }.
Inductive fr_label := FRW (i : fr_input) | FRExt.   (* FRExt: somebody else appends a block *)

Definition fr_init (lat0 : N) : fr_state := mkFR FRTop lat0 [].

Definition fr_step (cround cdigest : N) (st : fr_state) (l : fr_label) : option fr_state :=
  match l with
  | FRExt => Some (mkFR (fr_p st) (fr_latest st + 1) (fr_trace st))
  | FRW i =>
      match fr_p st with
      | FRDone | FRPanic => None
      | FRTop =>
          if cround <=? fr_latest st then Some (mkFR FRDone (fr_latest st) (fr_trace st))   (* loop condition *)
          else match fri_peer i with
               | None => if fri_cancel i then Some (mkFR FRDone (fr_latest st) (fr_trace st))
                         else Some st                               (* RequestConnectOutgoing; continue *)
               | Some p => Some (mkFR (FRFetch p) (fr_latest st) (fr_trace st))
               end
      | FRFetch p =>
          if fri_pre_has i then
            (if cround <=? fr_latest st then
               Some (mkFR (if fri_cancel i then FRDone else FRTop) (fr_latest st) (fr_trace st))
             else None)
          else
            let tr := FRFetched p (fri_resp i) :: fr_trace st in
            match process cround (fri_resp i) with
            | FErr _ => Some (mkFR (if fri_cancel i then FRDone else FRTop) (fr_latest st) tr)
            | FNil => Some (mkFR FRPanic (fr_latest st) tr)     (* block.Hash() on a nil block; universalFetcher never returns (nil, nil, nil) *)
            | FPair b c =>
                if (blk_digest b =? cdigest) && contents_ok b
                then Some (mkFR FRDone (fr_latest st) (FREnsure b :: tr))   (* s.ledger.EnsureBlock(block, cert); return *)
                else Some (mkFR FRTop (fr_latest st) tr)                    (* "fetcher gave us bad/wrong block": rank, (fork alarm), retry *)
            end
      end
  end.

Fixpoint fr_run (cround cdigest : N) (st : fr_state) (ls : list fr_label) : option fr_state :=
  match ls with
  | [] => Some st
  | l :: t => match fr_step cround cdigest st l with Some st' => fr_run cround cdigest st' t | None => None end
  end.

End Catchup.

Arguments RespErr {Block Cert}.
Arguments RespNoBlock {Block Cert}.
Arguments RespNil {Block Cert}.
Arguments PStart {Block Cert}.
Arguments PTop {Block Cert}.
Arguments PErrWait {Block Cert}.
Arguments LSpawn {Block Cert}.
Arguments LPipeCtx {Block Cert}.
Arguments LCancel {Block Cert}.
Arguments FNil {Block Cert}.
Arguments new_worker {Block Cert}.
Arguments RespPair {Block Cert}.
Arguments FErr {Block Cert}.
Arguments FPair {Block Cert}.
Arguments PFetch {Block Cert}.
Arguments PCheck {Block Cert}.
Arguments PLookback {Block Cert}.
Arguments PWaitPrev {Block Cert}.
Arguments PBacklog {Block Cert}.
Arguments PValidated {Block Cert}.
Arguments PDone {Block Cert}.
Arguments EFetch {Block Cert}.
Arguments EContents {Block Cert}.
Arguments EAuth {Block Cert}.
Arguments EValidate {Block Cert}.
Arguments EAdd {Block Cert}.
Arguments EExt {Block Cert}.
Arguments LCollect {Block Cert}.
Arguments LExt {Block Cert}.
Arguments LWorker {Block Cert}.
Arguments mkWorker {Block Cert}.
Arguments w_i {Block Cert}.
Arguments w_pc {Block Cert}.
Arguments w_perr {Block Cert}.
Arguments mkIn {Block Cert}.
Arguments in_cancel {Block Cert}.
Arguments in_disable {Block Cert}.
Arguments in_peer {Block Cert}.
Arguments in_pre_has {Block Cert}.
Arguments in_resp {Block Cert}.
Arguments in_post_has {Block Cert}.
Arguments in_params_ok {Block Cert}.
Arguments in_eval {Block Cert}.
Arguments mkOut {Block Cert}.
Arguments o_w {Block Cert}.
Arguments o_ev {Block Cert}.
Arguments o_write {Block Cert}.
Arguments mkState {Block Cert}.
Arguments s_latest {Block Cert}.
Arguments s_first {Block Cert}.
Arguments s_next {Block Cert}.
Arguments s_workers {Block Cert}.
Arguments s_pipe {Block Cert}.
Arguments s_svc {Block Cert}.
Arguments s_trace {Block Cert}.
Arguments process {Block Cert}.
Arguments goto {Block Cert}.
Arguments fin {Block Cert}.
Arguments out {Block Cert}.
Arguments finish_add {Block Cert}.
Arguments wstep {Block Cert}.
Arguments find_worker {Block Cert}.
Arguments set_worker {Block Cert}.
Arguments del_worker {Block Cert}.
Arguments running {Block Cert}.
Arguments ctx_done {Block Cert}.
Arguments step {Block Cert}.
Arguments run {Block Cert}.
Arguments init {Block Cert}.
Arguments FRFetched {Block Cert}.
Arguments FREnsure {Block Cert}.
Arguments mkFR {Block Cert}.
Arguments fr_p {Block Cert}.
Arguments fr_latest {Block Cert}.
Arguments fr_trace {Block Cert}.
Arguments mkFRIn {Block Cert}.
Arguments fri_cancel {Block Cert}.
Arguments fri_peer {Block Cert}.
Arguments fri_pre_has {Block Cert}.
Arguments fri_resp {Block Cert}.
Arguments FRW {Block Cert}.
Arguments FRExt {Block Cert}.
Arguments fr_init {Block Cert}.
Arguments fr_step {Block Cert}.
Arguments fr_run {Block Cert}.
