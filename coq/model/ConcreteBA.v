(* C01: executable checker for the abstract protocol's rules over concrete traces (nodes and
   values are numbers).  [reachable_b] decides, event by event, whether a finite trace obeys
   the honest-node rules of model/AbstractBA.v; proofs/ConcreteBAProofs.v shows
   reachable_b = true -> reachable.  It is what the C01 check runs on traces recorded from
   N real agreement state machines.  No proofs in this file. *)
From Coq Require Import List Arith NArith Bool.
From Verif.model Require Import AbstractBA.
Import ListNotations.

Section ConcreteBA.

(* honest nodes, and a decision procedure for "this list of voters is a quorum of (p, s)" *)
Variable honest_b : N -> bool.
Variable qdec : nat -> nat -> list N -> bool.

Local Notation vote := (AbstractBA.vote N N).
Local Notation event := (AbstractBA.event N N).
Local Notation trace := (AbstractBA.trace N N).

Definition opt_eqb (a b : option N) : bool :=
  match a, b with
  | Some x, Some y => N.eqb x y
  | None, None => true
  | _, _ => false
  end.

Definition cur_b := AbstractBA.cur N N N.eq_dec.
Definition last_via_b := AbstractBA.last_via N N N.eq_dec.
Definition lock_b := AbstractBA.lock N N N.eq_dec N.eq_dec.

Fixpoint voters (t : trace) (p s : nat) (x : option N) : list N :=
  match t with
  | [] => []
  | Vote _ _ v :: t' =>
      if Nat.eqb (per N N v) p && Nat.eqb (stp N N v) s && opt_eqb (val N N v) x
      then sender N N v :: voters t' p s x else voters t' p s x
  | Enter _ _ _ _ _ :: t' => voters t' p s x
  end.

Definition has_q_b (t : trace) (p s : nat) (x : option N) : bool := qdec p s (voters t p s x).

Fixpoint steps_of (t : trace) : list nat :=
  match t with
  | [] => []
  | Vote _ _ v :: t' => stp N N v :: steps_of t'
  | Enter _ _ _ _ _ :: t' => steps_of t'
  end.

Fixpoint values_of (t : trace) : list N :=
  match t with
  | [] => []
  | Vote _ _ v :: t' => match val N N v with Some y => y :: values_of t' | None => values_of t' end
  | Enter _ _ _ _ _ :: t' => values_of t'
  end.

Definition nextq_b (t : trace) (p : nat) (x : option N) : bool :=
  existsb (fun s => Nat.leb 3 s && has_q_b t p s x) (steps_of t).

Definition once_b (t : trace) (v : vote) : bool :=
  forallb (fun e => match e with
                    | Vote _ _ v' =>
                        if N.eqb (sender N N v') (sender N N v) && Nat.eqb (per N N v') (per N N v)
                           && Nat.eqb (stp N N v') (stp N N v)
                        then opt_eqb (val N N v') (val N N v) else true
                    | Enter _ _ _ _ _ => true
                    end) t.

Definition soft_rule_b (t : trace) (v : vote) : bool :=
  match val N N v with
  | None => false
  | Some x =>
      let p := per N N v in
      Nat.eqb p 0 || nextq_b t (p - 1) (Some x) || nextq_b t (p - 1) None ||
      existsb (fun y => has_q_b t p 1 (Some y)) (values_of t) ||
      existsb (fun y => has_q_b t p 2 (Some y)) (values_of t)
  end.

Definition cert_rule_b (t : trace) (v : vote) : bool :=
  match val N N v with
  | None => false
  | Some x =>
      has_q_b t (per N N v) 1 (Some x) &&
      forallb (fun e => match e with
                        | Vote _ _ v' =>
                            if N.eqb (sender N N v') (sender N N v) && Nat.eqb (per N N v') (per N N v)
                            then Nat.ltb (stp N N v') 3 else true
                        | Enter _ _ _ _ _ => true
                        end) t
  end.

Definition next_rule_b (t : trace) (v : vote) : bool :=
  let h := sender N N v in
  let q := per N N v in
  forallb (fun e => match e with
                    | Vote _ _ v' =>
                        if N.eqb (sender N N v') h && Nat.eqb (per N N v') q && Nat.eqb (stp N N v') 2
                        then match val N N v' with
                             | Some y => opt_eqb (val N N v) (Some y)
                             | None => true
                             end
                        else true
                    | Enter _ _ _ _ _ => true
                    end) t &&
  ((match val N N v with
    | Some y => has_q_b t q 1 (Some y) || has_q_b t q 2 (Some y)
    | None => false
    end) ||
   (Nat.ltb 0 q && nextq_b t (q - 1) (val N N v)) ||
   (opt_eqb (val N N v) None && Nat.eqb q 0) ||
   (opt_eqb (val N N v) None &&
    match last_via_b h t with
    | Some (ViaSoft _ y) => negb (opt_eqb (lock_b h t) (Some y))
    | Some (ViaCert _ y) => negb (opt_eqb (lock_b h t) (Some y))
    | _ => false
    end)).

Definition step_rule_b (t : trace) (v : vote) : bool :=
  match stp N N v with
  | 0 => true
  | 1 => soft_rule_b t v
  | 2 => cert_rule_b t v
  | _ => next_rule_b t v
  end.

Definition enter_rule_b (t : trace) (h : N) (q : nat) (w : via N) : bool :=
  Nat.ltb (cur_b h t) q &&
  match w with
  | ViaNext _ x => Nat.ltb 0 q && nextq_b t (q - 1) x
  | ViaSoft _ y => has_q_b t q 1 (Some y)
  | ViaCert _ y => has_q_b t q 2 (Some y)
  end.

Definition ok_b (t : trace) (e : event) : bool :=
  match e with
  | Vote _ _ v =>
      if honest_b (sender N N v)
      then Nat.eqb (per N N v) (cur_b (sender N N v) t) && once_b t v && step_rule_b t v
      else true
  | Enter _ _ h q w => if honest_b h then enter_rule_b t h q w else true
  end.

Fixpoint reachable_b (t : trace) : bool :=
  match t with
  | [] => true
  | e :: t' => ok_b t' e && reachable_b t'
  end.

(* index (from the oldest event, starting at 0) of the first event that breaks a rule *)
Fixpoint first_bad (t : trace) : option nat :=
  match t with
  | [] => None
  | e :: t' => match first_bad t' with
               | Some i => Some i
               | None => if ok_b t' e then None else Some (length t')
               end
  end.

(* two cert quorums with different values anywhere in the trace? (the safety monitor) *)
Definition conflicting_certs (t : trace) (periods : list nat) : bool :=
  existsb (fun p => existsb (fun p' => existsb (fun x => existsb (fun y =>
     negb (N.eqb x y) && has_q_b t p 2 (Some x) && has_q_b t p' 2 (Some y))
     (values_of t)) (values_of t)) periods) periods.

End ConcreteBA.

(* the standard instance: stake weights per (period, step) and thresholds per step *)
Definition sumw (w : N -> N) (l : list N) : N := fold_right (fun n acc => N.add (w n) acc) 0%N l.
Definition qdec_weights (weight : nat -> nat -> N -> N) (threshold : nat -> N) (p s : nat) (l : list N) : bool :=
  N.leb (threshold s) (sumw (weight p s) (nodup N.eq_dec l)).
Definition quorum_weights (weight : nat -> nat -> N -> N) (threshold : nat -> N) (p s : nat) (Q : N -> Prop) : Prop :=
  exists l, NoDup l /\ (forall n, In n l -> Q n) /\ N.le (threshold s) (sumw (weight p s) l).
