(* C22 model: ledger/apply/asset.go (getParams, AssetConfig, takeOut, putIn, AssetTransfer,
   AssetFreeze) over the part of the apply.Balances interface these functions use, as
   implemented by roundCowState (ledger/eval/cow_creatables.go: Get/Put/Delete AssetHolding,
   Get/Put/Delete/Has AssetParams; assetcow.go: Allocate/DeallocateAsset -> creatable map;
   cow.go: getCreator; Get/Put of the TotalAssets / TotalAssetParams counters).

   Same case split and the same order of checks and writes as the Go code.  The appliers run
   in a state+error monad in which an error KEEPS the state reached so far (the Go code has
   already written to the cow at that point); [step] then discards the writes of a failed
   transaction, which is what BlockEvaluator.TransactionGroup does by evaluating in a child
   cow that is committed only on success (C19).

   Addresses are numbers, 0 = the zero address.  Asset amounts are uint64: OAdd / OSub /
   AddSaturate / SubSaturate are the C45 transcriptions at width 64.  [p_meta] stands for the
   asset parameters that no rule reads (Decimals, UnitName, AssetName, URL, MetadataHash):
   0 iff all of them are zero values, so that "AssetParams == AssetParams{}" is
   [params_is_zero].  The transaction counter is a natural number (a 64-bit counter that
   never wraps).  No proofs in this file. *)
From Coq Require Import NArith List Bool.
From Verif.model Require Import Overflow AssocList.
Import ListNotations.
Open Scope N_scope.

Record holding := mkH { h_amt : N; h_frozen : bool }.

Record aparams := mkP {
  p_total : N; p_deffrozen : bool;
  p_manager : N; p_reserve : N; p_freeze : N; p_clawback : N;
  p_meta : N
}.

Definition params_is_zero (p : aparams) : bool :=
  (p_total p =? 0) && negb (p_deffrozen p) && (p_manager p =? 0) && (p_reserve p =? 0) &&
  (p_freeze p =? 0) && (p_clawback p =? 0) && (p_meta p =? 0).

(* per account: (TotalAssets, TotalAssetParams) *)
Record world := mkW {
  w_hold : list ((N * N) * holding);      (* (address, asset) -> holding *)
  w_par : list ((N * N) * aparams);       (* (creator address, asset) -> params *)
  w_creator : list (N * N);               (* asset -> creator (creatables) *)
  w_acct : list (N * (N * N));            (* address -> counters *)
  w_counter : N                           (* transaction counter *)
}.

(* the world before any asset exists; the transaction counter of the genesis block is arbitrary *)
Definition winit (c : N) : world := mkW [] [] [] [] c.
Definition w0 : world := winit 0.

Inductive res (A : Type) : Type := Ok (a : A) | Err (e : N).
Arguments Ok {A} a.
Arguments Err {A} e.

Definition SM (A : Type) : Type := world -> world * res A.
Definition ret {A} (a : A) : SM A := fun w => (w, Ok a).
Definition fail {A} (e : N) : SM A := fun w => (w, Err e).
Definition bind {A B} (m : SM A) (k : A -> SM B) : SM B :=
  fun w => match m w with
           | (w1, Ok a) => k a w1
           | (w1, Err e) => (w1, Err e)
           end.
Notation "x <- m ;; k" := (bind m (fun x => k)) (at level 61, m at next level, right associativity).
Notation "m ;;; k" := (bind m (fun _ => k)) (at level 61, right associativity).

(* error classes (one per error return of asset.go) *)
Definition E_NOASSET : N := 1.        (* asset %d does not exist or has been deleted *)
Definition E_NOPARAMS : N := 2.       (* asset index %d not found in account *)
Definition E_PRESENT : N := 3.        (* already found asset with index *)
Definition E_TOOMANY : N := 4.        (* too many assets in account *)
Definition E_NOTMANAGER : N := 5.     (* this transaction should be issued by the manager *)
Definition E_DESTROY_NOASSETS : N := 6.
Definition E_DESTROY_NOPARAMS : N := 7.
Definition E_DESTROY_HOLDING : N := 8. (* cannot destroy asset: creator is holding only *)
Definition E_MISSING : N := 9.        (* asset %v missing from %v (takeOut) *)
Definition E_FROZEN_SND : N := 10.    (* asset %v frozen in %v *)
Definition E_UNDERFLOW : N := 11.     (* AssetBalanceError *)
Definition E_MUSTOPTIN : N := 12.     (* receiver error: must optin *)
Definition E_FROZEN_RCV : N := 13.    (* asset frozen in recipient *)
Definition E_OVERFLOW : N := 14.      (* overflow on adding *)
Definition E_CLAWBACK : N := 15.      (* clawback not allowed *)
Definition E_CLOSE_CLAWBACK : N := 16. (* cannot close asset by clawback *)
Definition E_CLOSE_NOTOPTED : N := 17. (* cannot close asset holding ... not opted in *)
Definition E_CLOSE_CREATOR : N := 18. (* cannot close asset ID in allocating account *)
Definition E_CLOSE_NOHOLD : N := 19.  (* asset %v not present in account *)
Definition E_CLOSE_NOTZERO : N := 20. (* asset %v not zero after closing *)
Definition E_FREEZE : N := 21.        (* freeze not allowed *)
Definition E_FREEZE_NOHOLD : N := 22. (* asset not found in account *)

(* ---------------------------------------------------------------- Balances primitives *)
Definition getCreator (a : N) : SM (option N) := fun w => (w, Ok (aget N.eqb a (w_creator w))).
Definition getAssetParams (c a : N) : SM (option aparams) :=
  fun w => (w, Ok (aget pair_eqb (c, a) (w_par w))).
Definition hasAssetParams (c a : N) : SM bool :=
  fun w => (w, Ok (ahas pair_eqb (c, a) (w_par w))).
Definition getAssetHolding (x a : N) : SM (option holding) :=
  fun w => (w, Ok (aget pair_eqb (x, a) (w_hold w))).
Definition getAcct (x : N) : SM (N * N) :=
  fun w => (w, Ok (match aget N.eqb x (w_acct w) with Some r => r | None => (0, 0) end)).
Definition putAcct (x : N) (r : N * N) : SM unit :=
  fun w => (mkW (w_hold w) (w_par w) (w_creator w) (aset N.eqb x r (w_acct w)) (w_counter w), Ok tt).
Definition putAssetHolding (x a : N) (h : holding) : SM unit :=
  fun w => (mkW (aset pair_eqb (x, a) h (w_hold w)) (w_par w) (w_creator w) (w_acct w) (w_counter w), Ok tt).
Definition deleteAssetHolding (x a : N) : SM unit :=
  fun w => (mkW (adel pair_eqb (x, a) (w_hold w)) (w_par w) (w_creator w) (w_acct w) (w_counter w), Ok tt).
Definition putAssetParams (c a : N) (p : aparams) : SM unit :=
  fun w => (mkW (w_hold w) (aset pair_eqb (c, a) p (w_par w)) (w_creator w) (w_acct w) (w_counter w), Ok tt).
Definition deleteAssetParams (c a : N) : SM unit :=
  fun w => (mkW (w_hold w) (adel pair_eqb (c, a) (w_par w)) (w_creator w) (w_acct w) (w_counter w), Ok tt).
(* AllocateAsset(addr, idx, global=true) / DeallocateAsset(..., true): the creatable map;
   the calls with global=false record nothing *)
Definition allocateAsset (c a : N) : SM unit :=
  fun w => (mkW (w_hold w) (w_par w) (aset N.eqb a c (w_creator w)) (w_acct w) (w_counter w), Ok tt).
Definition deallocateAsset (a : N) : SM unit :=
  fun w => (mkW (w_hold w) (w_par w) (adel N.eqb a (w_creator w)) (w_acct w) (w_counter w), Ok tt).
Definition getCounter : SM N := fun w => (w, Ok (w_counter w)).

(* ---------------------------------------------------------------- asset.go *)
Definition getParams (a : N) : SM (aparams * N) :=
  oc <- getCreator a ;;
  match oc with
  | None => fail E_NOASSET
  | Some c =>
      op <- getAssetParams c a ;;
      match op with
      | None => fail E_NOPARAMS
      | Some p => ret (p, c)
      end
  end.

(* "Changing keys in an asset": each of the four addresses is replaced unless it is
   currently the zero address (every test reads its own field, so the order is immaterial) *)
Definition reconfigure (params cp : aparams) : aparams :=
  mkP (p_total params) (p_deffrozen params)
      (if p_manager params =? 0 then p_manager params else p_manager cp)
      (if p_reserve params =? 0 then p_reserve params else p_reserve cp)
      (if p_freeze params =? 0 then p_freeze params else p_freeze cp)
      (if p_clawback params =? 0 then p_clawback params else p_clawback cp)
      (p_meta params).

(* result value: what the applier writes into ApplyData (ConfigAsset / AssetClosingAmount) *)
Definition assetConfig (maxassets sender casset : N) (cp : aparams) : SM N :=
  if casset =? 0 then
    rec <- getAcct sender ;;
    ctr <- getCounter ;;
    let newidx := ctr + 1 in
    present <- hasAssetParams sender newidx ;;
    if (present : bool) then fail E_PRESENT else
    if (0 <? maxassets) && (maxassets <=? fst rec) then fail E_TOOMANY else
    putAcct sender (addsat 64 (fst rec) 1, addsat 64 (snd rec) 1) ;;;
    putAssetParams sender newidx cp ;;;
    putAssetHolding sender newidx (mkH (p_total cp) false) ;;;
    allocateAsset sender newidx ;;;
    ret newidx
  else
    pc <- getParams casset ;;
    let params := fst pc in let creator := snd pc in
    if (p_manager params =? 0) || negb (sender =? p_manager params) then fail E_NOTMANAGER else
    if params_is_zero cp then
      rec <- getAcct creator ;;
      if fst rec =? 0 then fail E_DESTROY_NOASSETS else
      if snd rec =? 0 then fail E_DESTROY_NOPARAMS else
      oh <- getAssetHolding creator casset ;;
      let amt := match oh with Some h => h_amt h | None => 0 end in
      if negb (amt =? p_total params) then fail E_DESTROY_HOLDING else
      putAcct creator (subsat 64 (fst rec) 1, subsat 64 (snd rec) 1) ;;;
      deallocateAsset casset ;;;
      deleteAssetHolding creator casset ;;;
      deleteAssetParams creator casset ;;;
      ret 0
    else
      putAssetParams creator casset (reconfigure params cp) ;;;
      ret 0.

Definition takeOut (x a amount : N) (bypass : bool) : SM unit :=
  if amount =? 0 then ret tt else
  oh <- getAssetHolding x a ;;
  match oh with
  | None => fail E_MISSING
  | Some h =>
      if h_frozen h && negb bypass then fail E_FROZEN_SND else
      let '(newamt, ovf) := osub 64 (h_amt h) amount in
      if (ovf : bool) then fail E_UNDERFLOW else
      putAssetHolding x a (mkH newamt (h_frozen h))
  end.

Definition putIn (x a amount : N) (bypass : bool) : SM unit :=
  if amount =? 0 then ret tt else
  oh <- getAssetHolding x a ;;
  match oh with
  | None => fail E_MUSTOPTIN
  | Some h =>
      if h_frozen h && negb bypass then fail E_FROZEN_RCV else
      let '(newamt, ovf) := oadd 64 (h_amt h) amount in
      if (ovf : bool) then fail E_OVERFLOW else
      putAssetHolding x a (mkH newamt (h_frozen h))
  end.

(* AssetTransfer, in the order of the Go function.  The four blocks are named so that the
   proofs can describe them one at a time; [assetTransfer] is their sequential composition. *)

(* "Default to sending from the transaction sender's account" / clawback check:
   returns (source, clawback) *)
Definition xfer_source (sender asset asender : N) : SM (N * bool) :=
  if asender =? 0 then ret (sender, false) else
  pc <- getParams asset ;;
  let params := fst pc in
  if (p_clawback params =? 0) || negb (sender =? p_clawback params) then fail E_CLAWBACK
  else ret (asender, true).

(* "Allocate a slot for asset (self-transfer of zero amount)" *)
Definition xfer_optin (maxassets source asset amount receiver : N) (clawback : bool) : SM unit :=
  if (amount =? 0) && (receiver =? source) && negb clawback then
    oh <- getAssetHolding source asset ;;
    match oh with
    | Some _ => ret tt
    | None =>
        pc <- getParams asset ;;
        rec <- getAcct source ;;
        if (0 <? maxassets) && (maxassets <=? fst rec) then fail E_TOOMANY else
        putAcct source (addsat 64 (fst rec) 1, snd rec) ;;;
        putAssetHolding source asset (mkH 0 (p_deffrozen (fst pc)))
    end
  else ret tt.

(* "if ct.AssetCloseTo != (basics.Address{})": returns AssetClosingAmount *)
Definition xfer_close (source asset closeto : N) (clawback : bool) : SM N :=
  if closeto =? 0 then ret 0 else
  if clawback then fail E_CLOSE_CLAWBACK else
  rec <- getAcct source ;;
  if fst rec =? 0 then fail E_CLOSE_NOTOPTED else
  iscreator <- hasAssetParams source asset ;;
  if (iscreator : bool) then fail E_CLOSE_CREATOR else
  oh <- getAssetHolding source asset ;;
  match oh with
  | None => fail E_CLOSE_NOHOLD
  | Some sh =>
      bypass <- hasAssetParams closeto asset ;;
      takeOut source asset (h_amt sh) bypass ;;;
      putIn closeto asset (h_amt sh) bypass ;;;
      oh2 <- getAssetHolding source asset ;;
      let amt2 := match oh2 with Some h2 => h_amt h2 | None => 0 end in
      if negb (amt2 =? 0) then fail E_CLOSE_NOTZERO else
      putAcct source (subsat 64 (fst rec) 1, snd rec) ;;;
      deleteAssetHolding source asset ;;;
      ret (h_amt sh)
  end.

Definition assetTransfer (maxassets sender asset amount receiver asender closeto : N) : SM N :=
  sc <- xfer_source sender asset asender ;;
  let source := fst sc in
  let clawback := snd sc in
  xfer_optin maxassets source asset amount receiver clawback ;;;
  takeOut source asset amount clawback ;;;
  putIn receiver asset amount clawback ;;;
  xfer_close source asset closeto clawback.

Definition assetFreeze (sender asset account : N) (frozen : bool) : SM N :=
  pc <- getParams asset ;;
  let params := fst pc in
  if (p_freeze params =? 0) || negb (sender =? p_freeze params) then fail E_FREEZE else
  oh <- getAssetHolding account asset ;;
  match oh with
  | None => fail E_FREEZE_NOHOLD
  | Some h => putAssetHolding account asset (mkH (h_amt h) frozen) ;;; ret 0
  end.

(* ---------------------------------------------------------------- transactions, histories *)
Inductive op :=
| OConfig (sender casset : N) (cp : aparams)
| OXfer (sender asset amount receiver asender closeto : N)
| OFreeze (sender asset account : N) (frozen : bool)
| OTick.     (* any other committed transaction: only advances the transaction counter *)

Definition apply_op (maxassets : N) (o : op) : SM N :=
  match o with
  | OConfig s a cp => assetConfig maxassets s a cp
  | OXfer s a amt r asnd ct => assetTransfer maxassets s a amt r asnd ct
  | OFreeze s a x f => assetFreeze s a x f
  | OTick => ret 0
  end.

Definition bump (w : world) : world :=
  mkW (w_hold w) (w_par w) (w_creator w) (w_acct w) (w_counter w + 1).

(* one transaction through the evaluator: the writes of a failed transaction are discarded,
   a committed transaction increments the transaction counter *)
Definition step (maxassets : N) (w : world) (o : op) : world * res N :=
  match apply_op maxassets o w with
  | (w', Ok v) => (bump w', Ok v)
  | (_, Err e) => (w, Err e)
  end.

Fixpoint run (maxassets : N) (w : world) (ops : list op) : world :=
  match ops with
  | [] => w
  | o :: ops' => run maxassets (fst (step maxassets w o)) ops'
  end.

(* a transaction group: all transactions are evaluated in ONE child cow (each committed
   member advances the transaction counter for the next one) which is committed only if every
   member succeeds; otherwise the group leaves nothing behind.  Result: the ApplyData values of
   the members, or the error and the index of the failing member. *)
Fixpoint run_group (maxassets : N) (w : world) (g : list op) (k : N) : world * res (list N) * N :=
  match g with
  | [] => (w, Ok [], k)
  | o :: g' =>
      match step maxassets w o with
      | (w1, Ok v) =>
          let '(w2, r, k2) := run_group maxassets w1 g' (k + 1) in
          (w2, match r with Ok vs => Ok (v :: vs) | Err e => Err e end, k2)
      | (_, Err e) => (w, Err e, k)
      end
  end.

Definition gstep (maxassets : N) (w : world) (g : list op) : world * res (list N) * N :=
  let '(w', r, k) := run_group maxassets w g 0 in
  match r with
  | Ok vs => (w', Ok vs, k)
  | Err e => (w, Err e, k)
  end.

Fixpoint grun (maxassets : N) (w : world) (gs : list (list op)) : world :=
  match gs with
  | [] => w
  | g :: gs' => grun maxassets (fst (fst (gstep maxassets w g))) gs'
  end.

(* inputs are uint64 *)
Definition op_wf (o : op) : Prop :=
  match o with
  | OConfig _ _ cp => p_total cp < 2 ^ 64
  | OXfer _ _ amt _ _ _ => amt < 2 ^ 64
  | _ => True
  end.

(* ---------------------------------------------------------------- derived views *)
Definition amt_of (a : N) (k : N * N) (h : holding) : N := if snd k =? a then h_amt h else 0.
Definition supply (w : world) (a : N) : N := asum (amt_of a) (w_hold w).
Definition creator_of (w : world) (a : N) : option N := aget N.eqb a (w_creator w).
Definition params_of (w : world) (a : N) : option aparams :=
  match creator_of w a with
  | Some c => aget pair_eqb (c, a) (w_par w)
  | None => None
  end.
Definition holding_of (w : world) (x a : N) : option holding := aget pair_eqb (x, a) (w_hold w).
Definition amount_of (w : world) (x a : N) : N :=
  match holding_of w x a with Some h => h_amt h | None => 0 end.
Definition frozen_of (w : world) (x a : N) : bool :=
  match holding_of w x a with Some h => h_frozen h | None => false end.
