(* C30: the property as an executable, model-independent predicate over the ledger's call log.

   The monitor (the harness ledger) records every AddBlock / AddValidatedBlock call it receives,
   in the order in which it serialises them, with: who called (catchup or somebody else), the
   round in the block header, the ledger's latest round before the call, whether the ledger
   accepted the block, and -- recomputed by the monitor on the very (block, cert) pair it was
   handed -- ContentsMatchHeader and the authenticator oracle.  Nothing here refers to the model
   of the catchup service.  No proofs here. *)
From Coq Require Import NArith List Bool.
Import ListNotations.
Open Scope N_scope.

Record wlog := mkW {
  wl_src : bool;     (* true: the call was made by the catchup service *)
  wl_round : N;      (* block.Round() *)
  wl_lat : N;        (* ledger latest before the call *)
  wl_ok : bool;      (* the ledger appended the block *)
  wl_cm : bool;      (* block.ContentsMatchHeader(), recomputed by the monitor *)
  wl_au : bool;      (* the certificate authenticates the block, recomputed by the monitor *)
  wl_id : N          (* identity (header digest) of the block *)
}.

(* one entry against the current latest round [cur] *)
Definition entry_ok (vp vc : bool) (cur : N) (e : wlog) : bool :=
  (wl_lat e =? cur)
  && (if wl_ok e then wl_round e =? cur + 1 else true)
  && (if wl_src e then (wl_round e <=? wl_lat e + 1) && implb vp (wl_cm e) && implb vc (wl_au e)
      else true).

(* walk the log oldest first; result = latest round at the end *)
Fixpoint spec_walk (vp vc : bool) (cur : N) (log : list wlog) : option N :=
  match log with
  | [] => Some cur
  | e :: t => if entry_ok vp vc cur e then spec_walk vp vc (if wl_ok e then cur + 1 else cur) t
              else None
  end.

Fixpoint ids_eqb (a b : list N) : bool :=
  match a, b with
  | [], [] => true
  | x :: a', y :: b' => (x =? y) && ids_eqb a' b'
  | _, _ => false
  end.

(* [vp], [vc]: CatchupVerifyPaysetHash / CatchupVerifyCertificate of the configuration under test
   (both true by default); [lat0]: latest round before catchup started; [final_lat]/[final_ids]:
   what the ledger holds at the end (rounds lat0+1 .. final_lat). *)
Definition spec_ok (vp vc : bool) (lat0 : N) (log : list wlog) (final_lat : N) (final_ids : list N) : bool :=
  match spec_walk vp vc lat0 log with
  | Some l => (l =? final_lat) && ids_eqb (map wl_id (filter wl_ok log)) final_ids
  | None => false
  end.

(* ---- the same, as propositions (proofs/CatchupProofs.v: spec_walk_sound) ----------------- *)
Fixpoint Nseq (start : N) (len : nat) : list N :=
  match len with O => [] | S n => start :: Nseq (start + 1) n end.

(* blocks enter the ledger in strictly increasing round order without gaps, starting at lat0+1 *)
Definition writes_in_order_P (lat0 : N) (log : list wlog) : Prop :=
  map wl_round (filter wl_ok log) = Nseq (lat0 + 1) (length (filter wl_ok log)).
(* catchup never offers the ledger a block beyond latest+1, and every block it offers passed the
   checks that the configuration asks for *)
Definition calls_checked_P (vp vc : bool) (log : list wlog) : Prop :=
  Forall (fun e => wl_src e = true ->
                   wl_round e <= wl_lat e + 1 /\ (vp = true -> wl_cm e = true) /\ (vc = true -> wl_au e = true)) log.
