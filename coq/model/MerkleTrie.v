(* C17 model: the logical Merkle trie of /repo/crypto/merkletrie.

   [trie] is the tree that the node store (ids -> nodes, pages, cache) represents:
     Leaf h        a leaf node; [h] = node.hash = the not-yet-consumed suffix of the element
     Node cs       a non-leaf node; [cs] = node.children in slice order, (hashIndex, child)
   The childrenMask bitset is represented by the index set of [cs] ([has_child]); the
   `path` a non-leaf node keeps in node.hash until its hash is calculated is the position
   of the node and is an argument of [node_hash].

   Transcribed (same case split, same order of checks):
     node.find / node.add / node.remove / node.calculateHash      (node.go)
     Trie.Add / Trie.Delete / Trie.RootHash / Commit / Evict and MakeTrie-from-committer (trie.go)
   Go run-time panics (index out of range on d[0], n.hash[idiff], children[indexOf])
   are the result [None] / [RPanic]; props/C17.v proves them unreachable.

   NOT modelled here (abstraction, covered by the correspondence run only): node
   identifiers, pages, the page cache with its eviction order, page (de)serialisation and
   the fan-out / fill-factor re-allocation of cache.go.  They are meant to be invisible:
   the model has no page configuration at all.   No proofs in this file. *)
From Coq Require Import List NArith Bool.
Import ListNotations.
Open Scope N_scope.

Definition key := list N.          (* []byte; every element < 256 *)

Inductive trie : Type :=
| Leaf (h : key)
| Node (cs : list (N * trie)).

Definition is_leaf (t : trie) : bool := match t with Leaf _ => true | Node _ => false end.

(* bytes.Compare(a, b) == 0 *)
Fixpoint key_eqb (a b : key) : bool :=
  match a, b with
  | [], [] => true
  | x :: a', y :: b' => (x =? y) && key_eqb a' b'
  | _, _ => false
  end.

(* n.childrenMask.Bit(b) *)
Definition has_child (b : N) (cs : list (N * trie)) : bool :=
  existsb (fun p => fst p =? b) cs.

(* n.children[n.indexOf(b)] : indexOf = first index whose hashIndex >= b (binary search over
   the sorted slice); indexing past the end panics *)
Definition at_index_of {A} (f : trie -> option A) (b : N) : list (N * trie) -> option A :=
  fix go l :=
    match l with
    | [] => None
    | (i, c) :: l' => if i <? b then go l' else f c
    end.

(* replace the entry at indexOf(b) by the entries [f i c] (one entry: updated child id;
   no entry: the child is dropped) *)
Definition splice_index_of (f : N -> trie -> option (list (N * trie))) (b : N)
  : list (N * trie) -> option (list (N * trie)) :=
  fix go l :=
    match l with
    | [] => None
    | (i, c) :: l' =>
        if i <? b then match go l' with Some r => Some ((i, c) :: r) | None => None end
        else match f i c with Some e => Some (e ++ l') | None => None end
    end.

(* node.find *)
Fixpoint find (t : trie) (d : key) {struct t} : option bool :=
  match t with
  | Leaf h => Some (key_eqb d h)
  | Node cs =>
      match d with
      | [] => None                                   (* d[0] *)
      | b :: d' =>
          if negb (has_child b cs) then Some false
          else at_index_of (fun c => find c d') b cs
      end
  end.

(* node.add on a leaf: find idiff, build the 2-children node at the split and the chain of
   single-child ancestors above it.  h = n.hash, d = the element's remaining bytes. *)
Fixpoint split_leaf (h d : key) : option trie :=
  match h, d with
  | a :: h', b :: d' =>
      if a =? b then
        match split_leaf h' d' with
        | Some t => Some (Node [(b, t)])
        | None => None
        end
      else if a <? b then Some (Node [(a, Leaf h'); (b, Leaf d')])
      else Some (Node [(b, Leaf d'); (a, Leaf h')])
  | _, _ => None                                     (* n.hash[idiff] / d[idiff] out of range *)
  end.

(* the "no such child" branch of node.add: new child placed before the first larger index,
   or after all the existing ones *)
Fixpoint insert_child (b : N) (x : trie) (cs : list (N * trie)) : list (N * trie) :=
  match cs with
  | [] => [(b, x)]
  | (i, c) :: l => if b <? i then (b, x) :: (i, c) :: l else (i, c) :: insert_child b x l
  end.

(* node.add; assumption of the Go code: the element is absent *)
Fixpoint add (t : trie) (d : key) {struct t} : option trie :=
  match t with
  | Leaf h => split_leaf h d
  | Node cs =>
      match d with
      | [] => None
      | b :: d' =>
          if negb (has_child b cs) then Some (Node (insert_child b (Leaf d') cs))
          else
            match splice_index_of
                    (fun i c => match add c d' with Some c' => Some [(i, c')] | None => None end) b cs with
            | Some cs' => Some (Node cs')
            | None => None
            end
      end
  end.

(* end of node.remove: "at this point, we might end up with a single leaf child. collapse that." *)
Definition collapse (cs : list (N * trie)) : trie :=
  match cs with
  | [(i, Leaf s)] => Leaf (i :: s)
  | _ => Node cs
  end.

(* node.remove; called on non-leaf nodes only; assumption: the element is present *)
Fixpoint remove (t : trie) (k : key) {struct t} : option trie :=
  match t with
  | Leaf _ => None
  | Node cs =>
      match k with
      | [] => None
      | b :: k' =>
          match splice_index_of
                  (fun i c => match c with
                              | Leaf _ => Some []                       (* childNode.leaf(): drop it *)
                              | Node _ => match remove c k' with
                                          | Some c' => Some [(i, c')]
                                          | None => None
                                          end
                              end) b cs with
          | None => None
          | Some cs' => Some (collapse cs')
          end
      end
  end.

(* ---------- hashing (node.calculateHash, Trie.RootHash) over an abstract hash ---------- *)
Section Hashing.
  Variable H : list N -> list N.      (* crypto.Hash *)

  Definition byte_of_len (l : list N) : N := N.of_nat (length l) mod 256.     (* byte(len(x)) *)

  (* value of node.hash once hashes are calculated: the suffix for a leaf, the digest for a
     non-leaf node at position [path] *)
  Fixpoint node_hash (path : list N) (t : trie) {struct t} : list N :=
    match t with
    | Leaf h => h
    | Node cs =>
        H (byte_of_len path :: path ++
           (fix go (l : list (N * trie)) : list N :=
              match l with
              | [] => []
              | (i, c) :: l' =>
                  let ch := node_hash (path ++ [i]) c in
                  ((if is_leaf c then 0 else 1) :: byte_of_len ch :: i :: ch) ++ go l'
              end) cs)
    end.

  Definition zero_digest : list N := repeat 0 32%nat.

  Definition root_hash (r : option trie) : list N :=
    match r with
    | None => zero_digest
    | Some t => H ((if is_leaf t then 0 else 1) :: node_hash [] t)
    end.
End Hashing.

(* ---------- Trie.Add / Trie.Delete ---------- *)
Record tstate := { t_root : option trie; t_elen : nat }.
Definition t_empty : tstate := {| t_root := None; t_elen := 0 |}.

Inductive res : Type :=
| RBool (b : bool)          (* (b, nil) *)
| RErr                      (* ErrMismatchingElementLength / ErrUnableToEvictPendingCommits *)
| RPanic                    (* Go run-time panic *)
| RRoot (r : option trie)  (* RootHash: the digest is [root_hash H r] *)
| ROk.                      (* Commit / Evict / reload without error *)

(* returns the new state, the result and whether the cache was modified *)
Definition trie_add (st : tstate) (d : key) : tstate * res * bool :=
  match t_root st with
  | None => ({| t_root := Some (Leaf d); t_elen := length d |}, RBool true, true)
  | Some t =>
      if negb (Nat.eqb (length d) (t_elen st)) then (st, RErr, false)
      else match find t d with
           | None => (st, RPanic, false)
           | Some true => (st, RBool false, false)
           | Some false =>
               match add t d with
               | None => (st, RPanic, false)
               | Some t' => ({| t_root := Some t'; t_elen := t_elen st |}, RBool true, true)
               end
           end
  end.

Definition trie_delete (st : tstate) (d : key) : tstate * res * bool :=
  match t_root st with
  | None => (st, RBool false, false)
  | Some t =>
      if negb (Nat.eqb (length d) (t_elen st)) then (st, RErr, false)
      else match find t d with
           | None => (st, RPanic, false)
           | Some false => (st, RBool false, false)
           | Some true =>
               if is_leaf t then ({| t_root := None; t_elen := 0 |}, RBool true, true)
               else match remove t d with
                    | None => (st, RPanic, false)
                    | Some t' => ({| t_root := Some t'; t_elen := t_elen st |}, RBool true, true)
                    end
           end
  end.

(* ---------- the trie together with its committer ---------- *)
Inductive op : Type :=
| OAdd (k : key)
| ODel (k : key)
| OCommit                   (* Trie.Commit *)
| OEvict (commit : bool)    (* Trie.Evict(commit) *)
| OReload                   (* MakeTrie(committer, cfg): a new Trie over what was committed *)
| ORoot.                    (* Trie.RootHash *)

Record mstate := {
  m_cur : tstate;           (* what the live Trie represents *)
  m_modified : bool;        (* cache.modified *)
  m_committed : tstate      (* what the committer's pages represent *)
}.
Definition m_init : mstate := {| m_cur := t_empty; m_modified := false; m_committed := t_empty |}.

Definition do_commit (s : mstate) : mstate :=
  {| m_cur := m_cur s; m_modified := false; m_committed := m_cur s |}.

(* RootHash returns [root_hash H r] for the [r] reported in [RRoot r]; the step function
   itself does not depend on the hash function. *)
Definition step (s : mstate) (o : op) : mstate * res :=
  match o with
  | OAdd k =>
      let '(st, r, m) := trie_add (m_cur s) k in
      ({| m_cur := st; m_modified := m_modified s || m; m_committed := m_committed s |}, r)
  | ODel k =>
      let '(st, r, m) := trie_delete (m_cur s) k in
      ({| m_cur := st; m_modified := m_modified s || m; m_committed := m_committed s |}, r)
  | OCommit => (do_commit s, ROk)
  | OEvict true => ((if m_modified s then do_commit s else s), ROk)
  | OEvict false => if m_modified s then (s, RErr) else (s, ROk)
  | OReload => ({| m_cur := m_committed s; m_modified := false; m_committed := m_committed s |}, ROk)
  | ORoot =>
      match t_root (m_cur s) with
      | None => (s, RRoot None)                          (* returns before looking at modified *)
      | Some _ =>
          let s' := if m_modified s then do_commit s else s in
          (s', RRoot (t_root (m_cur s')))
      end
  end.

Fixpoint run (s : mstate) (ops : list op) : mstate * list res :=
  match ops with
  | [] => (s, [])
  | o :: ops' => let '(s1, r) := step s o in
                 let '(s2, rs) := run s1 ops' in (s2, r :: rs)
  end.
