(* C47 model: ledger/store/trackerdb.

   SPEC.  The abstract tracker store: one finite map from STRUCTURED keys -- account a |
   resource (a, aidx) | app kv key | creatable cidx | online-account row (a, updround) | db round |
   schema version | totals (live / staging) | tx tail round | online round params round | state
   proof context round -- to values (the disjoint union of the tables of the tracker DB), with the
   readers written as the SQL statements of sqlitedriver/sql.go and accountsV2.go read them:
   comprehensions over the rows, ORDER BY = sort on the NUMERIC / lexicographic fields, LIMIT =
   firstn.  No byte encodings occur in the spec.  SQLite itself is not modelled; the spec is
   compared with the real SQLite backend on every run.

   KV REFINEMENT.  The key-value backend (generickv over Pebble): an ordered byte-string map
   ([kv_get] / [kv_set] / [kv_del] / [kv_delrange] / [kv_iter lo hi reverse], keys ordered like
   bytes.Compare) with the exact key encodings of generickv/schema.go ([enc]) and transcriptions of
   the reader / writer functions of generickv (accounts_reader.go, accounts_ext_reader.go,
   onlineaccounts_reader.go, accounts_writer.go, accounts_ext_writer.go, onlineaccounts_writer.go,
   stateproof_*.go): same key constructors, same range bounds, same loops.  Functions that were
   repaired (fixes/C47a-c) are modelled twice: [..] is the repaired code, [.._orig] the code as
   found; the [_orig] variants are what the [.._refuted] theorems and the finding signatures use.

   Values: msgpack encoding of the stored structs is assumed lossless and is abstracted: a value is
   a list of numbers ([payload] for accounts / tx tail / round params / totals / state proof
   contexts, [kind; payload] for resources (kind 0 asset, 1 app), [ctype] ++ creator for creatables,
   [votelast; algos] for online rows (votelast = 0 <-> voting data empty), the raw bytes for app kv
   values).  Numbers are unbounded N; keys are valid when addresses have 32 bytes < 256 and numbers
   are < 2^64.  No proofs in this file. *)
From Coq Require Import NArith List Bool.
Import ListNotations.
Open Scope N_scope.

Definition bytes := list N.
Definition value := list N.

(* ---------- byte strings: bytes.Compare / memcmp / Pebble DefaultComparer / SQLite BLOB order ---------- *)
Fixpoint bcmp (a b : bytes) : comparison :=
  match a, b with
  | [], [] => Eq
  | [], _ :: _ => Lt
  | _ :: _, [] => Gt
  | x :: a', y :: b' => match x ?= y with Eq => bcmp a' b' | c => c end
  end.
Definition bltb (a b : bytes) : bool := match bcmp a b with Lt => true | _ => false end.
Definition bleb (a b : bytes) : bool := match bcmp a b with Gt => false | _ => true end.
Definition beqb (a b : bytes) : bool := match bcmp a b with Eq => true | _ => false end.

Fixpoint is_prefix (p k : bytes) : bool :=
  match p, k with
  | [], _ => true
  | _ :: _, [] => false
  | x :: p', y :: k' => (x =? y) && is_prefix p' k'
  end.

(* big-endian fixed width *)
Fixpoint be (k : nat) (n : N) : bytes :=
  match k with O => [] | S k' => be k' (n / 256) ++ [n mod 256] end.
Definition be8 : N -> bytes := be 8.
Fixpoint unbe_acc (b : bytes) (acc : N) : N :=
  match b with [] => acc | x :: t => unbe_acc t (acc * 256 + x) end.
Definition unbe (b : bytes) : N := unbe_acc b 0.

Definition all_lt256 (b : bytes) : bool := forallb (fun x => x <? 256) b.
Definition valid_addr (a : bytes) : bool := (N.of_nat (length a) =? 32) && all_lt256 a.
Definition u64 (n : N) : bool := n <? 2 ^ 64.

(* ---------- structured keys ---------- *)
Inductive skey :=
| KAcct (a : bytes)
| KRes (a : bytes) (i : N)
| KApp (k : bytes)
| KCreat (i : N)
| KOnl (a : bytes) (r : N)
| KBal (r b : N) (a : bytes)      (* key-value backend only: the balance index of the online rows *)
| KRound
| KSchema
| KTotals (staging : bool)
| KTxTail (r : N)
| KOrp (r : N)
| KSp (r : N).

Definition valid_key (k : skey) : bool :=
  match k with
  | KAcct a => valid_addr a
  | KRes a i => valid_addr a && u64 i
  | KApp k => all_lt256 k
  | KCreat i => u64 i
  | KOnl a r => valid_addr a && u64 r
  | KBal r b a => u64 r && u64 b && valid_addr a
  | KRound | KSchema | KTotals _ => true
  | KTxTail r | KOrp r | KSp r => u64 r
  end.

Definition tag (k : skey) : N :=
  match k with
  | KAcct _ => 0 | KRes _ _ => 1 | KApp _ => 2 | KCreat _ => 3 | KOnl _ _ => 4 | KBal _ _ _ => 5
  | KRound => 6 | KSchema => 7 | KTotals _ => 8 | KTxTail _ => 9 | KOrp _ => 10 | KSp _ => 11
  end.

Definition lexc (c : comparison) (d : comparison) : comparison := match c with Eq => d | _ => c end.
Definition bool_cmp (a b : bool) : comparison :=
  match a, b with false, true => Lt | true, false => Gt | _, _ => Eq end.

(* the order of the abstract keys: table, then the fields as numbers / byte strings *)
Definition skey_cmp (k1 k2 : skey) : comparison :=
  match k1, k2 with
  | KAcct a, KAcct b => bcmp a b
  | KRes a i, KRes b j => lexc (bcmp a b) (i ?= j)
  | KApp a, KApp b => bcmp a b
  | KCreat i, KCreat j => i ?= j
  | KOnl a r, KOnl b q => lexc (bcmp a b) (r ?= q)
  | KBal r b a, KBal r' b' a' => lexc (r ?= r') (lexc (b ?= b') (bcmp a a'))
  | KTotals s, KTotals s' => bool_cmp s s'
  | KTxTail r, KTxTail q => r ?= q
  | KOrp r, KOrp q => r ?= q
  | KSp r, KSp q => r ?= q
  | _, _ => tag k1 ?= tag k2
  end.
Definition skey_eqb (k1 k2 : skey) : bool := match skey_cmp k1 k2 with Eq => true | _ => false end.
Definition skey_ltb (k1 k2 : skey) : bool := match skey_cmp k1 k2 with Lt => true | _ => false end.

(* ---------- generickv/schema.go ---------- *)
Definition sep : N := 45.        (* '-' *)
Definition endsep : N := 46.     (* '.' : endRangeSeparator *)
Definition kvPrefixAccount : bytes := [120; 97].                (* "xa" *)
Definition kvPrefixResource : bytes := [120; 98].               (* "xb" *)
Definition kvPrefixAppKv : bytes := [120; 99].                  (* "xc" *)
Definition kvPrefixCreatorIndex : bytes := [120; 100].          (* "xd" *)
Definition kvPrefixOnlineAccount : bytes := [120; 101].         (* "xe" *)
Definition kvPrefixOnlineAccountBalance : bytes := [120; 102].  (* "xf" *)
Definition kvRoundKey : bytes := [120; 103].                    (* "xg" *)
Definition kvSchemaVersionKey : bytes := [120; 104].            (* "xh" *)
Definition kvTotalsKey : bytes := [120; 105].                   (* "xi" *)
Definition kvTxTail : bytes := [120; 106].                      (* "xj" *)
Definition kvOnlineAccountRoundParams : bytes := [120; 107].    (* "xk" *)
Definition kvPrefixStateproof : bytes := [120; 108].            (* "xl" *)

Definition accountKey (a : bytes) : bytes := kvPrefixAccount ++ sep :: a.
Definition resourceKey (a : bytes) (i : N) : bytes := kvPrefixResource ++ sep :: a ++ sep :: be8 i.
Definition resourceAddrOnlyRangePrefix (a : bytes) : bytes * bytes :=
  (kvPrefixResource ++ sep :: a ++ [sep], kvPrefixResource ++ sep :: a ++ [endsep]).
Definition appKvKey (k : bytes) : bytes := kvPrefixAppKv ++ sep :: k.
Definition creatableKey (i : N) : bytes := kvPrefixCreatorIndex ++ sep :: be8 i.
Definition onlineAccountKey (a : bytes) (r : N) : bytes := kvPrefixOnlineAccount ++ sep :: a ++ sep :: be8 r.
Definition onlineAccountOnlyPartialKey (a : bytes) : bytes := kvPrefixOnlineAccount ++ sep :: a ++ [sep].
(* high[len(high)-1]++ : byte arithmetic, no carry *)
Fixpoint inc_last (b : bytes) : bytes :=
  match b with
  | [] => []
  | [x] => [(x + 1) mod 256]
  | x :: t => x :: inc_last t
  end.
Definition onlineAccountLatestRangePrefix_orig (a : bytes) (r : N) : bytes * bytes :=
  (onlineAccountOnlyPartialKey a, inc_last (onlineAccountKey a r)).
(* repaired (C47b): the key followed by a zero byte *)
Definition onlineAccountLatestRangePrefix (a : bytes) (r : N) : bytes * bytes :=
  (onlineAccountOnlyPartialKey a, onlineAccountKey a r ++ [0]).
Definition onlineAccountAddressRangePrefix (a : bytes) : bytes * bytes :=
  (onlineAccountOnlyPartialKey a, kvPrefixOnlineAccount ++ sep :: a ++ [endsep]).
Definition onlineAccountFullRangePrefix : bytes * bytes :=
  (kvPrefixOnlineAccount ++ [sep], kvPrefixOnlineAccount ++ [endsep]).
Definition onlineAccountBalanceKey (r b : N) (a : bytes) : bytes :=
  kvPrefixOnlineAccountBalance ++ sep :: be8 r ++ sep :: be8 b ++ sep :: a.
Definition onlineAccountBalanceForRoundRangePrefix (r : N) : bytes * bytes :=
  (kvPrefixOnlineAccountBalance ++ [sep], kvPrefixOnlineAccountBalance ++ sep :: be8 r ++ [endsep]).
(* added by the repair C47c *)
Definition onlineAccountBalanceBeforeRoundRangePrefix (r : N) : bytes * bytes :=
  (kvPrefixOnlineAccountBalance ++ [sep], kvPrefixOnlineAccountBalance ++ sep :: be8 r).
Definition roundKey : bytes := kvRoundKey.
Definition schemaVersionKey : bytes := kvSchemaVersionKey.
Definition totalsKey (staging : bool) : bytes := kvTotalsKey ++ [sep; if staging then 115 else 108].
Definition txTailKey (r : N) : bytes := kvTxTail ++ sep :: be8 r.
Definition txTailRoundRangePrefix (r : N) : bytes * bytes := (kvTxTail ++ [sep], txTailKey r).
Definition txTailFullRangePrefix : bytes * bytes := (kvTxTail ++ [sep], kvTxTail ++ [endsep]).
Definition onlineAccountRoundParamsKey (r : N) : bytes := kvOnlineAccountRoundParams ++ sep :: be8 r.
Definition onlineAccountRoundParamsRoundRangePrefix (r : N) : bytes * bytes :=
  (kvOnlineAccountRoundParams ++ [sep], onlineAccountRoundParamsKey r).
Definition onlineAccountRoundParamsFullRangePrefix : bytes * bytes :=
  (kvOnlineAccountRoundParams ++ [sep], kvOnlineAccountRoundParams ++ [endsep]).
Definition stateproofKey (r : N) : bytes := kvPrefixStateproof ++ sep :: be8 r.
Definition stateproofRoundRangePrefix (r : N) : bytes * bytes := (kvPrefixStateproof ++ [sep], stateproofKey r).
Definition stateproofFullRangePrefix : bytes * bytes := (kvPrefixStateproof ++ [sep], kvPrefixStateproof ++ [endsep]).

Definition extractResourceAidx (key : bytes) : N := unbe (firstn 8 (skipn 36 key)).
Definition extractOnlineAccountAddress (key : bytes) : bytes := firstn 32 (skipn 3 key).
Definition extractOnlineAccountRound (key : bytes) : N := unbe (firstn 8 (skipn 36 key)).
Definition extractOnlineAccountBalanceAddress (key : bytes) : bytes := firstn 32 (skipn 21 key).
Definition extractOnlineAccountBalanceRound (key : bytes) : N := unbe (firstn 8 (skipn 3 key)).
Definition extractRoundPart (key : bytes) : N := unbe (firstn 8 (skipn 3 key)).   (* txtail / round params *)

(* the byte key a structured key is stored under *)
Definition enc (k : skey) : bytes :=
  match k with
  | KAcct a => accountKey a
  | KRes a i => resourceKey a i
  | KApp k => appKvKey k
  | KCreat i => creatableKey i
  | KOnl a r => onlineAccountKey a r
  | KBal r b a => onlineAccountBalanceKey r b a
  | KRound => roundKey
  | KSchema => schemaVersionKey
  | KTotals st => totalsKey st
  | KTxTail r => txTailKey r
  | KOrp r => onlineAccountRoundParamsKey r
  | KSp r => stateproofKey r
  end.

(* ---------- the ordered byte-string store (Pebble through generickv.KvRead / KvWrite) ---------- *)
Definition kvs := list (bytes * value).       (* strictly increasing keys *)

Fixpoint kv_get (s : kvs) (k : bytes) : option value :=
  match s with
  | [] => None
  | (k', v) :: t => match bcmp k k' with Eq => Some v | Lt => None | Gt => kv_get t k end
  end.
Fixpoint kv_set (s : kvs) (k : bytes) (v : value) : kvs :=
  match s with
  | [] => [(k, v)]
  | (k', v') :: t => match bcmp k k' with
                     | Eq => (k, v) :: t
                     | Lt => (k, v) :: s
                     | Gt => (k', v') :: kv_set t k v
                     end
  end.
Fixpoint kv_del (s : kvs) (k : bytes) : kvs :=
  match s with
  | [] => []
  | (k', v') :: t => match bcmp k k' with
                     | Eq => t
                     | Lt => s
                     | Gt => (k', v') :: kv_del t k
                     end
  end.
(* IterOptions{LowerBound: lo, UpperBound: hi}: lo <= key < hi; a nil bound is absent *)
Definition in_range (lo : bytes) (hi : option bytes) (k : bytes) : bool :=
  bleb lo k && match hi with None => true | Some h => bltb k h end.
Definition kv_range (s : kvs) (lo : bytes) (hi : option bytes) : kvs :=
  filter (fun e => in_range lo hi (fst e)) s.
Definition kv_iter (s : kvs) (lo : bytes) (hi : option bytes) (reverse : bool) : kvs :=
  if reverse then rev (kv_range s lo hi) else kv_range s lo hi.
Definition kv_delrange (s : kvs) (lo hi : bytes) : kvs :=
  filter (fun e => negb (in_range lo (Some hi) (fst e))) s.

(* ---------- results ---------- *)
Inductive res (A : Type) := Ok (x : A) | ErrNotFound | ErrOther | ErrStrangePrefix | ErrNotSupported | ErrNullScan | Panic.
Arguments Ok {A} x.
Arguments ErrNotFound {A}.
Arguments ErrOther {A}.
Arguments ErrStrangePrefix {A}.
Arguments ErrNotSupported {A}.
Arguments ErrNullScan {A}.
Arguments Panic {A}.
Definition bind {A B} (r : res A) (f : A -> res B) : res B :=
  match r with
  | Ok x => f x
  | ErrNotFound => ErrNotFound | ErrOther => ErrOther | ErrStrangePrefix => ErrStrangePrefix
  | ErrNotSupported => ErrNotSupported | ErrNullScan => ErrNullScan | Panic => Panic
  end.

Definition zero_addr : bytes := repeat 0 32.

(* ================= generickv readers ================= *)
(* AccountsRound: the value under "xg"; a missing key is an error *)
Definition kv_accounts_round (s : kvs) : res N :=
  match kv_get s roundKey with Some [r] => Ok r | Some _ => ErrOther | None => ErrNotFound end.

(* LookupAccount -> (round, found, payload) *)
Definition kv_lookup_account (s : kvs) (a : bytes) : res (N * bool * N) :=
  bind (kv_accounts_round s) (fun rnd =>
  match kv_get s (accountKey a) with
  | None => Ok (rnd, false, 0)
  | Some [p] => Ok (rnd, true, p)
  | Some _ => ErrOther
  end).

(* LookupResources -> (round, None | Some (kind, payload)); ctype 0 asset, 1 app *)
Definition kv_lookup_resources (s : kvs) (a : bytes) (i ct : N) : res (N * option (N * N)) :=
  bind (kv_accounts_round s) (fun rnd =>
  match kv_get s (resourceKey a i) with
  | None => Ok (rnd, None)
  | Some [kind; p] => if kind =? ct then Ok (rnd, Some (kind, p)) else ErrOther
  | Some _ => ErrOther
  end).

(* LookupAllResources -> (round, [(aidx, kind, payload)]) *)
Definition kv_lookup_all_resources (s : kvs) (a : bytes) : res (N * list (N * N * N)) :=
  let '(low, high) := resourceAddrOnlyRangePrefix a in
  let it := kv_iter s low (Some high) false in
  bind (kv_accounts_round s) (fun rnd =>
  Ok (rnd, map (fun e => (extractResourceAidx (fst e), nth 0 (snd e) 0, nth 1 (snd e) 0)) it)).

Definition kv_lookup_limited_resources (s : kvs) (a : bytes) (mi mx ct : N) : res (N * list N) := ErrNotSupported.

(* LookupKeyValue -> (round, None | Some value) *)
Definition kv_lookup_key_value (s : kvs) (k : bytes) : res (N * option bytes) :=
  bind (kv_accounts_round s) (fun rnd => Ok (rnd, kv_get s (appKvKey k))).

(* keyPrefixIntervalPreprocessing: (prefix, prefix "+1" with carry; None when there is no upper bound) *)
Fixpoint prefix_incr_rev (r : bytes) : option bytes :=          (* on the reversed prefix *)
  match r with
  | [] => None
  | x :: t => if 255 <=? x then prefix_incr_rev t else Some (rev (x + 1 :: t))
  end.
Definition keyPrefixIntervalPreprocessing (p : bytes) : bytes * option bytes := (p, prefix_incr_rev (rev p)).

Definition results := list (bytes * bool).      (* the caller's map[string]bool, kept sorted by key *)
Fixpoint results_get (m : results) (k : bytes) : option bool :=
  match m with [] => None | (k', f) :: t => if beqb k k' then Some f else results_get t k end.
Fixpoint results_set (m : results) (k : bytes) (f : bool) : results :=
  match m with
  | [] => [(k, f)]
  | (k', f') :: t => match bcmp k k' with
                     | Eq => (k, f) :: t
                     | Lt => (k, f) :: m
                     | Gt => (k', f') :: results_set t k f
                     end
  end.

(* LookupKeysByPrefix as found: raw prefix range, results[key] = len(value) > 0, always counted *)
Fixpoint kv_pfx_loop_orig (it : kvs) (maxn : N) (m : results) (cnt : N) : results :=
  match it with
  | [] => m
  | (k, v) :: t => if cnt =? maxn then m
                   else kv_pfx_loop_orig t maxn (results_set m k (negb (N.of_nat (length v) =? 0))) (cnt + 1)
  end.
Definition kv_lookup_keys_by_prefix_orig (s : kvs) (p : bytes) (maxn : N) (m : results) (cnt : N) : res (N * results) :=
  bind (kv_accounts_round s) (fun rnd =>
  let '(start, e) := keyPrefixIntervalPreprocessing p in
  Ok (rnd, kv_pfx_loop_orig (kv_iter s start e false) maxn m cnt)).

(* the loop of the repaired LookupKeysByPrefix (C47a), which is the loop of the SQL implementation:
   [keys] are the user keys in key order; a key already in the map is left alone and not counted *)
Fixpoint pfx_loop (keys : list bytes) (maxn : N) (m : results) (cnt : N) : results :=
  match keys with
  | [] => m
  | k :: t => if cnt =? maxn then m
              else match results_get m k with
                   | Some _ => pfx_loop t maxn m cnt
                   | None => pfx_loop t maxn (results_set m k true) (cnt + 1)
                   end
  end.
Definition appKvPrefixInterval (p : bytes) : res (bytes * bytes) :=
  match snd (keyPrefixIntervalPreprocessing p) with
  | None => ErrStrangePrefix
  | Some rawEnd => Ok (appKvKey p, appKvKey rawEnd)
  end.
Definition appKvKeyToUserKey (key : bytes) : bytes := skipn 3 key.
Definition kv_lookup_keys_by_prefix (s : kvs) (p : bytes) (maxn : N) (m : results) (cnt : N) : res (N * results) :=
  bind (appKvPrefixInterval p) (fun se =>
  bind (kv_accounts_round s) (fun rnd =>
  Ok (rnd, pfx_loop (map (fun e => appKvKeyToUserKey (fst e)) (kv_iter s (fst se) (Some (snd se)) false)) maxn m cnt))).
(* intermediate state used only to name the second defect: range repaired, result flags as found *)
Fixpoint kv_pfx_loop_flags (it : list (bytes * value)) (maxn : N) (m : results) (cnt : N) : results :=
  match it with
  | [] => m
  | (k, v) :: t => if cnt =? maxn then m
                   else kv_pfx_loop_flags t maxn (results_set m k (negb (N.of_nat (length v) =? 0))) (cnt + 1)
  end.
Definition kv_lookup_keys_by_prefix_flags (s : kvs) (p : bytes) (maxn : N) (m : results) (cnt : N) : res (N * results) :=
  bind (kv_accounts_round s) (fun rnd =>
  match snd (keyPrefixIntervalPreprocessing (appKvKey p)) with
  | None => ErrOther
  | Some e => Ok (rnd, kv_pfx_loop_flags (map (fun e => (appKvKeyToUserKey (fst e), snd e)) (kv_iter s (appKvKey p) (Some e) false)) maxn m cnt)
  end).

(* the shared paging loop of LookupKeysByPrefixCursor (identical in both backends): [rows] are
   (user key, value) in key order; returns (results, moreData) *)
Definition blen (b : bytes) : N := N.of_nat (length b).
Definition qualifies (cursor : bytes) (excl : list bytes) (k : bytes) : bool :=
  negb (bleb k cursor) && negb (existsb (beqb k) excl).
Fixpoint page_peek (rows : list (bytes * bytes)) (cursor : bytes) (excl : list bytes) : bool :=
  match rows with
  | [] => false
  | (k, _) :: t => if qualifies cursor excl k then true else page_peek t cursor excl
  end.
Fixpoint page_loop (rows : list (bytes * bytes)) (cursor : bytes) (limit maxb : N) (incl : bool) (excl : list bytes)
         (acc : list (bytes * bytes)) (collected bytesAccum : N) : list (bytes * bytes) * bool :=
  match rows with
  | [] => (rev acc, false)
  | (k, v) :: t =>
      if negb (qualifies cursor excl k) then page_loop t cursor limit maxb incl excl acc collected bytesAccum
      else let v' := if incl then v else [] in
           let item := blen k + blen v' in
           if (0 <? maxb) && (maxb <? bytesAccum + item) && (0 <? collected) then (rev acc, true)
           else let acc' := (k, v') :: acc in
                if (0 <? limit) && (limit <=? collected + 1) then (rev acc', page_peek t cursor excl)
                else page_loop t cursor limit maxb incl excl acc' (collected + 1) (bytesAccum + item)
  end.

Definition kv_lookup_keys_by_prefix_cursor_orig (s : kvs) (p cursor : bytes) (limit maxb : N) (incl : bool) (excl : list bytes)
  : res (N * list (bytes * bytes) * bool) :=
  bind (kv_accounts_round s) (fun rnd =>
  let '(start, e) := keyPrefixIntervalPreprocessing p in
  let iterStart := if negb (beqb cursor []) && bleb start cursor then cursor else start in
  let '(l, more) := page_loop (kv_iter s iterStart e false) cursor limit maxb incl excl [] 0 0 in
  Ok (rnd, l, more)).
(* repaired (C47a) *)
Definition kv_lookup_keys_by_prefix_cursor (s : kvs) (p cursor : bytes) (limit maxb : N) (incl : bool) (excl : list bytes)
  : res (N * list (bytes * bytes) * bool) :=
  bind (appKvPrefixInterval p) (fun se =>
  bind (kv_accounts_round s) (fun rnd =>
  let iterStart := if negb (beqb cursor []) && bleb p cursor then appKvKey cursor else fst se in
  let rows := map (fun e => (appKvKeyToUserKey (fst e), snd e)) (kv_iter s iterStart (Some (snd se)) false) in
  let '(l, more) := page_loop rows cursor limit maxb incl excl [] 0 0 in
  Ok (rnd, l, more))).

(* LookupCreator -> (round, ok, creator) *)
Definition kv_lookup_creator (s : kvs) (i ct : N) : res (N * bool * bytes) :=
  bind (kv_accounts_round s) (fun rnd =>
  match kv_get s (creatableKey i) with
  | None => Ok (rnd, false, zero_addr)
  | Some (ct' :: cr) => if ct' =? ct then Ok (rnd, true, cr) else Ok (rnd, false, zero_addr)
  | Some [] => ErrOther
  end).

Definition kv_accounts_totals (s : kvs) (staging : bool) : res N :=
  match kv_get s (totalsKey staging) with Some [p] => Ok p | Some _ => ErrOther | None => ErrNotFound end.

Definition kv_lookup_account_rowid (s : kvs) (a : bytes) : res unit :=
  match kv_get s (accountKey a) with Some _ => Ok tt | None => ErrNotFound end.

(* LookupResourceDataByAddrID with the ref obtained from LookupAccountRowID (nil when not found) *)
Definition kv_lookup_resource_data (s : kvs) (a : bytes) (i : N) : bool * res (N * N) :=
  match kv_lookup_account_rowid s a with
  | Ok _ => (true, match kv_get s (resourceKey a i) with
                   | Some [kind; p] => Ok (kind, p) | Some _ => ErrOther | None => ErrNotFound end)
  | _ => (false, ErrNotFound)
  end.

(* LookupOnlineAccountDataByAddress -> (votelast, algos) of the newest row *)
Definition kv_lookup_online_data_by_address (s : kvs) (a : bytes) : res (N * N) :=
  let '(low, high) := onlineAccountAddressRangePrefix a in
  match kv_iter s low (Some high) true with
  | (_, v) :: _ => Ok (nth 0 v 0, nth 1 v 0)
  | [] => ErrNotFound
  end.

(* AccountsOnlineTop as found: walks the balance index newest round first *)
Fixpoint skip_iter (n : nat) (it : kvs) : kvs := match n with O => it | S n' => skip_iter n' (tl it) end.
Fixpoint kv_top_loop (n : nat) (it : kvs) (acc : list (bytes * value)) : list (bytes * value) :=
  match n with
  | O => acc
  | S n' => match it with
            | [] => acc
            | (k, v) :: t => let a := extractOnlineAccountBalanceAddress k in
                             if existsb (fun e => beqb (fst e) a) acc then kv_top_loop n' t acc
                             else kv_top_loop n' t (acc ++ [(a, v)])
            end
  end.
Definition kv_accounts_online_top (s : kvs) (rnd offset n : N) : list (bytes * value) :=
  let '(low, high) := onlineAccountBalanceForRoundRangePrefix rnd in
  kv_top_loop (N.to_nat n) (skip_iter (N.to_nat offset) (kv_iter s low (Some high) true)) [].

(* AccountsOnlineRoundParams -> (payloads, endRound) *)
Definition kv_accounts_online_round_params (s : kvs) : list N * N :=
  let '(low, high) := onlineAccountRoundParamsFullRangePrefix in
  let it := kv_iter s low (Some high) false in
  (map (fun e => nth 0 (snd e) 0) it, last (map (fun e => extractRoundPart (fst e)) it) 0).

(* ExpiredOnlineAccountsForRound -> [(addr, value)] in discovery order *)
Fixpoint kv_expired_loop (it : kvs) (voteRnd : N) (data : list (bytes * value)) (expired : list bytes) : list (bytes * value) :=
  match it with
  | [] => data
  | (k, v) :: t =>
      let a := extractOnlineAccountBalanceAddress k in
      if existsb (fun e => beqb (fst e) a) data then kv_expired_loop t voteRnd data expired
      else if existsb (beqb a) expired then kv_expired_loop t voteRnd data expired
      else let vl := nth 0 v 0 in
           if negb ((vl <? voteRnd) && (0 <? vl)) then kv_expired_loop t voteRnd data (a :: expired)
           else kv_expired_loop t voteRnd (data ++ [(a, v)]) expired
  end.
Definition kv_expired_online_accounts (s : kvs) (rnd voteRnd : N) : list (bytes * value) :=
  let '(low, high) := onlineAccountBalanceForRoundRangePrefix rnd in
  kv_expired_loop (kv_iter s low (Some high) true) voteRnd [] [].

(* OnlineAccountsAll -> [(addr, updround, item.Round, value)]; the loop is the same in both backends
   (lastAddr starts as the zero address, so a leading zero address is not counted) *)
Fixpoint online_all_loop (rows : list (bytes * N * value)) (maxn : N) (last : bytes) (seen : N) (rndfield : N)
  : list (bytes * N * N * value) :=
  match rows with
  | [] => []
  | (a, upd, v) :: t =>
      if 0 <? maxn then
        let seen' := if beqb a last then seen else seen + 1 in
        if maxn <? seen' then []
        else (a, upd, rndfield, v) :: online_all_loop t maxn a seen' rndfield
      else (a, upd, rndfield, v) :: online_all_loop t maxn last seen rndfield
  end.
Definition kv_online_accounts_all (s : kvs) (maxn : N) : res (list (bytes * N * N * value)) :=
  bind (kv_accounts_round s) (fun rnd =>
  let '(low, high) := onlineAccountFullRangePrefix in
  Ok (online_all_loop (map (fun e => (extractOnlineAccountAddress (fst e), extractOnlineAccountRound (fst e), snd e))
                           (kv_iter s low (Some high) false)) maxn zero_addr 0 rnd)).

(* LoadTxTail -> (payloads oldest first, baseRound); round arithmetic is uint64 *)
Definition w64 (z : N) : N := z mod 2 ^ 64.
Fixpoint load_txtail_loop (rows : list (N * value)) (expected : N) (acc : list N) : res (list N * N) :=
  match rows with
  | [] => Ok (acc, w64 (expected + 1))
  | (r, v) :: t => if negb (r =? expected) then ErrOther
                   else load_txtail_loop t (w64 (expected + 2 ^ 64 - 1)) (nth 0 v 0 :: acc)
  end.
Definition kv_load_txtail (s : kvs) (dbRound : N) : res (list N * N) :=
  let '(low, high) := txTailFullRangePrefix in
  load_txtail_loop (map (fun e => (extractRoundPart (fst e), snd e)) (kv_iter s low (Some high) true)) dbRound [].

(* LookupOnline -> (round, None | Some (updround, value)) *)
Definition kv_lookup_online_with (rangef : bytes -> N -> bytes * bytes) (s : kvs) (a : bytes) (rnd : N)
  : res (N * option (N * value)) :=
  bind (kv_accounts_round s) (fun dbr =>
  let '(low, high) := rangef a rnd in
  match kv_iter s low (Some high) true with
  | (k, v) :: _ => Ok (dbr, Some (extractOnlineAccountRound k, v))
  | [] => Ok (dbr, None)
  end).
Definition kv_lookup_online_orig := kv_lookup_online_with onlineAccountLatestRangePrefix_orig.
Definition kv_lookup_online := kv_lookup_online_with onlineAccountLatestRangePrefix.

(* LookupOnlineHistory -> (round, [(updround, value)]) *)
Definition kv_lookup_online_history (s : kvs) (a : bytes) : res (N * list (N * value)) :=
  let '(low, high) := onlineAccountAddressRangePrefix a in
  let it := kv_iter s low (Some high) false in
  bind (kv_accounts_round s) (fun rnd => Ok (rnd, map (fun e => (extractOnlineAccountRound (fst e), snd e)) it)).

Definition kv_lookup_online_round_params (s : kvs) (r : N) : res N :=
  match kv_get s (onlineAccountRoundParamsKey r) with Some [p] => Ok p | Some _ => ErrOther | None => ErrNotFound end.

Definition kv_lookup_sp_context (s : kvs) (r : N) : res N :=
  match kv_get s (stateproofKey r) with Some [p] => Ok p | Some _ => ErrOther | None => ErrNotFound end.
Definition kv_get_all_sp_contexts (s : kvs) : list (N * N) :=
  let '(low, high) := stateproofFullRangePrefix in
  map (fun e => (extractRoundPart (fst e), nth 0 (snd e) 0)) (kv_iter s low (Some high) false).

(* ================= generickv writers ================= *)
Inductive op :=
| OUar (r : N)
| OIa (a : bytes) (p : N) | OUa (a : bytes) (p : N) | ODa (a : bytes)
| OIr (a : bytes) (i kind p : N) | OUr (a : bytes) (i kind p : N) | ODr (a : bytes) (i : N)
| OUk (k v : bytes) | ODk (k : bytes)
| OIc (i ct : N) (cr : bytes) | ODc (i ct : N)
| OIo (a : bytes) (upd nb vl algos : N)
| OOd (fb : N)
| OTt (base : N) (ps : list N) (fb : N)
| OPo (ps : list N) (start : N) | OPr (r : N)
| OSs (l : list (N * N)) | ODs (r : N)
| OPt (staging : bool) (p : N).

Fixpoint kv_put_seq (s : kvs) (mk : N -> bytes) (start : N) (ps : list N) : kvs :=
  match ps with [] => s | p :: t => kv_put_seq (kv_set s (mk start) [p]) mk (start + 1) t end.

(* OnlineAccountsDelete: walks the balance index newest first; the first row seen of an address
   survives unless its voting data is empty, every later (older) row of it is deleted *)
Fixpoint kv_od_loop (it : kvs) (seen : list bytes) (del : list (bytes * N * bytes)) : list (bytes * N * bytes) :=
  match it with
  | [] => del
  | (k, v) :: t =>
      let a := extractOnlineAccountBalanceAddress k in
      let r := extractOnlineAccountBalanceRound k in
      if negb (existsb (beqb a) seen) then
        kv_od_loop t (a :: seen) (if nth 0 v 0 =? 0 then del ++ [(a, r, k)] else del)
      else kv_od_loop t seen (del ++ [(a, r, k)])
  end.
Definition kv_online_accounts_delete_with (rangef : N -> bytes * bytes) (s : kvs) (fb : N) : kvs :=
  let '(low, high) := rangef fb in
  let del := kv_od_loop (kv_iter s low (Some high) true) [] [] in
  let s1 := fold_left (fun st d => kv_del st (onlineAccountKey (fst (fst d)) (snd (fst d)))) del s in
  fold_left (fun st d => kv_del st (snd d)) del s1.
Definition kv_online_accounts_delete_orig := kv_online_accounts_delete_with onlineAccountBalanceForRoundRangePrefix.
Definition kv_online_accounts_delete := kv_online_accounts_delete_with onlineAccountBalanceBeforeRoundRangePrefix.

Definition kv_apply_with (odel : kvs -> N -> kvs) (s : kvs) (o : op) : kvs :=
  match o with
  | OUar r => kv_set s roundKey [r]
  | OIa a p | OUa a p => kv_set s (accountKey a) [p]
  | ODa a => kv_del s (accountKey a)
  | OIr a i kind p | OUr a i kind p => kv_set s (resourceKey a i) [kind; p]
  | ODr a i => kv_del s (resourceKey a i)
  | OUk k v => kv_set s (appKvKey k) v
  | ODk k => kv_del s (appKvKey k)
  | OIc i ct cr => kv_set s (creatableKey i) (ct :: cr)
  | ODc i ct => kv_del s (creatableKey i)
  | OIo a upd nb vl algos =>
      kv_set (kv_set s (onlineAccountKey a upd) [vl; algos]) (onlineAccountBalanceKey upd nb a) [vl; algos]
  | OOd fb => odel s fb
  | OTt base ps fb =>
      let '(lo, hi) := txTailRoundRangePrefix fb in kv_delrange (kv_put_seq s txTailKey base ps) lo hi
  | OPo ps start => kv_put_seq s onlineAccountRoundParamsKey start ps
  | OPr r => let '(lo, hi) := onlineAccountRoundParamsRoundRangePrefix r in kv_delrange s lo hi
  | OSs l => fold_left (fun st e => kv_set st (stateproofKey (fst e)) [snd e]) l s
  | ODs r => let '(lo, hi) := stateproofRoundRangePrefix r in kv_delrange s lo hi
  | OPt st p => kv_set s (totalsKey st) [p]
  end.
Definition kv_apply := kv_apply_with kv_online_accounts_delete.
Definition kv_apply_orig := kv_apply_with kv_online_accounts_delete_orig.

(* the store after RunMigrations on an empty database: round 0, schema version, live totals,
   online round params of round 0 *)
Definition schema_version : N := 11.
Definition kv_init : kvs :=
  kv_set (kv_set (kv_set (kv_set [] roundKey [0]) schemaVersionKey [schema_version]) (totalsKey false) [0])
         (onlineAccountRoundParamsKey 0) [0].

(* ================= the abstract store ================= *)
Definition spec := list (skey * value).      (* association list, at most one binding per key, no KBal *)

Fixpoint alookup (s : spec) (k : skey) : option value :=
  match s with [] => None | (k', v) :: t => if skey_eqb k k' then Some v else alookup t k end.
Definition sremove (s : spec) (k : skey) : spec := filter (fun e => negb (skey_eqb k (fst e))) s.
Definition sset (s : spec) (k : skey) (v : value) : spec := (k, v) :: sremove s k.
Definition sdelwhere (s : spec) (P : skey -> bool) : spec := filter (fun e => negb (P (fst e))) s.

(* insertion sort of rows by key *)
Fixpoint sins (e : skey * value) (l : list (skey * value)) : list (skey * value) :=
  match l with
  | [] => [e]
  | x :: t => if skey_ltb (fst e) (fst x) then e :: l else x :: sins e t
  end.
Definition ssort (l : list (skey * value)) : list (skey * value) := fold_right sins [] l.
(* SELECT ... WHERE P ORDER BY key *)
Definition sselect (s : spec) (P : skey -> bool) : list (skey * value) := ssort (filter (fun e => P (fst e)) s).

Definition spec_round (s : spec) : res N :=
  match alookup s KRound with Some [r] => Ok r | Some _ => ErrOther | None => ErrNotFound end.

Definition spec_lookup_account (s : spec) (a : bytes) : res (N * bool * N) :=
  bind (spec_round s) (fun rnd =>
  match alookup s (KAcct a) with
  | None => Ok (rnd, false, 0) | Some [p] => Ok (rnd, true, p) | Some _ => ErrOther end).

Definition spec_lookup_resources (s : spec) (a : bytes) (i ct : N) : res (N * option (N * N)) :=
  bind (spec_round s) (fun rnd =>
  match alookup s (KRes a i) with
  | None => Ok (rnd, None)
  | Some [kind; p] => if kind =? ct then Ok (rnd, Some (kind, p)) else ErrOther
  | Some _ => ErrOther
  end).

Definition is_res_of (a : bytes) (k : skey) : bool := match k with KRes a' _ => beqb a a' | _ => false end.
Definition res_aidx (k : skey) : N := match k with KRes _ i => i | _ => 0 end.
(* rows of the address ordered by aidx *)
Definition spec_lookup_all_resources (s : spec) (a : bytes) : res (N * list (N * N * N)) :=
  bind (spec_round s) (fun rnd =>
  Ok (rnd, map (fun e => (res_aidx (fst e), nth 0 (snd e) 0, nth 1 (snd e) 0)) (sselect s (is_res_of a)))).

(* SQL: inner joins, ctype column = kind, aidx > min, ORDER BY aidx LIMIT max; round 0 without rows *)
Definition spec_lookup_limited_resources (s : spec) (a : bytes) (mi mx ct : N) : res (N * list N) :=
  bind (spec_round s) (fun rnd =>
  let rows := firstn (N.to_nat mx)
                (filter (fun e => (nth 0 (snd e) 0 =? ct) && (mi <? res_aidx (fst e))) (sselect s (is_res_of a))) in
  Ok (match rows with [] => 0 | _ => rnd end, map (fun e => res_aidx (fst e)) rows)).

Definition spec_lookup_key_value (s : spec) (k : bytes) : res (N * option bytes) :=
  bind (spec_round s) (fun rnd => Ok (rnd, alookup s (KApp k))).

Definition app_key (k : skey) : bytes := match k with KApp b => b | _ => [] end.
Definition is_app_with_prefix (p : bytes) (k : skey) : bool := match k with KApp b => is_prefix p b | _ => false end.
Definition strange_prefix (p : bytes) : bool := forallb (fun x => 255 <=? x) p.
(* SQL LookupKeysByPrefix: the keys with the prefix in key order; a key already in the map is left
   alone and not counted; stop when the count reaches the maximum *)
Definition spec_lookup_keys_by_prefix (s : spec) (p : bytes) (maxn : N) (m : results) (cnt : N) : res (N * results) :=
  if strange_prefix p then ErrStrangePrefix else
  bind (spec_round s) (fun rnd =>
  Ok (rnd, pfx_loop (map (fun e => app_key (fst e)) (sselect s (is_app_with_prefix p))) maxn m cnt)).
(* SQL LookupKeysByPrefixCursor: the keys with the prefix that are >= the cursor (when it lies past
   the prefix start), in key order, through the paging loop *)
Definition spec_lookup_keys_by_prefix_cursor (s : spec) (p cursor : bytes) (limit maxb : N) (incl : bool) (excl : list bytes)
  : res (N * list (bytes * bytes) * bool) :=
  if strange_prefix p then ErrStrangePrefix else
  bind (spec_round s) (fun rnd =>
  let from := if negb (beqb cursor []) && bleb p cursor then cursor else p in
  let rows := map (fun e => (app_key (fst e), snd e))
                  (sselect s (fun k => is_app_with_prefix p k && bleb from (app_key k))) in
  let '(l, more) := page_loop rows cursor limit maxb incl excl [] 0 0 in
  Ok (rnd, l, more)).

Definition spec_lookup_creator (s : spec) (i ct : N) : res (N * bool * bytes) :=
  bind (spec_round s) (fun rnd =>
  match alookup s (KCreat i) with
  | None => Ok (rnd, false, zero_addr)
  | Some (ct' :: cr) => if ct' =? ct then Ok (rnd, true, cr) else Ok (rnd, false, zero_addr)
  | Some [] => ErrOther
  end).

Definition spec_accounts_totals (s : spec) (staging : bool) : res N :=
  match alookup s (KTotals staging) with Some [p] => Ok p | Some _ => ErrOther | None => ErrNotFound end.
Definition spec_lookup_account_rowid (s : spec) (a : bytes) : res unit :=
  match alookup s (KAcct a) with Some _ => Ok tt | None => ErrNotFound end.
Definition spec_lookup_resource_data (s : spec) (a : bytes) (i : N) : bool * res (N * N) :=
  match spec_lookup_account_rowid s a with
  | Ok _ => (true, match alookup s (KRes a i) with
                   | Some [kind; p] => Ok (kind, p) | Some _ => ErrOther | None => ErrNotFound end)
  | _ => (false, ErrNotFound)
  end.

(* online rows: value = [normbal; votelast; algos] *)
Definition is_onl_of (a : bytes) (k : skey) : bool := match k with KOnl a' _ => beqb a a' | _ => false end.
Definition is_onl (k : skey) : bool := match k with KOnl _ _ => true | _ => false end.
Definition onl_round (k : skey) : N := match k with KOnl _ r => r | _ => 0 end.
Definition onl_addr (k : skey) : bytes := match k with KOnl a _ => a | _ => [] end.
Definition onl_data (v : value) : value := tl v.           (* what the key-value backend stores: [votelast; algos] *)
Definition onl_normbal (v : value) : N := nth 0 v 0.
Definition onl_votelast (v : value) : N := nth 1 v 0.

(* ... WHERE address=? AND updround <= ? ORDER BY updround DESC LIMIT 1 *)
Definition spec_lookup_online (s : spec) (a : bytes) (rnd : N) : res (N * option (N * value)) :=
  bind (spec_round s) (fun dbr =>
  match rev (sselect s (fun k => is_onl_of a k && (onl_round k <=? rnd))) with
  | (k, v) :: _ => Ok (dbr, Some (onl_round k, onl_data v))
  | [] => Ok (dbr, None)
  end).
(* SQLite's LookupOnlineHistory fails on an address without rows (NULL rowid scanned into int64) *)
Definition spec_lookup_online_history (s : spec) (a : bytes) : res (N * list (N * value)) :=
  bind (spec_round s) (fun rnd =>
  match sselect s (is_onl_of a) with
  | [] => ErrNullScan
  | rows => Ok (rnd, map (fun e => (onl_round (fst e), onl_data (snd e))) rows)
  end).
(* the key-value answer for the same rows (no error): what the refinement theorem is about *)
Definition spec_lookup_online_history_rows (s : spec) (a : bytes) : res (N * list (N * value)) :=
  bind (spec_round s) (fun rnd =>
  Ok (rnd, map (fun e => (onl_round (fst e), onl_data (snd e))) (sselect s (is_onl_of a)))).
Definition spec_lookup_online_data_by_address (s : spec) (a : bytes) : res (N * N) :=
  match rev (sselect s (is_onl_of a)) with
  | (_, v) :: _ => Ok (nth 0 (onl_data v) 0, nth 1 (onl_data v) 0)
  | [] => ErrNotFound
  end.

(* GROUP BY address with max(updround) among updround <= rnd: the rows that no newer row (<= rnd) of
   the same address supersedes, in address order *)
Definition is_latest_upto (s : spec) (rnd : N) (e : skey * value) : bool :=
  match fst e with
  | KOnl a r =>
      (r <=? rnd) &&
      negb (existsb (fun e' => match fst e' with KOnl a' r' => beqb a a' && (r <? r') && (r' <=? rnd) | _ => false end) s)
  | _ => false
  end.
Definition spec_latest_rows (s : spec) (rnd : N) : list (skey * value) := ssort (filter (is_latest_upto s rnd) s).

(* ORDER BY normalizedonlinebalance DESC, address DESC *)
Definition top_before (e1 e2 : skey * value) : bool :=
  (onl_normbal (snd e2) <? onl_normbal (snd e1)) ||
  ((onl_normbal (snd e2) =? onl_normbal (snd e1)) && bltb (onl_addr (fst e2)) (onl_addr (fst e1))).
Fixpoint top_ins (e : skey * value) (l : list (skey * value)) : list (skey * value) :=
  match l with [] => [e] | x :: t => if top_before e x then e :: l else x :: top_ins e t end.
Definition spec_accounts_online_top (s : spec) (rnd offset n : N) : list (bytes * value) :=
  let rows := filter (fun e => 0 <? onl_normbal (snd e)) (spec_latest_rows s rnd) in
  map (fun e => (onl_addr (fst e), onl_data (snd e)))
      (firstn (N.to_nat n) (skipn (N.to_nat offset) (fold_right top_ins [] rows))).

(* HAVING votelastvalid < ? AND votelastvalid > 0 ORDER BY address *)
Definition spec_expired_online_accounts (s : spec) (rnd voteRnd : N) : list (bytes * value) :=
  map (fun e => (onl_addr (fst e), onl_data (snd e)))
      (filter (fun e => (onl_votelast (snd e) <? voteRnd) && (0 <? onl_votelast (snd e))) (spec_latest_rows s rnd)).

(* ORDER BY address, updround; at most maxn addresses when maxn > 0; item.Round is not filled in by
   SQLite ([kvround = false]); the key-value backend puts the db round there (recorded finding) *)
Definition spec_online_accounts_all (s : spec) (maxn : N) (kvround : bool) : res (list (bytes * N * N * value)) :=
  bind (spec_round s) (fun rnd =>
  Ok (online_all_loop (map (fun e => (onl_addr (fst e), onl_round (fst e), onl_data (snd e))) (sselect s is_onl))
                      maxn zero_addr 0 (if kvround then rnd else 0))).

Definition is_txtail (k : skey) : bool := match k with KTxTail _ => true | _ => false end.
Definition is_orp (k : skey) : bool := match k with KOrp _ => true | _ => false end.
Definition is_sp (k : skey) : bool := match k with KSp _ => true | _ => false end.
Definition key_round (k : skey) : N := match k with KTxTail r | KOrp r | KSp r => r | _ => 0 end.

Definition spec_load_txtail (s : spec) (dbRound : N) : res (list N * N) :=
  load_txtail_loop (map (fun e => (key_round (fst e), snd e)) (rev (sselect s is_txtail))) dbRound [].
Definition spec_accounts_online_round_params (s : spec) : list N * N :=
  let rows := sselect s is_orp in
  (map (fun e => nth 0 (snd e) 0) rows, last (map (fun e => key_round (fst e)) rows) 0).
Definition spec_lookup_online_round_params (s : spec) (r : N) : res N :=
  match alookup s (KOrp r) with Some [p] => Ok p | Some _ => ErrOther | None => ErrNotFound end.
Definition spec_lookup_sp_context (s : spec) (r : N) : res N :=
  match alookup s (KSp r) with Some [p] => Ok p | Some _ => ErrOther | None => ErrNotFound end.
Definition spec_get_all_sp_contexts (s : spec) : list (N * N) :=
  map (fun e => (key_round (fst e), nth 0 (snd e) 0)) (sselect s is_sp).

Definition count_where (s : spec) (P : skey -> bool) : N := N.of_nat (length (filter (fun e => P (fst e)) s)).

(* ---------- writes ---------- *)
Fixpoint sput_seq (s : spec) (mk : N -> skey) (start : N) (ps : list N) : spec :=
  match ps with [] => s | p :: t => sput_seq (sset s (mk start) [p]) mk (start + 1) t end.

(* OnlineAccountsDelete(forgetBefore), the effect of the SQL statement: among the rows of an address
   older than forgetBefore, all but the newest go, and the newest goes too when its voting data is
   empty *)
Definition od_doomed (s : spec) (fb : N) (e : skey * value) : bool :=
  match fst e with
  | KOnl a r =>
      (r <? fb) &&
      (existsb (fun e' => match fst e' with KOnl a' r' => beqb a a' && (r <? r') && (r' <? fb) | _ => false end) s
       || (onl_votelast (snd e) =? 0))
  | _ => false
  end.
Definition spec_online_accounts_delete (s : spec) (fb : N) : spec := filter (fun e => negb (od_doomed s fb e)) s.

Definition spec_apply (s : spec) (o : op) : spec :=
  match o with
  | OUar r => sset s KRound [r]
  | OIa a p | OUa a p => sset s (KAcct a) [p]
  | ODa a => sremove s (KAcct a)
  | OIr a i kind p | OUr a i kind p => sset s (KRes a i) [kind; p]
  | ODr a i => sremove s (KRes a i)
  | OUk k v => sset s (KApp k) v
  | ODk k => sremove s (KApp k)
  | OIc i ct cr => sset s (KCreat i) (ct :: cr)
  | ODc i ct => sremove s (KCreat i)
  | OIo a upd nb vl algos => sset s (KOnl a upd) [nb; vl; algos]
  | OOd fb => spec_online_accounts_delete s fb
  | OTt base ps fb => sdelwhere (sput_seq s KTxTail base ps) (fun k => is_txtail k && (key_round k <? fb))
  | OPo ps start => sput_seq s KOrp start ps
  | OPr r => sdelwhere s (fun k => is_orp k && (key_round k <? r))
  | OSs l => fold_left (fun st e => sset st (KSp (fst e)) [snd e]) l s
  | ODs r => sdelwhere s (fun k => is_sp k && (key_round k <? r))
  | OPt st p => sset s (KTotals st) [p]
  end.

Definition spec_init : spec :=
  [(KOrp 0, [0]); (KTotals false, [0]); (KSchema, [schema_version]); (KRound, [0])].

(* the writers' protocol: what accountsNewRound and friends guarantee, and what SQLite's
   primary keys / rowid references demand; also keeps every number inside SQLite's int64 *)
Definition i63 (n : N) : bool := n <? 2 ^ 63.
Definition has (s : spec) (k : skey) : bool := match alookup s k with Some _ => true | None => false end.
Fixpoint seq_absent (s : spec) (mk : N -> skey) (start : N) (n : nat) : bool :=
  match n with O => true | S n' => negb (has s (mk start)) && i63 start && seq_absent s mk (start + 1) n' end.
Fixpoint sp_list_ok (s : spec) (l : list (N * N)) : bool :=
  match l with
  | [] => true
  | (r, p) :: t => negb (has s (KSp r)) && i63 r && u64 p && negb (existsb (fun e => fst e =? r) t) && sp_list_ok s t
  end.
Definition op_ok (s : spec) (o : op) : bool :=
  match o with
  | OUar r => i63 r && match spec_round s with Ok cur => cur <=? r | _ => false end
  | OIa a p => valid_addr a && u64 p && negb (has s (KAcct a))
  | OUa a p => valid_addr a && u64 p && has s (KAcct a)
  | ODa a => valid_addr a && has s (KAcct a) && negb (existsb (fun e => is_res_of a (fst e)) s)
  | OIr a i kind p => valid_addr a && i63 i && (kind <? 2) && u64 p && has s (KAcct a) && negb (has s (KRes a i))
  | OUr a i kind p => valid_addr a && i63 i && u64 p && has s (KAcct a) &&
                      match alookup s (KRes a i) with Some [kind'; _] => kind =? kind' | _ => false end
  | ODr a i => valid_addr a && i63 i && has s (KAcct a) && has s (KRes a i)
  | OUk k v => all_lt256 k && all_lt256 v
  | ODk k => all_lt256 k
  | OIc i ct cr => i63 i && (ct <? 2) && valid_addr cr && negb (has s (KCreat i))
  | ODc i ct => i63 i && match alookup s (KCreat i) with Some (ct' :: _) => ct =? ct' | _ => false end
  | OIo a upd nb vl algos => valid_addr a && i63 upd && u64 nb && u64 vl && u64 algos && negb (has s (KOnl a upd))
                             && (nb =? algos) && (negb (vl =? 0) || (algos =? 0))
  | OOd fb => i63 fb
  | OTt base ps fb => i63 fb && forallb u64 ps && seq_absent s KTxTail base (length ps)
  | OPo ps start => forallb u64 ps && seq_absent s KOrp start (length ps)
  | OPr r => i63 r
  | OSs l => sp_list_ok s l
  | ODs r => i63 r
  | OPt st p => u64 p
  end.

(* run a history on both levels; None when an operation breaks the protocol *)
Fixpoint run_ops (s : spec) (k : kvs) (korig : kvs) (l : list op) : option (spec * kvs * kvs) :=
  match l with
  | [] => Some (s, k, korig)
  | o :: t => if op_ok s o then run_ops (spec_apply s o) (kv_apply k o) (kv_apply_orig korig o) t else None
  end.
