(* C35: resource availability of application programs.
   Executable transcription of
     data/transactions/logic/resources.go   (resources, fill..., allowsHolding, allowsLocals, allows...)
     data/transactions/logic/eval.go        (computeAvailability, EvalContract creation block, begin's
                                             pre-sharing/tx.Access check, availableAccount/Asset/App,
                                             resolveAccount/accountReference/mutableAccountReference,
                                             resolveApp/resolveAsset, holdingReference/localsReference,
                                             assignAccount/Asset/App, opItxnSubmit -> allows)
     data/transactions/logic/box.go         (availableAppBox: availability, unnamed quota, authorization
                                             class, dirty-byte write budget)
     data/transactions/application.go       (AddressByIndex, IndexByAddress, HoldingRef/LocalsRef/BoxRef.Resolve)
   No proofs here.

   Abstractions.  An address is a number (0 = the zero address); the address of application [id] is
   [appaddr id] (a parameter: the theorems hold for every such function, the checker instantiates it).
   A tx.Access element is a sum (the Go struct is a product of which WellFormed allows one component);
   an element whose component is zero is the empty element, exactly as in Go.  HoldingRef/LocalsRef/
   BoxRef.Resolve errors are impossible on WellFormed transactions (application.go: wellFormed calls the
   same Resolve); the model shares nothing where Go would share the zero values of an ignored error.
   Ledger contents are not modelled: a "touch" is the resource a ledger call would be made on. *)
From Coq Require Import List NArith Bool.
From Verif.lib Require Import Term.
Import ListNotations.
Open Scope N_scope.

Definition addr := N.
Definition bytes := list N.

Definition bytes_eqb : bytes -> bytes -> bool := list_eqb N.eqb.
Definition memN (x : N) (l : list N) : bool := existsb (N.eqb x) l.
Definition pair_eqb (p q : N * N) : bool := (fst p =? fst q) && (snd p =? snd q).
Definition memP (p : N * N) (l : list (N * N)) : bool := existsb (pair_eqb p) l.
Definition box_eqb (p q : N * bytes) : bool := (fst p =? fst q) && bytes_eqb (snd p) (snd q).
Definition memB (p : N * bytes) (l : list (N * bytes)) : bool := existsb (box_eqb p) l.

(* opcodes.go *)
Definition createdResourcesVersion : N := 6.
Definition appAddressAvailableVersion : N := 7.
Definition sharedResourcesVersion : N := 9.
Definition lastForbiddenResource : N := 255.

(* ---------------------------------------------------------------- transactions *)
Inductive rref : Type :=
| RAddr (a : addr) | RAsset (n : N) | RApp (n : N)
| RHold (ai si : N) | RLoc (ai pi : N) | RBox (idx : N) (name : bytes) | REmpty.

Definition rr_address (r : rref) : addr := match r with RAddr a => a | _ => 0 end.
Definition rr_asset (r : rref) : N := match r with RAsset n => n | _ => 0 end.
Definition rr_app (r : rref) : N := match r with RApp n => n | _ => 0 end.

Record appl : Type := mkAppl {
  ap_id : N;                       (* ApplicationID, 0 = creation *)
  ap_clear : bool;                 (* OnCompletion = ClearStateOC *)
  ap_accounts : list addr;
  ap_fapps : list N;
  ap_fassets : list N;
  ap_boxes : list (N * bytes);     (* (Index, Name) *)
  ap_access : option (list rref)   (* None: tx.Access == nil *)
}.
Definition access_of (ap : appl) : list rref := match ap_access ap with Some l => l | None => [] end.

Inductive txn : Type :=
| TPay (snd rcv close : addr)
| TKeyreg (snd : addr)
| TAcfg (snd : addr) (asset : N)
| TAxfer (snd : addr) (asset : N) (arcv asnd aclose : addr)
| TAfrz (snd : addr) (asset : N) (acct : addr)
| TAppl (snd : addr) (ap : appl)
| TOther (snd : addr).              (* stpf, hb, unknown type: adds nothing *)

(* 1-based lookup used by the Access conventions; index 0 is handled by the callers *)
Definition nth1 {A} (l : list A) (i : N) : option A :=
  if i =? 0 then None else nth_error l (N.to_nat (i - 1)).

(* HoldingRef.Resolve *)
Definition resolve_hold (access : list rref) (sender : addr) (ai si : N) : option (addr * N) :=
  let address :=
    if ai =? 0 then Some sender
    else match nth1 access ai with
         | Some r => if rr_address r =? 0 then None else Some (rr_address r)
         | None => None
         end in
  match address with
  | None => None
  | Some a =>
      match nth1 access si with
      | Some r => if rr_asset r =? 0 then None else Some (a, rr_asset r)
      | None => None
      end
  end.

(* LocalsRef.Resolve *)
Definition resolve_loc (access : list rref) (sender : addr) (current : N) (ai pi : N) : option (addr * N) :=
  let address :=
    if ai =? 0 then Some sender
    else match nth1 access ai with
         | Some r => if rr_address r =? 0 then None else Some (rr_address r)
         | None => None
         end in
  match address with
  | None => None
  | Some a =>
      if pi =? 0 then Some (a, current)
      else match nth1 access pi with
           | Some r => if rr_app r =? 0 then None else Some (a, rr_app r)
           | None => None
           end
  end.

(* BoxRef.Resolve (app 0 = "current app") *)
Definition resolve_box (access : list rref) (idx : N) : option N :=
  if idx =? 0 then Some 0
  else match nth1 access idx with
       | Some r => if rr_app r =? 0 then None else Some (rr_app r)
       | None => None
       end.

(* ---------------------------------------------------------------- resources *)
Record resources : Type := mkRes {
  sh_accts : list addr;
  sh_asas : list N;
  sh_apps : list N;
  sh_holds : list (addr * N);
  sh_locals : list (addr * N);
  bx_avail : list (N * bytes);     (* keys of resources.boxes *)
  unnamed : N;                     (* unnamedAccess *)
  cr_asas : list N;
  cr_apps : list N
}.
Definition empty_res : resources := mkRes [] [] [] [] [] [] 0 [] [].

Definition add_accts (l : list addr) (r : resources) :=
  mkRes (l ++ sh_accts r) (sh_asas r) (sh_apps r) (sh_holds r) (sh_locals r) (bx_avail r) (unnamed r) (cr_asas r) (cr_apps r).
Definition add_asas (l : list N) (r : resources) :=
  mkRes (sh_accts r) (l ++ sh_asas r) (sh_apps r) (sh_holds r) (sh_locals r) (bx_avail r) (unnamed r) (cr_asas r) (cr_apps r).
Definition add_apps (l : list N) (r : resources) :=
  mkRes (sh_accts r) (sh_asas r) (l ++ sh_apps r) (sh_holds r) (sh_locals r) (bx_avail r) (unnamed r) (cr_asas r) (cr_apps r).
Definition add_holds (l : list (addr * N)) (r : resources) :=
  mkRes (sh_accts r) (sh_asas r) (sh_apps r) (l ++ sh_holds r) (sh_locals r) (bx_avail r) (unnamed r) (cr_asas r) (cr_apps r).
Definition add_locals (l : list (addr * N)) (r : resources) :=
  mkRes (sh_accts r) (sh_asas r) (sh_apps r) (sh_holds r) (l ++ sh_locals r) (bx_avail r) (unnamed r) (cr_asas r) (cr_apps r).
Definition add_boxes (l : list (N * bytes)) (r : resources) :=
  mkRes (sh_accts r) (sh_asas r) (sh_apps r) (sh_holds r) (sh_locals r) (l ++ bx_avail r) (unnamed r) (cr_asas r) (cr_apps r).
Definition set_unnamed (n : N) (r : resources) :=
  mkRes (sh_accts r) (sh_asas r) (sh_apps r) (sh_holds r) (sh_locals r) (bx_avail r) n (cr_asas r) (cr_apps r).
Definition add_cr_asas (l : list N) (r : resources) :=
  mkRes (sh_accts r) (sh_asas r) (sh_apps r) (sh_holds r) (sh_locals r) (bx_avail r) (unnamed r) (l ++ cr_asas r) (cr_apps r).
Definition add_cr_apps (l : list N) (r : resources) :=
  mkRes (sh_accts r) (sh_asas r) (sh_apps r) (sh_holds r) (sh_locals r) (bx_avail r) (unnamed r) (cr_asas r) (l ++ cr_apps r).

Section Model.
Variable appaddr : N -> addr.       (* basics.AppIndex.Address *)

(* shareAccountAndHolding *)
Definition acct_hold_contrib (a : addr) (id : N) : list (addr * N) :=
  if id =? 0 then [] else [(a, id)].
Definition nz (a : addr) : list addr := if a =? 0 then [] else [a].

(* shareBox: the (app, name) keys added for a reference to [app] (0 = current) by a call of [current] *)
Definition box_contrib (app : N) (name : bytes) (current : N) : list (N * bytes) :=
  if app =? 0 then (if current =? 0 then [] else [(current, name)]) else [(app, name)].

(* one element of tx.Access in fillApplicationCallAccess *)
Definition fill_access_elem (s : addr) (ap : appl) (r : resources) (rr : rref) : resources :=
  let l := access_of ap in
  match rr with
  | RAddr a => if a =? 0 then set_unnamed (unnamed r + 1) r else add_accts [a] r
  | RAsset n => if n =? 0 then set_unnamed (unnamed r + 1) r else add_asas [n] r
  | RApp n => if n =? 0 then set_unnamed (unnamed r + 1) r else add_apps [n] r
  | RHold ai si =>
      if (ai =? 0) && (si =? 0) then set_unnamed (unnamed r + 1) r
      else match resolve_hold l s ai si with Some h => add_holds [h] r | None => r end
  | RLoc ai pi =>
      if (ai =? 0) && (pi =? 0) then set_unnamed (unnamed r + 1) r
      else match resolve_loc l s (ap_id ap) ai pi with Some h => add_locals [h] r | None => r end
  | RBox idx name =>
      if (idx =? 0) && (match name with [] => true | _ => false end) then set_unnamed (unnamed r + 1) r
      else match resolve_box l idx with
           | Some app => add_boxes (box_contrib app name (ap_id ap)) r
           | None => r
           end
  | REmpty => set_unnamed (unnamed r + 1) r
  end.

Definition fill_access (s : addr) (ap : appl) (r : resources) : resources :=
  let r := add_accts [s] r in
  let r := if ap_id ap =? 0 then r else add_locals [(s, ap_id ap)] (add_apps [ap_id ap] r) in
  fold_left (fill_access_elem s ap) (access_of ap) r.

(* txAccounts of fillApplicationCallForeign / allowsApplicationCall *)
Definition tx_accounts (s : addr) (ap : appl) : list addr :=
  s :: ap_accounts ap ++ (if ap_id ap =? 0 then [] else [appaddr (ap_id ap)]) ++ map appaddr (ap_fapps ap).
Definition tx_apps (ap : appl) : list N := (if ap_id ap =? 0 then [] else [ap_id ap]) ++ ap_fapps ap.

Definition fill_box_elem (ap : appl) (r : resources) (br : N * bytes) : resources :=
  let '(idx, name) := br in
  let r := if (idx =? 0) && (match name with [] => true | _ => false end)
           then set_unnamed (unnamed r + 1) r else r in
  if 0 <? idx then
    match nth1 (ap_fapps ap) idx with
    | None => r                                        (* continue *)
    | Some app => add_boxes (box_contrib app name (ap_id ap)) r
    end
  else add_boxes (box_contrib 0 name (ap_id ap)) r.

Definition fill_foreign (s : addr) (ap : appl) (r : resources) : resources :=
  let txa := tx_accounts s ap in
  let r := add_asas (ap_fassets ap) r in
  let r := add_apps (tx_apps ap) r in
  let r := add_accts txa r in
  let r := add_holds (list_prod txa (ap_fassets ap)) r in
  let r := add_locals (list_prod txa (tx_apps ap)) r in
  fold_left (fill_box_elem ap) (ap_boxes ap) r.

(* resources.fill *)
Definition fill (r : resources) (t : txn) : resources :=
  match t with
  | TPay s rcv close => add_accts ([s; rcv] ++ nz close) r
  | TKeyreg s => add_accts [s] r
  | TAcfg s id => let r := add_accts [s] r in if id =? 0 then r else add_asas [id] r
  | TAxfer s id rcv asnd aclose =>
      let r := add_asas [id] r in
      let who := [s; rcv] ++ nz asnd ++ nz aclose in
      add_holds (flat_map (fun a => acct_hold_contrib a id) who) (add_accts who r)
  | TAfrz s id acct =>
      add_holds (acct_hold_contrib acct id) (add_accts [s; acct] (add_asas [id] r))
  | TAppl s ap =>
      match ap_access ap with
      | Some _ => fill_access s ap r
      | None => fill_foreign s ap r
      end
  | TOther _ => r
  end.

(* EvalParams.computeAvailability *)
Definition compute_availability (g : list txn) : resources := fold_left fill g empty_res.

(* EvalContract, "If this is a creation...": index-0 box references of the creating call become
   boxes of the new app, the new id joins createdApps *)
Definition create_boxes (ap : appl) (appid : N) : list (N * bytes) :=
  flat_map (fun br : N * bytes => if fst br =? 0 then [(appid, snd br)] else []) (ap_boxes ap) ++
  flat_map (fun rr => match rr with
                      | RBox idx (b :: name) => if idx =? 0 then [(appid, b :: name)] else []
                      | _ => []
                      end) (access_of ap).
Definition enter_create (ap : appl) (appid : N) (r : resources) : resources :=
  add_cr_apps [appid] (add_boxes (create_boxes ap appid) r).
Definition enter_contract (ap : appl) (appid : N) (r : resources) : resources :=
  if ap_id ap =? 0 then enter_create ap appid r else r.

(* ---------------------------------------------------------------- evaluation context *)
(* UnnamedResourcePolicy (nil outside simulation) *)
Record policy : Type := mkPolicy {
  p_acct : addr -> bool; p_asset : N -> bool; p_app : N -> bool;
  p_hold : addr -> N -> bool; p_loc : addr -> N -> bool; p_box : N -> bytes -> bool
}.

Record ctx : Type := mkCtx {
  cx_version : N;
  cx_forbid_low : bool;            (* Proto.AppForbidLowResources *)
  cx_appid : N;                    (* cx.appID *)
  cx_sender : addr;                (* cx.txn.Txn.Sender *)
  cx_cur : appl;                   (* cx.txn.Txn application call fields *)
  cx_av : resources;               (* cx.available *)
  cx_policy : option policy
}.

Fixpoint find_index {A} (f : A -> bool) (l : list A) : option N :=
  match l with
  | [] => None
  | x :: xs => if f x then Some 0 else option_map N.succ (find_index f xs)
  end.

(* ApplicationCallTxnFields.IndexByAddress *)
Definition index_by_address (ap : appl) (sender target : addr) : option N :=
  if target =? sender then Some 0
  else match find_index (fun rr => rr_address rr =? target) (access_of ap) with
       | Some i => Some (i + 1)
       | None =>
           match find_index (N.eqb target) (ap_accounts ap) with
           | Some i => Some (i + 1)
           | None => None
           end
       end.

(* error classes (leading words of the evaluator's message) *)
Definition E_ACCT : N := 1.      (* "unavailable Account" *)
Definition E_ASSET : N := 2.     (* "unavailable Asset" *)
Definition E_APP : N := 3.       (* "unavailable App" *)
Definition E_HOLD : N := 4.      (* "unavailable Holding" *)
Definition E_LOC : N := 5.       (* "unavailable Local State" *)
Definition E_IDX : N := 6.       (* "invalid Account reference %d exceeds" / "address reference %d is not an Address" *)
Definition E_MUT : N := 7.       (* "invalid Account reference for mutation" *)
Definition E_LOW : N := 8.       (* "low App lookup" / "low Asset lookup" *)
Definition E_BOX : N := 9.       (* "invalid Box reference" *)
Definition E_BOXCLEAR : N := 10. (* "boxes may not be accessed from ClearState program" *)
Definition E_BUDGET : N := 11.   (* "write budget exceeded" *)
Definition E_AUTH : N := 12.     (* "... may not read/write box of ..." *)
Definition E_PRE : N := 13.      (* "pre-sharedResources program cannot be invoked with tx.Access" *)
Definition E_SIZE : N := 14.     (* "box size mismatch" *)

Inductive result (A : Type) : Type := Ok (x : A) | Err (e : N).
Arguments Ok {A} x.
Arguments Err {A} e.

(* ApplicationCallTxnFields.AddressByIndex *)
Definition address_by_index (ap : appl) (sender : addr) (i : N) : result addr :=
  if i =? 0 then Ok sender
  else match ap_access ap with
       | Some l =>
           match nth1 l i with
           | None => Err E_IDX
           | Some rr => if rr_address rr =? 0 then Err E_IDX else Ok (rr_address rr)
           end
       | None =>
           match nth1 (ap_accounts ap) i with
           | None => Err E_IDX
           | Some a => Ok a
           end
       end.

Definition pol (cx : ctx) (f : policy -> bool) : bool :=
  match cx_policy cx with Some p => f p | None => false end.

(* availableAccount *)
Definition available_account (cx : ctx) (a : addr) : bool :=
  let v := cx_version cx in
  (match index_by_address (cx_cur cx) (cx_sender cx) a with Some _ => true | None => false end)
  || ((createdResourcesVersion <=? v) && existsb (fun id => a =? appaddr id) (cr_apps (cx_av cx)))
  || ((sharedResourcesVersion <=? v) && memN a (sh_accts (cx_av cx)))
  || ((appAddressAvailableVersion <=? v) && existsb (fun id => a =? appaddr id) (ap_fapps (cx_cur cx)))
  || (appaddr (cx_appid cx) =? a)
  || pol cx (fun p => p_acct p a).

(* availableAsset *)
Definition available_asset (cx : ctx) (n : N) : bool :=
  let v := cx_version cx in
  existsb (fun rr => rr_asset rr =? n) (access_of (cx_cur cx))
  || memN n (ap_fassets (cx_cur cx))
  || ((createdResourcesVersion <=? v) && memN n (cr_asas (cx_av cx)))
  || ((sharedResourcesVersion <=? v) && memN n (sh_asas (cx_av cx)))
  || ((lastForbiddenResource <? n) && pol cx (fun p => p_asset p n)).

(* availableApp *)
Definition available_app (cx : ctx) (n : N) : bool :=
  let v := cx_version cx in
  existsb (fun rr => rr_app rr =? n) (access_of (cx_cur cx))
  || memN n (ap_fapps (cx_cur cx))
  || ((createdResourcesVersion <=? v) && memN n (cr_apps (cx_av cx)))
  || (cx_appid cx =? n)
  || ((sharedResourcesVersion <=? v) && memN n (sh_apps (cx_av cx)))
  || ((lastForbiddenResource <? n) && pol cx (fun p => p_app p n)).

(* allowsHolding (Go: three early returns, then the policy) *)
Definition allows_holding (cx : ctx) (a : addr) (n : N) : bool :=
  let r := cx_av cx in
  if memP (a, n) (sh_holds r) then true
  else if memN n (cr_asas r) then available_account cx a
  else if existsb (fun id => appaddr id =? a) (cr_apps r) then available_asset cx n
  else match cx_policy cx with
       | Some p => available_account cx a && available_asset cx n && p_hold p a n
       | None => false
       end.

(* allowsLocals *)
Definition allows_locals (cx : ctx) (a : addr) (p : N) : bool :=
  let r := cx_av cx in
  if memP (a, p) (sh_locals r) then true
  else if memN p (cr_apps r) then available_account cx a
  else if existsb (fun id => appaddr id =? a) (cr_apps r) then available_app cx p
  else match cx_policy cx with
       | Some po => available_app cx p && available_account cx a && p_loc po a p
       | None => false
       end.

(* references as they appear on the stack *)
Inductive aref : Type := ByIndex (i : N) | ByAddr (a : addr).

(* resolveAccount: (address, slot or None) *)
Definition resolve_account (cx : ctx) (r : aref) : result (addr * option N) :=
  match r with
  | ByIndex i =>
      match address_by_index (cx_cur cx) (cx_sender cx) i with
      | Ok a => Ok (a, Some i)
      | Err e => Err e
      end
  | ByAddr a => Ok (a, index_by_address (cx_cur cx) (cx_sender cx) a)
  end.

(* accountReference: (address, index) with len(Accounts)+1 signalling "available, not in Accounts" *)
Definition account_reference (cx : ctx) (r : aref) : result (addr * N) :=
  match resolve_account cx r with
  | Err e => Err e
  | Ok (a, Some i) => Ok (a, i)
  | Ok (a, None) =>
      if available_account cx a then Ok (a, N.of_nat (length (ap_accounts (cx_cur cx))) + 1)
      else Err E_ACCT
  end.

(* mutableAccountReference *)
Definition mutable_account_reference (cx : ctx) (r : aref) : result (addr * N) :=
  match account_reference cx r with
  | Err e => Err e
  | Ok (a, i) =>
      if (N.of_nat (length (ap_accounts (cx_cur cx))) <? i) && (cx_version cx <? sharedResourcesVersion)
      then Err E_MUT else Ok (a, i)
  end.

(* the deferred AppForbidLowResources check of resolveApp / resolveAsset *)
Definition low_check (cx : ctx) (x : result N) : result N :=
  match x with
  | Ok id => if cx_forbid_low cx && (id <=? lastForbiddenResource) then Err E_LOW else Ok id
  | Err e => Err e
  end.

(* resolveApp (every program version >= directRefEnabledVersion = 4 goes through it) *)
Definition resolve_app (cx : ctx) (ref : N) : result N :=
  low_check cx
    (if (ref =? 0) || (ref =? cx_appid cx) then Ok (cx_appid cx)
     else if available_app cx ref then Ok ref
     else match nth1 (ap_fapps (cx_cur cx)) ref with
          | Some id => Ok id
          | None =>
              match nth1 (access_of (cx_cur cx)) ref with
              | Some rr => if rr_app rr =? 0 then Err E_APP else Ok (rr_app rr)
              | None => Err E_APP
              end
          end).

(* resolveAsset (ForeignAssets slots are 0-based, Access slots 1-based) *)
Definition resolve_asset (cx : ctx) (ref : N) : result N :=
  low_check cx
    (if available_asset cx ref then Ok ref
     else match nth_error (ap_fassets (cx_cur cx)) (N.to_nat ref) with
          | Some id => Ok id
          | None =>
              match nth1 (access_of (cx_cur cx)) ref with
              | Some rr => if rr_asset rr =? 0 then Err E_ASSET else Ok (rr_asset rr)
              | None => Err E_ASSET
              end
          end).

(* holdingReference *)
Definition holding_reference (cx : ctx) (r : aref) (ref : N) : result (addr * N) :=
  if sharedResourcesVersion <=? cx_version cx then
    match resolve_account cx r with
    | Err e => Err e
    | Ok (a, _) =>
        let ra := resolve_asset cx ref in
        match ra with
        | Ok n => if allows_holding cx a n then Ok (a, n)
                  else if available_account cx a then Err E_HOLD else Err E_ACCT
        | Err e => if available_account cx a then Err e else Err E_ACCT
        end
    end
  else
    match account_reference cx r with
    | Err e => Err e
    | Ok (a, _) =>
        match resolve_asset cx ref with
        | Err e => Err e
        | Ok n => Ok (a, n)
        end
    end.

(* localsReference *)
Definition locals_reference (cx : ctx) (r : aref) (ref : N) : result (addr * N) :=
  if sharedResourcesVersion <=? cx_version cx then
    match resolve_account cx r with
    | Err e => Err e
    | Ok (a, _) =>
        match resolve_app cx ref with
        | Ok p => if allows_locals cx a p then Ok (a, p)
                  else if available_account cx a then Err E_LOC else Err E_ACCT
        | Err e => if available_account cx a then Err e else Err E_ACCT
        end
    end
  else
    match account_reference cx r with
    | Err e => Err e
    | Ok (a, _) =>
        match resolve_app cx ref with
        | Err e => Err e
        | Ok p => Ok (a, p)
        end
    end.

(* opAppLocalPut / opAppLocalDel: mutableAccountReference, then (v >= 9) allowsLocals(addr, appID) *)
Definition locals_mutation (cx : ctx) (r : aref) : result (addr * N) :=
  match mutable_account_reference cx r with
  | Err e => Err e
  | Ok (a, _) =>
      if (sharedResourcesVersion <=? cx_version cx) && negb (allows_locals cx a (cx_appid cx))
      then Err E_LOC else Ok (a, cx_appid cx)
  end.

(* ---------------------------------------------------------------- inner transactions *)
(* the inner transaction a program builds; each field is assigned by itxn_field in this order *)
Inductive itxn : Type :=
| IPay (rcv close : addr)                             (* Receiver, CloseRemainderTo (0 = unset) *)
| IAxfer (asset : N) (arcv asnd aclose : addr)         (* XferAsset, AssetReceiver, AssetSender, AssetCloseTo *)
| IAcfg (asset : N)                                    (* ConfigAsset *)
| IAfrz (asset : N) (acct : addr)                      (* FreezeAsset, FreezeAssetAccount *)
| IAppl (id : N) (accounts : list addr) (fassets fapps : list N).   (* ApplicationID, Accounts, Assets, Applications *)

Definition assign_account (cx : ctx) (a : addr) : result addr :=
  if available_account cx a then Ok a else Err E_ACCT.
Definition assign_asset (cx : ctx) (n : N) : result N :=
  if available_asset cx n then Ok n else Err E_ASSET.
Definition assign_app (cx : ctx) (n : N) : result N :=
  if available_app cx n then Ok n else Err E_APP.

Fixpoint first_err (l : list N) : N :=      (* 0 = none *)
  match l with [] => 0 | e :: es => if e =? 0 then first_err es else e end.
Definition ecode {A} (x : result A) : N := match x with Ok _ => 0 | Err e => e end.
Definition opt_acct (cx : ctx) (a : addr) : N := if a =? 0 then 0 else ecode (assign_account cx a).

(* the itxn_field sequence of the probe programs (unset = 0 fields are not assigned) *)
Definition assign_fields (cx : ctx) (it : itxn) : N :=
  match it with
  | IPay rcv close => first_err [ecode (assign_account cx rcv); opt_acct cx close]
  | IAxfer id rcv asnd aclose =>
      first_err [ecode (assign_asset cx id); ecode (assign_account cx rcv); opt_acct cx asnd; opt_acct cx aclose]
  | IAcfg id => ecode (assign_asset cx id)
  | IAfrz id acct => first_err [ecode (assign_asset cx id); ecode (assign_account cx acct)]
  | IAppl id accts fassets fapps =>
      first_err ([ecode (assign_app cx id)] ++ map (fun a => ecode (assign_account cx a)) accts ++
                 map (fun n => ecode (assign_asset cx n)) fassets ++ map (fun n => ecode (assign_app cx n)) fapps)
  end.

(* requireHolding: the holdings a submitted inner transaction needs (zero components need nothing) *)
Definition req_hold (a : addr) (n : N) : list (addr * N) :=
  if (n =? 0) || (a =? 0) then [] else [(a, n)].

(* allowsAssetTransfer / allowsAssetFreeze / allowsApplicationCall: (holdings, locals) required,
   in the order the Go code checks them *)
Definition inner_needs (cx : ctx) (it : itxn) (calleeVer : N) : list (bool * (addr * N)) :=
  let me := appaddr (cx_appid cx) in               (* inner Sender = the app account *)
  match it with
  | IPay _ _ | IAcfg _ => []
  | IAxfer id rcv asnd aclose =>
      map (pair true) ((if asnd =? 0 then req_hold me id else []) ++ req_hold rcv id ++ req_hold asnd id ++ req_hold aclose id)
  | IAfrz id acct => map (pair true) (req_hold acct id)
  | IAppl id accts fassets fapps =>
      if sharedResourcesVersion <=? calleeVer then []
      else
        let txa := me :: accts ++ (if id =? 0 then [] else [appaddr id]) ++ map appaddr fapps in
        flat_map (fun a => map (pair true) (flat_map (fun n => req_hold a n) fassets) ++
                           map (fun p => (false, (a, p))) ((if id =? 0 then [] else [id]) ++ fapps)) txa
  end.

Fixpoint check_needs (cx : ctx) (l : list (bool * (addr * N))) : N :=
  match l with
  | [] => 0
  | (true, (a, n)) :: rest => if allows_holding cx a n then check_needs cx rest else E_HOLD
  | (false, (a, p)) :: rest => if allows_locals cx a p then check_needs cx rest else E_LOC
  end.

(* what a submitted inner transaction will touch as far as the caller answers for it: before sharing
   an inner application call is not examined at all *)
Definition inner_touches (cx : ctx) (it : itxn) (calleeVer : N) : list (bool * (addr * N)) :=
  match it with
  | IAppl _ _ _ _ => if cx_version cx <? sharedResourcesVersion then [] else inner_needs cx it calleeVer
  | _ => inner_needs cx it calleeVer
  end.

(* EvalContext.allows *)
Definition allows (cx : ctx) (it : itxn) (calleeVer : N) : N :=
  if cx_version cx <? sharedResourcesVersion then 0
  else check_needs cx (inner_needs cx it calleeVer).

(* ---------------------------------------------------------------- resources touched *)
Inductive resource : Type :=
| ResAcct (a : addr) | ResAsset (n : N) | ResApp (n : N)
| ResHold (a : addr) (n : N) | ResLoc (a : addr) (p : N) | ResBox (app : N) (name : bytes).

Inductive access : Type :=
| AAcct (r : aref)                       (* balance, min_balance, acct_params_get *)
| AAssetParams (ref : N)                 (* asset_params_get *)
| AAppParams (ref : N)                   (* app_params_get, app_global_get_ex *)
| AHold (r : aref) (ref : N)             (* asset_holding_get *)
| ALoc (r : aref) (ref : N)              (* app_local_get_ex, app_opted_in *)
| ALocMut (r : aref)                     (* app_local_put, app_local_del *)
| AIAcct (a : addr)                      (* itxn_field Sender/Receiver/... *)
| AIAsset (n : N)                        (* itxn_field XferAsset/ConfigAsset/FreezeAsset/Assets *)
| AIApp (n : N)                          (* itxn_field ApplicationID/Applications *)
| AISubmit (it : itxn) (calleeVer : N).  (* itxn_begin; itxn_field...; itxn_submit up to cx.allows *)

Definition needs_res (l : list (bool * (addr * N))) : list resource :=
  map (fun x : bool * (addr * N) => let '(h, (a, n)) := x in if h then ResHold a n else ResLoc a n) l.

(* begin(): programs older than sharing must not be invoked with tx.Access *)
Definition begin_check (cx : ctx) : N :=
  if (cx_version cx <? sharedResourcesVersion) && negb (match access_of (cx_cur cx) with [] => true | _ => false end)
  then E_PRE else 0.

(* the resources one access touches, or the class of the error it fails with *)
Definition resolve (cx : ctx) (acc : access) : result (list resource) :=
  if negb (begin_check cx =? 0) then Err E_PRE else
  match acc with
  | AAcct r => match account_reference cx r with Ok (a, _) => Ok [ResAcct a] | Err e => Err e end
  | AAssetParams ref => match resolve_asset cx ref with Ok n => Ok [ResAsset n] | Err e => Err e end
  | AAppParams ref => match resolve_app cx ref with Ok n => Ok [ResApp n] | Err e => Err e end
  | AHold r ref => match holding_reference cx r ref with Ok (a, n) => Ok [ResHold a n] | Err e => Err e end
  | ALoc r ref => match locals_reference cx r ref with Ok (a, p) => Ok [ResLoc a p] | Err e => Err e end
  | ALocMut r => match locals_mutation cx r with Ok (a, p) => Ok [ResLoc a p] | Err e => Err e end
  | AIAcct a => match assign_account cx a with Ok a => Ok [ResAcct a] | Err e => Err e end
  | AIAsset n => match assign_asset cx n with Ok n => Ok [ResAsset n] | Err e => Err e end
  | AIApp n => match assign_app cx n with Ok n => Ok [ResApp n] | Err e => Err e end
  | AISubmit it cv =>
      let e := assign_fields cx it in
      if negb (e =? 0) then Err e
      else let e := allows cx it cv in
           if negb (e =? 0) then Err e
           else Ok (needs_res (inner_touches cx it cv))
  end.

(* ---------------------------------------------------------------- boxes *)
Inductive bkind : Type := BCreate | BRead | BDel.
Record bop : Type := mkBop { bo_kind : bkind; bo_app : N (* 0: box_* on the current app *); bo_name : bytes; bo_size : N }.

(* resources.boxes dirtiness / dirtyBytes, and the ledger's box sizes *)
Record bstate : Type := mkBst {
  bs_res : resources;
  bs_dirty : list (N * bytes);
  bs_dirtybytes : N;
  bs_exist : list ((N * bytes) * N)
}.
Fixpoint box_size (k : N * bytes) (l : list ((N * bytes) * N)) : option N :=
  match l with
  | [] => None
  | (k', s) :: rest => if box_eqb k k' then Some s else box_size k rest
  end.
Definition box_remove (k : N * bytes) (l : list ((N * bytes) * N)) :=
  filter (fun e : (N * bytes) * N => negb (box_eqb k (fst e))) l.
Definition dirty_remove (k : N * bytes) (l : list (N * bytes)) := filter (fun e => negb (box_eqb k e)) l.

(* availableAppBox followed by the caller's NewBox / DelBox.  io_budget = cx.ioBudget; every ledger
   app has ForeignBoxReads = true and FamilyBoxAccess = false in the harness (authorizeBoxAccess: a
   foreign read is authorized, a foreign write is not).  Returns the error class (0 = ok) and whether
   the availability decision was taken through the created-app quota. *)
Definition box_step (cx : ctx) (io_budget : N) (st : bstate) (op : bop) : bstate * N :=
  let app := if bo_app op =? 0 then cx_appid cx else bo_app op in
  let k := (app, bo_name op) in
  let r := bs_res st in
  if ap_clear (cx_cur cx) then (st, E_BOXCLEAR) else
  let named := memB k (bx_avail r) in
  let dirty := named && memB k (bs_dirty st) in
  let new_app := negb named && memN app (cr_apps r) in
  let quota := new_app && (0 <? unnamed r) in
  let r := if quota then set_unnamed (unnamed r - 1) r else r in
  let ok := named || quota || (negb (named || quota) && pol cx (fun p => p_box p app (bo_name op))) in
  if negb ok then (st, E_BOX) else
  let is_read := match bo_kind op with BRead => true | _ => false end in
  if negb (app =? cx_appid cx) && negb is_read then (mkBst r (bs_dirty st) (bs_dirtybytes st) (bs_exist st), E_AUTH) else
  let size := if new_app then None else box_size k (bs_exist st) in
  let fin (dirty' : bool) (db : N) (exist' : list ((N * bytes) * N)) : bstate * N :=
    let r' := add_boxes (if memB k (bx_avail r) then [] else [k]) r in
    let d' := if dirty' then (if memB k (bs_dirty st) then bs_dirty st else k :: bs_dirty st)
              else dirty_remove k (bs_dirty st) in
    if io_budget <? db then (mkBst r' d' db (bs_exist st), E_BUDGET)
    else (mkBst r' d' db exist', 0) in
  match bo_kind op with
  | BCreate =>
      match size with
      | Some s =>
          if negb (bo_size op =? s) then (mkBst r (bs_dirty st) (bs_dirtybytes st) (bs_exist st), E_SIZE)
          else (mkBst r (bs_dirty st) (bs_dirtybytes st) (bs_exist st), 0)
      | None =>
          fin true (if dirty then bs_dirtybytes st else bs_dirtybytes st + bo_size op)
              ((k, bo_size op) :: bs_exist st)
      end
  | BDel =>
      let len := match size with Some s => s | None => 0 end in
      fin false (if dirty then bs_dirtybytes st - len else bs_dirtybytes st) (box_remove k (bs_exist st))
  | BRead => fin dirty (bs_dirtybytes st) (bs_exist st)
  end.

Fixpoint box_run (cx : ctx) (io_budget : N) (st : bstate) (ops : list bop) : bstate * list N :=
  match ops with
  | [] => (st, [])
  | op :: rest =>
      let '(st', e) := box_step cx io_budget st op in
      if e =? 0 then let '(st'', es) := box_run cx io_budget st' rest in (st'', 0 :: es)
      else (st', [e])
  end.

(* EvalContract: ioBudget = (#tx.Boxes + #box-or-empty tx.Access elements over the group) * BytesPerBoxReference *)
Definition rref_bumps (rr : rref) : bool :=
  match rr with
  | RBox _ _ | REmpty => true
  | RAddr a => a =? 0
  | RAsset n | RApp n => n =? 0
  | RHold a s | RLoc a s => (a =? 0) && (s =? 0)
  end.
Definition txn_bumps (t : txn) : N :=
  match t with
  | TAppl _ ap => N.of_nat (length (ap_boxes ap)) + N.of_nat (length (filter rref_bumps (access_of ap)))
  | _ => 0
  end.
Definition io_budget (bytes_per_ref : N) (g : list txn) : N :=
  fold_left (fun acc t => acc + txn_bumps t) g 0 * bytes_per_ref.

(* ---------------------------------------------------------------- a whole probe *)
(* the group, the creations that happened before the probing call (application creations: the
   creating call and the new id; asset creations: new ids), the probing call *)
Record world : Type := mkWorld {
  w_version : N;
  w_forbid_low : bool;
  w_group : list txn;
  w_creates : list (appl * N);      (* (the creating call, the new application id) *)
  w_created_asas : list N;
  w_sender : addr;
  w_cur : appl;
  w_appid : N;
  w_policy : option policy
}.

Definition run_creates (cs : list (appl * N)) (r : resources) : resources :=
  fold_left (fun r c => enter_create (fst c) (snd c) r) cs r.

Definition av_of (w : world) : resources :=
  enter_contract (w_cur w) (w_appid w)
    (add_cr_asas (w_created_asas w) (run_creates (w_creates w) (compute_availability (w_group w)))).

Definition ctx_of (w : world) : ctx :=
  mkCtx (w_version w) (w_forbid_low w) (w_appid w) (w_sender w) (w_cur w) (av_of w) (w_policy w).

End Model.

Arguments Ok {A} x.
Arguments Err {A} e.
