(* C39: specification-level definitions used by the theorem statements of props/C39.v (no
   proofs): what Verifier.Verify checks ([accept_facts]), what an accepted reveal means
   ([backed]), the conditions on a vector commitment scheme ([vc_complete], [vc_sound]) and their
   merklearray instance, well-formed / reachable prover states ([wf], [built]), and the position
   renaming of the recorded finding ([relabel]). *)
From Coq Require Import NArith ZArith List Bool.
From Verif.model Require Import SpWeights MerkleArray StateProof.
Import ListNotations.
Open Scope N_scope.

Fixpoint sumw {Sig} (sigs : list (slot Sig)) : N :=
  match sigs with [] => 0 | s :: r => sl_weight s + sumw r end.
Fixpoint totw {PK} (parts : list (participant PK)) : N :=
  match parts with [] => 0 | p :: r => pt_weight p + totw r end.

(* the conditions a vector commitment scheme has to meet (discharged for merklearray by C37:
   proofs/StateProofMerkle.v) *)
Section VCSpec.
  Variables E Dig Prf : Type.
  Variable root : list E -> Dig.
  Variable prove : list E -> list N -> option Prf.
  Variable vfy : Dig -> list (N * E) -> Prf -> bool.
  Variable depth : Prf -> N.

  (* the honest proof for a non-empty set of in-range positions verifies for the honest claims
     and carries a depth the state-proof verifier admits *)
  Definition vc_complete : Prop :=
    forall arr idxs elems,
      idxs <> [] -> (forall i, In i idxs -> (N.to_nat i < length arr)%nat) ->
      (length arr <= 1024)%nat ->
      NoDup (map fst elems) ->
      (forall p e, In (p, e) elems <-> In p idxs /\ nth_error arr (N.to_nat p) = Some e) ->
      exists pf, prove arr idxs = Some pf /\ vfy (root arr) elems pf = true /\ depth pf <= MaxTreeDepth.

  (* position binding: every accepted claim (i, e) is the element of the committed array at the
     position [posmap arr pf i]; [posmap] is the identity when the proof carries the depth of
     the committed tree ([treedepth arr]) -- C37_sound_vc; for other depths it is the
     bit-reversal relabelling of C37_sound_vc_any_depth *)
  Definition vc_sound (treedepth : list E -> N) (posmap : list E -> Prf -> N -> N) : Prop :=
    (forall arr elems pf, vfy (root arr) elems pf = true ->
        forall i e, In (i, e) elems -> nth_error arr (N.to_nat (posmap arr pf i)) = Some e) /\
    (forall arr pf i, depth pf = treedepth arr -> posmap arr pf i = i).
End VCSpec.
Arguments vc_complete {E Dig Prf}.
Arguments vc_sound {E Dig Prf}.

Set Implicit Arguments.
Section Spec.
  Variables PK Sig Msg Dig Prf : Type.
  Variable sig0 : Sig.
  Variable scheme_salt : N.
  Variable salt_ok : Sig -> N -> bool.
  Variable commit_ok : Sig -> bool.
  Variable sig_ok : PK -> N -> Msg -> Sig -> bool.
  Variable coin : seed Msg Dig -> nat -> N.
  Variable prf_depth : Prf -> N.
  Variable vcs_verify : Dig -> list (N * slotC Sig) -> Prf -> bool.
  Variable vcp_verify : Dig -> list (N * participant PK) -> Prf -> bool.
  Variable vcp_posmap : list (participant PK) -> Prf -> N -> N.

  (* j0-th and following coins fall into the slots of the listed positions *)
  Definition coins_in_slots (sd : seed Msg Dig) (rv : list (N * reveal PK Sig)) (ps : list N) (j0 : nat) : Prop :=
    forall i pos, nth_error ps i = Some pos ->
      exists r, lookup pos rv = Some r /\
        sc_L (rv_slot r) <= coin sd (j0 + i)%nat /\
        coin sd (j0 + i)%nat < wadd (sc_L (rv_slot r)) (pt_weight (rv_part r)).

  Definition seed_of (v : verifier Dig) (data : Msg) (s : stateproof PK Sig Dig Prf) : seed Msg Dig :=
    mkSeed (v_partcom v) (v_lnpw v) (sp_sigcommit s) (sp_sw s) data.

  (* everything Verify checks *)
  Definition accept_facts (v : verifier Dig) (round : N) (data : Msg) (s : stateproof PK Sig Dig Prf) : Prop :=
    prf_depth (sp_sigproofs s) <= MaxTreeDepth /\ prf_depth (sp_partproofs s) <= MaxTreeDepth /\
    verifyWeights (Z.of_N (sp_sw s)) (Z.of_N (v_lnpw v))
                  (Z.of_nat (length (sp_positions s))) (Z.of_N (v_st v)) = WOk tt /\
    (forall pos r, In (pos, r) (sp_reveals s) ->
       salt_ok (sc_sig (rv_slot r)) (sp_salt s) = true /\
       commit_ok (sc_sig (rv_slot r)) = true /\
       sig_ok (pt_pk (rv_part r)) round data (sc_sig (rv_slot r)) = true) /\
    vcs_verify (sp_sigcommit s) (sig_claims (sp_reveals s)) (sp_sigproofs s) = true /\
    vcp_verify (v_partcom v) (part_claims (sp_reveals s)) (sp_partproofs s) = true /\
    coins_in_slots (seed_of v data s) (sp_reveals s) (sp_positions s) 0.

  (* what one accepted reveal sequence entry means *)
  Definition backed (parts : list (participant PK)) (round : N) (data : Msg) (v : verifier Dig)
             (s : stateproof PK Sig Dig Prf) (j : nat) (pos : N) : Prop :=
    exists r, lookup pos (sp_reveals s) = Some r /\
      (* the committed participant at that position ... *)
      nth_error parts (N.to_nat (vcp_posmap parts (sp_partproofs s) pos)) = Some (rv_part r) /\
      (* ... signed the message for the round ... *)
      sig_ok (pt_pk (rv_part r)) round data (sc_sig (rv_slot r)) = true /\
      (* ... and the j-th coin falls into its weight interval *)
      sc_L (rv_slot r) <= coin (seed_of v data s) j < sc_L (rv_slot r) + pt_weight (rv_part r).

  Definition relabel (f : N -> N) (s : stateproof PK Sig Dig Prf) (sp' pp' : Prf) : stateproof PK Sig Dig Prf :=
    mkSP (sp_sigcommit s) (sp_sw s) sp' pp' (sp_salt s)
         (map (fun pr => (f (fst pr), snd pr)) (sp_reveals s)) (map f (sp_positions s)).

  (* ---- well-formed prover states ---- *)
  (* a slot, ignoring L: empty (weight 0) or holding a signature that passed IsValid *)
  Definition cslot_ok (round : N) (data : Msg) (p : participant PK) (s : slot Sig) : Prop :=
    commit_ok (sc_sig (sl_c s)) = true /\
    (sl_weight s = 0 \/
     (sl_weight s = pt_weight p /\ salt_ok (sc_sig (sl_c s)) scheme_salt = true /\
      sig_ok (pt_pk p) round data (sc_sig (sl_c s)) = true)).
  Definition slot_ok (round : N) (data : Msg) (p : participant PK) (s : slot Sig) : Prop :=
    sc_L (sl_c s) = 0 /\ cslot_ok round data p s.

  Definition wf (b : builder PK Sig Msg) : Prop :=
    Forall2 (slot_ok (b_round b) (b_data b)) (b_parts b) (b_sigs b) /\
    b_sw b = sumw (b_sigs b) /\ totw (b_parts b) < W64.

  Inductive built (fixed : bool) (data : Msg) (round pw lnpw : N) (parts : list (participant PK)) (st : N)
    : builder PK Sig Msg -> Prop :=
  | built_init : built fixed data round pw lnpw parts st (makeProver sig0 data round pw lnpw parts st)
  | built_add : forall b pos sig b',
      built fixed data round pw lnpw parts st b ->
      isValid_gen scheme_salt salt_ok commit_ok sig_ok fixed b pos sig true = SOk tt ->
      add b pos sig = SOk b' ->
      built fixed data round pw lnpw parts st b'.

End Spec.
Unset Implicit Arguments.

(* ---- the merklearray instance of the vector commitment (model/MerkleArray.v, C37) ---- *)
Section Inst.
  Variable E : Type.
  Variable s : nat.
  Variable hleaf : E -> digest.
  Variable hbottom : digest.
  Variable hnode : list N -> digest.

  Definition mroot (arr : list E) : digest := rootOf (buildVC E s hleaf hbottom hnode arr).
  Definition mprove (arr : list E) (idxs : list N) : option proof :=
    match prove (buildVC E s hleaf hbottom hnode arr) idxs with inl pf => Some pf | inr _ => None end.
  Definition mverify (r : digest) (elems : list (N * E)) (pf : proof) : bool :=
    match verifyVC E s hleaf hnode r elems pf with VOk => true | _ => false end.
  Definition mtreedepth (arr : list E) : N := depthOf (buildVC E s hleaf hbottom hnode arr).
  (* where an accepted index really lives: mapped with the CLAIMED depth and back with the tree's *)
  Definition mposmap (arr : list E) (pf : proof) (i : N) : N :=
    if (p_depth pf =? mtreedepth arr)%N then i
    else match vcIndex i (p_depth pf) with
         | Some p => match vcIndex p (fst (vcShape (N.of_nat (length arr)))) with
                     | Some lsb => lsb
                     | None => i
                     end
         | None => i
         end.

End Inst.
