(* C25: the property as declarative unbounded arithmetic, the executable oracle [spec_ok]
   evaluated on the implementation's observation, and the line-protocol [check].
   Nothing here refers to the transcription's control flow: [spec_ok] constrains an observed
   output by (in)equalities over unbounded N (floor bounds for the refreshed rate, the
   Euclidean accounting identity for level/residue).  No proofs in this file. *)
From Coq Require Import NArith ZArith List Bool String.
From Verif.lib Require Import Term.
From Verif.model Require Import Overflow Rewards RewardsPool.
Import ListNotations.
Open Scope N_scope.

(* the rewards rate in effect for the round being computed *)
Definition rate_in_effect (p : rparams) (s s' : rstate) : N :=
  if p_fix p then r_rate s' else r_rate s.

(* what the pool holds above what it must keep: MinBalance, plus the carried residue that is
   still to be paid out when PendingResidueRewards.  Unbounded N, truncated subtraction. *)
Definition affordable (p : rparams) (s : rstate) (pool : N) : N :=
  pool - (p_minbal p + (if p_pending p then r_residue s else 0)).

(* the level moves this round: there are reward units and nothing leaves the uint64 range *)
Definition distributes (s : rstate) (rate units : N) : bool :=
  negb (units =? 0) && (rate + r_residue s <? 2 ^ 64) &&
  (r_level s + (rate + r_residue s) / units <? 2 ^ 64).

Definition refresh_ok (s : rstate) (nextRound : N) (p : rparams) (pool : N) (s' : rstate) : bool :=
  if nextRound =? r_recalc s then
    negb (p_interval p =? 0) &&
    (r_rate s' * p_interval p <=? affordable p s pool) &&
    (affordable p s pool <? (r_rate s' + 1) * p_interval p) &&
    (r_recalc s' =? (nextRound + p_interval p) mod 2 ^ 64)
  else (r_rate s' =? r_rate s) && (r_recalc s' =? r_recalc s).

Definition distribution_ok (s : rstate) (p : rparams) (units : N) (s' : rstate) : bool :=
  let rate := rate_in_effect p s s' in
  if distributes s rate units then
    (r_level s <=? r_level s') &&
    ((r_level s' - r_level s) * units + r_residue s' =? rate + r_residue s) &&
    (r_residue s' <? units)
  else (r_level s' =? r_level s) && (r_residue s' =? r_residue s).

(* obs = None: the call panicked *)
Definition spec_ok (s : rstate) (nextRound : N) (p : rparams) (pool units : N)
           (obs : option rstate) : bool :=
  match obs with
  | None => (nextRound =? r_recalc s) && (p_interval p =? 0)
  | Some s' => refresh_ok s nextRound p pool s' && distribution_ok s p units s'
  end.

(* ---- history accounting (all rounds of a chain) ---- *)
Fixpoint distributed (s : rstate) (ins : list rinput) (sts : list rstate) : N :=
  match ins, sts with
  | i :: ins', s' :: sts' => (r_level s' - r_level s) * i_units i + distributed s' ins' sts'
  | _, _ => 0
  end.

Fixpoint scheduled (s : rstate) (ins : list rinput) (sts : list rstate) : N :=
  match ins, sts with
  | i :: ins', s' :: sts' =>
      (let rate := rate_in_effect (i_params i) s s' in
       if distributes s rate (i_units i) then rate else 0) + scheduled s' ins' sts'
  | _, _ => 0
  end.

Definition rinput_bounded (i : rinput) : Prop :=
  p_minbal (i_params i) < 2 ^ 64 /\ p_interval (i_params i) < 2 ^ 64 /\
  i_pool i < 2 ^ 64 /\ i_units i < 2 ^ 64.

Definition rstate_bounded (s : rstate) : Prop :=
  r_level s < 2 ^ 64 /\ r_rate s < 2 ^ 64 /\ r_residue s < 2 ^ 64 /\ r_recalc s < 2 ^ 64.

(* ---- line protocol ----
   case: (nrs level rate residue recalc nextRound minbal interval pending fix pool units OBS)
   OBS : (ok level' rate' residue' recalc' addrsKept) | (panic)                               *)
Definition t_rstate (o : option rstate) : term :=
  match o with
  | None => TL [TS "panic"]
  | Some s => TL [TS "ok"; tn (r_level s); tn (r_rate s); tn (r_residue s); tn (r_recalc s); TZ 1]
  end.

Definition lt64 (x : N) : bool := x <? 2 ^ 64.

Definition parse_obs (t : term) : option (option rstate * bool) :=
  match t with
  | TL [TS "panic"] => Some (None, true)
  | TL [TS "ok"; TZ l; TZ r; TZ f; TZ c; TZ k] =>
      if (0 <=? l)%Z && (0 <=? r)%Z && (0 <=? f)%Z && (0 <=? c)%Z then
        Some (Some (mkR (Z.to_N l) (Z.to_N r) (Z.to_N f) (Z.to_N c)), Z.eqb k 1)
      else None
  | _ => None
  end.

Definition check_nrs (t : term) : term :=
  match t with
  | TL [TS "nrs"; TZ level; TZ rate; TZ residue; TZ recalc; TZ nextRound;
        TZ minbal; TZ interval; TZ pending; TZ cfix; TZ pool; TZ units; obs] =>
      let nn := fun z => (0 <=? z)%Z && lt64 (Z.to_N z) in
      if negb (nn level && nn rate && nn residue && nn recalc && nn nextRound && nn minbal &&
               nn interval && nn pool && nn units &&
               ((pending =? 0) || (pending =? 1))%Z && ((cfix =? 0) || (cfix =? 1))%Z)
      then v_parse else
      match parse_obs obs with
      | None => v_parse
      | Some (o, kept) =>
          let s := mkR (Z.to_N level) (Z.to_N rate) (Z.to_N residue) (Z.to_N recalc) in
          let p := mkRP (Z.to_N minbal) (Z.to_N interval) (pending =? 1)%Z (cfix =? 1)%Z in
          let nr := Z.to_N nextRound in
          let pool := Z.to_N pool in let units := Z.to_N units in
          let m := next_rewards_state s nr p pool units in
          let refreshes := nr =? r_recalc s in
          let moves := match m with
                       | Some s' => distributes s (rate_in_effect p s s') units
                       | None => false end in
          verdict (spec_ok s nr p pool units o && kept)
                  (term_eqb obs (t_rstate m))
                  (refreshes || moves) (t_rstate m)
      end
  | _ => v_parse
  end.

(* case: (pool prevLevel newLevel poolOld units minBalance OBS): one call of the real
   StartEvaluator;  OBS : (ok poolNew) | (err levels|withdraw|minbalance)                  *)
Definition t_wres (w : wres) : term :=
  match w with
  | WOk pn => TL [TS "ok"; tn pn]
  | WErrLevels => TL [TS "err"; TS "levels"]
  | WErrWithdraw => TL [TS "err"; TS "withdraw"]
  | WErrMinBalance => TL [TS "err"; TS "minbalance"]
  end.

Definition parse_wres (t : term) : option wres :=
  match t with
  | TL [TS "ok"; TZ pn] => if (0 <=? pn)%Z then Some (WOk (Z.to_N pn)) else None
  | TL [TS "err"; TS e] =>
      if String.eqb e "levels" then Some WErrLevels
      else if String.eqb e "withdraw" then Some WErrWithdraw
      else if String.eqb e "minbalance" then Some WErrMinBalance
      else None
  | _ => None
  end.

Definition check_pool (t : term) : term :=
  match t with
  | TL [TS "pool"; TZ prev; TZ new; TZ pool; TZ units; TZ minbal; obs] =>
      let nn := fun z => (0 <=? z)%Z && lt64 (Z.to_N z) in
      if negb (nn prev && nn new && nn pool && nn units && nn minbal) then v_parse else
      match parse_wres obs with
      | None => v_parse
      | Some o =>
          let m := withdraw (Z.to_N prev) (Z.to_N new) (Z.to_N pool) (Z.to_N units) (Z.to_N minbal) in
          verdict (spec_ok_pool (Z.to_N prev) (Z.to_N new) (Z.to_N pool) (Z.to_N units) (Z.to_N minbal) o)
                  (term_eqb obs (t_wres m))
                  (negb (Z.eqb prev new) && negb (Z.eqb units 0)) (t_wres m)
      end
  | _ => v_parse
  end.

Definition check (t : term) : term :=
  match t with
  | TL (TS "pool" :: _) => check_pool t
  | _ => check_nrs t
  end.
