(* C22: the property as an executable, declarative checker on observed worlds, and the
   [check] function run on the implementation's observations.

   [spec_step before o ok v after] judges ONE transaction from what was observed of the
   real code (world before, error class or success, ApplyData value, world after) without
   running the model of asset.go:
     - supply: in [after], every existing asset's holdings sum to its Total and holdings of
       assets that do not exist (destroyed) are all empty;
     - a failed transaction leaves the world unchanged;
     - a successful transfer moves exactly [xfer_amounts] (closed form: -amount at the
       source, +amount at the receiver, then the whole remainder from the source to the
       close-to address), needs an authorised clawback address to move somebody else's
       holding, needs both parties opted in when something moves, cannot close out the
       creator's holding, removes the closed holding, and leaves every FROZEN holding's
       amount alone unless it is a clawback;
     - destroy: issued by the manager while the creator holds the whole supply;
     - reconfigure / freeze: issued by the manager / freeze address, amounts untouched.
   Result: 0 = holds, 1 = violated, 2 = the frozen rule fails only because a holder closed
   out to the asset's creator (ledger/apply/asset.go: "Allow closing out to the asset creator
   even when frozen"), the recorded deviation [c22_frozen_close_to_creator].
   No proofs in this file. *)
From Coq Require Import NArith ZArith List Bool String.
From Verif.lib Require Import Term.
From Verif.model Require Import Overflow AssocList AssetOps.
Import ListNotations.
Open Scope N_scope.

(* ------------------------------------------------------------------ views of a world *)
Definition amt_at (w : world) (k : N * N) : N :=
  match aget pair_eqb k (w_hold w) with Some h => h_amt h | None => 0 end.
Definition has_hold (w : world) (k : N * N) : bool := ahas pair_eqb k (w_hold w).

Definition holding_eqb (a b : holding) : bool :=
  (h_amt a =? h_amt b) && Bool.eqb (h_frozen a) (h_frozen b).
Definition params_eqb (a b : aparams) : bool :=
  (p_total a =? p_total b) && Bool.eqb (p_deffrozen a) (p_deffrozen b) &&
  (p_manager a =? p_manager b) && (p_reserve a =? p_reserve b) && (p_freeze a =? p_freeze b) &&
  (p_clawback a =? p_clawback b) && (p_meta a =? p_meta b).
Definition acct_eqb (a b : N * N) : bool := (fst a =? fst b) && (snd a =? snd b).
Definition opt_eqb {A} (e : A -> A -> bool) (a b : option A) : bool :=
  match a, b with Some x, Some y => e x y | None, None => true | _, _ => false end.

Definition hold_equiv (w1 w2 : world) : bool := aequiv pair_eqb holding_eqb (w_hold w1) (w_hold w2).
Definition par_equiv (w1 w2 : world) : bool := aequiv pair_eqb params_eqb (w_par w1) (w_par w2).
Definition cre_equiv (w1 w2 : world) : bool := aequiv N.eqb N.eqb (w_creator w1) (w_creator w2).
Definition acct_equiv (w1 w2 : world) : bool := aequiv N.eqb acct_eqb (w_acct w1) (w_acct w2).
(* what the property speaks about (the per-account counters are correspondence only) *)
Definition asset_state_equiv (w1 w2 : world) : bool :=
  hold_equiv w1 w2 && par_equiv w1 w2 && cre_equiv w1 w2.

(* ------------------------------------------------------------------ supply *)
Definition supply_ok (w : world) : bool :=
  forallb (fun ac => match aget pair_eqb (snd ac, fst ac) (w_par w) with
                     | Some p => supply w (fst ac) =? p_total p
                     | None => false
                     end) (w_creator w) &&
  forallb (fun kh => ahas N.eqb (snd (fst kh)) (w_creator w) || (h_amt (snd kh) =? 0)) (w_hold w).

(* ------------------------------------------------------------------ transfers *)
Definition pupd (A : N * N -> N) (k : N * N) (v : N) : N * N -> N :=
  fun k' => if pair_eqb k' k then v else A k'.

Definition xfer_amounts (A0 : N * N -> N) (source asset amount receiver closeto : N) : N * N -> N :=
  let A1 := pupd A0 (source, asset) (A0 (source, asset) - amount) in
  let A2 := pupd A1 (receiver, asset) (A1 (receiver, asset) + amount) in
  if closeto =? 0 then A2 else
  let v := A2 (source, asset) in
  let A3 := pupd A2 (source, asset) 0 in
  pupd A3 (closeto, asset) (A3 (closeto, asset) + v).

Definition xfer_closing (A0 : N * N -> N) (source asset amount receiver closeto : N) : N :=
  let A1 := pupd A0 (source, asset) (A0 (source, asset) - amount) in
  let A2 := pupd A1 (receiver, asset) (A1 (receiver, asset) + amount) in
  if closeto =? 0 then 0 else A2 (source, asset).

Definition keys_of (w1 w2 : world) : list (N * N) := map fst (w_hold w1) ++ map fst (w_hold w2).

(* the frozen holdings of [before] whose amount differs in [after] *)
Definition frozen_changed (before after : world) : list (N * N) :=
  map fst (filter (fun kh => h_frozen (snd kh) && negb (amt_at after (fst kh) =? h_amt (snd kh)))
                  (w_hold before)).

Definition spec_xfer (before after : world) (s a amt r asnd ct v : N) : N :=
  let source := if asnd =? 0 then s else asnd in
  let A0 := amt_at before in
  let auth := (asnd =? 0) ||
              match params_of before a with
              | Some p => (p_clawback p =? s) && negb (s =? 0)
              | None => false
              end in
  let opted := ((amt =? 0) || (has_hold before (source, a) && has_hold before (r, a))) &&
               ((ct =? 0) || (v =? 0) || has_hold before (ct, a)) in
  let amounts := (amt <=? A0 (source, a)) &&
                 (v =? xfer_closing A0 source a amt r ct) &&
                 forallb (fun k => amt_at after k =? xfer_amounts A0 source a amt r ct k)
                         ((source, a) :: (r, a) :: (ct, a) :: keys_of before after) in
  let close := (ct =? 0) ||
               ((asnd =? 0) && negb (opt_eqb N.eqb (creator_of before a) (Some s)) &&
                negb (has_hold after (s, a))) in
  let frame := par_equiv before after && cre_equiv before after in
  if negb (auth && opted && amounts && close && frame) then 1 else
  let fc := frozen_changed before after in
  match fc with
  | [] => 0
  | _ =>
      if negb (asnd =? 0) then
        (* authorised clawback: only holdings of this asset *)
        (if forallb (fun k => snd k =? a) fc then 0 else 1)
      else if negb (ct =? 0) && opt_eqb N.eqb (creator_of before a) (Some ct) &&
              forallb (fun k => (snd k =? a) && ((fst k =? s) || (fst k =? ct))) fc then 2
      else 1
  end.

Definition spec_config (before after : world) (s a : N) (cp : aparams) (v : N) : N :=
  if a =? 0 then
    (* create: fresh id, whole supply with the creator *)
    let fresh := negb (ahas N.eqb v (w_creator before)) && negb (v =? 0) &&
                 forallb (fun k => negb (snd k =? v)) (map fst (w_hold before)) in
    let made := opt_eqb N.eqb (creator_of after v) (Some s) &&
                opt_eqb params_eqb (params_of after v) (Some cp) &&
                (amt_at after (s, v) =? p_total cp) in
    let rest := forallb (fun k => pair_eqb k (s, v) || (amt_at after k =? amt_at before k))
                        (keys_of before after) in
    if fresh && made && rest then 0 else 1
  else
    match creator_of before a, params_of before a with
    | Some c, Some p =>
        let auth := (p_manager p =? s) && negb (s =? 0) in
        if params_is_zero cp then
          let full := amt_at before (c, a) =? p_total p in
          let gone := opt_eqb N.eqb (creator_of after a) None &&
                      negb (ahas pair_eqb (c, a) (w_par after)) in
          let rest := forallb (fun k => pair_eqb k (c, a) || (amt_at after k =? amt_at before k))
                              (keys_of before after) in
          if auth && full && gone && rest then 0 else 1
        else
          let same := hold_equiv before after && cre_equiv before after in
          let upd := opt_eqb params_eqb (params_of after a) (Some (reconfigure p cp)) in
          if auth && same && upd then 0 else 1
    | _, _ => 1
    end.

Definition spec_freeze (before after : world) (s a x : N) (f : bool) : N :=
  match params_of before a with
  | Some p =>
      let auth := (p_freeze p =? s) && negb (s =? 0) in
      let amounts := forallb (fun k => amt_at after k =? amt_at before k) (keys_of before after) in
      let flag := match aget pair_eqb (x, a) (w_hold after) with
                  | Some h => Bool.eqb (h_frozen h) f
                  | None => false
                  end in
      let frame := par_equiv before after && cre_equiv before after in
      if auth && amounts && flag && frame && has_hold before (x, a) then 0 else 1
  | None => 1
  end.

Definition spec_step (before : world) (o : op) (ok : bool) (v : N) (after : world) : N :=
  if negb (supply_ok after) then 1 else
  if negb ok then (if asset_state_equiv before after then 0 else 1) else
  match o with
  | OConfig s a cp => spec_config before after s a cp v
  | OXfer s a amt r asnd ct => spec_xfer before after s a amt r asnd ct v
  | OFreeze s a x f => spec_freeze before after s a x f
  | OTick => if asset_state_equiv before after then 0 else 1
  end.

(* a whole transaction group, judged from the committed state before and after it (the
   intermediate states of a group are not observable): supply, and all-or-nothing *)
Definition spec_group (before : world) (ok : bool) (after : world) : N :=
  if negb (supply_ok after) then 1 else
  if negb ok then (if asset_state_equiv before after then 0 else 1) else 0.
Definition res_ok_l (r : res (list N)) : bool := match r with Ok _ => true | Err _ => false end.

(* ------------------------------------------------------------------ decoding *)
Definition zb (z : Z) : bool := negb (z =? 0)%Z.

Definition as_op (t : term) : option op :=
  match t with
  | TL [TS "cfg"; TZ s; TZ a; TZ tot; TZ df; TZ m; TZ r; TZ f; TZ c; TZ meta] =>
      Some (OConfig (Z.to_N s) (Z.to_N a)
                    (mkP (Z.to_N tot) (zb df) (Z.to_N m) (Z.to_N r) (Z.to_N f) (Z.to_N c) (Z.to_N meta)))
  | TL [TS "xfer"; TZ s; TZ a; TZ amt; TZ r; TZ asnd; TZ ct] =>
      Some (OXfer (Z.to_N s) (Z.to_N a) (Z.to_N amt) (Z.to_N r) (Z.to_N asnd) (Z.to_N ct))
  | TL [TS "frz"; TZ s; TZ a; TZ x; TZ f] => Some (OFreeze (Z.to_N s) (Z.to_N a) (Z.to_N x) (zb f))
  | TL [TS "tick"] => Some OTick
  | _ => None
  end.

Definition as_hold (t : term) : option ((N * N) * holding) :=
  match t with
  | TL [TZ x; TZ a; TZ amt; TZ f] => Some ((Z.to_N x, Z.to_N a), mkH (Z.to_N amt) (zb f))
  | _ => None
  end.
Definition as_par (t : term) : option ((N * N) * aparams) :=
  match t with
  | TL [TZ c; TZ a; TZ tot; TZ df; TZ m; TZ r; TZ f; TZ cl; TZ meta] =>
      Some ((Z.to_N c, Z.to_N a),
            mkP (Z.to_N tot) (zb df) (Z.to_N m) (Z.to_N r) (Z.to_N f) (Z.to_N cl) (Z.to_N meta))
  | _ => None
  end.
Definition as_cre (t : term) : option (N * N) :=
  match t with TL [TZ a; TZ c] => Some (Z.to_N a, Z.to_N c) | _ => None end.
Definition as_acct (t : term) : option (N * (N * N)) :=
  match t with TL [TZ x; TZ ta; TZ tp] => Some (Z.to_N x, (Z.to_N ta, Z.to_N tp)) | _ => None end.

(* observation of one transaction: (code v (holdings) (params) (creators) (accounts)) *)
Definition as_obs (ctr : N) (t : term) : option (N * N * world) :=
  match t with
  | TL [TZ code; TZ v; TL hs; TL ps; TL cs; TL acs] =>
      match map_opt as_hold hs, map_opt as_par ps, map_opt as_cre cs, map_opt as_acct acs with
      | Some h, Some p, Some c, Some ac => Some (Z.to_N code, Z.to_N v, mkW h p c ac ctr)
      | _, _, _, _ => None
      end
  | _ => None
  end.

(* zero-valued account records are the same as absent ones (Go map default) *)
Definition acct_norm (l : list (N * (N * N))) : list (N * (N * N)) :=
  filter (fun e => negb ((fst (snd e) =? 0) && (snd (snd e) =? 0))) l.

Definition world_matches (m i : world) : bool :=
  hold_equiv m i && par_equiv m i && cre_equiv m i &&
  aequiv N.eqb acct_eqb (acct_norm (w_acct m)) (acct_norm (w_acct i)).

Definition res_code (r : res N) : N := match r with Ok _ => 0 | Err e => e end.
Definition res_ok (r : res N) : bool := match r with Ok _ => true | Err _ => false end.
Definition res_val (r : res N) : N := match r with Ok v => v | Err _ => 0 end.

Definition dump_world (w : world) : term :=
  TL [ TL (map (fun kh => TL [tn (fst (fst kh)); tn (snd (fst kh)); tn (h_amt (snd kh)); tb (h_frozen (snd kh))]) (w_hold w));
       TL (map (fun kp => TL [tn (fst (fst kp)); tn (snd (fst kp)); tn (p_total (snd kp))]) (w_par w));
       TL (map (fun ac => TL [tn (fst ac); tn (snd ac)]) (w_creator w));
       TL (map (fun e => TL [tn (fst e); tn (fst (snd e)); tn (snd (snd e))]) (acct_norm (w_acct w))) ].

Record cst := mkCst {
  c_model : world;       (* the model's world *)
  c_impl : world;        (* the implementation's world as last observed *)
  c_spec : N;            (* worst spec_step result so far: 0, 2 (finding signature only), 1 *)
  c_corr : bool;
  c_nt : N;              (* successful transfers / freezes / destroys seen *)
  c_bad : bool;
  c_first : term
}.

Definition worse (a b : N) : N :=
  if (a =? 1) || (b =? 1) then 1 else if (a =? 2) || (b =? 2) then 2 else 0.

Definition nontrivial_op (o : op) : bool :=
  match o with
  | OXfer _ _ amt _ asnd ct => negb (amt =? 0) || negb (ct =? 0) || negb (asnd =? 0)
  | OConfig _ a _ => negb (a =? 0)
  | OFreeze _ _ _ _ => true
  | OTick => false
  end.

(* observation of a group: (code failidx (v...) (holdings) (params) (creators) (accounts)) *)
Definition as_gobs (ctr : N) (t : term) : option (N * N * list N * world) :=
  match t with
  | TL [TZ code; TZ k; vs; TL hs; TL ps; TL cs; TL acs] =>
      match as_N_list vs, map_opt as_hold hs, map_opt as_par ps, map_opt as_cre cs, map_opt as_acct acs with
      | Some vs, Some h, Some p, Some c, Some ac => Some (Z.to_N code, Z.to_N k, vs, mkW h p c ac ctr)
      | _, _, _, _, _ => None
      end
  | _ => None
  end.

Definition do_group (maxassets : N) (c : cst) (idx : N) (ops : list term) (obst : term) : cst :=
  let bad := mkCst (c_model c) (c_impl c) (c_spec c) (c_corr c) (c_nt c) true (c_first c) in
  match map_opt as_op ops with
  | None => bad
  | Some g =>
      let '(m', r, k) := gstep maxassets (c_model c) g in
      match as_gobs (w_counter m') obst with
      | None => bad
      | Some (code, ik, ivs, iw) =>
          let good := match r with
                      | Ok vs => (code =? 0) && list_eqb N.eqb vs ivs
                      | Err e => (code =? e) && (ik =? k)
                      end && world_matches m' iw in
          let sp := spec_group (c_impl c) (code =? 0) iw in
          mkCst m' iw (worse (c_spec c) sp) (c_corr c && good)
                (if (code =? 0) && existsb nontrivial_op g then c_nt c + 1 else c_nt c) false
                (if c_corr c && negb good
                 then TL [tn idx; TS "group"; tn (match r with Ok _ => 0 | Err e => e end); tn k; dump_world m']
                 else if (c_spec c =? 0) && negb (sp =? 0) then TL [tn idx; TS "gspec"; tn sp]
                 else c_first c)
      end
  end.

(* the state reached by a SECOND evaluator that replays the committed groups: (fin H P C A) *)
Definition do_final (c : cst) (idx : N) (obst : term) : cst :=
  let bad := mkCst (c_model c) (c_impl c) (c_spec c) (c_corr c) (c_nt c) true (c_first c) in
  match obst with
  | TL [TL hs; TL ps; TL cs; TL acs] =>
      match map_opt as_hold hs, map_opt as_par ps, map_opt as_cre cs, map_opt as_acct acs with
      | Some h, Some p, Some cr, Some ac =>
          let iw := mkW h p cr ac (w_counter (c_model c)) in
          let good := world_matches (c_model c) iw in
          let sp := if supply_ok iw then 0 else 1 in
          mkCst (c_model c) (c_impl c) (worse (c_spec c) sp) (c_corr c && good) (c_nt c) false
                (if c_corr c && negb good then TL [tn idx; TS "final"; dump_world (c_model c)]
                 else if (c_spec c =? 0) && negb (sp =? 0) then TL [tn idx; TS "fspec"] else c_first c)
      | _, _, _, _ => bad
      end
  | _ => bad
  end.

Definition do_op (maxassets : N) (c : cst) (idx : N) (ot obst : term) : cst :=
  if c_bad c then c else
  let bad := mkCst (c_model c) (c_impl c) (c_spec c) (c_corr c) (c_nt c) true (c_first c) in
  match ot with
  | TL (TS "grp" :: ops) => do_group maxassets c idx ops obst
  | TL [TS "fin"] => do_final c idx obst
  | _ =>
  match as_op ot with
  | None => bad
  | Some o =>
      let '(m', r) := step maxassets (c_model c) o in
      match as_obs (w_counter m') obst with
      | None => bad
      | Some (code, v, iw) =>
          let good := (res_code r =? code) && (res_val r =? v) && world_matches m' iw in
          let sp := spec_step (c_impl c) o (code =? 0) v iw in
          mkCst m' iw (worse (c_spec c) sp) (c_corr c && good)
                (if (code =? 0) && nontrivial_op o then c_nt c + 1 else c_nt c) false
                (if c_corr c && negb good
                 then TL [tn idx; tn (res_code r); tn (res_val r); dump_world m']
                 else if (c_spec c =? 0) && negb (sp =? 0) then TL [tn idx; TS "spec"; tn sp]
                 else c_first c)
      end
  end
  end.

Fixpoint do_ops (maxassets : N) (c : cst) (idx : N) (ops obs : list term) : cst :=
  match ops, obs with
  | o :: ops', b :: obs' => do_ops maxassets (do_op maxassets c idx o b) (idx + 1) ops' obs'
  | [], [] => c
  | _, _ => mkCst (c_model c) (c_impl c) (c_spec c) (c_corr c) (c_nt c) true (c_first c)
  end.

Definition check (t : term) : term :=
  match t with
  | TL [TS "c22"; TZ maxassets; TZ ctr0; TL ops; TL obs] =>
      let c := do_ops (Z.to_N maxassets)
                      (mkCst (winit (Z.to_N ctr0)) (winit (Z.to_N ctr0)) 0 true 0 false (TL [])) 0 ops obs in
      if c_bad c then v_parse
      else if c_spec c =? 1 then v_viol (c_first c)
      else if c_spec c =? 2 then
        (if c_corr c then v_known "c22_frozen_close_to_creator" (c_first c) else v_diff (c_first c))
      else verdict true (c_corr c) (3 <=? c_nt c) (c_first c)
  | _ => v_parse
  end.
