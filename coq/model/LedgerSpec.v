(* Abstract ledger specification shared by the tracker properties (C08, and meant to be reused
   by C10 / C12 / C13 / C14).  No proofs in this file.

   A block history is a [list delta]; a delta lists, per key space, the records the block
   evaluator produced for that round (ledgercore.StateDelta: Accts / resources inside Accts /
   KvMods / Creatables).  The state after round r is the fold of the first r deltas over the
   genesis world; every "answer from the block history" is a projection of [state_at].

   The part that is generic in the key space ([ks_state]) is kept separate from the concrete
   ledger world so that other properties can add key spaces (online accounts, totals, txids)
   without touching this file: a key space is (K, V, D, keqb, interp) where D is the type of a
   per-round record and [interp] the value the record denotes. *)
From Coq Require Import NArith List Bool.
From Verif.lib Require Import Term.
Import ListNotations.

(* ------------------------------------------------------------------------------------ *)
(* generic key space                                                                       *)
Section KeySpace.
  Variables K V D : Type.
  Variable keqb : K -> K -> bool.
  Variable interp : D -> V.

  (* first record for key k in one round's record list (Go: map lookup / AccountDeltas.GetData) *)
  Fixpoint rfind (k : K) (recs : list (K * D)) : option D :=
    match recs with
    | [] => None
    | (k', d) :: tl => if keqb k k' then Some d else rfind k tl
    end.

  Definition apply_recs (recs : list (K * D)) (f : K -> V) : K -> V :=
    fun k => match rfind k recs with Some d => interp d | None => f k end.

  (* state of the key space after the first r rounds of hist, starting from g *)
  Definition ks_state (g : K -> V) (hist : list (list (K * D))) (r : nat) : K -> V :=
    fold_left (fun f recs => apply_recs recs f) (firstn r hist) g.

  (* keys of one round are pairwise different (Go maps / AccountDeltas caches guarantee it) *)
  Fixpoint nodup_keys (recs : list (K * D)) : bool :=
    match recs with
    | [] => true
    | (k, _) :: tl => match rfind k tl with Some _ => false | None => nodup_keys tl end
    end.
End KeySpace.
Arguments rfind {K D}.
Arguments apply_recs {K V D}.
Arguments ks_state {K V D}.
Arguments nodup_keys {K D}.

(* ------------------------------------------------------------------------------------ *)
(* the concrete ledger world                                                               *)
Definition addr := N.                 (* the harness maps small numbers to 32-byte addresses *)
Definition cidx := N.                 (* creatable (asset / application) index *)
Definition bytes := list N.
Definition kvkey := bytes.

(* account base data; the all-zero record is "no account" (closed / never funded).
   a_extra stands for every field the trackers copy verbatim (auth address, counters, ...) *)
Record acct := mkAcct { a_algos : N; a_status : N; a_extra : N }.
Definition acct_empty : acct := mkAcct 0%N 0%N 0%N.
Definition acct_eqb (x y : acct) : bool :=
  N.eqb (a_algos x) (a_algos y) && N.eqb (a_status x) (a_status y) && N.eqb (a_extra x) (a_extra y).
Definition acct_is_empty (x : acct) : bool := acct_eqb x acct_empty.

(* a resource = (params, holding / local state) of one (address, creatable) pair, each half
   optional (ledgercore.AccountResource: pointer fields).  A delta record carries, per half,
   "set to n" / "deleted" / "nil and not deleted" (AssetParamsDelta{Params,Deleted} ...). *)
Definition res := (option N * option N)%type.
Definition res_empty : res := (None, None).
Inductive half := HKeep | HDel | HSet (n : N).
Definition resrec := (half * half)%type.
Definition half_interp (h : half) : option N := match h with HSet n => Some n | _ => None end.
Definition res_interp (r : resrec) : res := (half_interp (fst r), half_interp (snd r)).

(* KV (box) record: Data and OldData of ledgercore.KvValueDelta; None = does not exist *)
Definition kvrec := (option bytes * option bytes)%type.
Definition kv_interp (r : kvrec) : option bytes := fst r.

(* creatable record (ledgercore.ModifiedCreatable) and its value: the not-created state is
   normalised to [creat_none], lookups only ever return the creator of a created index *)
Record creat := mkCreat { cr_created : bool; cr_creator : addr; cr_ctype : N }.
Definition creat_none : creat := mkCreat false 0%N 0%N.
Definition creat_interp (c : creat) : creat := if cr_created c then c else creat_none.
Definition creat_eqb (x y : creat) : bool :=
  Bool.eqb (cr_created x) (cr_created y) && N.eqb (cr_creator x) (cr_creator y) && N.eqb (cr_ctype x) (cr_ctype y).

Record delta := mkDelta {
  d_ver : N;                               (* consensus version tag of the block *)
  d_accts : list (addr * acct);
  d_res : list ((addr * cidx) * resrec);
  d_kv : list (kvkey * kvrec);
  d_cre : list (cidx * creat) }.
Definition delta_dummy : delta := mkDelta 0%N [] [] [] [].

Definition pair_eqb (x y : N * N) : bool := N.eqb (fst x) (fst y) && N.eqb (snd x) (snd y).
Definition bytes_eqb (x y : bytes) : bool := list_eqb N.eqb x y.

Record world := mkWorld {
  w_acct : addr -> acct;
  w_res : addr * cidx -> res;
  w_kv : kvkey -> option bytes;
  w_cre : cidx -> creat }.

Definition apply_delta (d : delta) (w : world) : world :=
  mkWorld (apply_recs N.eqb (fun a : acct => a) (d_accts d) (w_acct w))
          (apply_recs pair_eqb res_interp (d_res d) (w_res w))
          (apply_recs bytes_eqb kv_interp (d_kv d) (w_kv w))
          (apply_recs N.eqb creat_interp (d_cre d) (w_cre w)).

(* the ledger state after round r: exactly the first r blocks applied to genesis *)
Definition state_at (g : world) (hist : list delta) (r : nat) : world :=
  fold_left (fun w d => apply_delta d w) (firstn r hist) g.

Definition genesis_world (accts : list (addr * acct)) : world :=
  mkWorld (fun a => match rfind N.eqb a accts with Some x => x | None => acct_empty end)
          (fun _ => res_empty) (fun _ => None) (fun _ => creat_none).

(* ---------- the answers of the public lookup API, as projections of a world ---------- *)
Definition ans_acct (w : world) (a : addr) : acct := w_acct w a.
Definition ans_res (w : world) (a : addr) (c : cidx) : res := w_res w (a, c).
Definition ans_kv (w : world) (k : kvkey) : option bytes := w_kv w k.
Definition creator_of (c : creat) (ctype : N) : option addr :=
  if cr_created c && N.eqb (cr_ctype c) ctype then Some (cr_creator c) else None.
Definition ans_creator (w : world) (c : cidx) (ctype : N) : option addr := creator_of (w_cre w c) ctype.

(* ---------- well-formed deltas (what the block evaluator guarantees) ---------- *)
(* - keys of a round are distinct;
   - a resource half that is "nil and not deleted" was absent before the round
     (the evaluator always writes both halves of the current state, cow_creatables.go);
   - OldData of a KV record is the value before the round (roundCowState.kvPut/kvDel). *)
Definition opt_bytes_eqb (x y : option bytes) : bool :=
  match x, y with
  | None, None => true
  | Some a, Some b => bytes_eqb a b
  | _, _ => false
  end.
Definition half_wf (prev : option N) (h : half) : bool :=
  match h with HKeep => match prev with None => true | Some _ => false end | _ => true end.
Definition wf_deltab (prev : world) (d : delta) : bool :=
  nodup_keys N.eqb (d_accts d) && nodup_keys pair_eqb (d_res d) &&
  nodup_keys bytes_eqb (d_kv d) && nodup_keys N.eqb (d_cre d) &&
  forallb (fun p => half_wf (fst (w_res prev (fst p))) (fst (snd p)) &&
                    half_wf (snd (w_res prev (fst p))) (snd (snd p))) (d_res d) &&
  forallb (fun p => opt_bytes_eqb (snd (snd p)) (w_kv prev (fst p))) (d_kv d).

Fixpoint wf_histb_from (w : world) (hist : list delta) : bool :=
  match hist with
  | [] => true
  | d :: tl => wf_deltab w d && wf_histb_from (apply_delta d w) tl
  end.
Definition wf_histb (g : world) (hist : list delta) : bool := wf_histb_from g hist.
Definition wf_hist (g : world) (hist : list delta) : Prop := wf_histb g hist = true.
