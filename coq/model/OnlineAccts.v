(* C13 model: ledger/acctonline.go (onlineAccounts tracker), ledger/onlineaccountscache.go,
   ledger/acctdeltas.go (makeCompactOnlineAccountDeltas, onlineAccountsNewRoundImpl), and the SQL
   of store/trackerdb/sqlitedriver (onlineaccounts history table: LookupOnline = "latest row with
   updround <= rnd", LookupOnlineHistory, OnlineAccountsAll, OnlineAccountsDelete,
   ExpiredOnlineAccountsForRound, AccountsOnlineTop; onlineroundparamstail).

   State: the tracker DB round, the in-memory deltas, the [accounts] map (latest data + number of
   deltas per address), onlineRoundParamsData, the two tables, the onlineAccountsCache.
   Operations: newBlock, commit (prepareCommit + commitRound + postCommit with dcc.offset and
   the voters tracker's lowestRound), reload (loadFromDisk + replay), lookupOnlineAccountData
   (deltas, cache, DB + cache fill), onlineCirculation / expiredOnlineCirculation,
   TopOnlineAccounts.

   Tables are kept per address, newest row first (an insert is a cons; every SQL statement used
   is per address "ORDER BY updround").  One consensus version per history ([oparams]).
   Abstractions, all named in the trusted base: the baseOnlineAccounts LRU is read through to the
   table (makeCompactOnlineAccountDeltas.oldAcct = latest row of the address); the
   expiredCirculationCache memo is not modelled; AccountsOnlineTop's SQL ordering and container/heap
   are the same insertion sort; the accountsMu/accountsReadCond retry loops collapse (single
   thread: validThrough = currentDbRound).  uint64 arithmetic through model/Overflow.v.
   No proofs in this file. *)
From Coq Require Import NArith List Bool.
From Verif.model Require Import Overflow.
Import ListNotations.
Open Scope N_scope.

(* ---------- data ---------- *)
(* ledgercore.AccountData as far as the online tracker reads it.  [a_vid] stands for the triple
   (VoteID, SelectionID, StateProofID): 0 = all three empty *)
Record oacct : Type := mkOA {
  a_st : N; a_malgos : N; a_rbase : N;
  a_vid : N; a_vfirst : N; a_vlast : N; a_vdil : N;
  a_elig : bool; a_lastprop : N; a_lasthb : N }.
Definition oacct0 : oacct := mkOA 0 0 0 0 0 0 0 false 0 0.
Definition stOnline : N := 1.
Definition is_online (a : oacct) : bool := a_st a =? stOnline.

(* trackerdb.BaseOnlineAccountData *)
Record bdata : Type := mkBD {
  b_vid : N; b_vfirst : N; b_vlast : N; b_vdil : N;
  b_lastprop : N; b_lasthb : N; b_elig : bool; b_malgos : N; b_rbase : N }.
Definition bdata0 : bdata := mkBD 0 0 0 0 0 0 false 0 0.
(* SetCoreAccountData *)
Definition bdata_of (a : oacct) : bdata :=
  mkBD (a_vid a) (a_vfirst a) (a_vlast a) (a_vdil a) (a_lastprop a) (a_lasthb a) (a_elig a)
       (a_malgos a) (a_rbase a).
Definition voting_empty (b : bdata) : bool :=
  (b_vid b =? 0) && (b_vfirst b =? 0) && (b_vlast b =? 0) && (b_vdil b =? 0).
Definition bdata_eqb (x y : bdata) : bool :=
  (b_vid x =? b_vid y) && (b_vfirst x =? b_vfirst y) && (b_vlast x =? b_vlast y) &&
  (b_vdil x =? b_vdil y) && (b_lastprop x =? b_lastprop y) && (b_lasthb x =? b_lasthb y) &&
  Bool.eqb (b_elig x) (b_elig y) && (b_malgos x =? b_malgos y) && (b_rbase x =? b_rbase y).

(* basics.OnlineAccountData *)
Record oad : Type := mkOAD {
  d_money : N; d_vid : N; d_vfirst : N; d_vlast : N; d_vdil : N;
  d_elig : bool; d_lastprop : N; d_lasthb : N }.
Definition oad0 : oad := mkOAD 0 0 0 0 0 false 0 0.

Record oparams : Type := mkOP {
  op_unit : N;            (* RewardUnit *)
  op_maxbal : N;          (* MaxBalLookback *)
  op_exclude : bool;      (* ExcludeExpiredCirculation *)
  op_spxr : bool;         (* StateProofExcludeTotalWeightWithRewards *)
  op_cachemax : nat       (* onlineAccountsCacheMaxSize *)
}.

(* basics.WithUpdatedRewards for status Online (first component); None = Go panic *)
Definition money_with_rewards (unit malgos rbase level : N) : option N :=
  if unit =? 0 then None else
  let units := malgos / unit in
  let '(delta, o1) := osub 64 level rbase in
  let '(rewards, o2) := omul 64 units delta in
  let '(out, o3) := oadd 64 malgos rewards in
  if o1 || o2 || o3 then None else Some out.

(* BaseOnlineAccountData.GetOnlineAccountData *)
Definition oad_of_bdata (unit level : N) (b : bdata) : option oad :=
  match money_with_rewards unit (b_malgos b) (b_rbase b) level with
  | Some m => Some (mkOAD m (b_vid b) (b_vfirst b) (b_vlast b) (b_vdil b) (b_elig b)
                          (b_lastprop b) (b_lasthb b))
  | None => None
  end.
(* AccountData.OnlineAccountData *)
Definition oad_of_acct (unit level : N) (a : oacct) : option oad :=
  if negb (is_online a) then Some oad0 else oad_of_bdata unit level (bdata_of a).

(* basics.NormalizedOnlineAccountBalance for status Online; None = panic *)
Definition norm_balance (unit rbase malgos : N) : option N :=
  let per := (rbase + unit) mod 2 ^ 64 in
  let '(q, o) := Muldiv malgos unit per in if o then None else Some q.

(* ---------- per-address tables, newest row first ---------- *)
Definition entry : Type := (N * bdata)%type.          (* (updround, data) *)
Definition table : Type := list (N * list entry).

Fixpoint tget (k : N) (t : table) : list entry :=
  match t with
  | [] => []
  | (k', v) :: r => if k' =? k then v else tget k r
  end.
Fixpoint tset (k : N) (v : list entry) (t : table) : table :=
  match t with
  | [] => [(k, v)]
  | (k', v') :: r => if k' =? k then (k, v) :: r else (k', v') :: tset k v r
  end.
Fixpoint tdel (k : N) (t : table) : table :=
  match t with
  | [] => []
  | (k', v') :: r => if k' =? k then r else (k', v') :: tdel k r
  end.
Definition thas (k : N) (t : table) : bool := existsb (fun e => fst e =? k) t.

(* "SELECT ... WHERE address=? AND updround <= ? ORDER BY updround DESC LIMIT 1" *)
Fixpoint latest_le (rnd : N) (es : list entry) : option entry :=
  match es with
  | [] => None
  | e :: r => if fst e <=? rnd then Some e else latest_le rnd r
  end.

(* OnlineAccountsDelete(forgetBefore) on one address: rows with updround < forgetBefore,
   newest first: the newest of them stays unless its voting data is empty; the others go *)
Fixpoint trim_entries (fb : N) (es : list entry) : list entry :=
  match es with
  | [] => []
  | e :: r => if fst e <? fb then (if voting_empty (snd e) then [] else [e])
              else e :: trim_entries fb r
  end.
Definition trim_table (fb : N) (t : table) : table :=
  filter (fun kv => match snd kv with [] => false | _ => true end)
         (map (fun kv => (fst kv, trim_entries fb (snd kv))) t).

(* ---------- state ---------- *)
Record rparams : Type := mkRP { rp_supply : N; rp_level : N }.

Record ostate : Type := mkO {
  o_db : N;                                   (* cachedDBRoundOnline *)
  o_deltas : list (list (N * oacct));         (* deltas[i] is round o_db + 1 + i *)
  o_accts : list (N * (oacct * N));           (* accounts: most recent data, ndeltas *)
  o_params : list rparams;                    (* onlineRoundParamsData; the last one is for latest *)
  o_rows : table;                             (* onlineaccounts *)
  o_dbparams : list (N * rparams);            (* onlineroundparamstail, ascending rnd *)
  o_cache : table                             (* onlineAccountsCache *)
}.

Definition o_latest (s : ostate) : N := o_db s + N.of_nat (length (o_deltas s)).

Fixpoint aget {V} (k : N) (l : list (N * V)) : option V :=
  match l with
  | [] => None
  | (k', v) :: r => if k' =? k then Some v else aget k r
  end.
Fixpoint aset {V} (k : N) (v : V) (l : list (N * V)) : list (N * V) :=
  match l with
  | [] => [(k, v)]
  | (k', v') :: r => if k' =? k then (k, v) :: r else (k', v') :: aset k v r
  end.
Fixpoint adel {V} (k : N) (l : list (N * V)) : list (N * V) :=
  match l with
  | [] => []
  | (k', v') :: r => if k' =? k then r else (k', v') :: adel k r
  end.

(* ---------- newBlockImpl ---------- *)
Definition bump_accts (mods : list (N * oacct)) (accts : list (N * (oacct * N))) :=
  fold_left (fun ac m =>
               let n := match aget (fst m) ac with Some (_, c) => c | None => 0 end in
               aset (fst m) (snd m, n + 1) ac) mods accts.

Definition new_block (s : ostate) (mods : list (N * oacct)) (supply level : N) : ostate :=
  mkO (o_db s) (o_deltas s ++ [mods]) (bump_accts mods (o_accts s))
      (o_params s ++ [mkRP supply level]) (o_rows s) (o_dbparams s) (o_cache s).

(* ---------- offsets ---------- *)
Inductive offres : Type := OffOk (off : nat) | OffHistory | OffErr.

(* roundOffset: RoundOffsetError when rnd < dbRound, another error when too high *)
Definition round_offset (s : ostate) (rnd : N) : offres :=
  if rnd <? o_db s then OffHistory
  else let off := N.to_nat (rnd - o_db s) in
       if Nat.ltb (length (o_deltas s)) off then OffErr else OffOk off.

(* roundParamsOffset *)
Definition params_start (s : ostate) : N := o_latest s + 1 - N.of_nat (length (o_params s)).
Definition params_offset (s : ostate) (rnd : N) : option nat :=
  if rnd <? params_start s then None
  else let off := N.to_nat (rnd - params_start s) in
       if Nat.leb (length (o_params s)) off then None else Some off.
Definition params_at (s : ostate) (rnd : N) : option rparams :=
  match params_offset s rnd with
  | Some off => nth_error (o_params s) off
  | None => None
  end.

(* ---------- commit ---------- *)
(* addresses of the committed deltas in order of first appearance (compact deltas index) *)
Fixpoint add_new (k : N) (l : list N) : list N :=
  match l with
  | [] => [k]
  | x :: r => if x =? k then l else x :: add_new k r
  end.
Definition touched (ds : list (list (N * oacct))) : list N :=
  fold_left (fun acc d => fold_left (fun acc m => add_new (fst m) acc) d acc) ds [].

(* onlineAccountDelta.newAcct / updRound / newStatus of one address: its updates in round order *)
Fixpoint upds (k : N) (base : N) (ds : list (list (N * oacct))) : list (oacct * N) :=
  match ds with
  | [] => []
  | d :: r => match aget k d with
              | Some a => (a, base + 1) :: upds k (base + 1) r
              | None => upds k (base + 1) r
              end
  end.

(* onlineAccountsNewRoundImpl, inner loop for one address.  prev = the previous row's data
   (None: Ref == nil).  Returns the rows written, newest first.  None = error / panic *)
Fixpoint process (unit : N) (prev : option bdata) (ups : list (oacct * N)) (acc : list entry)
  : option (list entry) :=
  match ups with
  | [] => Some acc
  | (a, r) :: rest =>
      let nb := bdata_of a in
      if is_online a && voting_empty nb then None       (* "empty voting data for online account" *)
      else
        match prev with
        | None =>
            if negb (is_online a) then process unit None rest acc
            else match norm_balance unit (b_rbase nb) (b_malgos nb) with
                 | None => None
                 | Some _ => process unit (Some nb) rest ((r, nb) :: acc)
                 end
        | Some pd =>
            if is_online a then
              if bdata_eqb pd nb then process unit prev rest acc
              else match norm_balance unit (b_rbase nb) (b_malgos nb) with
                   | None => None
                   | Some _ => process unit (Some nb) rest ((r, nb) :: acc)
                   end
            else if voting_empty pd then process unit prev rest acc
            else process unit (Some bdata0) rest ((r, bdata0) :: acc)
        end
  end.

(* LookupOnlineAccountDataByAddress: the newest row of the address *)
Definition old_acct (k : N) (rows : table) : option bdata :=
  match tget k rows with e :: _ => Some (snd e) | [] => None end.

(* onlineAccountsNewRound over all touched addresses: new table, and the rows written per
   address (oldest first) for postCommit *)
Fixpoint new_round (unit base : N) (ds : list (list (N * oacct))) (addrs : list N) (rows : table)
  : option (table * list (N * list entry)) :=
  match addrs with
  | [] => Some (rows, [])
  | k :: r =>
      match process unit (old_acct k rows) (upds k base ds) [] with
      | None => None
      | Some written =>
          let rows' := match written with [] => rows | _ => tset k (written ++ tget k rows) rows end in
          match new_round unit base ds r rows' with
          | None => None
          | Some (rows'', upd) => Some (rows'', (k, rev written) :: upd)
          end
      end
  end.

(* writeFrontIfExist *)
Definition write_front_if_exist (k : N) (e : entry) (c : table) : table :=
  match tget k c with
  | [] => c                                   (* absent (or an empty list) *)
  | f :: _ => if fst e <=? fst f then c else tset k (e :: tget k c) c
  end.

(* onlineAccountsCache.prune on one address ([] = the address is dropped): *)
(* the walk of prune from the back, on the oldest-first list *)
Fixpoint prune_old_first (target : N) (es : list entry) : list entry :=
  match es with
  | [] => []
  | [e] => [e]
  | e :: ((n :: _) as r) => if fst n <? target then prune_old_first target r else es
  end.
Definition prune_addr (target : N) (es : list entry) : list entry :=
  let kept := rev (prune_old_first target (rev es)) in
  match kept with
  | [e] => if voting_empty (snd e) then [] else kept
  | _ => kept
  end.
Definition prune_cache (target : N) (c : table) : table :=
  filter (fun kv => match snd kv with [] => false | _ => true end)
         (map (fun kv => (fst kv, prune_addr target (snd kv))) c).

(* postCommit: reference counts of the accounts map; None = the Panicf paths *)
Fixpoint drop_counts (ds : list (list (N * oacct))) (addrs : list N) (accts : list (N * (oacct * N)))
  : option (list (N * (oacct * N))) :=
  match addrs with
  | [] => Some accts
  | k :: r =>
      let cnt := N.of_nat (length (filter (fun d => match aget k d with Some _ => true | None => false end) ds)) in
      match aget k accts with
      | None => None
      | Some (a, n) =>
          if n <? cnt then None
          else if n =? cnt then drop_counts ds r (adel k accts)
          else drop_counts ds r (aset k (a, n - cnt) accts)
      end
  end.

Definition lastn {A} (n : nat) (l : list A) : list A := skipn (length l - n) l.

Fixpoint seqN (start : N) (n : nat) : list N :=
  match n with O => [] | S n' => start :: seqN (start + 1) n' end.

Definition commit (p : oparams) (s : ostate) (offset : nat) (lowest : N) : option ostate :=
  if Nat.ltb (length (o_deltas s)) offset then None else
  if Nat.eqb offset 0 then Some s else
  let oldBase := o_db s in
  let newBase := o_db s + N.of_nat offset in
  let ds := firstn offset (o_deltas s) in
  (* prepareCommitInternal *)
  match params_offset s oldBase, params_offset s newBase with
  | Some st, Some en =>
      let rparams := firstn (en - st) (skipn (Datatypes.S st) (o_params s)) in
      let fb0 := (newBase + 1) - op_maxbal p in
      let fb := if (0 <? lowest) && (lowest <? fb0) then lowest else fb0 in
      (* commitRound *)
      let addrs := touched ds in
      match new_round (op_unit p) oldBase ds addrs (o_rows s) with
      | None => None
      | Some (rows1, updated) =>
          let rows2 := trim_table fb rows1 in
          let dbp1 := o_dbparams s ++ combine (seqN (oldBase + 1) (length rparams)) rparams in
          let dbp2 := filter (fun e => negb (fst e <? fb)) dbp1 in
          (* postCommit *)
          match drop_counts ds addrs (o_accts s) with
          | None => None
          | Some accts' =>
              let cache1 := fold_left (fun c ku => fold_left (fun c e => write_front_if_exist (fst ku) e c) (snd ku) c)
                                      updated (o_cache s) in
              let deltas' := skipn offset (o_deltas s) in
              let keep := (N.to_nat (op_maxbal p) + length deltas')%nat in
              let params' := if Nat.ltb keep (length (o_params s)) then lastn keep (o_params s) else o_params s in
              let cache2 := prune_cache ((newBase + 1) - op_maxbal p) cache1 in
              Some (mkO newBase deltas' accts' params' rows2 dbp2 cache2)
          end
      end
  | _, _ => None
  end.

(* ---------- reload: loadFromDisk + replay ---------- *)
Fixpoint ins_key (k : N) (l : list N) : list N :=
  match l with
  | [] => [k]
  | x :: r => if k <? x then k :: l else if k =? x then l else x :: ins_key k r
  end.
Definition sorted_keys (t : table) : list N := fold_right ins_key [] (map fst t).

(* OnlineAccountsAll(max) + onlineAccountsCache.init: complete histories of the first [max]
   addresses in address order *)
Definition cache_init (max : nat) (rows : table) : table :=
  map (fun k => (k, tget k rows)) (firstn max (sorted_keys rows)).

Definition reload (p : oparams) (s : ostate) : option ostate :=
  match last (map (fun e => Some (fst e)) (o_dbparams s)) None with
  | Some endRound =>
      if negb (endRound =? o_db s) then None else
      let n := length (o_deltas s) in
      let replay := combine (o_deltas s) (lastn n (o_params s)) in
      let s0 := mkO (o_db s) [] [] (map snd (o_dbparams s)) (o_rows s) (o_dbparams s)
                    (cache_init (op_cachemax p) (o_rows s)) in
      Some (fold_left (fun st br => new_block st (fst br) (rp_supply (snd br)) (rp_level (snd br))) replay s0)
  | None => None
  end.

(* ---------- lookupOnlineAccountData ---------- *)
Inductive res (A : Type) : Type := ROk (v : A) | RErr | RPanic.
Arguments ROk {A} v. Arguments RErr {A}. Arguments RPanic {A}.

Definition lift {A} (o : option A) : res A := match o with Some v => ROk v | None => RPanic end.

(* walk the deltas backwards from offset-1 down to 0 *)
Fixpoint walk_back (k : N) (ds : list (list (N * oacct))) : option oacct :=
  (* ds = deltas[0..offset) reversed: newest first *)
  match ds with
  | [] => None
  | d :: r => match aget k d with Some a => Some a | None => walk_back k r end
  end.

(* onlineAccountsCache.read *)
Definition cache_read (k : N) (rnd : N) (c : table) : option entry :=
  match rev (tget k c) with
  | [] => None
  | oldest :: _ => if rnd <? fst oldest then None else latest_le rnd (tget k c)
  end.

Fixpoint strictly_desc (es : list entry) : bool :=
  match es with
  | [] => true
  | e :: r => match r with [] => true | f :: _ => (fst f <? fst e) && strictly_desc r end
  end.

Definition lookup_online (p : oparams) (s : ostate) (rnd k : N) : ostate * res oad :=
  match round_offset s rnd with
  | OffErr => (s, RErr)
  | ro =>
      match params_at s rnd with
      | None => (s, RErr)
      | Some rp =>
          let level := rp_level rp in
          let from_deltas :=
            match ro with
            | OffOk off =>
                match aget k (o_accts s) with
                | Some (a, _) =>
                    if Nat.eqb off (length (o_deltas s)) then Some a
                    else walk_back k (rev (firstn off (o_deltas s)))
                | None => None
                end
            | _ => None
            end in
          match from_deltas with
          | Some a => (s, lift (oad_of_acct (op_unit p) level a))
          | None =>
              match cache_read k rnd (o_cache s) with
              | Some e => (s, lift (oad_of_bdata (op_unit p) level (snd e)))
              | None =>
                  match latest_le rnd (tget k (o_rows s)) with
                  | None => (s, ROk oad0)                 (* persistedData.Ref == nil *)
                  | Some e =>
                      let hist := tget k (o_rows s) in   (* LookupOnlineHistory, newest first here *)
                      (* clear(addr); if full: no insert; else writeFront oldest..newest *)
                      let c0 := tdel k (o_cache s) in
                      if Nat.leb (op_cachemax p) (length c0) then
                        (mkO (o_db s) (o_deltas s) (o_accts s) (o_params s) (o_rows s) (o_dbparams s) c0,
                         lift (oad_of_bdata (op_unit p) level (snd e)))
                      else if negb (strictly_desc hist) then
                        (mkO (o_db s) (o_deltas s) (o_accts s) (o_params s) (o_rows s) (o_dbparams s) c0, RErr)
                      else
                        (mkO (o_db s) (o_deltas s) (o_accts s) (o_params s) (o_rows s) (o_dbparams s)
                             (tset k hist c0),
                         lift (oad_of_bdata (op_unit p) level (snd e)))
                  end
              end
          end
      end
  end.

(* ---------- onlineCirculation ---------- *)
(* ExpiredOnlineAccountsForRound: per address the newest row <= rnd, HAVING 0 < votelastvalid < voteRnd *)
Definition db_expired (rnd voteRnd : N) (rows : table) : list (N * bdata) :=
  fold_right (fun kv acc =>
                match latest_le rnd (snd kv) with
                | Some e => if (b_vlast (snd e) <? voteRnd) && (0 <? b_vlast (snd e))
                            then (fst kv, snd e) :: acc else acc
                | None => acc
                end) [] rows.

(* step 2 of onlineAcctsExpiredByRound: replay deltas[0..offset) on the map of expired accounts;
   the map holds the already computed OnlineAccountData (None = that computation panicked) *)
Definition expired_step (unit level voteRnd : N) (m : list (N * option oad)) (mods : list (N * oacct))
  : list (N * option oad) :=
  fold_left (fun m ka =>
               let a := snd ka in
               if is_online a && negb (a_vlast a =? 0) && (a_vlast a <? voteRnd)
               then aset (fst ka) (oad_of_acct unit level a) m
               else adel (fst ka) m) mods m.

(* sum with overflow = error *)
Fixpoint sum_money (l : list (N * option oad)) (acc : N) : res N :=
  match l with
  | [] => ROk acc
  | (_, None) :: _ => RPanic
  | (_, Some d) :: r => let '(x, o) := oadd 64 acc (d_money d) in if o then RErr else sum_money r x
  end.

Definition expired_circulation (p : oparams) (s : ostate) (rnd voteRnd : N) (rp : rparams) : res N :=
  match round_offset s rnd with
  | OffErr => RErr
  | ro =>
      let off := match ro with OffOk o => o | _ => O end in
      let m0 := map (fun kb => (fst kb, oad_of_bdata (op_unit p) (rp_level rp) (snd kb)))
                    (db_expired rnd voteRnd (o_rows s)) in
      let m := fold_left (expired_step (op_unit p) (rp_level rp) voteRnd) (firstn off (o_deltas s)) m0 in
      sum_money m 0
  end.

(* roundsParamsEx: memory first, then the onlineroundparamstail table *)
Definition params_ex (s : ostate) (rnd : N) : option rparams :=
  match params_at s rnd with
  | Some rp => Some rp
  | None => if rnd <? params_start s then aget rnd (o_dbparams s) else None
  end.

Definition circulation (p : oparams) (s : ostate) (rnd voteRnd : N) : res N :=
  match params_at s rnd with
  | None => RErr
  | Some rp =>
      if op_exclude p then
        if rnd =? 0 then ROk (rp_supply rp)
        else match expired_circulation p s rnd voteRnd rp with
             | ROk ex => let '(r, o) := osub 64 (rp_supply rp) ex in if o then RErr else ROk r
             | RErr => RErr
             | RPanic => RPanic
             end
      else ROk (rp_supply rp)
  end.

(* ---------- TopOnlineAccounts ---------- *)
(* ledgercore.OnlineAccount: address, MicroAlgos, RewardsBase, NormalizedOnlineBalance,
   VoteFirstValid, VoteLastValid, StateProofID (here: the key tag) *)
Record oacc : Type := mkOAcc {
  t_addr : N; t_malgos : N; t_rbase : N; t_norm : N; t_vfirst : N; t_vlast : N; t_vid : N }.

Definition valid_in (vfirst vlast voteRnd : N) : bool := (vfirst <=? voteRnd) && (voteRnd <=? vlast).

(* heap order: larger normalized balance first, then larger address *)
Definition top_before (x y : oacc) : bool :=
  (t_norm y <? t_norm x) || ((t_norm x =? t_norm y) && (t_addr y <? t_addr x)).
Fixpoint top_insert (x : oacc) (l : list oacc) : list oacc :=
  match l with
  | [] => [x]
  | y :: r => if top_before x y then x :: l else y :: top_insert x r
  end.
Definition top_sort (l : list oacc) : list oacc := fold_right top_insert [] l.

(* AccountsOnlineTop: per address the newest row <= rnd with normalizedonlinebalance > 0 *)
Definition db_online (unit rnd : N) (rows : table) : option (list oacc) :=
  fold_right (fun kv acc =>
                match acc with
                | None => None
                | Some l =>
                    match latest_le rnd (snd kv) with
                    | Some e =>
                        let b := snd e in
                        if voting_empty b then Some l else       (* zero rows have norm 0 *)
                        match norm_balance unit (b_rbase b) (b_malgos b) with
                        | None => None
                        | Some nb => if nb =? 0 then Some l
                                     else Some (mkOAcc (fst kv) (b_malgos b) (b_rbase b) nb (b_vfirst b) (b_vlast b) (b_vid b) :: l)
                        end
                    | None => Some l
                    end
                end) (Some []) rows.

(* accountDataToOnline *)
Definition acct_to_online (unit k : N) (a : oacct) : option oacc :=
  match (if is_online a then norm_balance unit (a_rbase a) (a_malgos a) else Some 0) with
  | Some nb => Some (mkOAcc k (a_malgos a) (a_rbase a) nb (a_vfirst a) (a_vlast a) (a_vid a))
  | None => None
  end.

(* modifiedAccounts (Some x = online and valid in voteRnd, None = nil) and invalidOnlineAccounts *)
Definition top_scan (unit voteRnd : N) (ds : list (list (N * oacct)))
  : option (list (N * option oacc) * list (N * oacc)) :=
  fold_left (fun st d =>
    fold_left (fun st ka =>
      match st with
      | None => None
      | Some (md, inv) =>
          let k := fst ka in let a := snd ka in
          if negb (is_online a) then Some (aset k None md, inv)
          else match acct_to_online unit k a with
               | None => None
               | Some oa =>
                   if negb (valid_in (a_vfirst a) (a_vlast a) voteRnd)
                   then Some (aset k None md, aset k oa inv)
                   else Some (aset k (Some oa) md, inv)
               end
      end) d st) ds (Some ([], [])).

(* PendingRewards(&ot, unit, malgos, rbase, level): value and overflow flag *)
Definition pending_rewards (unit malgos rbase level : N) : option (N * bool) :=
  if unit =? 0 then None else
  let '(delta, o1) := osub 64 level rbase in
  let '(r, o2) := omul 64 (malgos / unit) delta in Some (r, o1 || o2).

Fixpoint sub_invalid (p : oparams) (level : N) (inv : list (N * oacc)) (tot : N) : res N :=
  match inv with
  | [] => ROk tot
  | (_, oa) :: r =>
      let '(t1, o1) := osub 64 tot (t_malgos oa) in
      if o1 then RErr else
      if op_spxr p then
        match pending_rewards (op_unit p) (t_malgos oa) (t_rbase oa) level with
        | None => RPanic
        | Some (rw, o2) =>
            let '(t2, o3) := osub 64 t1 rw in
            if o2 || o3 then RErr else sub_invalid p level r t2
        end
      else sub_invalid p level r t1
  end.

(* the candidate loop of TopOnlineAccounts: AccountsOnlineTop(rnd, offset, batchSize) returns rows
   [offset, offset+batchSize) of the accounts online at rnd in the order "normalizedonlinebalance
   DESC, address DESC" ([sorted]); batches are fetched while len(candidates) < n + len(modified);
   a short batch ends the loop.  Returns the valid candidates and the invalid accounts seen. *)
Fixpoint top_fetch (fuel batch need : nat) (voteRnd : N) (sorted : list oacc) (off : nat)
         (cands inv : list oacc) : list oacc * list oacc :=
  if Nat.leb need (length cands) then (cands, inv) else
  match fuel with
  | O => (cands, inv)
  | S f =>
      let b := firstn batch (skipn off sorted) in
      let cands' := cands ++ filter (fun oa => valid_in (t_vfirst oa) (t_vlast oa) voteRnd) b in
      let inv' := inv ++ filter (fun oa => negb (valid_in (t_vfirst oa) (t_vlast oa) voteRnd)) b in
      if Nat.ltb (length b) batch then (cands', inv')
      else top_fetch f batch need voteRnd sorted (off + batch) cands' inv'
  end.

(* the list part of TopOnlineAccounts: candidates from the DB, overridden by the deltas, the n
   first in heap order.  None = a Go panic.  Also returns the invalid accounts (legacy weight). *)
Definition top_list (batch : nat) (p : oparams) (s : ostate) (off : nat) (rnd voteRnd n : N)
  : option (list oacc * list (N * oacc)) :=
  match top_scan (op_unit p) voteRnd (firstn off (o_deltas s)) with
  | None => None
  | Some (md, inv) =>
      let need := (N.to_nat n + length md)%nat in
      (* nothing is fetched when need = 0 *)
      match (if Nat.eqb need 0 then Some [] else db_online (op_unit p) rnd (o_rows s)) with
      | None => None
      | Some dbl =>
          let sorted := top_sort dbl in
          let '(cand_db, inv_db) := top_fetch (Datatypes.S (length sorted)) batch need voteRnd sorted 0 [] [] in
          (* invalid accounts from the DB do not override those from the deltas *)
          let inv_all := fold_left (fun iv oa => match aget (t_addr oa) iv with
                                                 | Some _ => iv | None => aset (t_addr oa) oa iv end)
                                   inv_db inv in
          (* candidates: DB, then overridden by the deltas *)
          let cands0 := map (fun oa => (t_addr oa, oa)) cand_db in
          let cands := fold_left (fun c km => match snd km with
                                              | None => adel (fst km) c
                                              | Some oa => aset (fst km) oa c end) md cands0 in
          Some (firstn (N.to_nat n) (top_sort (map snd cands)), inv_all)
      end
  end.

Definition top_online_b (batch : nat) (p : oparams) (s : ostate) (rnd voteRnd : N) (n : N) (level : N)
  : res (list oacc * N) :=
  match round_offset s rnd with
  | OffErr => RErr
  | ro =>
      let off := match ro with OffOk o => o | _ => O end in
      match top_list batch p s off rnd voteRnd n with
      | None => RPanic
      | Some (top, inv_all) =>
          match params_ex s rnd with
          | None => RErr
          | Some rp =>
              let total := rp_supply rp in
              if op_exclude p then
                match expired_circulation p s rnd voteRnd rp with
                | ROk ex => let '(r, o) := osub 64 total ex in if o then RErr else ROk (top, r)
                | RErr => RErr
                | RPanic => RPanic
                end
              else
                match sub_invalid p level inv_all total with
                | ROk r => ROk (top, r)
                | RErr => RErr
                | RPanic => RPanic
                end
          end
      end
  end.

(* batchSize := uint64(1024) in the Go code *)
Definition top_online := top_online_b 1024.

(* ---------- genesis ---------- *)
(* tracker DB initialisation (sqlitedriver performOnlineAccountsTableMigration on the fresh
   accountbase): one row (updround 0) per online genesis account, holding the voting data,
   MicroAlgos and RewardsBase ONLY (IncentiveEligible / LastProposed / LastHeartbeat are not
   copied); the round-0 onlineroundparamstail entry; then loadFromDisk *)
Definition genesis_bdata (a : oacct) : bdata :=
  mkBD (a_vid a) (a_vfirst a) (a_vlast a) (a_vdil a) 0 0 false (a_malgos a) (a_rbase a).
Definition genesis_rows (genesis : list (N * oacct)) : table :=
  fold_left (fun t ka => if is_online (snd ka) then tset (fst ka) [(0, genesis_bdata (snd ka))] t else t)
            genesis [].

Definition ostate_init (p : oparams) (genesis : list (N * oacct)) (supply0 : N) : ostate :=
  let rows := genesis_rows genesis in
  mkO 0 [] [] [mkRP supply0 0] rows [(0, mkRP supply0 0)] (cache_init (op_cachemax p) rows).
