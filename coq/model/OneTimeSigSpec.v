(* C36: the property as a declarative checker over observed validity bits, and the executable
   [check] of the line protocol.  No proofs here.

   Observation of a state for a universe of identifiers: for every identifier a probe code
   (see harness/go/crypto/zz_verif_c36_test.go):
     0 Sign gave the empty signature, Verify rejects it      1 valid signature, bound to id/msg
     2 non-empty signature that Verify rejects               3 empty signature accepted
     4 valid signature also accepted for another identifier / message          9 panic
   "valid" = code 1. *)
From Coq Require Import NArith ZArith List Bool String.
From Verif.lib Require Import Term.
From Verif.model Require Import OneTimeSig.
Import ListNotations.
Open Scope N_scope.

Definition msgA : N := 1.
Definition msgB : N := 2.

(* ---- the model's observation ---------------------------------------------------------- *)
Definition valid (s : secrets) (id : ident) : bool := verify id msgA (sign s id msgA).

Definition probe (s : secrets) (id : ident) : N :=
  let sg := sign s id msgA in
  let ok := verify id msgA sg in
  match sg with
  | SigPanic => 9
  | SigEmpty => if ok then 3 else 0
  | SigVal _ _ _ _ _ =>
      if ok then
        if verify (mkId (wadd (ibatch id) 1) (ioff id)) msgA sg
           || verify (mkId (ibatch id) (wadd (ioff id) 1)) msgA sg
           || verify id msgB sg then 4 else 1
      else 2
  end.

Definition universe (ub uo : list N) : list ident :=
  flat_map (fun b => map (fun o => mkId b o) uo) ub.

Definition shape (s : secrets) : list N := [fb s; if bnil s then 1 else 0; lenN (batches s); fo s; lenN (offs s)].
Definition obs (s : secrets) (ids : list ident) : term :=
  TL (map tn (shape s) ++ [TL (map (fun id => tn (probe s id)) ids)]).

(* ---- the property, per probed identifier ---------------------------------------------- *)
(* [h]: the deletion points (with the key dilution passed) applied so far, newest last.
   forward security: an identifier below some deletion point is not valid.  The variant that
   exempts deletion points whose Batch+1 wraps is what holds of the code (finding
   c36_batch_wrap); [fwd_strict] is the property as stated. *)
Definition fwd_strict (id : ident) (h : list (ident * N)) : bool :=
  existsb (fun cK => id_ltb id (fst cK)) h.
Definition fwd_nowrap (id : ident) (h : list (ident * N)) : bool :=
  existsb (fun cK => id_ltb id (fst cK) && (ibatch (fst cK) + 1 <? W)) h.
(* still signs: an identifier of the generated range [start,start+n) x [0,K) at or above
   every deletion point is valid *)
Definition in_range (start n : N) (id : ident) : bool :=
  (start <=? ibatch id) && (ibatch id <? start + n).
Definition must_sign (start n : N) (id : ident) (h : list (ident * N)) : bool :=
  in_range start n id && forallb (fun cK => id_leb (fst cK) id && (ioff id <? snd cK)) h.
(* monotone: valid now -> valid before the operation *)
Definition probe_spec (start n : N) (h : list (ident * N)) (id : ident) (vprev v : bool) : bool :=
  (if fwd_nowrap id h then negb v else true) &&
  (if must_sign start n id h then v else true) &&
  implb v vprev.
Definition probe_known (h : list (ident * N)) (id : ident) (v : bool) : bool :=
  v && fwd_strict id h && negb (fwd_nowrap id h).

Definition dels (ops : list op) : list (ident * N) :=
  flat_map (fun o => match o with Del c K => [(c, K)] | Reload => [] end) ops.

(* one observation (list of codes) against the previous one: (spec holds, finding signature seen) *)
Fixpoint spec_codes (start n : N) (h : list (ident * N)) (ids : list ident) (prev cur : list N)
  : option (bool * bool) :=
  match ids, prev, cur with
  | [], [], [] => Some (true, false)
  | id :: ids', p :: prev', c :: cur' =>
      match spec_codes start n h ids' prev' cur' with
      | Some (ok, kn) =>
          Some ((c <? 3) && probe_spec start n h id (p =? 1) (c =? 1) && ok,
                probe_known h id (c =? 1) || kn)
      | None => None
      end
  | _, _, _ => None
  end.

(* ---- parsing --------------------------------------------------------------------------- *)
Definition lt64 (x : N) : bool := x <? W.

Definition parse_obs (t : term) : option (list N) :=
  match t with
  | TL [TZ _; TZ _; TZ _; TZ _; TZ _; codes] => as_N_list codes
  | _ => None
  end.

Definition parse_step (t : term) : option (op * term) :=
  match t with
  | TL [TS "del"; cb; co; k; o] =>
      match as_N cb, as_N co, as_N k with
      | Some cb, Some co, Some k =>
          if lt64 cb && lt64 co && lt64 k then Some (Del (mkId cb co) k, o) else None
      | _, _, _ => None
      end
  | TL [TS "reload"; o] => Some (Reload, o)
  | _ => None
  end.

(* walk the steps: model state, history, previous impl codes / previous model obs.
   result: (spec ok, known seen, corr, nontrivial, model observations (reversed)) *)
Fixpoint walk (start n : N) (ids : list ident) (s : secrets) (h : list (ident * N))
         (prev : list N) (prevm : term) (steps : list (op * term))
  : option (bool * bool * bool * bool * list term) :=
  match steps with
  | [] => Some (true, false, true, false, [])
  | (o, io) :: rest =>
      let s' := step s o in
      let h' := h ++ dels [o] in
      let m := obs s' ids in
      match parse_obs io with
      | None => None
      | Some codes =>
          match spec_codes start n h' ids prev codes, walk start n ids s' h' codes m rest with
          | Some (ok, kn), Some (ok2, kn2, corr2, nt2, ms) =>
              Some (ok && ok2, kn || kn2, term_eqb io m && corr2,
                    negb (term_eqb m prevm) || nt2, m :: ms)
          | _, _ => None
          end
      end
  end.

(* [check_seq] (dispatched by PartPersistSpec.check): case = (seq start n (UB..) (UO..) OBS0 STEP...) *)
Definition check_seq (t : term) : term :=
  match t with
  | TL (TS "seq" :: tstart :: tn_ :: tub :: tuo :: o0 :: tsteps) =>
      match as_N tstart, as_N tn_, as_N_list tub, as_N_list tuo, map_opt parse_step tsteps, parse_obs o0 with
      | Some start, Some n, Some ub, Some uo, Some steps, Some codes0 =>
          if negb (lt64 start && lt64 n && forallb lt64 ub && forallb lt64 uo) then v_parse else
          let ids := universe ub uo in
          let s0 := generate start n in
          let m0 := obs s0 ids in
          match spec_codes start n [] ids (map (fun _ => 1) ids) codes0,
                walk start n ids s0 [] codes0 m0 steps with
          | Some (ok0, kn0), Some (ok, kn, corr, nt, ms) =>
              let mobs := TL (m0 :: ms) in
              if negb (ok0 && ok) then v_viol mobs
              else if negb (term_eqb o0 m0 && corr) then v_diff mobs
              else if kn0 || kn then v_known "c36_batch_wrap" mobs
              else if nt then v_ok else v_triv
          | _, _ => v_parse
          end
      | _, _, _, _, _, _ => v_parse
      end
  | _ => v_parse
  end.
