(* C25, second mechanism: ledger/eval/eval.go StartEvaluator, segment "Withdraw rewards from
   the pool", transcribed in the code's order with its three error exits.  One
   basics.OverflowTracker is shared by the three steps; its flag is tested after the level
   subtraction, after the withdrawal (Mul and SubA together) and after the MinBalance
   subtraction.  [poolOld] is what eval.state.Get(poolAddr, true) returned (for a
   NotParticipating pool, as on every network, the stored balance).  Also the declarative
   acceptance condition and the executable oracle.  No proofs in this file. *)
From Coq Require Import NArith List Bool.
From Verif.model Require Import Overflow.
Import ListNotations.
Open Scope N_scope.

Inductive wres : Type :=
| WOk (poolNew : N)     (* evaluator created; the pool now holds poolNew *)
| WErrLevels            (* "overflowed subtracting rewards(%d, %d) levels" *)
| WErrWithdraw          (* "overflowed subtracting reward unit" *)
| WErrMinBalance.       (* "overflowed subtracting rewards for block" (below MinBalance AFTER the withdrawal) *)

Definition withdraw (prevLevel newLevel poolOld units minbal : N) : wres :=
  let '(rewardsPerUnit, o1) := osub 64 newLevel prevLevel in
  if o1 then WErrLevels
  else
    let '(amount, o2) := omul 64 units rewardsPerUnit in
    let '(poolNew, o3) := osub 64 poolOld amount in
    if o2 || o3 then WErrWithdraw
    else
      let '(_, o4) := osub 64 poolNew minbal in
      if o4 then WErrMinBalance else WOk poolNew.

(* ---- the property, over unbounded N ---- *)
(* the block is acceptable: the level does not go down and, after paying every reward unit
   the level increase, the pool still holds its minimum balance *)
Definition withdraw_allowed (prevLevel newLevel poolOld units minbal : N) : bool :=
  (prevLevel <=? newLevel) && (units * (newLevel - prevLevel) + minbal <=? poolOld).

(* evaluated on the implementation's outcome *)
Definition spec_ok_pool (prevLevel newLevel poolOld units minbal : N) (obs : wres) : bool :=
  match obs with
  | WOk poolNew =>
      withdraw_allowed prevLevel newLevel poolOld units minbal &&
      (poolNew + units * (newLevel - prevLevel) =? poolOld)
  | _ => negb (withdraw_allowed prevLevel newLevel poolOld units minbal)
  end.
