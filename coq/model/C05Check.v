(* C05 (partial): progress once the network is synchronous.  [check] evaluates one run of the N-node
   simulator (harness/go/agreement/zz_verif_c05_test.go: arbitrary asynchronous prefix, then synchronous
   delivery with silent Byzantine senders, i.e. honest leaders) :

     spec_ok := every honest node that was still in the round at the synchrony point finishes it -- by
                its own ensureAction or, when another honest node committed first, through the ledger
                (catch-up, modelled as a roundInterruption) -- in a period <= P* + K, where P* is the
                largest period any honest node was in at the synchrony point, and never goes beyond the
                deadline-ladder bound on Step in a period entered after the synchrony point;
     corr    := the deadline timeouts observed in the synchronous phase (period, step, napping, entropy
                -> step, napping, Deadline) are what the agreement model's timeout arithmetic
                ([timeout_player] = the player part of AgreementPlayer.handle_timeout, proved in
                proofs/C05Proofs.v) computes from next_vote_ranges;
     v_known := a node that does not finish although ...
                  c05_stale_cert_bundle_router_nil_deref   it hit the router-GC nil dereference after the
                                                           synchrony point (corpus/notes/router_gc_nil_deref.txt)
                  c05_restart_loses_pipelined_payload       the run had crash-restores and a node holds a
                                                           Filled, never Assembled payload
                                                           (corpus/notes/c05_restart_pipelined_payload.txt)
     nontrivial := some node that was in the round at the synchrony point committed by its own ensure.

   Case: (c05 K ladder params ((node syncPeriod kind finPeriod maxStepNew panicsAfter nilAfter syncDone poisoned) ...)
              ((period step nap entropy step' nap' deadline') ...) (round mode syncStep stale vtime run crashes))
   kind: 0 still in the round, 1 ensure, 2 caught up through the ledger.   No proofs in this file. *)
From Coq Require Import List NArith ZArith Bool String.
From Verif.lib Require Import Term.
From Verif.model Require Import AgreementTypes AgreementVotes AgreementPlayer AgreementRender.
Import ListNotations.
Open Scope N_scope.

(* the player part of a deadline timeout (Period unchanged): new Step, Napping, Deadline.Duration *)
Definition timeout_player (pm : params) (per step : N) (nap : bool) (entropy : N) : N * bool * N :=
  let d := deadline_timeout pm per in
  if step =? s_soft then (s_cert, nap, d)
  else if step =? s_cert then (s_next, false, snd (next_vote_ranges pm s_next d))
  else if nap then (step, false, snd (next_vote_ranges pm step d))
  else
    let s1 := w64 (step + 1) in
    let lu := next_vote_ranges pm s1 d in
    (s1, true, fst lu + entropy mod (snd lu - fst lu)).

Record nobs := mkNobs { n_id : N; n_syncp : N; n_kind : N; n_finp : N; n_maxstep : N;
                        n_panics : N; n_nil : N; n_syncdone : bool; n_poisoned : bool }.

Definition dec_nobs (t : term) : option nobs :=
  match t with
  | TL [a; b; c; d; e; f; g; h; i] =>
      match as_N a, as_N b, as_N c, as_N d, as_N e with
      | Some a', Some b', Some c', Some d', Some e' =>
          match as_N f, as_N g, as_bool h, as_bool i with
          | Some f', Some g', Some h', Some i' => Some (mkNobs a' b' c' d' e' f' g' h' i')
          | _, _, _, _ => None
          end
      | _, _, _, _, _ => None
      end
  | _ => None
  end.

Definition dec_tobs (t : term) : option (N * N * bool * N * (N * bool * N)) :=
  match t with
  | TL [a; b; c; d; e; f; g] =>
      match as_N a, as_N b, as_bool c, as_N d with
      | Some p, Some s, Some nap, Some en =>
          match as_N e, as_bool f, as_N g with
          | Some s', Some nap', Some dl' => Some (p, s, nap, en, (s', nap', dl'))
          | _, _, _ => None
          end
      | _, _, _, _ => None
      end
  | _ => None
  end.

Definition obs_eqb (a b : N * bool * N) : bool :=
  N.eqb (fst (fst a)) (fst (fst b)) && Bool.eqb (snd (fst a)) (snd (fst b)) && N.eqb (snd a) (snd b).

Definition pstar (l : list nobs) : N :=
  fold_right (fun o acc => if n_syncdone o then acc else N.max (n_syncp o) acc) 0 l.

Definition node_ok (K ladder ps : N) (o : nobs) : bool :=
  n_syncdone o ||
  (((n_kind o =? 1) || (n_kind o =? 2)) && (n_finp o <=? ps + K) && (n_maxstep o <=? ladder)).

Definition t_tobs (x : N * bool * N) : term := TL [tn (fst (fst x)); tb (snd (fst x)); tn (snd x)].

Definition check (c : term) : term :=
  match c with
  | TL [TS "c05"; tk; tl; tpm; TL tnodes; TL tto; TL tinfo] =>
      match as_N tk, as_N tl, p_params tpm, map_opt dec_nobs tnodes, map_opt dec_tobs tto with
      | Some K, Some ladder, Some pm, Some nodes, Some tos =>
          let ps := pstar nodes in
          let bad := filter (fun o => negb (node_ok K ladder ps o)) nodes in
          let spec_ok := match bad with [] => true | _ => false end in
          let mism := filter (fun x => match x with (p, s, nap, en, o) => negb (obs_eqb (timeout_player pm p s nap en) o) end) tos in
          let corr := match mism with [] => true | _ => false end in
          let nontrivial := existsb (fun o => negb (n_syncdone o) && (n_kind o =? 1)) nodes in
          let crashes := match nth_error tinfo 6 with Some t => match as_N t with Some n => n | None => 0 end | None => 0 end in
          let detail :=
            match mism with
            | (p, s, nap, en, o) :: _ =>
                TL [TS "timeout_arithmetic"; tn p; tn s; tb nap; tn en; t_tobs (timeout_player pm p s nap en); t_tobs o]
            | [] => match bad with
                    | o :: _ => TL [TS "node_does_not_finish_in_bound"; tn (n_id o); tn (n_kind o); tn (n_finp o); tn ps; tn (n_maxstep o)]
                    | [] => TL [TS "ok"; tn ps]
                    end
            end in
          if spec_ok then verdict true corr nontrivial detail
          else if existsb (fun o => 0 <? n_nil o) bad then v_known "c05_stale_cert_bundle_router_nil_deref" detail
          else if (0 <? crashes) && existsb n_poisoned nodes then v_known "c05_restart_loses_pipelined_payload" detail
          else v_viol detail
      | _, _, _, _, _ => v_parse
      end
  | _ => v_parse
  end.
