(* C42 — the sender / receiver wrapper around the vote compressors.  No proofs here.

   Transcribed from /repo/network/msgCompressor.go and the two call sites in wsPeer.go:
     vpackCompressVote (broadcast path, incl. its msgpack fallback)            -> broadcast_data
     wsPeerMsgCodec.compress + wsPeer.writeLoopSendMsg (error path, VP abort)  -> sender_step
     wsPeerMsgCodec.decompress + wsPeer.readLoop / handleVPError               -> recv_wire
   One direction of one connection: the sending peer's encoder and the receiving peer's decoder,
   each with its statefulVoteEnabled flag.  A message on the wire is its tag and payload; the
   abort message is VP + 0xFF exactly as in the code.

   StatefulEncoder.Compress updates the encoder's window / tables / lastRnd while it parses and
   may fail afterwards, i.e. a failed Compress leaves the encoder in a state the receiver does
   not have.  The code's answer is the abort rule: after a failed Compress the flag is cleared,
   the abort message is sent and the encoder is never used again.  The model has the rule
   ([n_son] := false); the encoder state after a failure is therefore unobservable and the
   model keeps the old one. *)
From Coq Require Import NArith ZArith List Bool String Ascii.
From Verif.lib Require Import Term.
From Verif.model Require Import Vpack VpackSpec.
Import ListNotations.
Open Scope N_scope.

Inductive wire := WVP (f : bytes) | WAV (d : bytes).
Definition abort_payload : bytes := [255].          (* voteCompressionAbortMessage *)

Record nstate := { n_son : bool; n_enc : dstate; n_ron : bool; n_dec : dstate }.

(* vpackCompressVote: the stateless frame, or - when CompressVote refuses the vote - the whole
   msgpack vote ("append(mbytesComp[:len(tbytes)], d...)", fix 8ff1e5c455) *)
Definition broadcast_data (m : bytes) : bytes :=
  match compress_vote true m with Some x => x | None => m end.

(* the fallback BEFORE that fix: "copied := copy(mbytesComp[len(tbytes):], d)" into a buffer of
   MaxCompressedVoteSize bytes, i.e. at most that many bytes of the vote were sent *)
Definition broadcast_data_unfixed (m : bytes) : bytes :=
  match compress_vote true m with Some x => x | None => firstn max_compressed_vote_size m end.

(* compress() for an AV message, and what writeLoopSendMsg puts on the wire *)
Definition sender_step (s : nstate) (data : bytes) : list wire * nstate :=
  if n_son s then
    match compress true (n_enc s) data with
    | Some (f, e') => ([WVP f], {| n_son := true; n_enc := e'; n_ron := n_ron s; n_dec := n_dec s |})
    | None => ([WVP abort_payload; WAV data],
               {| n_son := false; n_enc := n_enc s; n_ron := n_ron s; n_dec := n_dec s |})
    end
  else ([WAV data], s).

Inductive deliv := DBytes (b : bytes) | DNone | DErr.

(* what a peer with stateless vote decompression enabled hands to the handlers for an AV payload *)
Definition av_deliver (d : bytes) : bytes :=
  match decompress_vote d with Some m => m | None => d end.

(* decompress() + readLoop; a VP error makes the receiver send the abort back (handleVPError),
   which clears the sender's flag *)
Definition recv_wire (s : nstate) (w : wire) : deliv * nstate :=
  match w with
  | WAV d => (DBytes (av_deliver d), s)
  | WVP f =>
      if bytes_eqb f abort_payload
      then (DNone, {| n_son := n_son s; n_enc := n_enc s; n_ron := false; n_dec := n_dec s |})
      else if negb (n_ron s) then (DNone, s)
      else match decompress (n_dec s) f with
           | None => (DErr, {| n_son := false; n_enc := n_enc s; n_ron := false; n_dec := n_dec s |})
           | Some (x, d') =>
               match decompress_vote x with
               | None => (DErr, {| n_son := false; n_enc := n_enc s; n_ron := false; n_dec := d' |})
               | Some m => (DBytes m, {| n_son := n_son s; n_enc := n_enc s; n_ron := n_ron s; n_dec := d' |})
               end
           end
  end.

Fixpoint recv_all (s : nstate) (ws : list wire) : list deliv * nstate :=
  match ws with
  | [] => ([], s)
  | w :: r => let '(d, s1) := recv_wire s w in let '(ds, s2) := recv_all s1 r in (d :: ds, s2)
  end.

(* one AV payload handed to the sending peer *)
Definition net_step (s : nstate) (data : bytes) : list wire * list deliv * nstate :=
  let '(ws, s1) := sender_step s data in
  let '(ds, s2) := recv_all s1 ws in (ws, ds, s2).

Fixpoint net_run (s : nstate) (l : list bytes) : list (list deliv) * nstate :=
  match l with
  | [] => ([], s)
  | d :: r => let '(_, ds, s1) := net_step s d in let '(o, s2) := net_run s1 r in (ds :: o, s2)
  end.

Definition net_init (n : N) : option nstate :=
  s0 <- new_state n ;; Some {| n_son := true; n_enc := s0; n_ron := true; n_dec := s0 |}.

(* ------------------------------------------------------------- observations ---- *)

Definition t_wire (w : wire) : term :=
  match w with WVP f => TL [TS "VP"; TB f] | WAV d => TL [TS "AV"; TB d] end.
Definition t_deliv (d : deliv) : term :=
  match d with DBytes b => TB b | DNone => TS "none" | DErr => TS "err" end.

(* (wires deliveries senderOn receiverOn encState decState); the states only while both flags are set *)
Definition t_net_obs (ws : list wire) (ds : list deliv) (s : nstate) : term :=
  TL [TL (map t_wire ws); TL (map t_deliv ds); tb (n_son s); tb (n_ron s);
      if n_son s && n_ron s then t_state (n_enc s) else t_skip;
      if n_son s && n_ron s then t_dec_state (n_enc s) (n_dec s) else t_skip].

(* --- the property on the IMPLEMENTATION's observation (no model involved) ---
   [expect]: the bytes a receiver must hand on (the vote itself for a vote, for raw data what the
   plain AV path delivers - recorded by the harness from a fresh real codec);
   - nothing panicked;
   - every delivered byte string is [expect]: never a silently different vote;
   - something was delivered, or the stream was aborted (receiver flag cleared);
   - while both flags are set, the decoder state equals the encoder state. *)
Definition deliv_ok (expect : bytes) (t : term) : bool :=
  match t with TB b => bytes_eqb b expect | TS "none" => true | TS "err" => true | _ => false end.
Definition is_TB (t : term) : bool := match t with TB _ => true | _ => false end.

Definition spec_net (expect : bytes) (obs : term) : bool :=
  match obs with
  | TL [TL ws; TL ds; TZ son; TZ ron; es; dd] =>
      forallb (deliv_ok expect) ds &&
      (existsb is_TB ds || (ron =? 0)%Z) &&
      (Nat.leb (List.length (filter is_TB ds)) 1) &&
      (if (son =? 1)%Z && (ron =? 1)%Z then term_eqb dd t_same else true)
  | _ => false
  end.

Record nsummary := { ns_parse : bool; ns_viol : option term; ns_diff : option term; ns_vp : N }.

Definition count_vp (obs : term) : N :=
  match obs with
  | TL [TL [TL [TS "VP"; TB (_ :: _ :: _)]]; TL [TB _]; _; _; _; _] => 1
  | _ => 0
  end.

Fixpoint run_net_ops (i : N) (s : nstate) (ops : list term) (a : nsummary) : nsummary :=
  match ops with
  | [] => a
  | op :: rest =>
      match op with
      | TL [TS kind; TB payload; TB avref; obs] =>
          let isvote := String.eqb kind "m" in
          let data := if isvote then broadcast_data payload else payload in
          let '(ws, ds, s') := net_step s data in
          let mo := t_net_obs ws ds s' in
          let corr := term_eqb obs mo in
          let expect := if isvote then payload else avref in
          let sp := spec_net expect obs in
          let detail := TL [tn i; mo] in
          run_net_ops (i + 1) s' rest
            {| ns_parse := ns_parse a && (isvote || String.eqb kind "d") && all_bytes payload;
               ns_viol := if sp then ns_viol a else upd_first (ns_viol a) detail;
               ns_diff := if corr then ns_diff a else upd_first (ns_diff a) detail;
               ns_vp := ns_vp a + count_vp obs |}
      | _ => {| ns_parse := false; ns_viol := ns_viol a; ns_diff := ns_diff a; ns_vp := ns_vp a |}
      end
  end.

(* case = (net tableSize (op ...)), op = (m #vote #avref obs) | (d #data #avref obs);
   see harness/go/network/zz_verif_c42net_test.go *)
Definition check_net (n : Z) (ops : list term) : term :=
  match net_init (Z.to_N n) with
  | None => v_parse
  | Some s0 =>
      let a := run_net_ops 0 s0 ops {| ns_parse := true; ns_viol := None; ns_diff := None; ns_vp := 0 |} in
      if negb (ns_parse a) then v_parse else
      match ns_viol a, ns_diff a with
      | Some d, _ => v_viol d
      | None, Some d => v_diff d
      | None, None => if 2 <=? ns_vp a then v_ok else v_triv
      end
  end.

Definition check (t : term) : term :=
  match t with
  | TL [TS "net"; TZ n; TL ops] => check_net n ops
  | _ => check_conn t
  end.
