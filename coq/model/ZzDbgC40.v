From Coq Require Import List NArith ZArith Bool String.
From Verif.lib Require Import Term.
From Verif.model Require Import Msgpack MsgpackCheck.
From Verif.gen Require Import Schemas.
Import ListNotations.
Open Scope N_scope.

(* path to first ill-typed node *)
Fixpoint why (s : schema) (v : value) {struct v} : list N :=
  if wtb env false s v then [] else
  match v with
  | VList l => match s with
               | SArray _ e | SSlice _ e =>
                  (fix go (l : list value) (i:N) := match l with [] => [1000] | x :: l' => if wtb env false e x then go l' (i+1) else i :: why e x end) l 0
               | _ => [2000] end
  | VMap l => match s with
              | SMap _ ks vs =>
                 (fix go (l : list (value*value)) (i:N) := match l with [] => [1001] | (k,x) :: l' => if wtb env false ks k then if wtb env false vs x then go l' (i+1) else i :: 1 :: why vs x else i :: 0 :: why ks k end) l 0
              | _ => [2001] end
  | VStruct vs => match s with
      | SStruct fs =>
          (fix go (fs : list (fhdr * schema)) (vs : list value) (i:N) {struct vs} : list N :=
             match fs, vs with
             | (h, fsch) :: fs', v :: vs' =>
                 if (match v with VDefault => f_oe h | _ => wtb env false fsch v end) then
                   if (negb (f_req h) || negb (is_zero env false fsch v)) then go fs' vs' (i+1) else [i; 3000]
                 else i :: why fsch v
             | [], [] => [1002]
             | _, _ => [i; 3001]
             end) fs vs 0
      | _ => [2002] end
  | VRef v' => match s with SRef id => match lookup env id with Some s' => 7000 + id :: why s' v' | None => [2003] end | _ => [2004] end
  | VSome v' => match s with SPtr e => why e v' | _ => [2005] end
  | _ => [9999]
  end.

Definition check (t : term) : term :=
  match t with
  | TL (TS kind :: TS nm :: tv :: _) =>
      match root_of nm, parse_value tv with
      | Some id, Some v => TL (map tn (why (SRef id) v))
      | _, _ => v_parse end
  | _ => v_parse end.
