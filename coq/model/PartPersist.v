(* C36, second anchored file: data/account/participation.go (+ RestoreParticipation in
   data/account/account.go, basics.OneTimeIDForRound).  The persistence layer on top of the key
   model of OneTimeSig.v.

   State of one participation key on one node:
     mem  / mkd : part.Voting (in-memory secrets) and part.KeyDilution of the PersistedParticipation
     disk / dkd : the `voting` blob (protocol.Encode of Voting.Snapshot()) and the keyDilution
                  column of the single ParticipationAccount row of the participation database
   Operations:
     PDel r D dbok = DeleteOldKeys(r, proto) with proto.DefaultKeyDilution = D, waiting on the
                     returned channel.  [dbok] is the environment: does Store.Atomic(UPDATE ...
                     SET voting=?) succeed.  The code deletes in memory FIRST
                     (Voting.DeleteBeforeFineGrained(OneTimeIDForRound(r,K),K)), then snapshots,
                     encodes, writes; the channel carries the error of the write.
     PRestart      = the process restarts: RestoreParticipation(store) decodes the blob into a
                     fresh OneTimeSignatureSecrets ([reload] = the msgpack round trip).
   A vote for round r is signed with Voting.Sign(OneTimeIDForRound(r,K), vote) and checked with
   VoteID.Verify(OneTimeIDForRound(r,K), vote, sig)  (agreement/vote.go).
   No proofs here. *)
From Coq Require Import NArith List Bool.
From Verif.model Require Import OneTimeSig.
Import ListNotations.
Open Scope N_scope.

(* basics.OneTimeIDForRound; K = 0 is an integer division by zero in Go (callers test K =? 0) *)
Definition id_of_round (r K : N) : ident := mkId (r / K) (r mod K).

(* keyDilution := part.KeyDilution; if 0 then proto.DefaultKeyDilution *)
Definition eff_kd (kd D : N) : N := if kd =? 0 then D else kd.

Record pstate := mkP { mem : secrets; mkd : N; disk : secrets; dkd : N }.

(* FillDBWithParticipationKeys(store, addr, fv, lv, K) with
   maxp = config.Consensus[current].MaxKeyregValidPeriod *)
Inductive fillres := FillErr | FillPanic | FillOk (p : pstate).
Definition fill_secrets (fv lv K : N) : secrets :=
  let f := fv / K in
  let l := lv / K in
  generate f (wadd (wsub l f) 1).
Definition fill (fv lv K maxp : N) : fillres :=
  if lv <? fv then FillErr
  else if negb (maxp =? 0) && (maxp <? lv - fv) then FillErr
  else if K =? 0 then FillPanic
  else let s := fill_secrets fv lv K in FillOk (mkP s K s K).   (* Persist(): INSERT row *)

Inductive pop := PDel (r D : N) (dbok : bool) | PRestart.
Inductive report := RNone | ROk | RErr | RPanic.

Definition pstep (p : pstate) (o : pop) : pstate * report :=
  match o with
  | PDel r D dbok =>
      let K := eff_kd (mkd p) D in
      if K =? 0 then (p, RPanic) else
      let m' := delete (mem p) (id_of_round r K) K in
      if dbok then (mkP m' (mkd p) m' (dkd p), ROk)          (* UPDATE ... SET voting = blob *)
      else (mkP m' (mkd p) (disk p) (dkd p), RErr)
  | PRestart => (mkP (reload (disk p)) (dkd p) (disk p) (dkd p), RNone)
  end.

Definition prun (p : pstate) (ops : list pop) : pstate :=
  fold_left (fun p o => fst (pstep p o)) ops p.

(* what a node restarted now would hold *)
Definition restored (p : pstate) : secrets := reload (disk p).

(* the operations without the restarts (the node that never restarts) *)
Definition no_restarts (ops : list pop) : list pop :=
  filter (fun o => match o with PRestart => false | _ => true end) ops.
Definition all_dbok (ops : list pop) : Prop :=
  Forall (fun o => match o with PDel _ _ ok => ok = true | PRestart => True end) ops.

Definition wf_pop (o : pop) : Prop :=
  match o with PDel r D _ => r < W /\ D < W | PRestart => True end.

(* rounds whose deletion was requested (whatever the report) *)
Definition del_rounds (ops : list pop) : list N :=
  flat_map (fun o => match o with PDel r _ _ => [r] | PRestart => [] end) ops.

(* Participation.OverlapsInterval(first, last): None = logging.Panicf *)
Definition overlaps (fv lv first last : N) : option bool :=
  if last <? first then None
  else if (last <? fv) || (lv <? first) then Some false
  else Some true.
