(* C24 model: group fee check and proposer payout.
   Transcribes (same case split / order of checks; Go uint64 arithmetic through the C45
   helpers of model/Overflow.v, which are imported, not copied):
     data/transactions/transaction.go  Transaction.feeFactor, Header.FeeContribution
     data/transactions/application.go  ApplicationCallTxnFields.feeContribution
     data/transactions/signedtxn.go    SignedTxn.FeeFactor, logicSigProgramFeeContribution,
                                       SummarizeFees
     ledger/eval/eval.go               CheckGroupFees, proposerPayout, validateForPayouts,
                                       performPayout (+ the two halves of roundCowState.Move)
     ledger/ledgercore/accountdata.go  AvailableBalance
     data/basics/userBalance.go        WithUpdatedRewards
   No proofs in this file. *)
From Coq Require Import NArith ZArith List Bool.
From Verif.model Require Import Overflow.
Import ListNotations.
Open Scope N_scope.

Definition micro : N := 1000000.

(* ---------------- fee factors ---------------- *)

(* Micros.MulInt(len - limit): a negative argument yields (0, overflow) and the callers drop
   the flag, so "below the limit" costs nothing *)
Definition surcharge (perByte : N) (extra : Z) : N := fst (microsMulInt perByte extra).

(* Header.FeeContribution *)
Definition header_contribution (perByte : N) (noteLen maxNote : Z) : N :=
  addsat 64 0 (surcharge perByte (noteLen - maxNote)).

(* ApplicationCallTxnFields.feeContribution; basicLimit = MaxAppTotalProgramLen*(1+MaxExtraAppProgramPages) *)
Definition app_contribution (perByte : N) (progBytes basicLimit argBytes maxArg : Z) : N :=
  let cost := addsat 64 0 (surcharge perByte (Z.max 0 (progBytes - basicLimit))) in
  addsat 64 cost (surcharge perByte (argBytes - maxArg)).

(* transaction types that feeFactor distinguishes *)
Inductive txkind := KOther | KStateProof | KHeartbeat | KAppCall.

(* Transaction.feeFactor.  [hbDiscount]: HeartbeatTxnFields != nil && HbChallengeDiscount;
   [singleton]: Group.IsZero(); TxnSizePricingEnabled() is perByte != 0. *)
Definition txn_fee_factor (k : txkind) (perByte : N) (noteLen maxNote : Z)
           (hbDiscount singleton : bool) (appc : N) : N :=
  let factor := addsat 64 micro (header_contribution perByte noteLen maxNote) in
  match k with
  | KStateProof => 0
  | KHeartbeat =>
      if negb (perByte =? 0) then
        (if hbDiscount then subsat 64 factor micro else factor)
      else if singleton then subsat 64 factor micro else factor
  | KAppCall => addsat 64 factor appc
  | KOther => factor
  end.

(* SignedTxn.FeeFactor; [sigc] = signatureFeeContribution (0, or the PQ scheme's table value) *)
Definition signed_fee_factor (sigc : N) (txf : N) : N := addsat 64 sigc txf.

(* logicSigProgramFeeContribution: Go ints; lengths are far below 2^63 so no wrap is modelled *)
Definition lsig_contribution (perByte : N) (progBytes : Z) (ntx : nat) (lsigMax : Z) : N :=
  surcharge perByte (progBytes - Z.of_nat ntx * lsigMax).

(* ---------------- SummarizeFees ---------------- *)
(* one entry per top-level transaction: (FeeFactor, Txn.Fee, len(Lsig.Logic)) *)
Definition gtx : Type := (N * N * Z)%type.
Definition g_factor (t : gtx) : N := fst (fst t).
Definition g_fee (t : gtx) : N := snd (fst t).
Definition g_lsig (t : gtx) : Z := snd t.

Definition summarize (perByte : N) (lsigMax : Z) (g : list gtx) : N * N :=
  let usage := fold_left (fun u t => addsat 64 u (g_factor t)) g 0 in
  let paid := fold_left (fun p t => addsat 64 p (g_fee t)) g 0 in
  let prog := fold_left (fun s t => (s + g_lsig t)%Z) g 0%Z in
  (addsat 64 usage (lsig_contribution perByte prog (length g) lsigMax), paid).

(* ---------------- CheckGroupFees ---------------- *)
Inductive gfres := GFOk | GFOverflow | GFTooLow (needed : N).

Definition check_group_fees (paid usage minFee : N) : gfres :=
  let '(needed, _, o) := feeForUsage minFee usage micro 0 in
  if o then GFOverflow
  else if paid <? needed then GFTooLow needed
  else GFOk.

(* the two calls as made by BlockEvaluator.TransactionGroup *)
Definition group_fee_check (minFee perByte : N) (lsigMax : Z) (g : list gtx) : N * N * gfres :=
  let '(usage, paid) := summarize perByte lsigMax g in
  (usage, paid, check_group_fees paid usage minFee).

(* ---------------- proposer payout ---------------- *)
(* AccountData.AvailableBalance; [minbal] is the account's MinBalance(proto) (formula: C21) *)
Definition available_balance (bal minbal : N) : N :=
  let '(rest, o) := osub 64 bal minbal in if o then 0 else rest.

Inductive ppres := PPOk (amount : N) | PPErrBonus | PPPanic.

(* proposerPayout: NewPercent(pct) = NewFraction(pct, 100) panics on an improper fraction
   (pct > 100, a misconfiguration); DivvyAlgos(fees) (panics on overflow, impossible for a
   proper fraction), OAddA bonus, MinA with the sink's available balance *)
Definition proposer_payout (pct fees bonus sinkBal sinkMin : N) : ppres :=
  if 100 <? pct then PPPanic else
  match divvy pct 100 fees with
  | None => PPPanic
  | Some (incentive, _) =>
      let '(total, o) := oadd 64 incentive bonus in
      if o then PPErrBonus
      else PPOk (N.min total (available_balance sinkBal sinkMin))
  end.

(* validateForPayouts result: error classes in the order of the Go returns *)
Inductive vpres :=
| VPOk
| VPFeesWhenDisabled | VPProposerWhenDisabled | VPPayoutWhenDisabled
| VPFeesWrong | VPBonusOverflow | VPTooMuch (allowed : N)
| VPProposerMissing | VPProposerClosed
| VPPanic.

Record payout_in := mkPI {
  pi_enabled : bool;        (* proto.Payouts.Enabled *)
  pi_pct : N;               (* proto.Payouts.Percent *)
  pi_hdr_fees : N;          (* block.FeesCollected *)
  pi_state_fees : N;        (* eval.state.feesCollected *)
  pi_bonus : N;             (* block.Bonus *)
  pi_sink : N;              (* fee sink MicroAlgos (without pending rewards) *)
  pi_sink_min : N;          (* fee sink MinBalance(proto) *)
  pi_payout : N;            (* block.ProposerPayout *)
  pi_prop_zero : bool;      (* block.Proposer.IsZero() *)
  pi_generate : bool;       (* eval.generate *)
  pi_prop_closed : bool     (* the proposer's AccountData IsZero() *)
}.

Definition validate_for_payouts (i : payout_in) : vpres :=
  if negb (pi_enabled i) then
    if negb (pi_hdr_fees i =? 0) then VPFeesWhenDisabled
    else if negb (pi_prop_zero i) then VPProposerWhenDisabled
    else if negb (pi_payout i =? 0) then VPPayoutWhenDisabled
    else VPOk
  else if negb (pi_hdr_fees i =? pi_state_fees i) then VPFeesWrong
  else match proposer_payout (pi_pct i) (pi_hdr_fees i) (pi_bonus i) (pi_sink i) (pi_sink_min i) with
       | PPPanic => VPPanic
       | PPErrBonus => VPBonusOverflow
       | PPOk expected =>
           if expected <? pi_payout i then VPTooMuch expected
           else if negb (pi_generate i) then
             if pi_prop_zero i then VPProposerMissing
             else if negb (pi_payout i =? 0) then
               (if pi_prop_closed i then VPProposerClosed else VPOk)
             else VPOk
           else VPOk
       end.

(* WithUpdatedRewards, balance component only.  status 2 = NotParticipating.
   None = logging.Panicf (overflow while applying rewards); a zero rewardUnit is a Go
   division-by-zero panic as well. *)
Definition with_rewards (unit status algos base level : N) : option N :=
  if status =? 2 then Some algos
  else if unit =? 0 then None
  else
    let units := algos / unit in
    let '(delta, o1) := osub 64 level base in
    let '(rewards, o2) := omul 64 units delta in
    let '(out, o3) := oadd 64 algos rewards in
    if o1 || o2 || o3 then None else Some out.

Inductive pfres :=
| PFNoop                      (* nothing moved: no proposer, or zero payout *)
| PFMoved (sink' prop' : N)
| PFOverspend | PFOverflow | PFPanic.

(* performPayout = Move(FeeSink, proposer, payout) when there is a proposer and a non-zero
   payout.  [sinkUp]/[propUp]: the two balances after WithUpdatedRewards.
   Modelled for proposer <> FeeSink (a proposer equal to the sink is not an account that can
   hold participation keys). *)
Definition perform_payout (propZero : bool) (payout : N) (sinkUp propUp : option N) : pfres :=
  if propZero then PFNoop
  else if payout =? 0 then PFNoop
  else match sinkUp with
       | None => PFPanic
       | Some s =>
           let '(s', o) := osub 64 s payout in
           if o then PFOverspend
           else match propUp with
                | None => PFPanic
                | Some p =>
                    let '(p', o2) := oadd 64 p payout in
                    if o2 then PFOverflow else PFMoved s' p'
                end
       end.
