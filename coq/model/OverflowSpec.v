(* C45: the property as closed-form unbounded arithmetic ("the true result"), and the
   executable checker used on implementation observations.  No proofs here. *)
From Coq Require Import NArith ZArith List Bool String.
From Verif.lib Require Import Term.
From Verif.model Require Import Overflow.
Import ListNotations.
Open Scope N_scope.

(* --- what the property says, over unbounded N / Z --- *)
Definition spec_oadd (w a b : N) : N * bool := ((a + b) mod 2 ^ w, 2 ^ w <=? a + b).
Definition spec_osub (w a b : N) : N * bool := ((a + 2 ^ w - b) mod 2 ^ w, a <? b).
Definition spec_omul (w a b : N) : N * bool :=
  if 2 ^ w <=? a * b then (0, true) else (a * b, false).
Definition spec_addsat (w a b : N) : N := N.min (a + b) (2 ^ w - 1).
Definition spec_subsat (w a b : N) : N := a - b.            (* truncated subtraction on N *)
Definition spec_mulsat (w a b : N) : N := N.min (a * b) (2 ^ w - 1).
Definition spec_divceil (w n d : N) : option N :=
  if d =? 0 then None else Some (((n + d + 2 ^ w - 1) mod 2 ^ w) / d).
Definition spec_odiff (a b : N) : Z * bool :=
  let d := (Z.of_N a - Z.of_N b)%Z in
  if ((d <? - 2 ^ 63) || (2 ^ 63 - 1 <? d))%Z then (0%Z, true) else (d, false).
Definition spec_muldiv (a b c : N) : N * N * bool :=
  if c =? 0 then (0, 0, true)
  else if 2 ^ 64 <=? (a * b) / c then (0, 0, true)
  else ((a * b) / c, (a * b) mod c, false).
Definition spec_mul2div (a b c d : N) : N * N * bool :=
  if d =? 0 then (2 ^ 64 - 1, 0, true)
  else if 2 ^ 64 <=? (a * b * c) / d then (2 ^ 64 - 1, 0, true)
  else ((a * b * c) / d, (a * b * c) mod d, false).
Definition spec_sat_scaled (x : N) : N * bool := (N.min x (2 ^ 64 - 1), 2 ^ 64 <=? x).
Definition spec_microsMul (m m2 : N) : N * bool := spec_sat_scaled ((m * m2) / 1000000).
Definition spec_microsMulInt (m : N) (i : Z) : N * bool :=
  if (i <? 0)%Z then (0, true) else spec_sat_scaled (m * Z.to_N i).
(* Divvy on a proper fraction never panics: first = floor(q*num/den), first+second = q *)
Definition spec_divvy (num den q : N) : option (N * N) :=
  if den =? 0 then None
  else if 2 ^ 64 <=? (q * num) / den then None
  else Some ((q * num) / den, (q + 2 ^ 64 - (q * num) / den) mod 2 ^ 64).
(* FeeForUsage: accounting identity fee*S + residue = exact + residue' with residue' < S,
   fee in {floor, floor+1}; checked on the observation rather than recomputed *)
Definition fee_ok (base usage mult residue fee res' : N) (o : bool) : bool :=
  let exact := base * usage * mult in
  let S := feeResidueScale in
  if o then (fee =? 2 ^ 64 - 1) && (res' =? residue) &&
            ((2 ^ 64 <=? exact / S) || ((exact / S =? 2 ^ 64 - 1) && (residue <? exact mod S)))
  else (fee * S + residue =? exact + res') && (res' <? S) && (fee <? 2 ^ 64) &&
       ((fee =? exact / S) || (fee =? exact / S + 1)) &&
       (* rounds up only when the residue cannot absorb the fraction *)
       (if exact mod S <=? residue then fee =? exact / S else fee =? exact / S + 1).

(* --- observation encodings --- *)
Definition t_nb (p : N * bool) : list term := [tn (fst p); tb (snd p)].
Definition t_optn (o : option N) : term := match o with Some n => tn n | None => TZ (-1) end.

Definition obs_generic (f_oadd f_osub f_omul : N -> N -> N -> N * bool)
           (f_as f_ss f_ms : N -> N -> N -> N) (f_dc : N -> N -> N -> option N) (w a b : N) : term :=
  TL (t_nb (f_oadd w a b) ++ t_nb (f_osub w a b) ++ t_nb (f_omul w a b) ++
      [tn (f_as w a b); tn (f_ss w a b); tn (f_ms w a b); t_optn (f_dc w a b)]).

Definition model_generic := obs_generic oadd osub omul addsat subsat mulsat divceil.
Definition spec_generic := obs_generic spec_oadd spec_osub spec_omul spec_addsat spec_subsat spec_mulsat spec_divceil.

Definition t_nnb (p : N * N * bool) : term := let '(q, r, o) := p in TL [tn q; tn r; tb o].
Definition t_zb (p : Z * bool) : term := TL [TZ (fst p); tb (snd p)].
Definition t_divvy (o : option (N * N)) : term :=
  match o with None => TL [TZ 1; TZ 0; TZ 0] | Some (f, s) => TL [TZ 0; tn f; tn s] end.

Definition lt64 (x : N) : bool := x <? 2 ^ 64.

(* [check]: case = (kind args... obs); see harness/go/data/basics/zz_verif_c45_test.go *)
Definition check (t : term) : term :=
  match t with
  | TL [TS "g"; TZ w; TZ a; TZ b; obs] =>
      let w := Z.to_N w in let a := Z.to_N a in let b := Z.to_N b in
      if negb ((a <? 2 ^ w) && (b <? 2 ^ w)) then v_parse else
      let m := model_generic w a b in
      verdict (term_eqb obs (spec_generic w a b)) (term_eqb obs m)
              (negb (a =? 0) && negb (b =? 0)) m
  | TL [TS "odiff"; TZ a; TZ b; obs] =>
      let a := Z.to_N a in let b := Z.to_N b in
      if negb (lt64 a && lt64 b) then v_parse else
      let m := t_zb (odiff a b) in
      verdict (term_eqb obs (t_zb (spec_odiff a b))) (term_eqb obs m) true m
  | TL [TS "muldiv"; TZ a; TZ b; TZ c; obs] =>
      let a := Z.to_N a in let b := Z.to_N b in let c := Z.to_N c in
      if negb (lt64 a && lt64 b && lt64 c) then v_parse else
      let m := t_nnb (muldiv a b c) in
      verdict (term_eqb obs (t_nnb (spec_muldiv a b c))) (term_eqb obs m) true m
  | TL [TS "mul2div"; TZ a; TZ b; TZ c; TZ d; obs] =>
      let a := Z.to_N a in let b := Z.to_N b in let c := Z.to_N c in let d := Z.to_N d in
      if negb (lt64 a && lt64 b && lt64 c && lt64 d) then v_parse else
      let m := t_nnb (mul2div a b c d) in
      (* d = 0: Go divides by zero only if it reaches Div64; the model returns overflow *)
      verdict (term_eqb obs (t_nnb (spec_mul2div a b c d))) (term_eqb obs m) true m
  | TL [TS "fee"; TZ ba; TZ us; TZ mu; TZ re; TL [TZ fee; TZ res'; TZ o]] =>
      let ba := Z.to_N ba in let us := Z.to_N us in let mu := Z.to_N mu in let re := Z.to_N re in
      if negb (lt64 ba && lt64 us && lt64 mu && (re <? feeResidueScale)) then v_parse else
      let m := t_nnb (feeForUsage ba us mu re) in
      verdict (fee_ok ba us mu re (Z.to_N fee) (Z.to_N res') (Z.eqb o 1))
              (term_eqb (TL [TZ fee; TZ res'; TZ o]) m) true m
  | TL [TS "divvy"; TZ num; TZ den; TZ q; obs] =>
      let num := Z.to_N num in let den := Z.to_N den in let q := Z.to_N q in
      if negb (lt64 num && lt64 den && lt64 q) then v_parse else
      let m := t_divvy (divvy num den q) in
      verdict (term_eqb obs (t_divvy (spec_divvy num den q))) (term_eqb obs m) true m
  | TL [TS "mmul"; TZ a; TZ b; obs] =>
      let a := Z.to_N a in let b := Z.to_N b in
      if negb (lt64 a && lt64 b) then v_parse else
      let m := TL (t_nb (microsMul a b)) in
      verdict (term_eqb obs (TL (t_nb (spec_microsMul a b)))) (term_eqb obs m) true m
  | TL [TS "mulmicros"; TZ a; TZ b; obs] =>
      let a := Z.to_N a in let b := Z.to_N b in
      if negb (lt64 a && lt64 b) then v_parse else
      let m := TL (t_nb (mulMicros a b)) in
      verdict (term_eqb obs (TL (t_nb (spec_microsMul a b)))) (term_eqb obs m) true m
  | TL [TS "mmulint"; TZ a; TZ i; obs] =>
      let a := Z.to_N a in
      if negb (lt64 a && (- 2 ^ 63 <=? i)%Z && (i <? 2 ^ 63)%Z) then v_parse else
      let m := TL (t_nb (microsMulInt a i)) in
      verdict (term_eqb obs (TL (t_nb (spec_microsMulInt a i)))) (term_eqb obs m) true m
  | _ => v_parse
  end.
