(* C29  Group and block commitments bind their contents.
   Executable transcription of
     /repo/data/transactions/checks.go     checkTxnGroupID, hashTxGroup (TxGroup msgpack encoding)
     /repo/ledger/eval/eval.go             the group-id part of TransactionGroup / TestTransactionGroup
                                           (the loop itself, with the authorizer check, is
                                           [eval_txgroup] in model/TxnAuth.v)
     /repo/data/transactions/payset.go     Payset.CommitFlat
     /repo/data/bookkeeping/txn_merkle.go  txnMerkleArray / txnMerkleElem (leaf contents)
     /repo/crypto/merklearray              Build / BuildVectorCommitmentTree / Root (layer hashing
                                           with pair.ToBeHashed's zero-initialised 2*size buffer)
     /repo/data/bookkeeping/block.go       PaysetCommit, paysetCommit, paysetCommitSHA256/512,
                                           ContentsMatchHeader, BlockHeader.PreCheck (round, branch,
                                           branch512; the remaining header rules are an oracle bit)

   Hash functions are ABSTRACT: [H k pre] is the digest of the byte string [pre] under hash
   kind k (0 = SHA-512/256 = crypto.Hash, 1 = SHA-256, 2 = SHA-512).  The canonical msgpack
   encodings of transactions, SignedTxnInBlock values and block headers are inputs (byte
   strings; their canonicity is C40); the encodings that the commitments themselves add
   (TxGroup map, payset array, domain-separation prefixes, Merkle layers) are modelled
   byte-exactly.  No proofs here. *)
From Coq Require Import String Ascii NArith ZArith List Bool.
Import ListNotations.
From Verif.lib Require Import Term.
Open Scope N_scope.

Definition bytes := list N.
Definition beqb : bytes -> bytes -> bool := list_eqb N.eqb.
Definition all_zero (b : bytes) : bool := forallb (N.eqb 0) b.
Definition zeros (n : nat) : bytes := repeat 0 n.
Definition str (s : string) : bytes := map N_of_ascii (list_ascii_of_string s).
Definition blen {A} (b : list A) : N := N.of_nat (length b).

(* hash kinds *)
Definition K512_256 : N := 0.
Definition K256 : N := 1.
Definition K512 : N := 2.
Definition dsize (k : N) : nat := if k =? 2 then 64%nat else 32%nat.

(* msgp.AppendArrayHeader *)
Definition arr_hdr (n : N) : bytes :=
  if n <? 16 then [144 + n]
  else if n <? 65536 then [220; n / 256; n mod 256]
  else [221; (n / 16777216) mod 256; (n / 65536) mod 256; (n / 256) mod 256; n mod 256].

(* ------------------------------------------------------------------------------------- *)
(* Transaction groups                                                                     *)

(* what the group rules read of a transaction: the Group field and the canonical encoding of
   the transaction with the Group field blanked (whose hash, prefixed "TX", is the member's
   entry in TxGroup.TxGroupHashes) *)
Record gtx : Type := mkGtx { g_grp : bytes; g_body : bytes }.

Inductive gres : Type :=
| GOk
| GErrEmpty (i : N)          (* TxGroupMalformedErrorReasonEmptyGroupID, index in the message *)
| GErrInconsistent (i : N)   (* ...InconsistentGroupID (index only reported by checkTxnGroupID) *)
| GErrIncomplete.            (* ...IncompleteGroup *)

Section Hash.
  Variable H : N -> bytes -> bytes.

  Definition txid_of (k : N) (enc : bytes) : bytes := H k (str "TX" ++ enc).

  (* protocol.Encode(TxGroup{TxGroupHashes: ids}): map with the single key "txlist"
     (omitempty: an empty list gives the empty map), digests as bin8 of length 32 *)
  Definition enc_txgroup (ids : list bytes) : bytes :=
    match ids with
    | [] => [128]
    | _ => [129; 166] ++ str "txlist" ++ arr_hdr (blen ids) ++
           flat_map (fun d => [196; 32] ++ d) ids
    end.

  Definition group_hash (ids : list bytes) : bytes := H K512_256 (str "TG" ++ enc_txgroup ids).
  Definition member_ids (g : list gtx) : list bytes := map (fun t => txid_of K512_256 (g_body t)) g.

  Fixpoint first_index {A} (f : A -> bool) (l : list A) (i : N) : option N :=
    match l with
    | [] => None
    | x :: r => if f x then Some i else first_index f r (i + 1)
    end.

  (* transactions.checkTxnGroupID (used by CheckTxnGroup / CheckPaysetGroup) *)
  Definition check_group_id (g : list gtx) : gres :=
    match g with
    | [] => GOk
    | t0 :: _ =>
        if all_zero (g_grp t0) then
          (if (length g =? 1)%nat then GOk else GErrEmpty 0)
        else
          match first_index (fun t => negb (beqb (g_grp t) (g_grp t0))) g 0 with
          | Some i => GErrInconsistent i
          | None => if beqb (g_grp t0) (group_hash (member_ids g)) then GOk else GErrIncomplete
          end
    end.

  (* the group bookkeeping that BlockEvaluator.TransactionGroup / TestTransactionGroup do for
     member number i right after processing it: n = len(txgroup), g0 = txgroup[0].Txn.Group,
     acc = group.TxGroupHashes so far (in order) *)
  Definition group_member_step (n : nat) (g0 : bytes) (i : N) (acc : list bytes) (t : gtx)
    : list bytes + gres :=
    if negb (beqb (g_grp t) g0) then inr (GErrInconsistent i)
    else if negb (all_zero (g_grp t)) then inl (acc ++ [txid_of K512_256 (g_body t)])
    else if (1 <? n)%nat then inr (GErrEmpty i)
    else inl acc.

  (* after the loop: "if group.TxGroupHashes != nil" *)
  Definition group_final (g0 : bytes) (acc : list bytes) : gres :=
    match acc with
    | [] => GOk
    | _ => if beqb g0 (group_hash acc) then GOk else GErrIncomplete
    end.

  (* BlockEvaluator.TestTransactionGroup: size rule, then per member testTransaction (alive /
     duplicate against the evaluator state: an oracle bit) and the same group bookkeeping
     (Transaction.WellFormed, checked in between, is not modelled) *)
  Inductive tres : Type := TOk | TErrTooBig | TErrPre (i : N) | TErrGroup (g : gres).

  Fixpoint test_loop (n : nat) (g0 : bytes) (i : N) (acc : list bytes) (l : list (gtx * bool)) : tres :=
    match l with
    | [] => match group_final g0 acc with GOk => TOk | e => TErrGroup e end
    | (t, pre) :: r =>
        if negb pre then TErrPre i else
        match group_member_step n g0 i acc t with
        | inr e => TErrGroup e
        | inl acc' => test_loop n g0 (i + 1) acc' r
        end
    end.

  Definition test_txgroup (maxgroup : N) (g : list (gtx * bool)) : tres :=
    match g with
    | [] => TOk
    | (t0, _) :: _ => if maxgroup <? blen g then TErrTooBig
                      else test_loop (length g) (g_grp t0) 0 [] g
    end.

  (* ----------------------------------------------------------------------------------- *)
  (* Payset commitments                                                                   *)

  (* one payset entry: the msgpack encoding of the SignedTxnInBlock, and the canonical
     encoding of the transaction that BlockHeader.DecodeSignedTxn reconstructs from it
     (None: DecodeSignedTxn fails) *)
  Record stib : Type := mkStib { s_enc : bytes; s_txn : option bytes }.

  (* protocol.Encode(payset) with "len(payset) == 0 => nil" *)
  Definition enc_payset (ps : list stib) : bytes :=
    match ps with
    | [] => [192]
    | _ => arr_hdr (blen ps) ++ flat_map s_enc ps
    end.
  Definition commit_flat (ps : list stib) : bytes := H K512_256 (str "PF" ++ enc_payset ps).

  (* pair.ToBeHashed: buf := make([]byte, 2*size); copy(buf, l); copy(buf[len(l):], r) *)
  Definition pairbuf (s : nat) (l r : bytes) : bytes := firstn (2 * s) (l ++ r ++ zeros (2 * s)).
  Definition hnode (k : N) (l r : bytes) : bytes := H k (str "MA" ++ pairbuf (dsize k) l r).

  Fixpoint next_layer (k : N) (l : list bytes) : list bytes :=
    match l with
    | [] => []
    | a :: rest => match rest with
                   | [] => [hnode k a []]
                   | b :: rest2 => hnode k a b :: next_layer k rest2
                   end
    end.

  (* buildLayers: "for len(topLayer) > 1 { buildNextLayer }", then Root() = topLayer[0] *)
  Fixpoint mroot (fuel : nat) (k : N) (l : list bytes) : bytes :=
    match fuel with
    | O => hd [] l
    | S f => if (length l <=? 1)%nat then hd [] l else mroot f k (next_layer k l)
    end.
  Definition merkle_root (k : N) (leaves : list bytes) : bytes := mroot (length leaves) k leaves.

  (* txnMerkleElem: "TL" || txid || hash(stib); the SHA-256 and the SHA-512 trees both put
     SHA-256 digests into the leaf (RawLeaf's else branch) *)
  Definition inner_kind (k : N) : N := if k =? 0 then K512_256 else K256.
  Definition txn_leaf (k : N) (s : stib) : option bytes :=
    match s_txn s with
    | None => None
    | Some t => Some (H k (str "TL" ++ txid_of (inner_kind k) t ++
                           H (inner_kind k) (str "STIB" ++ s_enc s)))
    end.

  Fixpoint leaves_of (k : N) (ps : list stib) : option (list bytes) :=
    match ps with
    | [] => Some []
    | s :: r => match txn_leaf k s, leaves_of k r with
                | Some x, Some xs => Some (x :: xs)
                | _, _ => None
                end
    end.

  (* vector commitment: generateVectorCommitmentArray / vectorCommitmentArray.Marshal *)
  Fixpoint rev_bits (w : nat) (i : N) : N :=
    match w with
    | O => 0
    | S w' => (i mod 2) * 2 ^ N.of_nat w' + rev_bits w' (i / 2)
    end.
  Definition vc_shape (n : N) : N * N :=
    if n <=? 1 then (1, 1) else let p := N.size (n - 1) in (p, 2 ^ p).
  Definition bottom_leaf (k : N) : bytes := H k (str "MB").
  Definition vc_leaves (k : N) (leaves : list bytes) : list bytes :=
    let '(pathLen, padded) := vc_shape (blen leaves) in
    map (fun pos => nth (N.to_nat (rev_bits (N.to_nat pathLen) (N.of_nat pos))) leaves (bottom_leaf k))
        (seq 0 (N.to_nat padded)).
  Definition vc_root (k : N) (leaves : list bytes) : bytes := merkle_root k (vc_leaves k leaves).

  (* "var rootAsByteArray Digest; copy(rootAsByteArray[:], rootSlice)" *)
  Definition fit (s : nat) (b : bytes) : bytes := firstn s (b ++ zeros s).

  Record cparams : Type := mkCParams {
    c_proto_ok : bool;      (* config.Consensus[block.CurrentProtocol] exists *)
    c_type : N;             (* params.PaysetCommit: 1 = flat, 2 = Merkle, else unsupported *)
    c_sha256 : bool;        (* EnableSHA256TxnCommitmentHeader *)
    c_sha512 : bool         (* EnableSha512BlockHash *)
  }.

  Record commitments : Type := mkCommit { cm_native : bytes; cm_sha256 : bytes; cm_sha512 : bytes }.

  Definition native_commit (ty : N) (ps : list stib) : option bytes :=
    if ty =? 1 then Some (commit_flat ps)
    else if ty =? 2 then
      match leaves_of K512_256 ps with
      | None => None
      | Some lv => Some (fit 32 (merkle_root K512_256 lv))
      end
    else None.

  (* Block.PaysetCommit *)
  Definition payset_commit (p : cparams) (ps : list stib) : option commitments :=
    if negb (c_proto_ok p) then None else
    match native_commit (c_type p) ps with
    | None => None
    | Some nat_ =>
        match (if c_sha256 p
               then match leaves_of K256 ps with
                    | None => None
                    | Some lv => Some (fit 32 (vc_root K256 lv))
                    end
               else Some (zeros 32)) with
        | None => None
        | Some d256 =>
            match (if c_sha512 p
                   then match leaves_of K512 ps with
                        | None => None
                        | Some lv => Some (fit 64 (vc_root K512 lv))
                        end
                   else Some (zeros 64)) with
            | None => None
            | Some d512 => Some (mkCommit nat_ d256 d512)
            end
        end
    end.

  Definition commit_eqb (a b : commitments) : bool :=
    beqb (cm_native a) (cm_native b) && beqb (cm_sha256 a) (cm_sha256 b) &&
    beqb (cm_sha512 a) (cm_sha512 b).

  (* Block.ContentsMatchHeader *)
  Definition contents_match (p : cparams) (ps : list stib) (hdr : commitments) : bool :=
    match payset_commit p ps with
    | None => false
    | Some c => commit_eqb c hdr
    end.

  (* ----------------------------------------------------------------------------------- *)
  (* BlockHeader.PreCheck                                                                 *)
  Record pcin : Type := mkPc {
    pc_proto_ok : bool;      (* config.Consensus[bh.CurrentProtocol] exists *)
    pc_sha512 : bool;        (* params.EnableSha512BlockHash *)
    pc_prev_round : N;
    pc_round : N;
    pc_branch : bytes;       (* bh.Branch *)
    pc_branch512 : bytes;    (* bh.Branch512 *)
    pc_prev_enc : bytes;     (* protocol.Encode(&prev) *)
    pc_rest_ok : bool        (* upgrade state, timestamp, bonus, congestion tax, load, genesis id/hash *)
  }.

  Inductive pres : Type := POk | PErrProto | PErrRound | PErrBranch | PErrBranch512 | PErrBranch512NotAllowed | PErrOther.

  Definition header_hash (k : N) (enc : bytes) : bytes := H k (str "BH" ++ enc).

  Definition precheck (i : pcin) : pres :=
    if negb (pc_proto_ok i) then PErrProto
    else if negb (((pc_prev_round i + 1) mod 2 ^ 64) =? pc_round i) then PErrRound
    else if negb (beqb (pc_branch i) (header_hash K512_256 (pc_prev_enc i))) then PErrBranch
    else if pc_sha512 i && negb (beqb (pc_branch512 i) (header_hash K512 (pc_prev_enc i))) then PErrBranch512
    else if negb (pc_sha512 i) && negb (beqb (pc_branch512 i) (zeros 64)) then PErrBranch512NotAllowed
    else if negb (pc_rest_ok i) then PErrOther
    else POk.
End Hash.

(* ------------------------------------------------------------------------------------- *)
(* recorded hash outcomes: the harness lists (kind, preimage, digest) for every hash the real
   code computed on the case; a preimage that is not listed gets the empty digest (which is no
   digest of any real hash, so every comparison with it fails) *)
Definition htab := list (N * bytes * bytes).
Fixpoint hlookup (tab : htab) (k : N) (pre : bytes) : bytes :=
  match tab with
  | [] => []
  | (k', p, d) :: r => if (k =? k') && beqb pre p then d else hlookup r k pre
  end.
