(* C33: the binary instruction layer of the TEAL assembler / disassembler
   (data/transactions/logic/assembler.go), over the regenerated opcode tables.

   Part 1 (Section Codec, parametric in the dispatch table and the field groups):
     - encoding/binary.PutUvarint / Uvarint / PutVarint / Varint, the int16 big-endian branch
       offset (decodeBranchOffset / resolveLabels);
     - an abstract instruction = the OpSpec it denotes (opcode byte, sub-opcode byte) + one
       immediate value per entry of the spec's Immediates, typed by the immediate's kind;
     - [enc_instr] = what asmDefault / asmPushInt / asmPushBytes / asmIntImmArgs /
       asmByteImmArgs / asmBranch2B / asmBranchVarint / asmSwitch emit once labels are
       resolved; [dec_instr] = what disassembleInstrumented + disassemble read (spec selection
       incl. SubOps, per-kind immediates decoding, parseIntImmArgs, parseByteImmArgs,
       parseLabels), transcribed check by check.  [strict] = true additionally demands the
       minimal ("canonical") encoding of every uvarint and the spec's own opcode/sub bytes.
   Part 2: the label layer of the assembler on symbolic programs (labels = instruction
     indices): the per-instruction assemble functions (asmArg, asmIntC, asmByteC, asmSubstring,
     asmItxnField, the constant blocks with the dead-code rule), findBranchSizes (shrinking of
     varint branch placeholders to a fixpoint), resolveLabels, the version prefix, the
     off-curve salt; and the label layer of the disassembler (targets -> labels).
   No proofs here. *)
From Coq Require Import List NArith ZArith String Bool Arith.
From Verif.model Require Import AvmTypes.
Import ListNotations.
Open Scope N_scope.

(* ------------------------------------------------------------------ small helpers *)
Definition nlen {A} (l : list A) : N := N.of_nat (List.length l).

Fixpoint list_eqb {A} (eqb : A -> A -> bool) (l1 l2 : list A) : bool :=
  match l1, l2 with
  | [], [] => true
  | x :: xs, y :: ys => eqb x y && list_eqb eqb xs ys
  | _, _ => false
  end.

(* [take_n n l] = Some (first n elements, rest) when l is long enough *)
Fixpoint take_n {A} (n : nat) (l : list A) : option (list A * list A) :=
  match n with
  | O => Some ([], l)
  | S k => match l with
           | [] => None
           | x :: r => match take_n k r with
                       | Some (a, b) => Some (x :: a, b)
                       | None => None
                       end
           end
  end.

(* ------------------------------------------------------------------ varints *)
(* binary.PutUvarint: "for x >= 0x80 { buf[i] = byte(x) | 0x80; x >>= 7; i++ }; buf[i] = byte(x)"
   (byte(x)|0x80 = 128 + x mod 128).  10 iterations cover every x < 2^70. *)
Fixpoint put_uvarint_f (fuel : nat) (x : N) : list N :=
  match fuel with
  | O => [x]
  | S f => if x <? 128 then [x] else (128 + x mod 128) :: put_uvarint_f f (x / 128)
  end.
Definition put_uvarint (x : N) : list N := put_uvarint_f 9 x.

(* binary.Uvarint on buf; None = "n <= 0" (buffer too small or 64-bit overflow), otherwise the
   value and the unread rest.  x | uint64(b&0x7f)<<s is written x + (b mod 128) * 2^s: the
   bits are disjoint (s = 7i, x < 2^s) and nothing wraps below the overflow rule. *)
Fixpoint uvarint_go (buf : list N) (i : nat) (x s : N) : option (N * list N) :=
  match buf with
  | [] => None
  | b :: rest =>
      if Nat.eqb i 10 then None
      else if b <? 128 then
             if Nat.eqb i 9 && (1 <? b) then None
             else Some (x + b * 2 ^ s, rest)
           else uvarint_go rest (S i) (x + (b mod 128) * 2 ^ s) (s + 7)
  end.

(* [strict]: also require that the bytes read are the minimal encoding of the value *)
Definition get_uvarint (strict : bool) (buf : list N) : option (N * list N) :=
  match uvarint_go buf 0 0 0 with
  | None => None
  | Some (x, rest) =>
      if strict && negb (list_eqb N.eqb (put_uvarint x ++ rest) buf) then None
      else Some (x, rest)
  end.

(* binary.PutVarint / Varint (zig-zag) for an int64 *)
Definition zigzag (z : Z) : N :=
  if (z <? 0)%Z then Z.to_N (- 2 * z - 1) else Z.to_N (2 * z).
Definition unzigzag (u : N) : Z :=
  if N.odd u then (- Z.of_N (u / 2) - 1)%Z else Z.of_N (u / 2).
Definition put_varint (z : Z) : list N := put_uvarint (zigzag z).
Definition get_varint (strict : bool) (buf : list N) : option (Z * list N) :=
  match get_uvarint strict buf with
  | None => None
  | Some (u, rest) => Some (unzigzag u, rest)
  end.

(* int16 big-endian: "raw[p] = uint8(jump >> 8); raw[p+1] = uint8(jump & 0xff)" and
   decodeBranchOffset *)
Definition enc_i16 (off : Z) : list N :=
  let u := Z.to_N (off mod 65536) in [u / 256; u mod 256].
Definition dec_i16 (b0 b1 : N) : Z :=
  let u := (Z.of_N b0 * 256 + Z.of_N b1)%Z in
  if (32768 <=? u)%Z then (u - 65536)%Z else u.
Definition i16_ok (off : Z) : bool := ((-32768 <=? off) && (off <=? 32767))%Z.
Definition i64_ok (off : Z) : bool :=
  ((- 9223372036854775808 <=? off) && (off <=? 9223372036854775807))%Z.
Definition u64_ok (n : N) : bool := n <? 18446744073709551616.

(* ------------------------------------------------------------------ abstract instructions *)
(* one value per immediate; immByte and immInt8 both hold the raw byte *)
Inductive immv : Type :=
| VByte (b : N)
| VLabel (off : Z)               (* immLabel: int16, relative to the end of the instruction *)
| VVLabel (off : Z)              (* immVarintLabel: zig-zag varint *)
| VInt (n : N)
| VBytes (bs : list N)
| VInts (l : list N)
| VBytess (l : list (list N))
| VLabels (l : list Z).          (* immLabels: count byte + int16s *)

Record instr : Type := mkI { i_op : N; i_sub : N; i_imms : list immv }.

Definition enc_bytes (bs : list N) : list N := put_uvarint (nlen bs) ++ bs.

Definition enc_imm (x : immv) : list N :=
  match x with
  | VByte b => [b]
  | VLabel off => enc_i16 off
  | VVLabel off => put_varint off
  | VInt n => put_uvarint n
  | VBytes bs => enc_bytes bs
  | VInts l => put_uvarint (nlen l) ++ flat_map put_uvarint l
  | VBytess l => put_uvarint (nlen l) ++ flat_map enc_bytes l
  | VLabels l => nlen l :: flat_map enc_i16 l
  end.

Definition enc_instr (i : instr) : list N :=
  i_op i :: (if i_sub i =? 0 then [] else [i_sub i]) ++ flat_map enc_imm (i_imms i).

Definition enc_instrs (p : list instr) : list N := flat_map enc_instr p.
Definition enc_prog (v : N) (p : list instr) : list N := put_uvarint v ++ enc_instrs p.

(* decoders of the list-valued immediates *)
Fixpoint dec_ints (strict : bool) (n : nat) (buf : list N) : option (list N * list N) :=
  match n with
  | O => Some ([], buf)
  | S k =>
      match get_uvarint strict buf with
      | None => None
      | Some (x, r) =>
          match dec_ints strict k r with
          | None => None
          | Some (l, r') => Some (x :: l, r')
          end
      end
  end.

(* "length, n := Uvarint; end := pc + length; if end > len(program) || end < pc -> error" *)
Definition dec_bytes (strict : bool) (buf : list N) : option (list N * list N) :=
  match get_uvarint strict buf with
  | None => None
  | Some (len, r) => if nlen r <? len then None else take_n (N.to_nat len) r
  end.

Fixpoint dec_bytess (strict : bool) (n : nat) (buf : list N) : option (list (list N) * list N) :=
  match n with
  | O => Some ([], buf)
  | S k =>
      match dec_bytes strict buf with
      | None => None
      | Some (x, r) =>
          match dec_bytess strict k r with
          | None => None
          | Some (l, r') => Some (x :: l, r')
          end
      end
  end.

Fixpoint dec_i16s (n : nat) (buf : list N) : option (list Z * list N) :=
  match n with
  | O => Some ([], buf)
  | S k =>
      match buf with
      | b0 :: b1 :: r =>
          match dec_i16s k r with
          | None => None
          | Some (l, r') => Some (dec_i16 b0 b1 :: l, r')
          end
      | _ => None
      end
  end.

(* immKind (opcodes.go iota): 0 immByte, 1 immInt8, 2 immLabel, 3 immInt, 4 immBytes, 5 immInts,
   6 immBytess, 7 immLabels, 8 immVarintLabel; immByte and immInt8 are read the same way *)
Inductive ikind : Type :=
| KByte | KLabel | KInt | KBytes | KInts | KBytess | KLabels | KVLabel | KBad.
Definition kind_of (k : N) : ikind :=
  if k =? 0 then KByte else if k =? 1 then KByte else if k =? 2 then KLabel
  else if k =? 3 then KInt else if k =? 4 then KBytes else if k =? 5 then KInts
  else if k =? 6 then KBytess else if k =? 7 then KLabels else if k =? 8 then KVLabel
  else KBad.

Section Codec.
  (* opsByOpcode[v][opcode] and its SubOps ([] = nil) *)
  Variable tbl : N -> N -> opspec * list opspec.
  (* the FieldGroup attached to an immediate: the positions i with Names[i] <> "" (with
     Version()); k = 0: no group *)
  Variable grp : N -> list fspec.
  Variable logic_ver : N.

  (* "int(b) >= len(Names) || Names[b] == """ -> error *)
  Definition field_named (k b : N) : bool :=
    if k =? 0 then true else existsb (fun f => fs_field f =? b) (grp k).

  (* one immediate as disassemble() reads it; plen = len(program) *)
  Definition dec_imm (strict : bool) (plen : N) (im : immediate) (buf : list N)
    : option (immv * list N) :=
    match kind_of (im_kind im) with
    | KByte =>
        match buf with
        | [] => None
        | b :: r => if field_named (im_group im) b then Some (VByte b, r) else None
        end
    | KLabel =>
        match buf with
        | b0 :: b1 :: r => Some (VLabel (dec_i16 b0 b1), r)
        | _ => None
        end
    | KVLabel =>
        match get_varint strict buf with
        | None => None
        | Some (z, r) => Some (VVLabel z, r)
        end
    | KInt =>
        match get_uvarint strict buf with
        | None => None
        | Some (x, r) => Some (VInt x, r)
        end
    | KBytes =>
        match dec_bytes strict buf with
        | None => None
        | Some (bs, r) => Some (VBytes bs, r)
        end
    | KInts =>
        (* parseIntImmArgs *)
        match get_uvarint strict buf with
        | None => None
        | Some (n, r) =>
            if plen <? n then None
            else match dec_ints strict (N.to_nat n) r with
                 | None => None
                 | Some (l, r') => Some (VInts l, r')
                 end
        end
    | KBytess =>
        (* parseByteImmArgs *)
        match get_uvarint strict buf with
        | None => None
        | Some (n, r) =>
            if plen <? n then None
            else match dec_bytess strict (N.to_nat n) r with
                 | None => None
                 | Some (l, r') => Some (VBytess l, r')
                 end
        end
    | KLabels =>
        (* parseLabels *)
        match buf with
        | [] => None
        | n :: r =>
            match dec_i16s (N.to_nat n) r with
            | None => None
            | Some (l, r') => Some (VLabels l, r')
            end
        end
    | KBad => None
    end.

  Fixpoint dec_imms (strict : bool) (plen : N) (ims : list immediate) (buf : list N)
    : option (list immv * list N) :=
    match ims with
    | [] => Some ([], buf)
    | im :: rest =>
        match dec_imm strict plen im buf with
        | None => None
        | Some (x, r) =>
            match dec_imms strict plen rest r with
            | None => None
            | Some (xs, r') => Some (x :: xs, r')
            end
        end
    end.

  (* the spec selection of disassembleInstrumented:
       op := opsByOpcode[version][program[pc]]
       if op.SubOps != nil && pc+1 < len(program) {
         sub := program[pc+1]; if int(sub) < len(op.SubOps) && op.SubOps[sub].op != nil { op = op.SubOps[sub] } }
       if op.Name == "" -> invalid opcode *)
  Definition pick_spec (v : N) (buf : list N) : option opspec :=
    match buf with
    | [] => None
    | b0 :: r =>
        let '(e, subs) := tbl v b0 in
        let op :=
          match subs, r with
          | _ :: _, sub :: _ =>
              let s := nth (N.to_nat sub) subs zero_spec in
              if (N.to_nat sub <? List.length subs)%nat && os_hasop s then s else e
          | _, _ => e
          end in
        if String.eqb (os_name op) "" then None else Some op
    end.

  Definition dec_instr (strict : bool) (v plen : N) (buf : list N) : option (instr * list N) :=
    match pick_spec v buf with
    | None => None
    | Some op =>
        match buf with
        | [] => None
        | b0 :: r =>
            let r1 := if os_sub op =? 0 then r else tl r in
            let canon := (os_opcode op =? b0) &&
                         (if os_sub op =? 0 then true
                          else match r with s :: _ => s =? os_sub op | [] => false end) in
            if strict && negb canon then None
            else match dec_imms strict plen (os_imms op) r1 with
                 | None => None
                 | Some (xs, rest) => Some (mkI (os_opcode op) (os_sub op) xs, rest)
                 end
        end
    end.

  (* "for dis.pc < len(program)"; fuel = number of bytes (every instruction consumes >= 1) *)
  Fixpoint dec_instrs (strict : bool) (v plen : N) (fuel : nat) (buf : list N)
    : option (list instr) :=
    match buf with
    | [] => Some []
    | _ :: _ =>
        match fuel with
        | O => None
        | S f =>
            match dec_instr strict v plen buf with
            | None => None
            | Some (i, rest) =>
                match dec_instrs strict v plen f rest with
                | None => None
                | Some l => Some (i :: l)
                end
            end
        end
    end.

  (* version varint, "version > LogicVersion -> unsupported", then the instruction loop *)
  Definition dec_prog (strict : bool) (b : list N) : option (N * list instr) :=
    match get_uvarint strict b with
    | None => None
    | Some (v, rest) =>
        if logic_ver <? v then None
        else match dec_instrs strict v (nlen b) (List.length rest) rest with
             | None => None
             | Some p => Some (v, p)
             end
    end.

  (* ---------------------------------------------------------------- well-formed instructions *)
  (* the spec denoted by (opcode byte, sub-opcode byte) in version v; a direct entry must not
     be a prefix opcode (SubOps == nil), a sub-opcode must exist and have an op function *)
  Definition spec_at (v op sub : N) : option opspec :=
    let '(e, subs) := tbl v op in
    if sub =? 0 then
      match subs with
      | [] => if String.eqb (os_name e) "" then None else Some e
      | _ :: _ => None
      end
    else
      let s := nth (N.to_nat sub) subs zero_spec in
      if (N.to_nat sub <? List.length subs)%nat && os_hasop s && negb (String.eqb (os_name s) "")
      then Some s else None.

  Definition spec_of (v : N) (i : instr) : option opspec := spec_at v (i_op i) (i_sub i).

  Definition imm_wf (im : immediate) (x : immv) : bool :=
    match kind_of (im_kind im), x with
    | KByte, VByte b => (b <? 256) && field_named (im_group im) b
    | KLabel, VLabel off => i16_ok off
    | KVLabel, VVLabel off => i64_ok off
    | KInt, VInt n => u64_ok n
    | KBytes, VBytes bs => u64_ok (nlen bs)
    | KInts, VInts l => u64_ok (nlen l) && forallb u64_ok l
    | KBytess, VBytess l => u64_ok (nlen l) && forallb (fun bs => u64_ok (nlen bs)) l
    | KLabels, VLabels l => (nlen l <? 256) && forallb i16_ok l
    | _, _ => false
    end.

  Fixpoint imms_wf (ims : list immediate) (xs : list immv) : bool :=
    match ims, xs with
    | [], [] => true
    | im :: r, x :: s => imm_wf im x && imms_wf r s
    | _, _ => false
    end.

  Definition wf_instr (v : N) (i : instr) : bool :=
    match spec_of v i with
    | None => false
    | Some op =>
        (os_opcode op =? i_op i) && (os_sub op =? i_sub i) && (i_op i <? 256) && (i_sub i <? 256)
        && imms_wf (os_imms op) (i_imms i)
    end.

  Definition wf_prog (v : N) (p : list instr) : bool :=
    (v <=? logic_ver) && u64_ok v && forallb (wf_instr v) p.
End Codec.

(* ================================================================== Part 2: labels *)
(* symbolic immediates: label immediates name an instruction index (0 .. n, n = end of program) *)
Inductive simm : Type :=
| SByte (b : N)
| SLabel (k : nat)
| SVLabel (k : nat)
| SInt (n : N)
| SBytes (bs : list N)
| SInts (l : list N)
| SBytess (l : list (list N))
| SLabels (ks : list nat).

Record sinstr : Type := mkS { s_op : N; s_sub : N; s_imms : list simm }.

(* what the first pass leaves in ops.pending for one instruction *)
Inductive pinstr : Type :=
| PFixed (bytes : list N)
| PBranch2 (op : N) (k : nat)              (* asmBranch2B: op 0 0 + labelReference *)
| PBranchV (op : N) (k : nat)              (* asmBranchVarint: op + placeholder *)
| PSwitch (op : N) (ks : list nat).        (* asmSwitch: op n (0 0)* *)

(* ops.known.deadcode, len(ops.intc), len(ops.bytec) *)
Record astate : Type := mkA { a_dead : bool; a_nintc : N; a_nbytec : N }.

Inductive saltmode : Type := SaltDefault | SaltOn | SaltOff.

Definition pad0 (l : list N) (n : nat) : list N := l ++ repeat 0 (n - List.length l).

Fixpoint nat_list_eqb (a b : list nat) : bool :=
  match a, b with
  | [], [] => true
  | x :: r, y :: s => Nat.eqb x y && nat_list_eqb r s
  | _, _ => false
  end.

Section Asm.
  Variable tbl : N -> N -> opspec * list opspec.
  Variable grp : N -> list fspec.
  (* OpsByName[v] *)
  Variable names : N -> string -> option opspec.
  (* the field group the assembler checks an immediate against (asmItxnField looks at
     itxVersion = the "itxn_field" settable group; everything else the immediate's group) *)
  Variable agrp : string -> N -> N.
  Variable max_str : N.       (* maxStringSize *)
  Variable back_ver : N.      (* backBranchEnabledVersion *)
  Variable salt_ver : N.      (* LogicSigOffCurveVersion *)
  Variable logic_ver : N.     (* LogicVersion *)

  Definition by_name (v : N) (n : string) : opspec :=
    match names v n with Some s => s | None => zero_spec end.

  (* Group.SpecByName(name) found and "fs.Version() > ops.Version" not *)
  Definition field_ok (v k b : N) : bool :=
    if k =? 0 then b <? 256
    else existsb (fun f => (fs_field f =? b) && (fs_version f <=? v)) (grp k).

  (* asmDefault: immByte (with or without group) and immInt8 only *)
  Fixpoint asm_default_imms (v : N) (name : string) (ims : list immediate) (xs : list simm)
    : option (list N) :=
    match ims, xs with
    | [], [] => Some []
    | im :: r, SByte b :: s =>
        let ok := if im_kind im =? 0 then field_ok v (agrp name (im_group im)) b
                  else if im_kind im =? 1 then b <? 256 else false in
        if ok then match asm_default_imms v name r s with
                   | Some l => Some (b :: l)
                   | None => None
                   end
        else None
    | _, _ => None
    end.

  Definition spec_head (op : opspec) : list N :=
    os_opcode op :: (if os_sub op =? 0 then [] else [os_sub op]).

  Definition short_name (base : string) (n : N) : string :=
    let d : string := if N.eqb n 0 then "0"%string else if N.eqb n 1 then "1"%string
                      else if N.eqb n 2 then "2"%string else "3"%string in
    String.append base (String.append "_" d).

  (* writeIntc / writeBytec *)
  Definition write_const (v : N) (base : string) (n defined : N) : option (list N) :=
    let bytes := if n <? 4 then [os_opcode (by_name v (short_name base n))]
                 else [os_opcode (by_name v base); n] in
    if defined <=? n then None else Some bytes.

  Definition deadens (name : string) : bool :=
    existsb (String.eqb name) ["b"; "retsub"; "err"; "return"]%string.

  (* asmDefault (+ the extra constraint of asmSubstring) *)
  Definition asm_default (v : N) (st : astate) (si : sinstr) (op : opspec)
    : option (pinstr * astate) :=
    match asm_default_imms v (os_name op) (os_imms op) (s_imms si) with
    | Some l =>
        let sub_ok :=
          if String.eqb (os_name op) "substring" then
            match s_imms si with
            | [SByte s; SByte e] => negb (e <? s)
            | _ => true
            end
          else true in
        if sub_ok then Some (PFixed (spec_head op ++ l), st) else None
    | None => None
    end.

  (* the per-op assemble function (spec.asm) applied to the statement's arguments; the ops
     with their own assemble function are recognised by name (arg, intc, bytec, the constant
     blocks) or by the kinds of their immediates *)
  Definition asm_res (v : N) (st : astate) (si : sinstr) (op : opspec) : option (pinstr * astate) :=
    let name := os_name op in
    let kinds := map (fun im => kind_of (im_kind im)) (os_imms op) in
    let opb := os_opcode op in
    if String.eqb name "arg" then
      match s_imms si with
      | [SByte n] =>
          if n <? 256 then
            if n <? 4 then Some (PFixed (spec_head (by_name v (short_name "arg" n))), st)
            else asm_default v st si op
          else None
      | _ => None
      end
    else if String.eqb name "intc" then
      match s_imms si with
      | [SByte n] =>
          if n <? 256 then
            match write_const v "intc" n (a_nintc st) with
            | Some l => Some (PFixed l, st)
            | None => None
            end
          else None
      | _ => None
      end
    else if String.eqb name "bytec" then
      match s_imms si with
      | [SByte n] =>
          if n <? 256 then
            match write_const v "bytec" n (a_nbytec st) with
            | Some l => Some (PFixed l, st)
            | None => None
            end
          else None
      | _ => None
      end
    else if String.eqb name "intcblock" then
      match s_imms si with
      | [SInts l] =>
          if forallb u64_ok l then
            Some (PFixed (opb :: put_uvarint (nlen l) ++ flat_map put_uvarint l),
                  if a_dead st then st else mkA (a_dead st) (nlen l) (a_nbytec st))
          else None
      | _ => None
      end
    else if String.eqb name "bytecblock" then
      match s_imms si with
      | [SBytess l] =>
          if forallb (fun bs => nlen bs <=? max_str) l then
            Some (PFixed (opb :: put_uvarint (nlen l) ++ flat_map enc_bytes l),
                  if a_dead st then st else mkA (a_dead st) (a_nintc st) (nlen l))
          else None
      | _ => None
      end
    else
      match kinds, s_imms si with
      | [KInt], [SInt n] => if u64_ok n then Some (PFixed (opb :: put_uvarint n), st) else None
      | [KBytes], [SBytes bs] =>
          if nlen bs <=? max_str then Some (PFixed (opb :: enc_bytes bs), st) else None
      | [KInts], [SInts l] =>
          if forallb u64_ok l
          then Some (PFixed (opb :: put_uvarint (nlen l) ++ flat_map put_uvarint l), st)
          else None
      | [KBytess], [SBytess l] =>
          if forallb (fun bs => nlen bs <=? max_str) l
          then Some (PFixed (opb :: put_uvarint (nlen l) ++ flat_map enc_bytes l), st)
          else None
      | [KLabel], [SLabel k] => Some (PBranch2 opb k, st)
      | [KVLabel], [SVLabel k] => Some (PBranchV opb k, st)
      | [KLabels], [SLabels ks] =>
          if (List.length ks <=? 255)%nat then Some (PSwitch opb ks, st) else None
      | _, _ => asm_default v st si op
      end.

  Definition asm_one (v : N) (st : astate) (si : sinstr) : option (pinstr * astate) :=
    match spec_at tbl v (s_op si) (s_sub si) with
    | None => None
    | Some op =>
        match asm_res v st si op with
        | None => None
        | Some (pi, st1) =>
            (* "if spec.deadens() { deaden() }; if spec.Name == "callsub" { label() }" *)
            let name := os_name op in
            let dead := if deadens name then true
                        else if String.eqb name "callsub" then false else a_dead st1 in
            Some (pi, mkA dead (a_nintc st1) (a_nbytec st1))
        end
    end.

  (* parseText over the statements; createLabel -> known.label(): "if deadcode { reset() }" *)
  Fixpoint asm_pass1 (v : N) (labs : list nat) (idx : nat) (st : astate) (p : list sinstr)
    : option (list pinstr) :=
    match p with
    | [] => Some []
    | si :: r =>
        let st0 := if a_dead st && existsb (Nat.eqb idx) labs
                   then mkA false (a_nintc st) (a_nbytec st) else st in
        match asm_one v st0 si with
        | None => None
        | Some (pi, st1) =>
            match asm_pass1 v labs (S idx) st1 r with
            | None => None
            | Some l => Some (pi :: l)
            end
        end
    end.

  (* size of an instruction in ops.pending; vs = current size of a varint placeholder *)
  Definition psize (pi : pinstr) (vs : nat) : nat :=
    match pi with
    | PFixed b => List.length b
    | PBranch2 _ _ => 3
    | PBranchV _ _ => 1 + vs
    | PSwitch _ ks => 2 + 2 * List.length ks
    end.

  (* positions of the instruction starts in ops.pending, and of the end *)
  Fixpoint positions (pos : nat) (ps : list pinstr) (vss : list nat) : list nat :=
    match ps, vss with
    | pi :: r, vs :: s => pos :: positions (pos + psize pi vs) r s
    | _, _ => [pos]
    end.

  (* the jump of a varint branch at opcodePos with placeholder size sz: back-jumps count from
     the start of the instruction, forward jumps from its end *)
  Definition vjump (opcodePos sz dest : nat) : Z :=
    if (dest <? opcodePos)%nat then (Z.of_nat dest - Z.of_nat opcodePos)%Z
    else (Z.of_nat dest - Z.of_nat (opcodePos + 1 + sz))%Z.

  (* one round of findBranchSizes: every placeholder that can shrink, computed on the
     current layout *)
  (* ops.labels[name]: a label is defined when the text carries it *)
  Definition label_pos (labs poss : list nat) (k : nat) : option nat :=
    if existsb (Nat.eqb k) labs then nth_error poss k else None.

  Fixpoint shrink_step (labs poss : list nat) (pos : nat) (ps : list pinstr) (vss : list nat)
    : list nat :=
    match ps, vss with
    | pi :: r, vs :: s =>
        let vs' :=
          match pi with
          | PBranchV _ k =>
              match label_pos labs poss k with
              | None => vs
              | Some dest =>
                  if (dest =? pos)%nat then vs
                  else let needed := List.length (put_varint (vjump pos vs dest)) in
                       if (needed <? vs)%nat then needed else vs
              end
          | _ => vs
          end in
        vs' :: shrink_step labs poss (pos + psize pi vs) r s
    | _, _ => []
    end.

  Fixpoint find_sizes (labs : list nat) (fuel : nat) (ps : list pinstr) (vss : list nat)
    : option (list nat) :=
    let vss' := shrink_step labs (positions 0 ps vss) 0 ps vss in
    if nat_list_eqb vss' vss then Some vss
    else match fuel with
         | O => None
         | S f => find_sizes labs f ps vss'
         end.

  (* resolveLabels for one 2-byte reference *)
  Definition resolve2 (v : N) (labs poss : list nat) (endpos offpos k : nat) : option (list N) :=
    match label_pos labs poss k with
    | None => None                                         (* undefined label *)
    | Some dest =>
        if (v <=? 1) && (dest =? endpos)%nat then None     (* "too far away" (v1) *)
        else if (v <? back_ver) && (dest <? offpos)%nat then None
        else let jump := (Z.of_nat dest - Z.of_nat offpos)%Z in
             if i16_ok jump then Some (enc_i16 jump) else None
    end.

  Fixpoint resolve2s (v : N) (labs poss : list nat) (endpos offpos : nat) (ks : list nat)
    : option (list N) :=
    match ks with
    | [] => Some []
    | k :: r =>
        match resolve2 v labs poss endpos offpos k, resolve2s v labs poss endpos offpos r with
        | Some a, Some b => Some (a ++ b)
        | _, _ => None
        end
    end.

  Definition resolve_one (v : N) (labs poss : list nat) (endpos pos : nat) (pi : pinstr) (vs : nat)
    : option (list N) :=
    match pi with
    | PFixed b => Some b
    | PBranch2 op k =>
        match resolve2 v labs poss endpos (pos + 3) k with
        | Some l => Some (op :: l)
        | None => None
        end
    | PSwitch op ks =>
        match resolve2s v labs poss endpos (pos + 2 + 2 * List.length ks) ks with
        | Some l => Some (op :: nlen ks :: l)
        | None => None
        end
    | PBranchV op k =>
        match label_pos labs poss k with
        | None => None
        | Some dest =>
            if (v <=? 1) && (dest =? endpos)%nat then None
            else if (v <? back_ver) && (dest <? pos + 1 + vs)%nat then None
            else if (dest =? pos)%nat then None            (* branch to start of same instruction *)
            else
              let jump := vjump pos vs dest in
              let limit := (2 ^ (7 * Z.of_nat vs - 1))%Z in
              if ((jump <? - limit) || (limit <=? jump))%Z then None
              else Some (op :: pad0 (put_varint jump) vs)
        end
    end.

  Fixpoint resolve_all (v : N) (labs poss : list nat) (endpos pos : nat) (ps : list pinstr)
           (vss : list nat) : option (list N) :=
    match ps, vss with
    | pi :: r, vs :: s =>
        match resolve_one v labs poss endpos pos pi vs,
              resolve_all v labs poss endpos (pos + psize pi vs) r s with
        | Some a, Some b => Some (a ++ b)
        | _, _ => None
        end
    | _, _ => Some []
    end.

  (* OutOfFuel is reported separately from a rejection *)
  Inductive ares : Type := AOk (b : list N) | AReject | AFuel.

  (* varintBranchInitialSize = 3; at most 2 shrinking rounds per branch *)
  Definition asm_base (v : N) (p : list sinstr) (labs : list nat) : ares :=
    (* parseText: "Can not assemble version %d" *)
    if logic_ver <? v then AReject else
    match asm_pass1 v labs 0 (mkA false 0 0) p with
    | None => AReject
    | Some ps =>
        match find_sizes labs (2 * List.length ps + 1) ps (map (fun _ => 3%nat) ps) with
        | None => AFuel
        | Some vss =>
            let poss := positions 0 ps vss in
            let endpos := last poss 0%nat in
            match resolve_all v labs poss endpos 0 ps vss with
            | None => AReject
            | Some pending => AOk (put_uvarint v ++ pending)
            end
        end
    end.

  (* HasStatefulOps: some statement's spec has Modes == ModeApp *)
  Definition stateful (v : N) (p : list sinstr) : bool :=
    existsb (fun si => match spec_at tbl v (s_op si) (s_sub si) with
                       | Some op => os_modes op =? 2
                       | None => false
                       end) p.

  (* shouldAutoSalt; ocb = ProgramHashIsEdwards25519Point(base) (abstract) *)
  Definition salted (v : N) (p : list sinstr) (mode : saltmode) (ocb : bool) : bool :=
    match mode with
    | SaltOff => false
    | SaltOn => ocb
    | SaltDefault => (salt_ver <=? v) && negb (stateful v p) && ocb
    end.

  (* finalizeProgramWithTrailingIntcSalt: base ++ intcblock 1 salt *)
  Definition salt_suffix (v salt : N) : list N := [os_opcode (by_name v "intcblock"); 1; salt].

  (* ---------------------------------------------------------------- disassembler label layer *)

  (* decode with the start pc of every instruction *)
  Fixpoint dec_layout (strict : bool) (v plen : N) (fuel pc : nat) (buf : list N)
    : option (list (instr * nat)) :=
    match buf with
    | [] => Some []
    | _ :: _ =>
        match fuel with
        | O => None
        | S f =>
            match dec_instr tbl grp strict v plen buf with
            | None => None
            | Some (i, rest) =>
                match dec_layout strict v plen f (pc + (List.length buf - List.length rest)) rest with
                | None => None
                | Some l => Some ((i, pc) :: l)
                end
            end
        end
    end.

  Fixpoint index_of (x : Z) (l : list nat) (i : nat) : option nat :=
    match l with
    | [] => None
    | y :: r => if (Z.of_nat y =? x)%Z then Some i else index_of x r (S i)
    end.

  (* a target that is no instruction start (or the end) gets a label that is never printed:
     the reference stays undefined, rendered as the out-of-range index [undef] *)
  Definition label_of (starts : list nat) (undef : nat) (target : Z) : nat :=
    match index_of target starts 0 with
    | Some k => k
    | None => undef
    end.

  (* immediates of one decoded instruction at [pc], next instruction at [npc] *)
  Definition sym_imm (starts : list nat) (undef pc npc : nat) (x : immv) : simm :=
    match x with
    | VByte b => SByte b
    | VLabel off => SLabel (label_of starts undef (Z.of_nat npc + off)%Z)
    | VVLabel off =>
        SVLabel (label_of starts undef
                   (if (off <? 0)%Z then (Z.of_nat pc + off)%Z else (Z.of_nat npc + off)%Z))
    | VInt n => SInt n
    | VBytes bs => SBytes bs
    | VInts l => SInts l
    | VBytess l => SBytess l
    | VLabels l => SLabels (map (fun off => label_of starts undef (Z.of_nat npc + off)%Z) l)
    end.

  Fixpoint sym_layout (starts : list nat) (undef endpc : nat) (l : list (instr * nat))
    : list sinstr :=
    match l with
    | [] => []
    | (i, pc) :: r =>
        let npc := match r with (_, q) :: _ => q | [] => endpc end in
        mkS (i_op i) (i_sub i) (map (sym_imm starts undef pc npc) (i_imms i))
        :: sym_layout starts undef endpc r
    end.

  Definition simm_labels (x : simm) : list nat :=
    match x with
    | SLabel k | SVLabel k => [k]
    | SLabels ks => ks
    | _ => []
    end.

  (* labels printed by the disassembler: every referenced target that is an instruction start
     (or the end), and every proto *)
  Fixpoint proto_labels (v : N) (idx : nat) (p : list sinstr) : list nat :=
    match p with
    | [] => []
    | si :: r =>
        let rest := proto_labels v (S idx) r in
        match spec_at tbl v (s_op si) (s_sub si) with
        | Some op => if String.eqb (os_name op) "proto" then idx :: rest else rest
        | None => rest
        end
    end.

  Definition dis_labels (v : N) (p : list sinstr) : list nat :=
    flat_map (fun si => flat_map simm_labels (s_imms si)) p ++ proto_labels v 0 p.

  (* version, symbolic program, start pcs (with the end) *)
  Definition dis_sym (strict : bool) (b : list N) : option (N * list sinstr * list nat) :=
    match get_uvarint strict b with
    | None => None
    | Some (v, rest) =>
        if logic_ver <? v then None
        else
          let vlen := (List.length b - List.length rest)%nat in
          match dec_layout strict v (nlen b) (List.length rest) vlen rest with
          | None => None
          | Some l =>
              let starts := map snd l ++ [List.length b] in
              Some (v, sym_layout starts (S (List.length l)) (List.length b) l, starts)
          end
    end.
End Asm.
