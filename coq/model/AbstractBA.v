(* C01 layer 1: the abstract Byzantine-agreement protocol of one round.

   Global state = the trace of events so far (newest first): votes cast by anybody, and
   period-entry events of nodes.  What a node "has observed" is any subset of the global
   vote set, so every rule that mentions an observed quorum is stated as existence of that
   quorum in the global trace at the time of the step: this makes every message delay,
   reordering, duplication, drop and partition an instance of the model.  Byzantine nodes
   add arbitrary votes at any time.  Honest nodes follow rules transcribed from
   agreement/player.go (issueSoftVote / issueCertVote / issueNextVote / issueFastVote /
   enterPeriod / handleThresholdEvent) and agreement/proposalStore.go (pinning):

   R_cur   votes are cast in the node's current period; periods only increase, and a period
           q is entered only on an observed next-type quorum of q-1 (any value or bottom) or on
           an observed soft / cert quorum of q itself (fast-forward);
   R_once  at most one value per (period, step)  [discharged for crashes by C02];
   R_soft  a soft vote is for a value; in period > 0 it is justified by a next-type quorum of
           the previous period (for that value, or for bottom) or by a soft/cert quorum of the
           current period (the node fast-forwarded and soft-votes the leader's proposal);
   R_cert  a cert vote for x needs a soft quorum for x in that period and is cast before any
           next-type vote of that node in that period (player: Step <= cert; fast-recovery
           votes are timed after the cert step: hypothesis "timely local timers", DESIGN N5);
   R_next  next-type votes (steps next_k, late, redo, down: step number >= 3): a node that
           cert-voted y in this period votes y; otherwise the value is the staged value of the
           period (it has a soft or cert quorum), or the value of an observed next-type quorum
           of the previous period, or bottom in period 0, or bottom after a fast-forward
           through a soft/cert quorum for y -- but the latter only if the node does not hold
           y's payload, which it does when it is "locked" on y: it cert-voted y and every
           period it entered since was entered on a threshold for y (proposalStore pins the
           threshold's value on newPeriod, so the assembler with the payload survives trim).

   No proofs in this file. *)
From Coq Require Import List Arith Bool.
Import ListNotations.

Section AbstractBA.

Variables node value : Type.
Variable node_eq_dec : forall a b : node, {a = b} + {a <> b}.
Variable value_eq_dec : forall a b : value, {a = b} + {a <> b}.
Variable honest : node -> Prop.
(* [quorum p s Q]: the node set Q carries at least the threshold weight of the committee
   of (period p, step s) of this round *)
Variable quorum : nat -> nat -> (node -> Prop) -> Prop.

Definition soft : nat := 1.
Definition cert : nat := 2.
Definition next0 : nat := 3.   (* next_k = 3+k, late = 253, redo = 254, down = 255: all >= 3 *)

Record vote := mkVote { sender : node; per : nat; stp : nat; val : option value }.

Inductive via :=
| ViaNext (x : option value)   (* next-type quorum of the previous period, value x (None = bottom) *)
| ViaSoft (y : value)          (* fast-forward on a soft quorum of the target period *)
| ViaCert (y : value).         (* fast-forward on a cert quorum of the target period *)

Definition via_val (w : via) : option value :=
  match w with ViaNext x => x | ViaSoft y => Some y | ViaCert y => Some y end.

Inductive event :=
| Vote (v : vote)
| Enter (n : node) (q : nat) (w : via).

Definition trace := list event.     (* newest event first *)

Definition voted (t : trace) (v : vote) : Prop := In (Vote v) t.

Definition has_q (t : trace) (p s : nat) (x : option value) : Prop :=
  exists Q, quorum p s Q /\ forall n, Q n -> voted t (mkVote n p s x).

Definition nextq (t : trace) (p : nat) (x : option value) : Prop :=
  exists s, 3 <= s /\ has_q t p s x.

(* current period of node h *)
Fixpoint cur (h : node) (t : trace) : nat :=
  match t with
  | [] => 0
  | Enter n q _ :: t' => if node_eq_dec n h then q else cur h t'
  | Vote _ :: t' => cur h t'
  end.

(* how h entered its current period (None: still in period 0) *)
Fixpoint last_via (h : node) (t : trace) : option via :=
  match t with
  | [] => None
  | Enter n _ w :: t' => if node_eq_dec n h then Some w else last_via h t'
  | Vote _ :: t' => last_via h t'
  end.

Definition opt_value_eqb (a b : option value) : bool :=
  match a, b with
  | Some x, Some y => if value_eq_dec x y then true else false
  | None, None => true
  | _, _ => false
  end.

(* the value h is locked on: set by its latest cert vote, kept while every period entry
   since then was on a threshold for the same value *)
Fixpoint lock (h : node) (t : trace) : option value :=
  match t with
  | [] => None
  | Vote v :: t' =>
      if node_eq_dec (sender v) h then
        if Nat.eqb (stp v) cert then val v else lock h t'
      else lock h t'
  | Enter n _ w :: t' =>
      if node_eq_dec n h then
        match lock h t' with
        | Some y => if opt_value_eqb (via_val w) (Some y) then Some y else None
        | None => None
        end
      else lock h t'
  end.

Definition soft_rule (t : trace) (v : vote) : Prop :=
  exists x, val v = Some x /\
    (per v = 0 \/
     nextq t (per v - 1) (Some x) \/
     nextq t (per v - 1) None \/
     (exists y, has_q t (per v) soft (Some y)) \/
     (exists y, has_q t (per v) cert (Some y))).

Definition cert_rule (t : trace) (v : vote) : Prop :=
  exists x, val v = Some x /\
    has_q t (per v) soft (Some x) /\
    (forall v', voted t v' -> sender v' = sender v -> per v' = per v -> stp v' < 3).

Definition next_rule (t : trace) (v : vote) : Prop :=
  let h := sender v in
  let q := per v in
  (forall y, voted t (mkVote h q cert (Some y)) -> val v = Some y) /\
  ((exists y, val v = Some y /\ (has_q t q soft (Some y) \/ has_q t q cert (Some y))) \/
   (0 < q /\ nextq t (q - 1) (val v)) \/
   (val v = None /\ q = 0) \/
   (val v = None /\ exists y, (last_via h t = Some (ViaSoft y) \/ last_via h t = Some (ViaCert y)) /\
                              lock h t <> Some y)).

Definition step_rule (t : trace) (v : vote) : Prop :=
  match stp v with
  | 0 => True                       (* proposal-votes: not constrained (C02 scope note) *)
  | 1 => soft_rule t v
  | 2 => cert_rule t v
  | _ => next_rule t v
  end.

Definition enter_rule (t : trace) (h : node) (q : nat) (w : via) : Prop :=
  cur h t < q /\
  match w with
  | ViaNext x => 0 < q /\ nextq t (q - 1) x
  | ViaSoft y => has_q t q soft (Some y)
  | ViaCert y => has_q t q cert (Some y)
  end.

Definition ok (t : trace) (e : event) : Prop :=
  match e with
  | Vote v =>
      honest (sender v) ->
      per v = cur (sender v) t /\
      (forall v', voted t v' -> sender v' = sender v -> per v' = per v -> stp v' = stp v ->
                  val v' = val v) /\
      step_rule t v
  | Enter h q w => honest h -> enter_rule t h q w
  end.

Inductive reachable : trace -> Prop :=
| reach_nil : reachable []
| reach_cons : forall t e, reachable t -> ok t e -> reachable (e :: t).

(* a block can be committed (ensureAction) only on an observed cert quorum for its value *)
Definition committable_value (t : trace) (v : value) : Prop :=
  exists p, has_q t p cert (Some v).

End AbstractBA.
