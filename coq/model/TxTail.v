(* C11 model: ledger/txtail.go (txTail: newBlock, committedUpTo, prepareCommit / commitRound /
   postCommit, loadFromDisk, checkDup), the txtail table of the tracker DB
   (sqlitedriver: TxtailNewRound, LoadTxTail), the replay of trackerRegistry.loadFromDisk, and the
   evaluator side (ledger/eval/cow.go: roundCowState.checkDup / addTx / child / commitToParent,
   eval.go: the per-transaction admission checks of BlockEvaluator.transaction).

   Conventions.  Rounds, txids, senders, leases are [N]; lease 0 is the all-zero lease
   ([32]byte{}).  Go maps are association lists: insertion conses in front, lookup returns the
   first match, deletion filters (so no well-formedness invariant is needed to read a map).
   Round arithmetic is not wrapped: rounds are assumed far below 2^64 - MaxTxnLife
   ([r + maxlife] in committedUpTo cannot overflow); SubSaturate is truncated subtraction on N.
   The uint16 confirmation delta stored in lastValid[lv][txid] is only read by checkConfirmed
   (not part of the property) and is dropped: lastValid is the flat list of (lastValid, txid).
   msgp encoding of TxTailRound is assumed lossless: a persisted round is its list of
   transactions (FirstValid is carried along but never read), the Leases list in payset order.
   No proofs in this file. *)
From Coq Require Import NArith List Bool.
Import ListNotations.
Open Scope N_scope.

(* ---------- association lists ---------- *)
Fixpoint lookup {V} (k : N) (m : list (N * V)) : option V :=
  match m with
  | [] => None
  | (k', v) :: t => if k =? k' then Some v else lookup k t
  end.

Definition lkey := (N * N)%type.                      (* ledgercore.Txlease: sender, lease *)
Definition lkey_eqb (a b : lkey) : bool := (fst a =? fst b) && (snd a =? snd b).

Fixpoint klookup {V} (k : lkey) (m : list (lkey * V)) : option V :=
  match m with
  | [] => None
  | (k', v) :: t => if lkey_eqb k k' then Some v else klookup k t
  end.

(* the rounds a, a+1, ..., a+n-1 *)
Fixpoint nseq (a : N) (n : nat) : list N :=
  match n with O => [] | S n' => a :: nseq (N.succ a) n' end.
(* the rounds a..b inclusive (empty when b < a) *)
Definition nrange (a b : N) : list N := nseq a (N.to_nat (b + 1 - a)).

(* ---------- data ---------- *)
Record proto := mkProto { p_life : N; p_deeper : N; p_sup : bool; p_fix : bool }.
(* MaxTxnLife, DeeperBlockHeaderHistory, SupportTransactionLeases, FixTransactionLeases *)

Record tx := mkTx { t_id : N; t_fv : N; t_lv : N; t_snd : N; t_lease : N }.
Definition t_key (x : tx) : lkey := (t_snd x, t_lease x).

Record rleases := mkRl { rl_leases : list (lkey * N); rl_proto : proto }.          (* roundLeases *)
Record tailround := mkTr { tr_rnd : N; tr_proto : proto; tr_txs : list tx }.      (* trackerdb.TxTailRound *)

Record tail := mkTail {
  recent : list (N * rleases);          (* t.recent *)
  lastValid : list (N * N);             (* t.lastValid, flattened: (lastValid round, txid) *)
  lwm : N;                              (* t.lowWaterMark *)
  pending : list tailround;             (* t.roundTailSerializedDeltas *)
  hdrs : list (N * proto);              (* t.blockHeaderData (only the protocol is read) *)
  lowestHdr : N                         (* t.lowestBlockHeaderRound *)
}.

(* StateDelta.Txleases as built by roundCowState.addTx over the payset: AddTxLease overwrites;
   also the map loadFromDisk rebuilds from TxTailRound.Leases *)
Definition leases_of (txs : list tx) : list (lkey * N) :=
  fold_left (fun m x => if t_lease x =? 0 then m else (t_key x, t_lv x) :: m) txs [].

(* ---------- txTail.newBlock ---------- *)
Definition newBlock (t : tail) (rnd : N) (p : proto) (txs : list tx) : tail :=
  match lookup rnd (recent t) with
  | Some _ => t                                         (* "Repeat, ignore" *)
  | None =>
    mkTail ((rnd, mkRl (leases_of txs) p) :: recent t)
           (fold_left (fun m x => (t_lv x, t_id x) :: m) txs (lastValid t))
           (lwm t)
           (pending t ++ [mkTr rnd p txs])
           ((rnd, p) :: hdrs t)
           (lowestHdr t)
  end.

(* ---------- txTail.committedUpTo ---------- *)
Definition committedUpTo (t : tail) (rnd : N) : tail :=
  let maxlife := match lookup rnd (recent t) with Some rl => p_life (rl_proto rl) | None => 0 end in
  mkTail (filter (fun e => negb (fst e + maxlife <? rnd)) (recent t))
         (* for ; lowWaterMark < rnd; lowWaterMark++ { delete(lastValid, lowWaterMark) } *)
         (filter (fun e => negb ((lwm t <=? fst e) && (fst e <? rnd))) (lastValid t))
         (N.max (lwm t) rnd)
         (pending t) (hdrs t) (lowestHdr t).

(* ---------- txTail.checkDup ---------- *)
Inductive dupres := DupNone | DupTx | DupLease | DupMissing | DupTxEval | DupLeaseEval.
Definition dupres_code (d : dupres) : N :=
  match d with DupNone => 0 | DupTx => 1 | DupLease => 2 | DupMissing => 3 | DupTxEval => 4 | DupLeaseEval => 5 end.

Fixpoint ex_range (f : N -> bool) (start : N) (n : nat) : bool :=
  match n with O => false | S n' => f start || ex_range f (N.succ start) n' end.

(* expires, ok := t.recent[rnd].txleases[txl]; ok && current <= expires *)
Definition lease_hit (t : tail) (k : lkey) (cur rnd : N) : bool :=
  match lookup rnd (recent t) with
  | None => false
  | Some rl => match klookup k (rl_leases rl) with Some e => cur <=? e | None => false end
  end.

Definition checkDup (t : tail) (p : proto) (cur fv lv id : N) (k : lkey) : dupres :=
  if lv <? lwm t then DupMissing
  else
    let first := if p_fix p then cur - p_life p else fv in
    let last := if p_fix p then cur else lv in
    if p_sup p && negb (snd k =? 0) &&
       ex_range (lease_hit t k cur) first (N.to_nat (last + 1 - first))
    then DupLease
    else if existsb (fun e => (fst e =? lv) && (snd e =? id)) (lastValid t) then DupTx
    else DupNone.

(* ---------- commit: prepareCommit, commitRound (DB), postCommit ---------- *)
Inductive outcome := OK | ErrPrepare | ErrDB | PanicIndex | ErrLoad.
Definition outcome_code (o : outcome) : N :=
  match o with OK => 0 | ErrPrepare => 1 | ErrDB => 2 | PanicIndex => 3 | ErrLoad => 1 end.

Inductive prep := PrepPanic | PrepErr | PrepOk (deltas : list tailround) (retain : N).

Definition prepareCommit (t : tail) (oldBase off : N) : prep :=
  if N.of_nat (length (pending t)) <? off then PrepPanic     (* roundTailSerializedDeltas[i] out of range *)
  else match lookup (oldBase + off) (hdrs t) with
       | None => PrepErr                                     (* "round %d not found in blockHeaderData" *)
       | Some p => PrepOk (firstn (N.to_nat off) (pending t)) (p_life p + p_deeper p)
       end.

(* the txtail table: rows sorted by rnd (INTEGER PRIMARY KEY) *)
Definition table := list (N * tailround).

Fixpoint tbl_insert (r : N) (d : tailround) (rows : table) : option table :=
  match rows with
  | [] => Some [(r, d)]
  | (r', d') :: t =>
      if r <? r' then Some ((r, d) :: rows)
      else if r =? r' then None                               (* primary key conflict *)
      else match tbl_insert r d t with Some t' => Some ((r', d') :: t') | None => None end
  end.

Fixpoint tbl_insert_all (base : N) (ds : list tailround) (rows : table) : option table :=
  match ds with
  | [] => Some rows
  | d :: ds' => match tbl_insert base d rows with
                | Some rows' => tbl_insert_all (N.succ base) ds' rows'
                | None => None
                end
  end.

(* accountsV2Writer.TxtailNewRound: INSERT (baseRound+i, data_i); DELETE WHERE rnd < forgetBefore *)
Definition txtailNewRound (rows : table) (base : N) (ds : list tailround) (forgetBefore : N) : option table :=
  match tbl_insert_all base ds rows with
  | Some rows' => Some (filter (fun e => negb (fst e <? forgetBefore)) rows')
  | None => None
  end.

Definition postCommit (t : tail) (oldBase off retain : N) : tail :=
  let newLowest := (oldBase + off + 1) - retain in
  mkTail (recent t) (lastValid t) (lwm t)
         (skipn (N.to_nat off) (pending t))
         (* for lowestBlockHeaderRound < newLowest { delete(blockHeaderData, lowest); lowest++ } *)
         (filter (fun e => negb ((lowestHdr t <=? fst e) && (fst e <? newLowest))) (hdrs t))
         (N.max (lowestHdr t) newLowest).

(* ---------- reload: LoadTxTail, txTail.loadFromDisk ---------- *)
(* SELECT rnd, data FROM txtail ORDER BY rnd DESC; every row must be the expected round, counting
   down from dbRound; result in increasing order and the lowest round seen (dbRound+1 if none) *)
Fixpoint load_desc (desc : table) (expected : N) (acc : list tailround) (base : N)
  : option (list tailround * N) :=
  match desc with
  | [] => Some (acc, base)
  | (r, d) :: t => if r =? expected then load_desc t (expected - 1) (d :: acc) r else None
  end.
Definition loadTxTail (rows : table) (dbRound : N) : option (list tailround * N) :=
  load_desc (rev rows) dbRound [] (dbRound + 1).

(* which (round, persisted data) pairs the loop of loadFromDisk visits.
   Repaired code (fixes/C11.patch):  for old := baseRound; old <= dbRound && len(roundData) > 0; old++
   Original code:                    for old := baseRound; old <= dbRound && dbRound > baseRound; old++ *)
Definition visited_fixed (base dbRound : N) (rds : list tailround) : list (N * tailround) :=
  combine (nrange base dbRound) rds.
Definition visited_orig (base dbRound : N) (rds : list tailround) : list (N * tailround) :=
  if base <? dbRound then combine (nrange base dbRound) rds else [].

Definition load_leases (d : tailround) : list (lkey * N) :=
  if p_sup (tr_proto d) then leases_of (tr_txs d) else [].

(* entries added to the temporary lastValid lists; error when lastValid < Hdr.Round *)
Fixpoint load_lastValid (low : N) (vis : list (N * tailround)) (acc : list (N * N)) : option (list (N * N)) :=
  match vis with
  | [] => Some acc
  | (_, d) :: t =>
      let keep := filter (fun x => low <? t_lv x) (tr_txs d) in
      if existsb (fun x => t_lv x <? tr_rnd d) keep then None
      else load_lastValid low t (fold_left (fun m x => (t_lv x, t_id x) :: m) keep acc)
  end.

Definition loadFromDisk_gen (visited : N -> N -> list tailround -> list (N * tailround))
           (rows : table) (dbRound latest : N) : option tail :=
  match (if 0 <? dbRound then loadTxTail rows dbRound else Some ([], 0)) with
  | None => None
  | Some (rds, base) =>
      let vis := visited base dbRound rds in
      match load_lastValid latest vis [] with
      | None => None
      | Some lvs =>
          (* the visited rounds are distinct, so the order of the association lists is immaterial *)
          Some (mkTail (map (fun e => (fst e, mkRl (load_leases (snd e)) (tr_proto (snd e)))) vis)
                       lvs
                       latest                       (* t.lowWaterMark = l.Latest() *)
                       []
                       (map (fun e => (fst e, tr_proto (snd e))) vis)
                       base)
      end
  end.
Definition loadFromDisk := loadFromDisk_gen visited_fixed.
Definition loadFromDisk_orig := loadFromDisk_gen visited_orig.

(* ---------- the ledger around the txTail: block DB, tracker DB, restart ---------- *)
Record sys := mkSys {
  s_tail : tail;
  s_blocks : list (N * list tx);        (* block DB: (round, payset), newest first *)
  s_latest : N;
  s_rows : table;                       (* txtail table *)
  s_dbRound : N                         (* tracker DB round *)
}.

Definition tail0 : tail := mkTail [] [] 0 [] [] 0.
Definition sys0 : sys := mkSys tail0 [] 0 [] 0.

Inductive op :=
| OBlock (txs : list tx)            (* a block with this payset is added at round latest+1 *)
| OEval (groups : list (list tx))   (* the block evaluator builds the block from candidate groups *)
| OCommitted (r : N)                (* trackers.committedUpTo(r) *)
| OCommit (off : N)                 (* trackerRegistry.commitRound with dcc.offset = off *)
| ORestart (keep : N).              (* stop (blocks above [keep] lost), reopen: loadFromDisk + replay *)

(* trackerRegistry.replay: newBlock for the blocks dbRound+1 .. latest read from the block DB *)
Fixpoint replay (p : proto) (blocks : list (N * list tx)) (rounds : list N) (t : tail) : option tail :=
  match rounds with
  | [] => Some t
  | r :: rs => match lookup r blocks with
               | None => None
               | Some txs => replay p blocks rs (newBlock t r p txs)
               end
  end.

(* ---------- evaluator side: roundCowState ---------- *)
Record cow := mkCow { c_ids : list N; c_leases : list (lkey * N) }.   (* mods.Txids, mods.Txleases *)
Definition cow0 : cow := mkCow [] [].

(* roundCowState.checkDup along the lookupParent chain (innermost child first); [base] is the
   answer of the roundCowBase at the end of the chain *)
Fixpoint cow_check (chain : list cow) (p : proto) (hdr id : N) (k : lkey) (base : dupres) : dupres :=
  match chain with
  | [] => base
  | c :: parents =>
      if existsb (N.eqb id) (c_ids c) then DupTxEval
      else if p_sup p && negb (snd k =? 0) &&
              match klookup k (c_leases c) with Some e => hdr <=? e | None => false end
      then DupLeaseEval
      else cow_check parents p hdr id k base
  end.
(* the roundCowBase asks the ledger: CheckDup(proto, rnd+1 = hdr.Round, ...) *)
Definition cow_checkDup (chain : list cow) (t : tail) (p : proto) (hdr fv lv id : N) (k : lkey) : dupres :=
  cow_check chain p hdr id k (checkDup t p hdr fv lv id k).

Definition cow_addTx (c : cow) (x : tx) : cow :=
  mkCow (t_id x :: c_ids c)
        (if t_lease x =? 0 then c_leases c else (t_key x, t_lv x) :: c_leases c).

Definition cow_commitToParent (child parent : cow) : cow :=
  mkCow (c_ids child ++ c_ids parent) (c_leases child ++ c_leases parent).

(* BlockEvaluator.transaction with eval.validate: WellFormed (window), Alive, checkDup *)
Definition tx_admit (t : tail) (p : proto) (hdr : N) (chain : list cow) (x : tx) : bool :=
  (t_fv x <=? t_lv x) && (t_lv x - t_fv x <=? p_life p) &&
  (t_fv x <=? hdr) && (hdr <=? t_lv x) &&
  match cow_checkDup chain t p hdr (t_fv x) (t_lv x) (t_id x) (t_key x) with DupNone => true | _ => false end.

(* one transaction group: a child cow; all-or-nothing *)
Fixpoint eval_group (t : tail) (p : proto) (hdr : N) (root child : cow) (g : list tx) : option cow :=
  match g with
  | [] => Some child
  | x :: g' => if tx_admit t p hdr [child; root] x
               then eval_group t p hdr root (cow_addTx child x) g' else None
  end.

(* returns the block-level cow and the payset (accepted groups, in order) *)
Fixpoint eval_groups (t : tail) (p : proto) (hdr : N) (root : cow) (acc : list tx) (gs : list (list tx))
  : cow * list tx :=
  match gs with
  | [] => (root, acc)
  | g :: gs' => match eval_group t p hdr root cow0 g with
                | Some child => eval_groups t p hdr (cow_commitToParent child root) (acc ++ g) gs'
                | None => eval_groups t p hdr root acc gs'
                end
  end.
Definition eval_block (t : tail) (p : proto) (hdr : N) (gs : list (list tx)) : list tx :=
  snd (eval_groups t p hdr cow0 [] gs).

(* ---------- one step of the system ---------- *)
Definition add_block (p : proto) (s : sys) (txs : list tx) : sys :=
  let r := s_latest s + 1 in
  mkSys (newBlock (s_tail s) r p txs) ((r, txs) :: s_blocks s) r (s_rows s) (s_dbRound s).

Definition step_gen (load : table -> N -> N -> option tail) (p : proto) (s : sys) (o : op) : sys * outcome :=
  match o with
  | OBlock txs => (add_block p s txs, OK)
  | OEval gs => (add_block p s (eval_block (s_tail s) p (s_latest s + 1) gs), OK)
  | OCommitted r =>
      (mkSys (committedUpTo (s_tail s) r) (s_blocks s) (s_latest s) (s_rows s) (s_dbRound s), OK)
  | OCommit off =>
      match prepareCommit (s_tail s) (s_dbRound s) off with
      | PrepPanic => (s, PanicIndex)
      | PrepErr => (s, ErrPrepare)
      | PrepOk ds retain =>
          let nb := s_dbRound s + off in
          match txtailNewRound (s_rows s) (s_dbRound s + 1) ds ((nb + 1) - retain) with
          | None => (s, ErrDB)
          | Some rows' =>
              (mkSys (postCommit (s_tail s) (s_dbRound s) off retain) (s_blocks s) (s_latest s) rows' nb, OK)
          end
      end
  | ORestart keep =>
      let blocks' := filter (fun b => fst b <=? keep) (s_blocks s) in
      match load (s_rows s) (s_dbRound s) keep with
      | None => (s, ErrLoad)
      | Some t0 =>
          match replay p blocks' (nrange (s_dbRound s + 1) keep) t0 with
          | None => (s, ErrLoad)
          | Some t1 => (mkSys t1 blocks' keep (s_rows s) (s_dbRound s), OK)
          end
      end
  end.
Definition step := step_gen loadFromDisk.
Definition step_orig := step_gen loadFromDisk_orig.

(* ---------- the discipline the ledger follows (what a "history" is) ---------- *)
(* a payset the evaluator can have produced at round r, as far as the txTail relies on it:
   every transaction alive in r with a window of at most MaxTxnLife, and (when the protocol
   supports leases) no two transactions of the block holding the same non-zero lease *)
Fixpoint nodup_keys (l : list lkey) : bool :=
  match l with [] => true | k :: t => negb (existsb (lkey_eqb k) t) && nodup_keys t end.
Definition leased (txs : list tx) : list tx := filter (fun x => negb (t_lease x =? 0)) txs.
Definition blk_ok (p : proto) (r : N) (txs : list tx) : bool :=
  forallb (fun x => (t_fv x <=? r) && (r <=? t_lv x) && (t_lv x <=? t_fv x + p_life p)) txs &&
  (negb (p_sup p) || nodup_keys (map t_key (leased txs))).

Definition op_ok (p : proto) (s : sys) (o : op) : bool :=
  match o with
  | OBlock txs => blk_ok p (s_latest s + 1) txs
  | OEval _ => true
  | OCommitted r => (1 <=? r) && (lwm (s_tail s) <=? r) && (r <=? s_latest s)
  | OCommit off => (1 <=? off) && (s_dbRound s + off <=? s_latest s)
  | ORestart keep => (s_dbRound s <=? keep) && (keep <=? s_latest s)
  end.

(* run a history; None as soon as an operation is outside the discipline or fails *)
Fixpoint run_gen (load : table -> N -> N -> option tail) (p : proto) (s : sys) (ops : list op) : option sys :=
  match ops with
  | [] => Some s
  | o :: ops' => if op_ok p s o
                 then match step_gen load p s o with
                      | (s', OK) => run_gen load p s' ops'
                      | _ => None
                      end
                 else None
  end.
Definition run := run_gen loadFromDisk.
Definition run_orig := run_gen loadFromDisk_orig.
