(* C09: crash / recovery model of the ledger's two databases.  No proofs in this file.

   Transcribed from
     ledger/blockqueue.go       syncer (one block-DB transaction per batch, then lastCommitted,
                                notifyCommit, BlockForgetBefore), waitCommit
     ledger/ledger.go           AddValidatedBlock, notifyCommit, OpenLedger / reloadLedger
     ledger/tracker.go          committedUpTo / scheduleCommit / produceCommittingTask,
                                commitRound (offset adjustment, ONE tracker-DB transaction ending
                                in UpdateAccountsRound, postCommit, postCommitUnlocked),
                                loadFromDisk + replay (incl. the commit that replay issues itself)
     ledger/acctupdates.go      committedUpTo, produceCommittingTask
     ledger/catchpointtracker.go calculateFirstStageRounds, calculateCatchpointRounds,
                                commitRound, finishFirstStage, finishCatchpoint /
                                createCatchpoint, pruneFirstStageRecordsData, recoverFromCrash

   The state is split into what survives a process crash (the two SQLite databases and the
   catchpoint files) and what does not (block queue, in-memory tracker state, the program
   counters of the syncer and of the commit goroutine).  Every durable write is its own
   transition; SQLite transactions are atomic, so a crash ([OCrash], enabled in EVERY state)
   falls between two durable writes.  File writes (catchpoint data file, catchpoint file) are
   two transitions each (file exists but is incomplete / file complete), so a crash can leave a
   torn file.

   Blocks [B] and ledger states [W] are abstract; [apply b w] is the block evaluator.  What
   the trackers serve for round r is a [W]; C08 relates that to the individual lookups. *)
From Coq Require Import List Arith Bool.
Import ListNotations.

(* ---------- node configuration (config.Local + the consensus parameters that matter) ---------- *)
Record cfg := mkCfg {
  c_L : nat;          (* MaxAcctLookback *)
  c_arch : bool;      (* Archival *)
  c_I : nat;          (* CatchpointInterval as used by the tracker; 0 = no catchpoints *)
  c_CL : nat;         (* consensus CatchpointLookback *)
  c_files : bool      (* enableGeneratingCatchpointFiles *)
}.

(* ---------- catchpoint part of the durable state ---------- *)
Record cpd := mkCpd {
  cp_flag : bool;                   (* catchpointstate.writingFirstStageInfo *)
  cp_lookback : nat;                (* catchpointstate.catchpointLookback *)
  cp_unfinished : list nat;         (* table unfinishedcatchpoints (rounds) *)
  cp_first : list nat;              (* table catchpointfirststageinfo (rounds) *)
  cp_stored : list nat;             (* table storedcatchpoints (rounds) *)
  cp_data : list (nat * bool);      (* files catchpoints/<round>.data ; bool = completely written *)
  cp_files : list (nat * bool);     (* files catchpoints/<round>.catchpoint *)
  cp_label : nat                    (* round of catchpointstate.lastCatchpoint, 0 = none *)
}.
Definition cp_init : cpd := mkCpd false 0 [] [] [] [] [] 0.

Definition memb (x : nat) (l : list nat) : bool := existsb (Nat.eqb x) l.
Definition remove_nat (x : nat) (l : list nat) : list nat := filter (fun y => negb (Nat.eqb x y)) l.
Definition has_file (x : nat) (l : list (nat * bool)) : bool := existsb (fun p => Nat.eqb x (fst p)) l.
Definition rm_file (x : nat) (l : list (nat * bool)) : list (nat * bool) :=
  filter (fun p => negb (Nat.eqb x (fst p))) l.
Definition put_file (x : nat) (complete : bool) (l : list (nat * bool)) : list (nat * bool) :=
  rm_file x l ++ [(x, complete)].
(* sorted insert keeps the tables in SQL "ORDER BY round" order *)
Fixpoint insert_nat (x : nat) (l : list nat) : list nat :=
  match l with
  | [] => [x]
  | y :: tl => if x <? y then x :: l else if x =? y then l else y :: insert_nat x tl
  end.

Definition set_flag (b : bool) (c : cpd) : cpd :=
  mkCpd b (cp_lookback c) (cp_unfinished c) (cp_first c) (cp_stored c) (cp_data c) (cp_files c) (cp_label c).
Definition set_lookback (n : nat) (c : cpd) : cpd :=
  mkCpd (cp_flag c) n (cp_unfinished c) (cp_first c) (cp_stored c) (cp_data c) (cp_files c) (cp_label c).
Definition set_unfinished (l : list nat) (c : cpd) : cpd :=
  mkCpd (cp_flag c) (cp_lookback c) l (cp_first c) (cp_stored c) (cp_data c) (cp_files c) (cp_label c).
Definition set_first (l : list nat) (c : cpd) : cpd :=
  mkCpd (cp_flag c) (cp_lookback c) (cp_unfinished c) l (cp_stored c) (cp_data c) (cp_files c) (cp_label c).
Definition set_stored (l : list nat) (c : cpd) : cpd :=
  mkCpd (cp_flag c) (cp_lookback c) (cp_unfinished c) (cp_first c) l (cp_data c) (cp_files c) (cp_label c).
Definition set_data (l : list (nat * bool)) (c : cpd) : cpd :=
  mkCpd (cp_flag c) (cp_lookback c) (cp_unfinished c) (cp_first c) (cp_stored c) l (cp_files c) (cp_label c).
Definition set_files (l : list (nat * bool)) (c : cpd) : cpd :=
  mkCpd (cp_flag c) (cp_lookback c) (cp_unfinished c) (cp_first c) (cp_stored c) (cp_data c) l (cp_label c).
Definition set_label (n : nat) (c : cpd) : cpd :=
  mkCpd (cp_flag c) (cp_lookback c) (cp_unfinished c) (cp_first c) (cp_stored c) (cp_data c) (cp_files c) n.

(* ---------- catchpointtracker.go arithmetic ---------- *)

(* calculateFirstStageRounds: (hasIntermediateFirstStageRound, newOffset).
   The Go code computes [first] and [last] in int64; [last] is negative exactly when the
   truncated subtraction below gives 0, and then first <= last is false in both (first >= 1:
   LedgerCrashProofs.calc_first_bound). *)
Definition calc_first (old off reenable I CL : nat) : bool * nat :=
  if reenable =? 0 then (false, off) else
  let min0 := old + 1 in
  let minr := if (CL <? reenable) && (min0 <? reenable - CL) then reenable - CL else min0 in
  let first := (minr + CL + I - 1) / I * I - CL in
  let last := (old + off + CL) / I * I - CL in
  if first <=? last then (true, last - old) else (false, off).

(* calculateCatchpointRounds(min, max, interval) with min/max as in the method of the tracker *)
Definition cp_rounds (old off I CL : nat) : list nat :=
  if I =? 0 then [] else
  let mn := if old + 1 <? CL + 1 then CL + 1 else old + 1 in
  let mx := old + off in
  let l := (mn + I - 1) / I in
  let r := mx / I in
  if r <? l then [] else map (fun i => i * I) (seq l (r + 1 - l)).

(* ---------- durable micro-steps of the catchpoint code, as traces of successive durable states ----------
   Each function returns the list of catchpoint states the disk goes through, in order; the
   last element (if any) is the state when the function returns. *)
Definition last_cp (tr : list cpd) (c : cpd) : cpd := last tr c.

(* finishFirstStage (generateCatchpointData when files are enabled, then ONE transaction:
   recordFirstStageInfo + clear writingFirstStageInfo) *)
Definition finish_first (c : cfg) (x : nat) (cp : cpd) : list cpd :=
  let cp1 := set_data (put_file x false (cp_data cp)) cp in
  let cp2 := set_data (put_file x true (cp_data cp)) cp in
  let cpf := if c_files c then cp2 else cp in
  (if c_files c then [cp1; cp2] else []) ++
  [set_flag false (set_first (insert_nat x (cp_first cpf)) cpf)].

(* finishCatchpoint(round, lookback) -> createCatchpoint *)
Definition finish_catchpoint (c : cfg) (r L : nat) (cp : cpd) : list cpd :=
  let x := r - L in
  if negb (memb x (cp_first cp)) then [set_unfinished (remove_nat r (cp_unfinished cp)) cp]
  else
    let cp1 := set_label r cp in
    cp1 :: (if negb (c_files c) then []                       (* label only: record NOT deleted *)
            else if negb (has_file x (cp_data cp1)) then []   (* data file missing: record NOT deleted *)
            else
              let f1 := set_files (put_file r false (cp_files cp1)) cp1 in
              let f2 := set_files (put_file r true (cp_files cp1)) cp1 in
              [f1; f2;
               set_unfinished (remove_nat r (cp_unfinished f2))
                 (set_stored (insert_nat r (cp_stored f2)) f2)]).

Fixpoint finish_catchpoints (c : cfg) (rs : list nat) (L : nat) (cp : cpd) : list cpd :=
  match rs with
  | [] => []
  | r :: tl => let t := finish_catchpoint c r L cp in t ++ finish_catchpoints c tl L (last_cp t cp)
  end.

(* pruneFirstStageRecordsData(maxRoundToDelete): files one by one, then the rows *)
Fixpoint prune_files (olds : list nat) (cp : cpd) : list cpd :=
  match olds with
  | [] => []
  | x :: tl => let cp1 := set_data (rm_file x (cp_data cp)) cp in cp1 :: prune_files tl cp1
  end.
Definition prune_first (m : nat) (cp : cpd) : list cpd :=
  let olds := filter (fun x => x <=? m) (cp_first cp) in
  let t := prune_files olds cp in
  let cp1 := last_cp t cp in
  t ++ [set_first (filter (fun x => negb (x <=? m)) (cp_first cp1)) cp1].

(* a deferred commit as the commit goroutine sees it *)
Record task := mkTask { t_old : nat; t_off : nat; t_first : bool }.
Definition t_new (t : task) : nat := t_old t + t_off t.

(* catchpointTracker.commitRound inside the tracker transaction *)
Definition commit_cp (c : cfg) (t : task) (cp : cpd) : cpd :=
  let cp1 := if t_first t then set_flag true cp else cp in
  let cp2 := set_lookback (c_CL c) cp1 in
  set_unfinished (fold_left (fun l r => insert_nat r l) (cp_rounds (t_old t) (t_off t) (c_I c) (c_CL c)) (cp_unfinished cp2)) cp2.

(* catchpointTracker.postCommitUnlocked *)
Definition post_trace (c : cfg) (t : task) (cp : cpd) : list cpd :=
  let t1 := if t_first t then finish_first c (t_new t) cp else [] in
  let cp1 := last_cp t1 cp in
  let t2 := finish_catchpoints c (cp_rounds (t_old t) (t_off t) (c_I c) (c_CL c)) (c_CL c) cp1 in
  let cp2 := last_cp t2 cp1 in
  let t3 := if c_CL c <=? t_new t then prune_first (t_new t - c_CL c) cp2 else [] in
  t1 ++ t2 ++ t3.

(* finishCatchpointsAfterCrash: delete the unfinished catchpoint file, then finishCatchpoint *)
Fixpoint recover_catchpoints (c : cfg) (rs : list nat) (L : nat) (cp : cpd) : list cpd :=
  match rs with
  | [] => []
  | r :: tl =>
      let cp0 := set_files (rm_file r (cp_files cp)) cp in
      let t := cp0 :: finish_catchpoint c r L cp0 in
      t ++ recover_catchpoints c tl L (last_cp t cp)
  end.

(* catchpointTracker.recoverFromCrash(dbRound) *)
Definition recover_trace (c : cfg) (dbr : nat) (cp : cpd) : list cpd :=
  let t1 := if cp_flag cp
            then let cp0 := set_data (rm_file dbr (cp_data cp)) cp in cp0 :: finish_first c dbr cp0
            else [] in
  let cp1 := last_cp t1 cp in
  let L := cp_lookback cp1 in
  if L =? 0 then t1 else
  let t2 := recover_catchpoints c (cp_unfinished cp1) L cp1 in
  let cp2 := last_cp t2 cp1 in
  let t3 := if L <=? dbr then prune_first (dbr - L) cp2 else [] in
  t1 ++ t2 ++ t3.

(* ---------------------------------------------------------------------------------------- *)
Section Machine.
  Variables B W : Type.
  Variable apply : B -> W -> W.     (* the block evaluator *)
  Variable genesis : W.
  Variable cf : cfg.

  Definition state_at (blocks : list B) (r : nat) : W :=
    fold_left (fun w b => apply b w) (firstn r blocks) genesis.

  (* ---------- durable state ---------- *)
  Record dur := mkDur {
    d_blocks : list B;    (* block table: d_blocks[r-1] is round r (round 0 = genesis block) *)
    d_earliest : nat;     (* rounds below have been deleted by BlockForgetBefore *)
    d_dbr : nat;          (* tracker DB: acctrounds.rnd *)
    d_dbw : W;            (* tracker DB: everything the trackers stored for that round *)
    d_cp : cpd
  }.
  Definition dur_init : dur := mkDur [] 0 0 genesis cp_init.

  (* ---------- volatile state ---------- *)
  Inductive syncpc :=            (* blockQueue.syncer *)
  | SIdle
  | SWritten (k : nat)           (* block transaction committed, lastCommitted not yet advanced *)
  | SNotify                      (* lastCommitted advanced; notifyCommit pending *)
  | SForget (m : nat).           (* notifyCommit returned minToSave = m; BlockForgetBefore pending *)

  Inductive phase :=             (* trackerRegistry.commitSyncer / commitRound *)
  | PIdle
  | PPostTx (t : task)           (* tracker transaction committed; postCommit not yet run *)
  | PUnlocked (tr : list cpd).   (* postCommit done; remaining durable steps of postCommitUnlocked *)

  Record vol := mkVol {
    v_q : list B;               (* blockQueue.q *)
    v_com : nat;                (* blockQueue.lastCommitted *)
    v_sync : syncpc;
    v_dbr : nat;                (* trackerRegistry.dbRound = every tracker's cachedDBRound *)
    v_ws : list W;              (* in-memory deltas: state after rounds v_dbr+1 ... latest *)
    v_top : W;                  (* state after the latest round *)
    v_re : nat;                 (* catchpointTracker.reenableCatchpointsRound *)
    v_chan : option task;       (* deferredCommits (capacity 1) *)
    v_phase : phase;
    v_conf : nat;               (* ghost: largest round for which Wait / WaitForCommit fired *)
    v_added : list B            (* ghost: every block the ledger holds (Latest() = its length) *)
  }.

  Inductive mode :=
  | Down                          (* no process *)
  | Recovering (tr : list cpd)    (* inside OpenLedger: catchpointTracker.loadFromDisk -> recoverFromCrash *)
  | Up (v : vol).

  Record state := mkState { s_d : dur; s_m : mode }.
  Definition init : state := mkState dur_init Down.

  Definition v_latest (v : vol) : nat := v_com v + length (v_q v).

  (* ---------- scheduling: trackerRegistry.produceCommittingTask ---------- *)
  (* accountUpdates (offset from the lookback), then catchpointTracker (cut at the last first-stage
     round).  Time- and size-based throttling of scheduleCommit and the
     isWritingCatchpointDataFile early exit only ever SUPPRESS a task; the machine may skip
     [OSchedule] at will, which covers them. *)
  Definition produce (committed dbr ndeltas reenable : nat) : option task :=
    if committed <? c_L cf then None else
    let nb := committed - c_L cf in
    if nb <=? dbr then None else
    if dbr + ndeltas <? nb then None (* log.Panicf: proved unreachable *) else
    let off := nb - dbr in
    if c_I cf =? 0 then Some (mkTask dbr off false)
    else let '(has, off') := calc_first dbr off reenable (c_I cf) (c_CL cf) in
         Some (mkTask dbr off' has).

  (* commitRound's prologue: out-of-order / already-done tasks are dropped, the offset is adjusted *)
  Definition adjust (dbr : nat) (t : task) : option task :=
    if (dbr <? t_old t) || (t_off t <? dbr - t_old t) then None else
    let off := t_off t - (dbr - t_old t) in
    if off =? 0 then None else Some (mkTask dbr off (t_first t)).

  (* ---------- replay (trackerRegistry.loadFromDisk + replay) ---------- *)
  Fixpoint replay_ws (bs : list B) (w : W) : list W :=
    match bs with
    | [] => []
    | b :: tl => let w' := apply b w in w' :: replay_ws tl w'
    end.

  Definition opened (d : dur) : vol :=
    let n := length (d_blocks d) in
    let todo := skipn (d_dbr d) (d_blocks d) in
    let ws := replay_ws todo (d_dbw d) in
    mkVol [] n SIdle (d_dbr d) ws (last ws (d_dbw d))
          (if d_dbr d <? n then d_dbr d + 1 + c_CL cf else 0)
          (* replay's own scheduleCommit(latest, MaxAcctLookback) when
             lastBalancesRound + maxAcctLookback < latest *)
          (if d_dbr d + c_L cf <? n then produce n (d_dbr d) (length ws) (d_dbr d + 1 + c_CL cf) else None)
          PIdle 0 (d_blocks d).

  (* what OpenLedger needs to read: the header of round dbRound and the blocks after it *)
  Definition can_open (d : dur) : bool :=
    (d_earliest d <=? d_dbr d) && (d_dbr d <=? length (d_blocks d)).

  (* ---------- operations ---------- *)
  Inductive op :=
  | OAdd (b : B)          (* Ledger.AddBlock / AddValidatedBlock *)
  | OFlush (k : nat)      (* syncer: BlockPut of the first k queued blocks, one transaction *)
  | OFlushed              (* syncer: lastCommitted += k, queue trimmed, cond.Broadcast *)
  | OConfirm (r : nat)    (* a Wait(r) / WaitForCommit(r) returns *)
  | ONotify (sched : bool) (m : nat)   (* notifyCommit: committedUpTo -> scheduleCommit; minToSave = m *)
  | OForget               (* syncer: BlockForgetBefore(minToSave) *)
  | OCommit               (* commit goroutine takes the task; the tracker transaction commits *)
  | OPost                 (* postCommit of every tracker (memory) *)
  | OMicro                (* next durable write of postCommitUnlocked / of recoverFromCrash *)
  | ODone                 (* commitRound returns *)
  | OCrash                (* the process dies *)
  | OOpen                 (* OpenLedger starts: databases opened, recoverFromCrash begins *)
  | OReplay               (* recoverFromCrash finished: replay, trackers up *)
  (* faults the process survives *)
  | OCommitFails          (* commit goroutine takes the task; the tracker transaction FAILS (a tracker's
                             commitRound returns an error or panics inside it): db.Accessor.AtomicContext
                             rolls it back, commitRound returns the error *)
  | OFlushFails.          (* syncer: the block transaction fails (after any number of BlockPuts) and is
                             rolled back; the syncer logs and retries later *)

  Definition upd_v (s : state) (v : vol) : state := mkState (s_d s) (Up v).

  Definition step (s : state) (o : op) : option state :=
    let d := s_d s in
    match o, s_m s with
    | OCrash, _ => Some (mkState d Down)
    | OOpen, Down =>
        if can_open d then Some (mkState d (Recovering (recover_trace cf (d_dbr d) (d_cp d)))) else None
    | OMicro, Recovering (c :: tr) =>
        Some (mkState (mkDur (d_blocks d) (d_earliest d) (d_dbr d) (d_dbw d) c) (Recovering tr))
    | OReplay, Recovering [] => Some (mkState d (Up (opened d)))
    | OAdd b, Up v =>
        let w := apply b (v_top v) in
        Some (upd_v s (mkVol (v_q v ++ [b]) (v_com v) (v_sync v) (v_dbr v) (v_ws v ++ [w]) w
                             (if v_re v =? 0 then v_latest v + 1 + c_CL cf else v_re v)
                             (v_chan v) (v_phase v) (v_conf v) (v_added v ++ [b])))
    | OFlush k, Up v =>
        match v_sync v with
        | SIdle =>
            if (1 <=? k) && (k <=? length (v_q v)) then
              Some (mkState (mkDur (d_blocks d ++ firstn k (v_q v)) (d_earliest d) (d_dbr d) (d_dbw d) (d_cp d))
                            (Up (mkVol (v_q v) (v_com v) (SWritten k) (v_dbr v) (v_ws v) (v_top v) (v_re v)
                                       (v_chan v) (v_phase v) (v_conf v) (v_added v))))
            else None
        | _ => None
        end
    | OFlushed, Up v =>
        match v_sync v with
        | SWritten k =>
            Some (upd_v s (mkVol (skipn k (v_q v)) (v_com v + k) SNotify (v_dbr v) (v_ws v) (v_top v) (v_re v)
                                 (v_chan v) (v_phase v) (v_conf v) (v_added v)))
        | _ => None
        end
    | OConfirm r, Up v =>
        if r <=? v_com v then
          Some (upd_v s (mkVol (v_q v) (v_com v) (v_sync v) (v_dbr v) (v_ws v) (v_top v) (v_re v)
                               (v_chan v) (v_phase v) (Nat.max (v_conf v) r) (v_added v)))
        else None
    | ONotify sched m, Up v =>
        match v_sync v with
        | SNotify =>
            (* minToSave: min over the trackers' committedUpTo answers (accountUpdates:
               cachedDBRound, or 0 while committed < lookback), lowered further by configuration;
               0 in archival mode *)
            let bound := if c_arch cf then 0 else if v_com v <? c_L cf then 0 else v_dbr v in
            if m <=? bound then
              let ch := match v_chan v with
                        | Some t => Some t     (* channel full: the new task is dropped *)
                        | None => if sched then produce (v_com v) (v_dbr v) (length (v_ws v)) (v_re v) else None
                        end in
              Some (upd_v s (mkVol (v_q v) (v_com v) (SForget m) (v_dbr v) (v_ws v) (v_top v) (v_re v)
                                   ch (v_phase v) (v_conf v) (v_added v)))
            else None
        | _ => None
        end
    | OForget, Up v =>
        match v_sync v with
        | SForget m =>
            Some (mkState (mkDur (d_blocks d) (Nat.max (d_earliest d) m) (d_dbr d) (d_dbw d) (d_cp d))
                          (Up (mkVol (v_q v) (v_com v) SIdle (v_dbr v) (v_ws v) (v_top v) (v_re v)
                                     (v_chan v) (v_phase v) (v_conf v) (v_added v))))
        | _ => None
        end
    | OCommit, Up v =>
        match v_phase v, v_chan v with
        | PIdle, Some t0 =>
            match adjust (v_dbr v) t0 with
            | None =>   (* dropped: nothing durable happens *)
                Some (upd_v s (mkVol (v_q v) (v_com v) (v_sync v) (v_dbr v) (v_ws v) (v_top v) (v_re v)
                                     None PIdle (v_conf v) (v_added v)))
            | Some t =>
                Some (mkState (mkDur (d_blocks d) (d_earliest d) (t_new t)
                                     (nth (t_off t - 1) (v_ws v) (v_top v))
                                     (commit_cp cf t (d_cp d)))
                              (Up (mkVol (v_q v) (v_com v) (v_sync v) (v_dbr v) (v_ws v) (v_top v) (v_re v)
                                         None (PPostTx t) (v_conf v) (v_added v))))
            end
        | _, _ => None
        end
    | OCommitFails, Up v =>
        match v_phase v, v_chan v with
        | PIdle, Some t0 =>
            match adjust (v_dbr v) t0 with
            | None => None    (* such a task never opens a transaction: that is OCommit *)
            | Some _ =>
                (* nothing durable changes; handleCommitError: no tracker memory that lookups or the next
                   commit depend on has been modified (postCommit did not run) *)
                Some (upd_v s (mkVol (v_q v) (v_com v) (v_sync v) (v_dbr v) (v_ws v) (v_top v) (v_re v)
                                     None PIdle (v_conf v) (v_added v)))
            end
        | _, _ => None
        end
    | OFlushFails, Up v =>
        match v_sync v with
        | SIdle => if 1 <=? length (v_q v) then Some s else None   (* lastCommitted and the queue are untouched *)
        | _ => None
        end
    | OPost, Up v =>
        match v_phase v with
        | PPostTx t =>
            Some (upd_v s (mkVol (v_q v) (v_com v) (v_sync v) (t_new t) (skipn (t_off t) (v_ws v)) (v_top v) (v_re v)
                                 (v_chan v) (PUnlocked (post_trace cf t (d_cp d))) (v_conf v) (v_added v)))
        | _ => None
        end
    | OMicro, Up v =>
        match v_phase v with
        | PUnlocked (c :: tr) =>
            Some (mkState (mkDur (d_blocks d) (d_earliest d) (d_dbr d) (d_dbw d) c)
                          (Up (mkVol (v_q v) (v_com v) (v_sync v) (v_dbr v) (v_ws v) (v_top v) (v_re v)
                                     (v_chan v) (PUnlocked tr) (v_conf v) (v_added v))))
        | _ => None
        end
    | ODone, Up v =>
        match v_phase v with
        | PUnlocked [] =>
            Some (upd_v s (mkVol (v_q v) (v_com v) (v_sync v) (v_dbr v) (v_ws v) (v_top v) (v_re v)
                                 (v_chan v) PIdle (v_conf v) (v_added v)))
        | _ => None
        end
    | _, _ => None
    end.

  (* an operation that is not enabled leaves the state unchanged *)
  Definition step' (s : state) (o : op) : state := match step s o with Some s' => s' | None => s end.
  Definition run (s : state) (ops : list op) : state := fold_left step' ops s.

  (* ---------- what a running ledger answers ---------- *)
  (* state served for round r (lookups for r = dbRound read the tracker DB) *)
  Definition lookup (d : dur) (v : vol) (r : nat) : option W :=
    if r <? v_dbr v then None
    else if r =? v_dbr v then (if d_dbr d =? v_dbr v then Some (d_dbw d) else None (* Retry: C08 *))
    else nth_error (v_ws v) (r - v_dbr v - 1).

  (* ---------- OpenLedger run to completion on a crashed disk ---------- *)
  Fixpoint micro_all (d : dur) (tr : list cpd) : dur :=
    match tr with
    | [] => d
    | c :: tl => micro_all (mkDur (d_blocks d) (d_earliest d) (d_dbr d) (d_dbw d) c) tl
    end.

  Definition ops_micro (tr : list cpd) : list op := map (fun _ => OMicro) tr.

  (* the operations OpenLedger performs: recovery, replay, and - when replay scheduled a commit -
     that whole commit (replay waits for it: waitAccountsWriting) *)
  Definition open_ops (d : dur) : list op :=
    let tr := recover_trace cf (d_dbr d) (d_cp d) in
    let d1 := micro_all d tr in
    let v := opened d1 in
    [OOpen] ++ ops_micro tr ++ [OReplay] ++
    match v_chan v with
    | None => []
    | Some t0 =>
        match adjust (v_dbr v) t0 with
        | None => [OCommit]
        | Some t => [OCommit; OPost] ++ ops_micro (post_trace cf t (commit_cp cf t (d_cp d1))) ++ [ODone]
        end
    end.

  Definition open_full (d : dur) : state := run (mkState d Down) (open_ops d).

End Machine.

Arguments mkDur {B W}.
Arguments d_blocks {B W}.
Arguments d_earliest {B W}.
Arguments d_dbr {B W}.
Arguments d_dbw {B W}.
Arguments d_cp {B W}.
