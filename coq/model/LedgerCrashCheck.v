(* C09: executable checker run on the observations of the crash harness
   (harness/go/ledger/zz_verif_c09_test.go).  No proofs in this file.

   case = (c09 (L archival cpInterval cpLookback genFiles) (acct ...) (round ...)
               (prevBlocks added confirmed killkind)
               (earliest nblocks bad dbRound flag lookback (unfinished ...) (firststage ...)
                (stored ...) (datafile ...) (cpfile ...) label)                       -- disk after the kill
               (ok latest bad dbRound flag lookback (unfinished ...) (firststage ...) (stored ...)
                (datafile ...) (cpfile ...) label
                ((rnd acct ...) ...) ((rnd online offline notpart level) ...)))        -- after OpenLedger
     acct  = (addr algos status extra)
     round = ((acct ...) (online offline notpart level))    the reference evaluation's StateDelta

   model: [open_full] of model/LedgerCrash.v run on the disk state that was found (block DB =
   the first nblocks reference blocks, tracker DB round, catchpoint tables and files as
   listed); its answers are compared with what the real OpenLedger produced (tracker DB round
   after the commit that replay issues, catchpoint tables / files / label after
   recoverFromCrash, every lookup, totals).

   spec_ok (independent of the machine): the proved durable invariant evaluated on the real
   disk (contiguous prefix of the reference blocks containing every confirmed round, tracker
   round within the block range and at least MaxAcctLookback behind), OpenLedger succeeds with
   exactly that prefix, every account at every served round and the totals equal the fold of
   the reference deltas ([LedgerSpec.state_at]), and the catchpoint leftovers are gone. *)
From Coq Require Import NArith ZArith List Bool String Arith.
From Verif.lib Require Import Term.
From Verif.model Require Import LedgerSpec LedgerCrash.
Import ListNotations.
Open Scope string_scope.
Open Scope nat_scope.

(* ---------- instantiation of the abstract machine ---------- *)
Definition blk := (delta * list N)%type.       (* account records + totals after the round *)
Definition wst := (world * list N)%type.
Definition apply_blk (b : blk) (w : wst) : wst := (apply_delta (fst b) (fst w), snd b).

(* ---------- decoding ---------- *)
Definition as_nat (t : term) : option nat :=
  match as_N t with Some n => Some (N.to_nat n) | None => None end.
Definition as_acct_rec (t : term) : option (addr * acct) :=
  match t with
  | TL [a; b; c; d] =>
      match as_N a, as_N b, as_N c, as_N d with
      | Some a, Some b, Some c, Some d => Some (a, mkAcct b c d)
      | _, _, _, _ => None
      end
  | _ => None
  end.
Definition as_list_of {A : Type} (f : term -> option A) (t : term) : option (list A) :=
  match t with TL l => map_opt f l | _ => None end.
Definition as_round (t : term) : option blk :=
  match t with
  | TL [a; tot] =>
      match as_list_of as_acct_rec a, as_N_list tot with
      | Some a, Some tot => Some (mkDelta 0%N a [] [] [], tot)
      | _, _ => None
      end
  | _ => None
  end.
Definition as_nat_list (t : term) : option (list nat) := as_list_of as_nat t.

Definition as_cfg (t : term) : option cfg :=
  match t with
  | TL [l; a; i; cl; f] =>
      match as_nat l, as_bool a, as_nat i, as_nat cl, as_bool f with
      | Some l, Some a, Some i, Some cl, Some f => Some (mkCfg l a i cl f)
      | _, _, _, _, _ => None
      end
  | _ => None
  end.

Definition as_cp (flag lb unf fst_ sto dat cpf lbl : term) : option cpd :=
  match as_bool flag, as_nat lb, as_nat_list unf, as_nat_list fst_, as_nat_list sto,
        as_nat_list dat, as_nat_list cpf, as_nat lbl with
  | Some flag, Some lb, Some unf, Some f, Some sto, Some dat, Some cpf, Some lbl =>
      Some (mkCpd flag lb unf f sto (map (fun x => (x, true)) dat) (map (fun x => (x, true)) cpf) lbl)
  | _, _, _, _, _, _, _, _ => None
  end.

(* ---------- printing ---------- *)
Definition t_nat (n : nat) : term := TZ (Z.of_nat n).
Definition t_nats (l : list nat) : term := TL (map t_nat l).
Fixpoint sort_nat (l : list nat) : list nat :=
  match l with [] => [] | x :: tl => insert_nat x (sort_nat tl) end.
Definition acct_term (a : addr) (x : acct) : term := TL [tn a; tn (a_algos x); tn (a_status x); tn (a_extra x)].

Definition cp_terms (c : cpd) : list term :=
  [tb (cp_flag c); t_nat (cp_lookback c); t_nats (cp_unfinished c); t_nats (cp_first c); t_nats (cp_stored c);
   t_nats (sort_nat (map fst (cp_data c))); t_nats (sort_nat (map fst (cp_files c))); t_nat (cp_label c)].

(* ---------- the reference history ---------- *)
Definition sum_status (g : list (addr * acct)) (st : N) : N :=
  fold_left (fun s p => if N.eqb (a_status (snd p)) st then (s + a_algos (snd p))%N else s) g 0%N.
Definition genesis_totals (g : list (addr * acct)) : list N :=
  [sum_status g 1%N; sum_status g 0%N; sum_status g 2%N; 0%N].
Definition genesis_w (g : list (addr * acct)) : wst := (genesis_world g, genesis_totals g).

(* independent oracle: account state and totals after round r of the reference history *)
Definition spec_world (g : list (addr * acct)) (hist : list blk) (r : nat) : world :=
  LedgerSpec.state_at (genesis_world g) (map fst hist) r.
Definition spec_totals (g : list (addr * acct)) (hist : list blk) (r : nat) : list N :=
  match r with 0 => genesis_totals g | S r' => match nth_error hist r' with Some b => snd b | None => [] end end.

Definition row_ids (row : list term) : list N :=
  flat_map (fun t => match t with TL (a :: _) => match as_N a with Some a => [a] | None => [] end | _ => [] end) row.

Definition lookup_row (w : world) (r : nat) (ids : list N) : term :=
  TL (t_nat r :: map (fun a => acct_term a (w_acct w a)) ids).
Definition totals_row (r : nat) (t : list N) : term := TL (t_nat r :: map tn t).

Definition ids_of_hist (g : list (addr * acct)) (hist : list blk) : list N :=
  map fst g ++ flat_map (fun b => map fst (d_accts (fst b))) hist.

Definition subset_nat (a b : list nat) : bool := forallb (fun x => memb x b) a.
Definition subset_N (a b : list N) : bool := forallb (fun x => existsb (N.eqb x) b) a.

(* rounds lo, lo+1, ..., hi *)
Definition rounds_from (lo hi : nat) : list nat := seq lo (hi + 1 - lo).

Definition first_ids (lk : list term) : list N :=
  match lk with TL (_ :: row) :: _ => row_ids row | _ => [] end.

(* ---------- spec_ok ---------- *)
Definition spec_ok (c : cfg) (g : list (addr * acct)) (hist : list blk)
    (prev added confirmed : nat)
    (earliest nblocks bad dbr : nat)
    (ok : bool) (latest bad2 dbr2 : nat) (cp2 : cpd) (lookups totals : list term) : bool :=
  let ids := first_ids lookups in
  (* the durable invariant on the real disk *)
  (bad =? 0) && (earliest <=? dbr) && (dbr <=? nblocks) &&
  ((dbr =? 0) || (dbr + c_L c <=? nblocks)) &&
  (prev <=? nblocks) && (nblocks <=? added) && (added <=? List.length hist) &&
  (confirmed <=? nblocks) &&
  (* OpenLedger: exactly the durable prefix *)
  ok && (latest =? nblocks) && (bad2 =? 0) && (dbr <=? dbr2) && (dbr2 <=? latest) &&
  (* every account the history ever touches is looked up, at every served round, and equals the replay of the prefix *)
  subset_N (ids_of_hist g hist) ids &&
  list_eqb term_eqb lookups (map (fun r => lookup_row (spec_world g hist r) r ids) (rounds_from dbr2 latest)) &&
  list_eqb term_eqb totals (map (fun r => totals_row r (spec_totals g hist r)) (rounds_from dbr2 latest)) &&
  (* catchpoint leftovers are gone *)
  negb (cp_flag cp2) &&
  subset_nat (map fst (cp_data cp2)) (cp_first cp2) &&
  subset_nat (map fst (cp_files cp2)) (cp_stored cp2) &&
  (if c_files c then match cp_unfinished cp2 with [] => true | _ => false end
   else match cp_data cp2, cp_files cp2 with [], [] => true | _, _ => false end).

(* ---------- the model's observation ---------- *)
Definition model_obs (c : cfg) (g : list (addr * acct)) (hist : list blk)
    (earliest nblocks dbr : nat) (cp : cpd) (ids : list N) : term :=
  let gw := genesis_w g in
  let blocks := firstn nblocks hist in
  let d : dur blk wst := mkDur blocks earliest dbr (LedgerCrash.state_at blk wst apply_blk gw blocks dbr) cp in
  if negb (can_open blk wst d) then TL [TZ 0] else
  let s := open_full blk wst apply_blk c d in
  match s_m blk wst s with
  | Up _ _ v =>
      let d' := s_d blk wst s in
      let latest := v_latest blk wst v in
      let rs := rounds_from (d_dbr d') latest in
      let ws := map (fun r => (r, lookup blk wst d' v r)) rs in
      TL ([TZ 1; t_nat latest; TZ 0; t_nat (d_dbr d')] ++ cp_terms (d_cp d') ++
          [TL (map (fun p => match snd p with Some w => lookup_row (fst w) (fst p) ids | None => TL [t_nat (fst p); TS "none"] end) ws);
           TL (map (fun p => match snd p with Some w => totals_row (fst p) (snd w) | None => TL [t_nat (fst p); TS "none"] end) ws)])
  | _ => TL [TZ 0]
  end.

Definition is_kill (k : term) : bool :=
  match k with TS s => negb (String.eqb s "k_none") | _ => false end.

Definition check (t : term) : term :=
  match t with
  | TL [TS "c09"; tc; tg; TL trounds; TL [tprev; tadded; tconf; tkind];
        TL [te; tnb; tbad; tdbr; tflag; tlb; tunf; tfst; tsto; tdat; tcpf; tlbl];
        TL [tok; tlat; tbad2; tdbr2; tflag2; tlb2; tunf2; tfst2; tsto2; tdat2; tcpf2; tlbl2; TL lookups; TL totals]] =>
      match as_cfg tc, as_list_of as_acct_rec tg, map_opt as_round trounds,
            as_nat tprev, as_nat tadded, as_nat tconf,
            as_nat te, as_nat tnb, as_nat tbad, as_nat tdbr, as_cp tflag tlb tunf tfst tsto tdat tcpf tlbl,
            as_bool tok, as_nat tlat, as_nat tbad2, as_nat tdbr2, as_cp tflag2 tlb2 tunf2 tfst2 tsto2 tdat2 tcpf2 tlbl2 with
      | Some c, Some g, Some hist, Some prev, Some added, Some conf,
        Some e, Some nb, Some bad, Some dbr, Some cp, Some ok, Some lat, Some bad2, Some dbr2, Some cp2 =>
          let ids := first_ids lookups in
          let m := model_obs c g hist e nb dbr cp ids in
          let impl := TL ([tok; tlat; tbad2; tdbr2] ++ cp_terms cp2 ++ [TL lookups; TL totals]) in
          let impl := if ok then impl else TL [TZ 0] in
          verdict (spec_ok c g hist prev added conf e nb bad dbr ok lat bad2 dbr2 cp2 lookups totals)
                  (term_eqb impl m)
                  (is_kill tkind && (1 <=? nb))
                  m
      | _, _, _, _, _, _, _, _, _, _, _, _, _, _, _, _ => v_parse
      end
  | _ => v_parse
  end.
