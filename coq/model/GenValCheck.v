(* C20: decoding of the harness cases (harness/go/ledger/zz_verif_c20_test.go, one block per
   line), the executable oracle [spec_ok] evaluated on the IMPLEMENTATION's observations only,
   and the replay of the modelled subset through model/GenVal.v.  No proofs in this file
   (soundness of the oracle: proofs/GenValCheckProofs.v). *)
From Coq Require Import NArith ZArith List Bool String.
From Verif.lib Require Import Term.
From Verif.model Require Import GenVal.
Import ListNotations.
Open Scope N_scope.

(* ------------------------------------------------------------------ what the harness observed *)
Record obs := mkObs {
  o_gen_ok : bool;                 (* GenerateBlock returned a block *)
  o_val_ok : bool;                 (* Ledger.Validate on the second ledger accepted it *)
  o_digests : list term;           (* canonical StateDelta digests: Validate + every repeated Eval *)
  o_errs : list N;                 (* 0 = that evaluation succeeded *)
  o_red : list term;               (* generator's vs validator's delta without fee sink / proposer *)
  o_muts : list (bool * bool);     (* (applicable, rejected) per mutated generate-computed field *)
  o_ps : list N                    (* the generated header against its own payset, see [hdr_of_payset_ok] *)
}.

Fixpoint all_eq (x : term) (l : list term) : bool :=
  match l with [] => true | y :: r => term_eqb x y && all_eq x r end.

Definition all_same (l : list term) : bool :=
  match l with [] => true | x :: r => all_eq x r end.

Definition mut_ok (m : bool * bool) : bool := negb (fst m) || snd m.

(* the property on one observed block:
     (the generated block validates on the other ledger)
   /\ (every repeated evaluation succeeded and produced the same canonical delta, and the
       validator's delta equals the generator's outside fee sink / proposer)
   /\ (every applicable mutant was rejected) *)
(* The generated header read against the generated payset alone ([lt maxb bytes load tc prev ntx
   counter po feesum fees]: LoadTracking, protocol MaxTxnBytesPerBlock, sum of the encoded
   lengths of the block's transactions, header Load; TxnCounter flag, previous counter, number of
   transactions (no inner transactions in these pools), header TxnCounter; Payouts.Enabled, sum of
   the fees of the block's transactions not sent by the fee sink, header FeesCollected):
   Load = ComputeLoad(bytes), TxnCounter = previous + count, FeesCollected = sum -- no trace of
   groups that were tried and dropped. *)
Definition hdr_of_payset_ok (l : list N) : bool :=
  match l with
  | [lt; maxb; bytes; load; tc; prev; ntx; counter; po; feesum; fees] =>
    (if lt =? 0 then load =? 0
     else negb (maxb =? 0) && (load =? N.min (1000000 * bytes / maxb) 1000000)) &&
    (counter =? (if tc =? 0 then 0 else (prev + ntx) mod 18446744073709551616)) &&
    (fees =? (if po =? 0 then 0 else feesum mod 18446744073709551616))
  | [] => true          (* no block was generated: [o_gen_ok] is false *)
  | _ => false
  end.

Definition spec_ok (o : obs) : bool :=
  o_gen_ok o && o_val_ok o &&
  forallb (N.eqb 0) (o_errs o) && all_same (o_digests o) && all_same (o_red o) &&
  forallb mut_ok (o_muts o) && hdr_of_payset_ok (o_ps o).

(* ------------------------------------------------------------------ decoding *)
Definition nth_t (l : list term) (n : nat) : term := nth n l (TL []).

Definition as_params (t : term) : option params :=
  match as_N_list t with
  | Some [mb; un; uf; mg; po; pc; tc; lt; mx; gh; apd] =>
    Some (mkParams mb un (negb (uf =? 0)) mg (negb (po =? 0)) pc (negb (tc =? 0)) (negb (lt =? 0)) mx
                   (negb (gh =? 0)) (negb (apd =? 0)))
  | _ => None
  end.

Definition as_row (t : term) : option (N * acct) :=
  match as_N_list t with Some [i; a; l] => Some (i, mkAcct a l) | _ => None end.

Definition as_rows (t : term) : option (list (N * acct)) :=
  match t with TL l => map_opt as_row l | _ => None end.

Definition as_lview (t : term) : option lview :=
  match t with
  | TL [accts; txids; cnt; rnd; gh; rs; nb; sink; pool] =>
    match as_rows accts, as_N_list txids, as_N cnt, as_N rnd, as_N gh, as_N rs, as_N nb, as_N sink, as_N pool with
    | Some a, Some tx, Some c, Some r, Some g, Some s, Some b, Some sk, Some pl => Some (mkLV a tx c r g s b sk pl)
    | _, _, _, _, _, _, _, _, _ => None
    end
  | _ => None
  end.

Definition as_tx (t : term) : option stib :=
  match t with
  | TL (TS _ :: r) =>
    match map_opt as_N r with
    | Some [id; snd; rcv; amt; cl; fee; fv; lv; gok; len; gidok] =>
      Some (mkTxn id snd rcv amt cl fee fv lv (negb (gok =? 0)) len (negb (gidok =? 0)), ad0)
    | _ => None
    end
  | _ => None
  end.

Definition as_group (t : term) : option group :=
  match t with
  | TL (TS _ :: wf :: gid :: fee :: txs) =>
    match as_bool wf, as_bool gid, as_bool fee, map_opt as_tx txs with
    | Some w, Some g, Some f, Some l => Some (mkGroup l w g f)
    | _, _, _, _ => None
    end
  | _ => None
  end.

Definition as_pool (t : term) : option (list group) :=
  match t with TL l => map_opt as_group l | _ => None end.

Definition tagged (t : term) : list term := match t with TL (TS _ :: r) => r | _ => [] end.

Definition as_mut (t : term) : option (bool * bool) :=
  match t with
  | TL [TS _; a; r] => match as_bool a, as_bool r with Some x, Some y => Some (x, y) | _, _ => None end
  | _ => None
  end.

Definition as_obs (gen val digests errs red mut pschk : term) : option obs :=
  match as_bool (nth_t (tagged gen) 0), as_bool (nth_t (tagged val) 0),
        map_opt as_N (tagged errs), map_opt as_mut (tagged mut), map_opt as_N (tagged pschk) with
  | Some g, Some v, Some e, Some m, Some ps => Some (mkObs g v (tagged digests) e (tagged red) m ps)
  | _, _, _, _, _ => None
  end.

(* ------------------------------------------------------------------ rendering the model's results *)
Fixpoint row_insert (x : N * acct) (l : list (N * acct)) : list (N * acct) :=
  match l with
  | [] => [x]
  | y :: r => if fst x <? fst y then x :: y :: r else y :: row_insert x r
  end.
Definition rows_sorted (l : list (N * acct)) : list (N * acct) := fold_right row_insert [] l.

Definition t_rows (l : list (N * acct)) : term :=
  TL (map (fun r : N * acct => TL [tn (fst r); tn (a_algos (snd r)); tn (a_lastprop (snd r))]) (rows_sorted l)).

Definition t_payset (ps : list group) : term :=
  TL (map (fun g => TL (map (fun s : stib => TL [tn (t_id (fst s)); tn (ad_closing (snd s)); tn (ad_other (snd s))]) (g_txns g))) ps).

Definition t_accept (codes : list N) : term := TL (map (fun c => tb (c =? 0)) codes).

(* the model's account of one case: which groups are accepted, the generated header fields,
   payset with ApplyData, generator's delta, finished proposer / payout, validator's verdict and
   delta *)
Definition model_obs (P : params) (L : lview) (cap : N) (stopfull : bool) (rnd bonus : N) (pool0 : list group) (parts : list N)
           (proposer : N) (elig : bool) : term :=
  let E := mkEnv P true true rnd (eff_cap P cap) in
  match start E L (hdr_template rnd bonus) with
  | Err e => TL [TS "start_failed"; tn e]
  | Ok (_, l0) =>
    (* the pool stops offering groups at the first one that does not fit *)
    let pool := if stopfull then pool_until_full E L (mkEv l0 [] 0) pool0 else pool0 in
    let codes := gen_codes E L (mkEv l0 [] 0) pool in
    match (if stopfull then eval_generate_full P cap L rnd bonus pool0 parts
           else eval_generate_cap P cap L rnd bonus pool0 parts) with
    | Err e => TL [TS "generate_failed"; tn e]
    | Ok ub =>
      let h := ub_hdr ub in
      let blk := finish_block P ub proposer elig in
      let v := match eval_validate P L blk with
               | Ok d => TL [tn 1; t_rows (l_accts d)]
               | Err e => TL [tn 0; tn e]
               end in
      let nv := match eval_block P false L blk with
                | Ok d => TL [tn 1; t_rows (l_accts d)]
                | Err e => TL [tn 0; tn e]
                end in
      TL [t_accept codes;
          TL [tn (h_genhash h); tn (h_rs h); tn (h_counter h); tn (h_fees h); tn (h_payout h); tn (h_load h)];
          t_payset (ub_payset ub);
          t_rows (l_accts (ub_delta ub));
          TL [tn (h_proposer (b_hdr blk)); tn (h_payout (b_hdr blk))];
          v; nv; TL (map tn codes)]
    end
  end.

(* the same shape built from the implementation's observations *)
Definition impl_obs (codes gen fin val : term) : term :=
  let g := tagged gen in
  let hdr := match nth_t g 1 with
             | TL [gh; rs; _; cnt; fees; po; load] => TL [gh; rs; cnt; fees; po; load]
             | x => x
             end in
  let acc := match map_opt as_N (tagged codes) with Some l => t_accept l | None => TL [] end in
  let v := TL (tagged val) in
  TL [acc; hdr; nth_t g 2; nth_t g 3; TL (tagged fin); v; v].

Definition root_flag (gen : term) : bool :=
  match nth_t (tagged gen) 1 with
  | TL [_; _; rk; _; _; _; _] => match as_bool rk with Some b => b | None => false end
  | _ => false
  end.

Definition drop_last (t : term) : term :=
  match t with TL l => TL (removelast l) | x => x end.

(* ------------------------------------------------------------------ check *)
Definition count_true (l : list (bool * bool)) : nat := List.length (filter fst l).

Definition check (t : term) : term :=
  match t with
  | TL [TS _; modelled; params; lv; rnd; bonus; pool; parts; proposer; elig; cap; stopfull;
        codes; gen; fin; val; digests; errs; red; mut; info; pschk] =>
    match as_obs gen val digests errs red mut pschk, as_bool modelled with
    | Some o, Some m =>
      let nontrivial :=
        match map_opt as_N (tagged info) with
        | Some [nacc; nrej] => (0 <? nacc) && (0 <? nrej) && (6 <=? N.of_nat (count_true (o_muts o)))
        | _ => false
        end in
      if negb m then verdict (spec_ok o) true nontrivial (TL [TS "runtime_only"])
      else
        match as_params params, as_lview lv, as_N rnd, as_N bonus, as_pool pool, as_N_list parts, as_N proposer, as_bool elig,
              as_N cap, as_bool stopfull with
        | Some P, Some L, Some r, Some b, Some pl, Some ps, Some pr, Some el, Some cp, Some sf =>
          let mo := model_obs P L cp sf r b pl ps pr el in
          let io := impl_obs codes gen fin val in
          let corr := term_eqb (drop_last mo) io && root_flag gen in
          verdict (spec_ok o) corr nontrivial mo
        | _, _, _, _, _, _, _, _, _, _ => v_parse
        end
    | _, _ => v_parse
    end
  | _ => v_parse
  end.
