(* C06: executable model of agreement/voteTracker.go (voteTracker.handle on a
   voteAcceptedEvent, overThreshold, genBundle) and of bundle.go:makeBundle and
   types.go:step.reachesQuorum, transcribed branch by branch.  No proofs here.

   Abstractions: a vote is (sender, proposal-value, credential weight); round/period/step
   are constant for one tracker (the router creates one voteTracker per (r,p,s)), so the
   step only selects the quorum predicate.  Go maps are association lists keyed by N whose
   iteration order is never observed (overThreshold is a filter; genBundle sorts).
   uint64 additions wrap ([wadd]); Go panics are [OPanic tag]:
     "eq"        log.Panicf("too many equivocators ...")
     "two"       log.Panicf("voteTracker: more than value reached a threhsold ...")
     "idx"       runtime index out of range at votes[0] in genBundle
     "novotes" / "badvote" / "notenough"   the three log.Panicf of makeBundle.          *)
From Coq Require Import NArith List Bool String.
Import ListNotations.
Open Scope N_scope.

Definition w64 (x : N) : N := x mod 2 ^ 64.
Definition wadd (a b : N) : N := w64 (a + b).

(* ---- Go maps as association lists (keys N) ---- *)
Fixpoint alookup {A} (k : N) (l : list (N * A)) : option A :=
  match l with
  | [] => None
  | (k', v) :: t => if k =? k' then Some v else alookup k t
  end.
Definition adelete {A} (k : N) (l : list (N * A)) : list (N * A) :=
  filter (fun e => negb (fst e =? k)) l.
Definition ainsert {A} (k : N) (v : A) (l : list (N * A)) : list (N * A) :=
  (k, v) :: adelete k l.
Definition isnil {A} (l : list A) : bool := match l with [] => true | _ => false end.

(* ---- data ---- *)
Record vote := mkVote { v_sender : N; v_value : N; v_weight : N }.
(* equivocationVote: Sender, Cred (of the OLD vote), Proposals[0..1] *)
Record eqvote := mkEq { e_sender : N; e_weight : N; e_p0 : N; e_p1 : N }.
(* proposalVoteCounter *)
Record counter := mkCounter { c_count : N; c_votes : list (N * vote) }.
(* voteTracker *)
Record state := mkState {
  voters : list (N * vote);
  counts : list (N * counter);
  equivocators : list (N * eqvote);
  eqcount : N }.
(* unauthenticatedBundle: Proposal, Votes (senders, in packing order), EquivocationVotes
   (sender, Proposals[0], Proposals[1]) *)
Record bundle := mkBundle { b_value : N; b_votes : list N; b_eqs : list (N * N * N) }.

Inductive out :=
| ONone
| OThreshold (p : N) (b : bundle)
| OPanic (tag : string).

Definition init : state := mkState [] [] [] 0.

(* ---- types.go: step.reachesQuorum ---- *)
Record params := mkParams { p_soft : N; p_cert : N; p_late : N; p_redo : N; p_down : N; p_next : N }.
(* None = propose: "Called Propose.ReachesQuorum", always false *)
Definition step_quorum (pr : params) (step : N) : option N :=
  if step =? 0 then None
  else if step =? 1 then Some (p_soft pr)
  else if step =? 2 then Some (p_cert pr)
  else if step =? 253 then Some (p_late pr)
  else if step =? 254 then Some (p_redo pr)
  else if step =? 255 then Some (p_down pr)
  else Some (p_next pr).
Definition reaches (q : option N) (weight : N) : bool :=
  match q with None => false | Some t => t <=? weight end.

(* ---- voteTracker.count / overThreshold ---- *)
Definition counter_of (st : state) (p : N) : counter :=
  match alookup p (counts st) with Some c => c | None => mkCounter 0 [] end.
Definition count (st : state) (p : N) : N := wadd (c_count (counter_of st p)) (eqcount st).

Inductive ot_result := OTPanic | OTNone | OTSome (p : N).
Definition over_list (q : option N) (st : state) : list N :=
  map fst (filter (fun e => reaches q (wadd (c_count (snd e)) (eqcount st))) (counts st)).
Definition over_threshold (q : option N) (st : state) : ot_result :=
  match over_list q st with
  | [] => OTNone
  | [p] => OTSome p
  | _ => OTPanic
  end.

(* ---- genBundle / makeBundle ---- *)
(* sort.SliceStable less: heavier first, ties by larger sender *)
Definition before (wa sa wb sb : N) : bool := (wb <? wa) || ((wa =? wb) && (sb <? sa)).
Definition vote_before (a b : vote) : bool := before (v_weight a) (v_sender a) (v_weight b) (v_sender b).
Definition eq_before (a b : eqvote) : bool := before (e_weight a) (e_sender a) (e_weight b) (e_sender b).
Fixpoint insert_by {A} (less : A -> A -> bool) (x : A) (l : list A) : list A :=
  match l with
  | [] => [x]
  | y :: t => if less y x then y :: insert_by less x t else x :: y :: t
  end.
Fixpoint sort_by {A} (less : A -> A -> bool) (l : list A) : list A :=
  match l with
  | [] => []
  | x :: t => insert_by less x (sort_by less t)
  end.

(* for cutoff := 0; !reachesQuorum(weight) && cutoff < len(ws); cutoff++ { weight += ws[cutoff] } *)
Fixpoint pack (q : option N) (ws : list N) (weight : N) : nat * N :=
  match ws with
  | [] => (O, weight)
  | w :: ws' =>
      if reaches q weight then (O, weight)
      else let '(n, wt) := pack q ws' (wadd weight w) in (S n, wt)
  end.

Definition make_bundle (q : option N) (target : N) (votes : list vote) (eqs : list eqvote) : string + bundle :=
  if isnil votes then inl "novotes"%string
  else if negb (forallb (fun v => v_value v =? target) votes) then inl "badvote"%string
  else
    let '(n1, packed1) := pack q (map v_weight votes) 0 in
    let '(n2, packed2) := pack q (map e_weight eqs) packed1 in
    if negb (reaches q packed2) then inl "notenough"%string
    else inr (mkBundle target
                (map v_sender (firstn n1 votes))
                (map (fun e => (e_sender e, e_p0 e, e_p1 e)) (firstn n2 eqs))).

Definition gen_bundle (q : option N) (st : state) (c : counter) : string + bundle :=
  let votes := sort_by vote_before (map snd (c_votes c)) in
  match votes with
  | [] => inl "idx"%string                       (* votes[0] on an empty slice *)
  | _ :: _ =>
      let '(cut, weight) := pack q (map v_weight votes) 0 in
      let votes' := firstn cut votes in
      let eqs := sort_by eq_before (map snd (equivocators st)) in
      match votes' with
      | [] => inl "idx"%string                   (* second loop: votes[0] after votes = votes[:0] *)
      | v0 :: _ =>
          let '(cut2, _) := pack q (map e_weight eqs) weight in
          make_bundle q (v_value v0) votes' (firstn cut2 eqs)
      end
  end.

(* ---- voteTracker.handle, case voteAccepted ---- *)
Definition finish (q : option N) (overBefore : bool) (st' : state) : state * out :=
  match over_threshold q st' with
  | OTPanic => (st', OPanic "two")
  | OTNone => (st', ONone)
  | OTSome prop =>
      if overBefore then (st', ONone)
      else match gen_bundle q st' (counter_of st' prop) with
           | inl tag => (st', OPanic tag)
           | inr b => (st', OThreshold prop b)
           end
  end.

Definition handle (q : option N) (st : state) (x : vote) : state * out :=
  let s := v_sender x in
  match alookup s (equivocators st) with
  | Some _ => (st, ONone)                                    (* equivocator: dropped *)
  | None =>
    match over_threshold q st with
    | OTPanic => (st, OPanic "two")
    | ob =>
      let overBefore := match ob with OTSome _ => true | _ => false end in
      match alookup s (voters st) with
      | None =>
          let c := counter_of st (v_value x) in
          let c' := mkCounter (wadd (c_count c) (v_weight x)) (ainsert s x (c_votes c)) in
          finish q overBefore
            (mkState (ainsert s x (voters st)) (ainsert (v_value x) c' (counts st))
                     (equivocators st) (eqcount st))
      | Some old =>
          if v_value old =? v_value x then (st, ONone)       (* identical repeat *)
          else
            let ec := wadd (eqcount st) (v_weight x) in
            if reaches q ec then (st, OPanic "eq")
            else
              let oc := counter_of st (v_value old) in
              let counts' :=
                if c_count oc <=? v_weight old then adelete (v_value old) (counts st)
                else ainsert (v_value old)
                       (mkCounter (c_count oc - v_weight old) (adelete s (c_votes oc))) (counts st) in
              let st' := mkState (adelete s (voters st)) counts'
                           (ainsert s (mkEq (v_sender old) (v_weight old) (v_value old) (v_value x))
                                    (equivocators st))
                           ec in
              if isnil (voters st') then (st', ONone) else finish q overBefore st'
      end
    end
  end.

(* run a vote list; stops after the first panic (the node dies) *)
Fixpoint run (q : option N) (st : state) (l : list vote) : list (out * option state) :=
  match l with
  | [] => []
  | x :: l' =>
      let '(st', o) := handle q st x in
      match o with
      | OPanic _ => [(o, None)]
      | _ => (o, Some st') :: run q st' l'
      end
  end.
Definition exec (q : option N) (l : list vote) : list out := map fst (run q init l).
Fixpoint state_after (q : option N) (st : state) (l : list vote) : option state :=
  match l with
  | [] => Some st
  | x :: l' => let '(st', o) := handle q st x in
               match o with OPanic _ => None | _ => state_after q st' l' end
  end.
