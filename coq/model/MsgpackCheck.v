(* C40 / C41: executable checkers run (extracted to OCaml) over the harness cases.
   Cases (harness/go/agreement/zz_verif_c40_test.go):
     (enc  NAME tree #msgp #reflect OUT kmin)    random instance: both real encoders, real decode of the
                                                msgp bytes, re-encoding, least accepted AllowableDepth
     (dec  NAME #input OUT kind)                 arbitrary input through protocol.Decode
   OUT = (ok tree #reencoded) | (err) | (panic #message)
   Value trees:  n | (i z) | (b 0/1) | #hex | nil = n ... see [parse_value].  No proofs here. *)
From Coq Require Import List NArith ZArith Bool String.
From Verif.lib Require Import Term.
From Verif.model Require Import Msgpack.
From Verif.gen Require Import Schemas.
Import ListNotations.
Open Scope N_scope.

Fixpoint parse_value (t : term) {struct t} : option value :=
  match t with
  | TZ z => if (z <? 0)%Z then None else Some (VUint (Z.to_N z))
  | TB b => Some (VBytes b)
  | TS s => if String.eqb s "n" then Some VNil else if String.eqb s "d" then Some VDefault else None
  | TL (TS tag :: args) =>
      let plist := (fix go (l : list term) : option (list value) :=
                      match l with
                      | [] => Some []
                      | x :: l' =>
                          match x with
                          | TL [TS tg; TZ n; e] =>
                              (* (x n elem): a run of n equal elements *)
                              if String.eqb tg "x" then
                                match parse_value e, go l' with
                                | Some v, Some vs => Some (List.app (repeat v (Z.to_nat n)) vs)
                                | _, _ => None
                                end
                              else match parse_value x, go l' with
                                   | Some v, Some vs => Some (v :: vs)
                                   | _, _ => None
                                   end
                          | _ => match parse_value x, go l' with
                                 | Some v, Some vs => Some (v :: vs)
                                 | _, _ => None
                                 end
                          end
                      end) in
      if String.eqb tag "i" then match args with [TZ z] => Some (VInt z) | _ => None end
      else if String.eqb tag "b" then
        match args with [TZ 0%Z] => Some (VBool false) | [TZ 1%Z] => Some (VBool true) | _ => None end
      else if String.eqb tag "l" then option_map VList (plist args)
      else if String.eqb tag "s" then option_map VStruct (plist args)
      else if String.eqb tag "r" then match args with [x] => option_map VRef (parse_value x) | _ => None end
      else if String.eqb tag "p" then match args with [x] => option_map VSome (parse_value x) | _ => None end
      else if String.eqb tag "m" then
        option_map VMap
          ((fix go (l : list term) : option (list (value * value)) :=
              match l with
              | [] => Some []
              | TL [k; x] :: l' => match parse_value k, parse_value x, go l' with
                                   | Some kv, Some xv, Some r => Some ((kv, xv) :: r)
                                   | _, _, _ => None
                                   end
              | _ => None
              end) args)
      else None
  | _ => None
  end.

Fixpoint unparse_value (v : value) : term :=
  match v with
  | VUint n => tn n
  | VInt z => TL [TS "i"; TZ z]
  | VBool b => TL [TS "b"; tb b]
  | VBytes b => TB b
  | VNil => TS "n"
  | VDefault => TS "d"
  | VList l => TL (TS "l" :: map unparse_value l)
  | VStruct l => TL (TS "s" :: map unparse_value l)
  | VMap l => TL (TS "m" :: map (fun kv : value * value => let (k, x) := kv in TL [unparse_value k; unparse_value x]) l)
  | VRef v' => TL [TS "r"; unparse_value v']
  | VSome v' => TL [TS "p"; unparse_value v']
  end.

Fixpoint assoc_name (nm : string) (l : list (string * N)) : option N :=
  match l with
  | [] => None
  | (k, v) :: l' => if String.eqb k nm then Some v else assoc_name nm l'
  end.

Definition root_of (nm : string) : option N :=
  match assoc_name nm names with
  | Some id => if existsb (N.eqb id) roots then Some id else None
  | None => None
  end.

(* the two Go encoders as instances of the model *)
Definition enc_msgp := enc env false.
Definition enc_codec := enc env true.
Definition norm_m := norm env false.
Definition wtb_m := wtb env false.
Definition decode_m := decode env false max_depth.

(* a non-nil pointer to a zero value somewhere in the value: the recorded encoder discrepancy *)
Fixpoint has_ptr_zero (s : schema) (v : value) {struct v} : bool :=
  match v with
  | VSome v' => match s with SPtr e => is_zero env true e v' || has_ptr_zero e v' | _ => false end
  | VRef v' => match s with
               | SRef id => match lookup env id with Some s' => has_ptr_zero s' v' | None => false end
               | _ => false
               end
  | VList l => match s with SArray _ e | SSlice _ e => existsb (has_ptr_zero e) l | _ => false end
  | VMap l => match s with
              | SMap _ ks vs => existsb (fun kv : value * value => let (k, x) := kv in has_ptr_zero ks k || has_ptr_zero vs x) l
              | _ => false
              end
  | VStruct vs =>
      match s with
      | SStruct fs =>
          (fix go (fs : list (fhdr * schema)) (vs : list value) {struct vs} : bool :=
             match fs, vs with
             | (_, fsch) :: fs', v :: vs' => has_ptr_zero fsch v || go fs' vs'
             | _, _ => false
             end) fs vs
      | _ => false
      end
  | _ => false
  end.

(* model value vs the harness' rendering of the Go object: [VDefault] (a Go zero value the decoder never
   touched) matches any zero value of the field's type *)
Fixpoint value_eqz (s : schema) (a b : value) {struct a} : bool :=
  match a with
  | VDefault => is_zero env false s b
  | VRef a' => match b, s with
               | VRef b', SRef id => match lookup env id with Some s' => value_eqz s' a' b' | None => false end
               | _, _ => false
               end
  | VSome a' => match b, s with VSome b', SPtr e => value_eqz e a' b' | _, _ => false end
  | VList la => match b, s with
                | VList lb, (SArray _ e | SSlice _ e) =>
                    (fix go (l1 l2 : list value) {struct l1} : bool :=
                       match l1, l2 with
                       | [], [] => true
                       | x :: l1', y :: l2' => value_eqz e x y && go l1' l2'
                       | _, _ => false
                       end) la lb
                | _, _ => false
                end
  | VMap la => match b, s with
               | VMap lb, SMap _ ks vs =>
                   (fix go (l1 l2 : list (value * value)) {struct l1} : bool :=
                      match l1, l2 with
                      | [], [] => true
                      | (k1, x1) :: l1', (k2, x2) :: l2' => value_eqz ks k1 k2 && value_eqz vs x1 x2 && go l1' l2'
                      | _, _ => false
                      end) la lb
               | _, _ => false
               end
  | VStruct la => match b, s with
                  | VStruct lb, SStruct fs =>
                      (fix go (fs : list (fhdr * schema)) (l1 l2 : list value) {struct l1} : bool :=
                         match fs, l1, l2 with
                         | [], [], [] => true
                         | (_, fsch) :: fs', x :: l1', y :: l2' => value_eqz fsch x y && go fs' l1' l2'
                         | _, _, _ => false
                         end) fs la lb
                  | _, _ => false
                  end
  | _ => value_eqb a b
  end.

Inductive outcome := OOk (v : value) (re : bytes) | OErr | OPanic | OBad.

Definition parse_out (t : term) : outcome :=
  match t with
  | TL [TS tag; tv; TB re] =>
      if String.eqb tag "ok" then match parse_value tv with Some v => OOk v re | None => OBad end else OBad
  | TL [TS tag] => if String.eqb tag "err" then OErr else OBad
  | TL [TS tag; _] => if String.eqb tag "panic" then OPanic else OBad
  | _ => OBad
  end.

Definition res_term (r : res (value * bytes)) : term :=
  match r with
  | Ok (v, rest) => TL [TS "ok"; unparse_value v; TB rest]
  | Err e => TL [TS "err"; tn (match e with EShort => 1 | EType => 2 | EOverflow => 3 | ERange => 4 | EDepth => 5
                                          | ENoField => 6 | ERequired => 7 | ETooMany => 8 | EArray => 9 | ESchema => 10 end)]
  | Unm k => TL [TS "unmodelled"; tn k]
  end.

(* ---- C40 ---- *)
Definition check40 (t : term) : term :=
  match t with
  | TL [TS kind; TS nm; tv; TB e1; TB e2; tout; TZ kmin] =>
      if negb (String.eqb kind "enc") then v_parse else
      match root_of nm, parse_value tv with
      | Some id, Some v =>
          let s := SRef id in
          let out := parse_out tout in
          let same_enc := bytes_eqb e1 e2 in
          (* the property on the implementation's own observations *)
          let dec_ok := match out with
                        | OOk v2 re => bytes_eqb re e1 && value_eqb (norm_m s v2) (norm_m s v)
                        | OErr => negb (wtb_m s v)      (* an encodable but ill-formed instance may be rejected *)
                        | _ => false
                        end in
          let m_enc := enc_msgp s v in
          let m_dec := decode_m id e1 in
          let detail := TL [TB m_enc; res_term m_dec; tn (N.of_nat (need (norm_m s v)))] in
          if negb same_enc && dec_ok && has_ptr_zero s v && bytes_eqb (enc_codec s v) e2 && bytes_eqb m_enc e1
          then v_known "ptr_to_zero_value_encoders_differ" detail
          else
          let spec_ok := same_enc && dec_ok in
          let corr :=
            bytes_eqb m_enc e1
            && (if wtb_m s v
                then match m_dec with
                     | Ok (v', rest) => value_eqb v' (norm_m s v) && match rest with [] => true | _ => false end
                     | _ => false
                     end
                     && (Z.of_nat (need (norm_m s v)) =? kmin)%Z
                else true) in
          verdict spec_ok corr (wtb_m s v) detail
      | _, _ => v_parse
      end
  | _ => v_parse
  end.

(* nesting of called types among the NON-zero parts of a value (a non-zero part of a decoded object was
   necessarily produced by that many nested decoder calls; zero parts may never have been touched) *)
Fixpoint need_nz (s : schema) (v : value) {struct v} : nat :=
  if is_zero env false s v then O else
  match v with
  | VRef v' => match s with
               | SRef id => match lookup env id with Some s' => S (need_nz s' v') | None => O end
               | _ => O
               end
  | VSome v' => match s with SPtr e => need_nz e v' | _ => O end
  | VList l => match s with
               | SArray _ e | SSlice _ e => fold_right (fun x m => Nat.max (need_nz e x) m) O l
               | _ => O
               end
  | VMap l => match s with
              | SMap _ ks vs =>
                  fold_right (fun (kv : value * value) m => let (k, x) := kv in Nat.max (Nat.max (need_nz ks k) (need_nz vs x)) m) O l
              | _ => O
              end
  | VStruct vs =>
      match s with
      | SStruct fs =>
          (fix go (fs : list (fhdr * schema)) (vs : list value) {struct vs} : nat :=
             match fs, vs with
             | (_, fsch) :: fs', v :: vs' => Nat.max (need_nz fsch v) (go fs' vs')
             | _, _ => O
             end) fs vs
      | _ => O
      end
  | _ => O
  end.

(* some slice / map below the schema is declared `allocbound=-` *)
Fixpoint has_unbounded (fuel : nat) : schema -> bool :=
  fix go (s : schema) : bool :=
    match s with
    | SSlice bd e => (match bd with None => true | Some _ => false end) || go e
    | SMap bd k v => (match bd with None => true | Some _ => false end) || go k || go v
    | SArray _ e | SPtr e => go e
    | SStruct fs => (fix gof (fs : list (fhdr * schema)) : bool :=
                       match fs with [] => false | (_, f) :: t => go f || gof t end) fs
    | SRef id => match fuel with
                 | O => false
                 | S fuel' => match lookup env id with Some s' => has_unbounded fuel' s' | None => false end
                 end
    | _ => false
    end.

(* ---- C41 ---- *)
Definition check41 (t : term) : term :=
  match t with
  | TL [TS kind; TS nm; TB input; tout; TS gen] =>
      if negb (String.eqb kind "dec") then v_parse else
      match root_of nm with
      | Some id =>
          let s := SRef id in
          let out := parse_out tout in
          let m := decode_m id input in
          let detail := TL [res_term m] in
          (* the property on the implementation's observation: no panic; declared bounds respected; the decoded
             object is nested at most AllowableDepth deep (C41_decode_depth on the observation) *)
          let spec_ok := match out with
                         | OOk v _ => bounds_okb env s v && Nat.leb (need_nz s v) max_depth
                         | OErr => true
                         | _ => false
                         end in
          let corr := match m, out with
                      | Ok (v', _), OOk v _ => value_eqz s (norm_m s v') (norm_m s v)
                      | Err _, OErr => true
                      | Unm _, (OOk _ _ | OErr) => true
                      | _, _ => false
                      end in
          let nontrivial := match m with Unm _ => false | _ => true end in
          (* recorded finding: a struct key given twice, the second MAP is merged into the first one and
             only each header is compared with the allocbound *)
          let dupmerge := match m, out with
                          | Unm 1, OOk v _ => negb (bounds_okb env s v) && bounds_gen env false s v
                          | _, _ => false
                          end in
          if dupmerge then v_known "duplicate_key_map_merge_exceeds_allocbound" detail else
          (* recorded finding: a collection declared `allocbound=-` is allocated from its length prefix before
             any element is read; the input is too short (model: EShort) but the process dies first *)
          let oom := match out, m with
                     | OPanic, Err EShort => has_unbounded (List.length env) s
                     (* same defect through the go-codec compatible reading of a MAP header as an array of 2n
                        elements (outside the model: Unm 4): the flattened count is trusted in the same way *)
                     | OPanic, Unm 4 => has_unbounded (List.length env) s
                     | _, _ => false
                     end in
          if oom then v_known "unbounded_allocbound_length_prefix_oom" detail else
          verdict spec_ok corr nontrivial detail
      | None => v_parse
      end
  | _ => v_parse
  end.

Definition check (t : term) : term :=
  match t with
  | TL (TS kind :: _) => if String.eqb kind "enc" then check40 t else check41 t
  | _ => v_parse
  end.
