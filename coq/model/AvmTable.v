(* The regenerated AVM tables (coq/gen/AvmTables.v) as inputs of the frame model, a model of
   opcodes.go:init() (how opsByOpcode is built from OpSpecs), and the finite, executable
   obligations on the tables (decided by vm_compute in proofs/AvmTableProofs.v).  No proofs. *)
From Coq Require Import List NArith ZArith String Bool.
From Verif.model Require Import AvmTypes AvmFrame AvmFieldSpec.
From Verif.gen Require Import AvmTables.
Import ListNotations.

(* ------------------------------------------------------------------ the dumped run-time tables *)
Definition pool_get (i : N) : opspec := nth (N.to_nat i) spec_pool zero_spec.
Definition version_table (v : N) : list tentry := nth (N.to_nat v) ops_by_opcode [].

(* opsByOpcode[v][opcode] and its SubOps *)
Definition gen_tbl (v opcode : N) : opspec * list opspec :=
  match find (fun e : tentry => N.eqb (fst e) opcode) (version_table v) with
  | Some (_, (i, subs)) => (pool_get i, map pool_get subs)
  | None => (zero_spec, [])
  end.

(* OpSpecs, in source order *)
Definition src_specs : list opspec := map pool_get op_specs_src.

Definition max_depth_nat : nat := N.to_nat max_stack_depth.

(* ------------------------------------------------------------------ model of init() *)
Definition tab : Type := list (N * (opspec * list opspec)).
Definition tab_get (t : tab) (op : N) : opspec * list opspec :=
  match find (fun e : N * (opspec * list opspec) => N.eqb (fst e) op) t with
  | Some (_, e) => e
  | None => (zero_spec, [])
  end.
(* table[op] = e (the newest binding shadows) *)
Definition tab_set (t : tab) (op : N) (e : opspec * list opspec) : tab := (op, e) :: t.

(* addToSubOps: grow with zero OpSpecs up to index n, then store *)
Fixpoint set_sub (subs : list opspec) (n : nat) (x : opspec) : list opspec :=
  match n, subs with
  | O, [] => [x]
  | O, _ :: r => x :: r
  | S n', [] => zero_spec :: set_sub [] n' x
  | S n', y :: r => y :: set_sub r n' x
  end.

(* "if oi.SubOpcode != 0 { addToSubOps(&table, oi) } else { table[oi.Opcode] = oi }"; the
   OpSpecs literals have nil SubOps, so a plain assignment resets the entry's SubOps *)
Definition add_spec (t : tab) (oi : opspec) : tab :=
  if N.eqb (os_sub oi) 0 then tab_set t (os_opcode oi) (oi, [])
  else let '(p, subs) := tab_get t (os_opcode oi) in
       tab_set t (os_opcode oi) (p, set_sub subs (N.to_nat (os_sub oi)) oi).

Definition with_version (s : opspec) (v : N) : opspec :=
  mkOp (os_opcode s) (os_sub s) (os_name s) v (os_modes s) (os_size s) (os_args s) (os_rets s)
       (os_trusted s) (os_full s) (os_imms s) (os_ck s) (os_ok s) (os_hasop s).

(* one "for _, oi := range OpSpecs { if oi.Version == u { ... } }" pass *)
Definition pass (specs : list opspec) (u : N) (t : tab) : tab :=
  fold_left (fun t oi => if N.eqb (os_version oi) u then add_spec t oi else t) specs t.
(* version 0 = the v1 opcodes with Version overwritten to 0 *)
Definition pass0 (specs : list opspec) : tab :=
  fold_left (fun t oi => if N.eqb (os_version oi) 1 then add_spec t (with_version oi 0) else t) specs [].
Fixpoint upto (specs : list opspec) (k : nat) : tab :=
  match k with
  | O => []
  | S k' => pass specs (N.of_nat (S k')) (upto specs k')
  end.
Definition init_table (specs : list opspec) (v : N) : tab :=
  if N.eqb v 0 then pass0 specs else upto specs (N.to_nat v).

(* ------------------------------------------------------------------ decidable equality on specs *)
Definition lc_eqb (a b : lincost) : bool :=
  (lc_base a =? lc_base b)%Z && (lc_chunk a =? lc_chunk b)%Z && (lc_size a =? lc_size b)%Z && (lc_depth a =? lc_depth b)%Z.
Fixpoint list_eqb {A} (eqb : A -> A -> bool) (l1 l2 : list A) : bool :=
  match l1, l2 with
  | [], [] => true
  | x :: xs, y :: ys => eqb x y && list_eqb eqb xs ys
  | _, _ => false
  end.
Definition imm_eqb (a b : immediate) : bool :=
  N.eqb (im_kind a) (im_kind b) && N.eqb (im_group a) (im_group b) && list_eqb lc_eqb (im_costs a) (im_costs b).
Definition ck_N (c : ckind) : N :=
  match c with CkNone => 0 | CkBranch2B => 1 | CkBranchVarint => 2 | CkSwitch => 3 | CkIntImm => 4
             | CkByteImm => 5 | CkPushBytes => 6 | CkPushInt => 7 | CkUnknown => 8 end%N.
Definition ok_N (o : okind) : N :=
  match o with
  | OpPlain => 0 | OpBnz2B => 1 | OpBz2B => 2 | OpB2B => 3 | OpCallsub2B => 4 | OpBnzV => 5 | OpBzV => 6
  | OpBV => 7 | OpCallsubV => 8 | OpSwitch => 9 | OpMatch => 10 | OpRetsub => 11 | OpIntcBlock => 12
  | OpBytecBlock => 13 | OpPushInts => 14 | OpPushBytess => 15 | OpPushInt => 16 | OpPushBytes => 17
  | OpReturn => 18
  end%N.
Definition spec_eqb (a b : opspec) : bool :=
  N.eqb (os_opcode a) (os_opcode b) && N.eqb (os_sub a) (os_sub b) && String.eqb (os_name a) (os_name b)
  && N.eqb (os_version a) (os_version b) && N.eqb (os_modes a) (os_modes b) && N.eqb (os_size a) (os_size b)
  && list_eqb N.eqb (os_args a) (os_args b) && list_eqb N.eqb (os_rets a) (os_rets b)
  && Bool.eqb (os_trusted a) (os_trusted b) && lc_eqb (os_full a) (os_full b)
  && list_eqb imm_eqb (os_imms a) (os_imms b) && N.eqb (ck_N (os_ck a)) (ck_N (os_ck b))
  && N.eqb (ok_N (os_ok a)) (ok_N (os_ok b)) && Bool.eqb (os_hasop a) (os_hasop b).
Definition entry_eqb (a b : opspec * list opspec) : bool :=
  spec_eqb (fst a) (fst b) && list_eqb spec_eqb (snd a) (snd b).

Definition all_versions : list N := map N.of_nat (seq 0 (S (N.to_nat logic_version))).
Definition all_bytes : list N := map N.of_nat (seq 0 256).

(* the dumped run-time tables are exactly what the model of init() builds from the dumped OpSpecs *)
Definition tables_match_at (v op : N) : bool :=
  entry_eqb (gen_tbl v op) (tab_get (init_table src_specs v) op).
Definition tables_match_init : bool :=
  forallb (fun v => forallb (tables_match_at v) all_bytes) all_versions.
Definition tables_len_ok : bool :=
  N.eqb (N.of_nat (List.length ops_by_opcode)) (logic_version + 1).

(* ------------------------------------------------------------------ fields *)
Definition group_get (k : N) : option fgroup :=
  if N.eqb k 0 then None else nth_error field_groups (N.to_nat k - 1).

(* the group the op's run-time check consults for its i-th immediate *)
Definition runtime_group (s : opspec) (im : immediate) : option fgroup :=
  if N.eqb (im_group im) 0 then None
  else match find (fun e : string * N => String.eqb (fst e) (os_name s)) runtime_group_override with
       | Some (_, k) => group_get k
       | None => group_get (im_group im)
       end.

(* is field byte f of group g usable by a version-v program in this mode *)
Definition field_allowed (v mode : N) (g : fgroup) (f : N) : bool :=
  existsb (fun fs => N.eqb (fs_field fs) f && N.leb (fs_version fs) v && negb (N.eqb (N.land mode (fs_modes fs)) 0))
          (fg_fields g).

(* all field immediates of the instruction at pc name usable fields *)
Fixpoint fields_ok_from (v mode : N) (s : opspec) (imms : list immediate) (prog : list N) (pos : nat) : bool :=
  match imms with
  | [] => true
  | im :: r =>
      (match runtime_group s im with
       | Some g => field_allowed v mode g (byte_at prog pos)
       | None => true
       end) && fields_ok_from v mode s r prog (S pos)
  end.
Definition field_gate (v mode : N) (s : opspec) (prog : list N) (pc : nat) : bool :=
  fields_ok_from v mode s (os_imms s) prog (S (if N.eqb (os_sub s) 0 then pc else S pc)).

(* field tables are well formed: versions within range, positions strictly increasing, and every
   immediate's group id resolves *)
Fixpoint increasing (l : list N) : bool :=
  match l with
  | a :: ((b :: _) as r) => N.ltb a b && increasing r
  | _ => true
  end.
Definition fields_wf : bool :=
  forallb (fun g => forallb (fun fs => N.leb (fs_version fs) logic_version && N.ltb (fs_field fs) 256
                                        && negb (N.eqb (fs_modes fs) 0) && N.leb (fs_modes fs) 3) (fg_fields g)
                    && increasing (map fs_field (fg_fields g))) field_groups
  && N.eqb field_index_mismatches 0
  && forallb (fun s => forallb (fun im => N.eqb (im_group im) 0 ||
                                          match runtime_group s im with Some _ => true | None => false end) (os_imms s))
             spec_pool.

(* ------------------------------------------------------------------ ledger-touching opcodes *)
Definition state_group_names : list string :=
  ["Account Access"; "Application Access"; "Asset Access"; "Box Access"; "Inner Transactions"]%string.
(* members of "Block Access" that go through LedgerForLogic / the EvalDelta (block itself reads
   block headers through LedgerForSignature, which signature mode is given) *)
Definition state_extra_names : list string := ["online_stake"; "log"]%string.

Definition group_members (g : string) : list string :=
  match find (fun e : string * list string => String.eqb (fst e) g) op_groups with
  | Some (_, l) => l
  | None => []
  end.
Definition touches_ledger (name : string) : bool :=
  existsb (fun g => existsb (String.eqb name) (group_members g)) state_group_names
  || existsb (String.eqb name) state_extra_names.

Definition sig_excludes_state : bool :=
  forallb (fun s => implb (os_hasop s && touches_ledger (os_name s)) (N.eqb (N.land (os_modes s) mode_sig) 0)) spec_pool
  (* the doc groups exist and every name in them (and the extras) is an opcode of the table *)
  && forallb (fun g => negb (match group_members g with [] => true | _ => false end)) state_group_names
  && forallb (fun n => existsb (fun s => String.eqb (os_name s) n) spec_pool)
             (flat_map group_members state_group_names ++ state_extra_names).

(* ------------------------------------------------------------------ costs *)
Definition lc_wf (lc : lincost) : bool :=
  (1 <=? lc_base lc)%Z && (0 <=? lc_chunk lc)%Z && (0 <=? lc_size lc)%Z.

(* every op has a minimum cost >= 1: a constant/linear FullCost with base >= 1, or per-field
   costs with base >= 1 for every field of the immediate's group *)
Definition min_cost_ok (s : opspec) : bool :=
  if lc_eqb (os_full s) zero_lc then
    existsb (fun im => match im_costs im, group_get (im_group im) with
                       | _ :: _, Some g => forallb (fun fs => lc_wf (field_cost (im_costs im) (fs_field fs))) (fg_fields g)
                       | _, _ => false
                       end) (os_imms s)
  else lc_wf (os_full s).

(* the cost computation cannot index out of range: linear costs look at a declared argument
   (and within the 5-deep blank stack of checkStep), field-cost immediates lie inside the
   instruction *)
Definition lc_safe (nargs : nat) (lc : lincost) : bool :=
  if negb (lc_chunk lc =? 0)%Z && negb (lc_size lc =? 0)%Z
  then (0 <=? lc_depth lc)%Z && (lc_depth lc <? Z.of_nat nargs)%Z && (lc_depth lc <=? 4)%Z
  else true.
Fixpoint imms_safe (nargs : nat) (size : N) (imms : list immediate) (pos : N) : bool :=
  match imms with
  | [] => true
  | im :: r =>
      (match im_costs im with
       | [] => true
       | cs => N.ltb pos size && forallb (lc_safe nargs) cs
       end) && imms_safe nargs size r (pos + 1)
  end.
Definition cost_safe (s : opspec) : bool :=
  lc_safe (List.length (os_args s)) (os_full s)
  && imms_safe (List.length (os_args s)) (os_size s) (os_imms s) (if N.eqb (os_sub s) 0 then 1 else 2).

Definition costs_ok : bool :=
  forallb (fun s => implb (os_hasop s) (min_cost_ok s && cost_safe s)) spec_pool.

(* constants the hand-written frame model hard-codes *)
Definition consts_ok : bool :=
  N.eqb back_branch_enabled_version 4 && N.eqb shared_resources_version 9 && N.eqb mode_sig ModeSig && N.eqb mode_app ModeApp
  && N.eqb (N.of_nat max_depth_nat) max_stack_depth.

(* ------------------------------------------------------------------ the source-level view used by the C34 oracle *)
(* the OpSpecs entry in effect for (opcode, sub) in a version-v program: the last one, in source
   order, among those with the greatest Version <= max(v,1) *)
Definition src_lookup (v opcode sub : N) : option opspec :=
  let v' := N.max v 1 in
  fold_left (fun acc s =>
               if N.eqb (os_opcode s) opcode && N.eqb (os_sub s) sub && N.leb (os_version s) v'
               then match acc with
                    | Some a => if N.leb (os_version a) (os_version s) then Some s else acc
                    | None => Some s
                    end
               else acc) src_specs None.

(* ------------------------------------------------------------------ independent specifications *)
(* (a) the frozen, hand-reviewed field specification (AvmFieldSpec.v): the run-time field tables
   agree with it field by field (encoding, version, mode), and nothing of it disappeared *)
Definition spec_lookup (g n : string) : option (string * string * N * N * bool) :=
  find (fun e : string * string * N * N * bool =>
          let '(gg, nn, _, _, _) := e in String.eqb gg g && String.eqb nn n) field_spec.

Definition field_spec_agrees : bool :=
  forallb (fun g =>
     forallb (fun fs =>
        match spec_lookup (fg_name g) (fs_name fs) with
        | Some (_, _, enc, ver, app_only) =>
            N.eqb enc (fs_field fs) && N.eqb ver (fs_version fs)
            && N.eqb (fs_modes fs) (if app_only then ModeApp else 3)
        | None => false
        end) (fg_fields g)) field_groups
  && forallb (fun e : string * string * N * N * bool =>
                let '(gg, nn, _, _, _) := e in
                existsb (fun g => String.eqb (fg_name g) gg
                                  && existsb (fun fs => String.eqb (fs_name fs) nn) (fg_fields g)) field_groups)
             field_spec.

(* (b) the repository's second source, langspec_v<K>.json *)
Definition entry_at (v opcode sub : N) : opspec :=
  let '(e, subs) := gen_tbl v opcode in
  if N.eqb sub 0 then e else nth (N.to_nat sub) subs zero_spec.

(* OpcodesByVersion reports the lowest version any OpSpecs entry of the (opcode, sub-opcode) has *)
Definition min_src_version (opcode sub : N) : N :=
  fold_left (fun acc s => if N.eqb (os_opcode s) opcode && N.eqb (os_sub s) sub
                          then N.min acc (os_version s) else acc) src_specs 1000%N.

Definition dispatched_count (v : N) : nat :=
  fold_left (fun n (e : tentry) =>
               let '(_, (i, subs)) := e in
               n + (if os_hasop (pool_get i) then 1 else 0)
               + List.length (filter (fun j => os_hasop (pool_get j)) subs))%nat
            (version_table v) 0%nat.

Definition langspec_ops_agree : bool :=
  forallb (fun kv : N * list (N * N * string * N * N) =>
     let '(k, ops) := kv in
     forallb (fun o : N * N * string * N * N =>
                let '(opc, sub, name, intro, modes) := o in
                let s := entry_at k opc sub in
                os_hasop s && String.eqb (os_name s) name && N.eqb (os_modes s) modes
                && N.eqb (min_src_version opc sub) intro) ops
     && Nat.eqb (List.length ops) (dispatched_count k)) langspec_ops
  && negb (match langspec_ops with [] => true | _ => false end).

(* the documented argument enum of an op = the fields of its run-time group that the newest
   documented version and the op's modes admit, with the same encoding, version and mode *)
Definition doc_fields (k : N) (s : opspec) : list (string * N * N * N) :=
  match find (fun im => negb (N.eqb (im_group im) 0)) (os_imms s) with
  | None => []
  | Some im =>
      match runtime_group s im with
      | None => []
      | Some g =>
          flat_map (fun fs =>
                      let m := N.land (os_modes s) (fs_modes fs) in
                      if N.leb (fs_version fs) k && negb (N.eqb m 0)
                      then [(fs_name fs, fs_field fs, (if N.eqb m (os_modes s) then 0%N else m), fs_version fs)]
                      else []) (fg_fields g)
      end
  end.

Definition doc_field_eqb (a b : string * N * N * N) : bool :=
  let '(n1, e1, m1, v1) := a in let '(n2, e2, m2, v2) := b in
  String.eqb n1 n2 && N.eqb e1 e2 && N.eqb m1 m2 && N.eqb v1 v2.

Definition langspec_fields_agree : bool :=
  forallb (fun e : N * N * list (string * N * N * N) =>
             let '(opc, sub, fl) := e in
             list_eqb doc_field_eqb fl (doc_fields langspec_latest (entry_at langspec_latest opc sub)))
          langspec_fields
  (* and every dispatched op of that version with a field immediate is documented with its fields *)
  && forallb (fun e : tentry =>
                let '(opc, (i, subs)) := e in
                forallb (fun sj : N * N =>
                           let s := pool_get (snd sj) in
                           match doc_fields langspec_latest s with
                           | [] => true
                           | _ => implb (os_hasop s)
                                        (existsb (fun d : N * N * list (string * N * N * N) =>
                                                    let '(o2, s2, _) := d in N.eqb o2 opc && N.eqb s2 (fst sj))
                                                 langspec_fields)
                           end)
                        ((0%N, i) :: combine (map N.of_nat (seq 0 (List.length subs))) subs))
             (version_table langspec_latest).
