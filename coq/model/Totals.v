(* C12 model: ledger/ledgercore/totals.go (AlgoCount, AccountTotals.AddAccount / DelAccount /
   ApplyRewards / All / Participating), data/basics/userBalance.go (WithUpdatedRewards) with
   basics.OverflowTracker semantics, the evaluator's use of them
   (ledger/eval/cow.go roundCowState.CalculateTotals: ApplyRewards, then DelAccount old /
   AddAccount new per modified account, overflow check, sum-unchanged check), the genesis totals
   (store/trackerdb/sqlitedriver/schema.go accountsInit: AddAccount per genesis account), and how
   accountUpdates serves them (ledger/acctupdates.go roundTotals: newBlockImpl appends,
   prepareCommit/commitRound persist roundTotals[offset], postCommit drops the prefix,
   initializeFromDisk + replay rebuild them, totalsImpl/roundOffset serve them).
   uint64 arithmetic is the C45 transcription [oadd 64]/[osub 64]/[omul 64] (model/Overflow.v):
   wrapped result + overflow flag; the OverflowTracker is a sticky boolean threaded through.
   Go panics (unknown status, WithUpdatedRewards overflow, All() overflow, integer division by a
   zero RewardUnit) are [None].  No proofs in this file. *)
From Coq Require Import NArith List Bool.
From Verif.model Require Import Overflow.
Import ListNotations.
Open Scope N_scope.

(* basics.Status: Offline = 0, Online = 1, NotParticipating = 2 *)
Definition stOffline : N := 0.
Definition stOnline : N := 1.
Definition stNotPart : N := 2.

(* the fields of ledgercore.AccountData that the totals read *)
Record acct : Type := mkA { a_st : N; a_malgos : N; a_rbase : N }.
Definition acct0 : acct := mkA 0 0 0.          (* the zero AccountData of an absent/closed account *)

Record algocount : Type := mkAC { c_money : N; c_units : N }.
Record totals : Type := mkT { t_on : algocount; t_off : algocount; t_np : algocount; t_level : N }.
Definition totals0 : totals := mkT (mkAC 0 0) (mkAC 0 0) (mkAC 0 0) 0.

(* OverflowTracker.Add / Sub / Mul: result wraps, flag is sticky *)
Definition ot_add (a b : N) (ot : bool) : N * bool := let '(r, o) := oadd 64 a b in (r, ot || o).
Definition ot_sub (a b : N) (ot : bool) : N * bool := let '(r, o) := osub 64 a b in (r, ot || o).
Definition ot_mul (a b : N) (ot : bool) : N * bool := let '(r, o) := omul 64 a b in (r, ot || o).

(* MicroAlgos.RewardUnits: a.Raw / unit; Go panics on unit = 0 *)
Definition reward_units (unit malgos : N) : option N :=
  if unit =? 0 then None else Some (malgos / unit).

(* basics.WithUpdatedRewards, first component (the money); its own local OverflowTracker panics *)
Definition with_updated_rewards (unit : N) (a : acct) (level : N) : option N :=
  if a_st a =? stNotPart then Some (a_malgos a)
  else match reward_units unit (a_malgos a) with
       | None => None
       | Some units =>
           let '(delta, ot) := ot_sub level (a_rbase a) false in
           let '(rewards, ot) := ot_mul units delta ot in
           let '(out, ot) := ot_add (a_malgos a) rewards ot in
           if ot then None else Some out
       end.

(* AccountTotals.statusField: panics on an unknown status *)
Definition status_field (st : N) (t : totals) : option algocount :=
  if st =? stOnline then Some (t_on t)
  else if st =? stOffline then Some (t_off t)
  else if st =? stNotPart then Some (t_np t)
  else None.
Definition set_field (st : N) (t : totals) (c : algocount) : totals :=
  if st =? stOnline then mkT c (t_off t) (t_np t) (t_level t)
  else if st =? stOffline then mkT (t_on t) c (t_np t) (t_level t)
  else mkT (t_on t) (t_off t) c (t_level t).

(* AccountTotals.AddAccount *)
Definition add_account (unit : N) (a : acct) (t : totals) (ot : bool) : option (totals * bool) :=
  match status_field (a_st a) t with
  | None => None
  | Some sum =>
      match with_updated_rewards unit a (t_level t) with
      | None => None
      | Some algos =>
          let '(m, ot) := ot_add (c_money sum) algos ot in
          match reward_units unit (a_malgos a) with
          | None => None
          | Some ru =>
              let '(u, ot) := ot_add (c_units sum) ru ot in
              Some (set_field (a_st a) t (mkAC m u), ot)
          end
      end
  end.

(* AccountTotals.DelAccount *)
Definition del_account (unit : N) (a : acct) (t : totals) (ot : bool) : option (totals * bool) :=
  match status_field (a_st a) t with
  | None => None
  | Some sum =>
      match with_updated_rewards unit a (t_level t) with
      | None => None
      | Some algos =>
          let '(m, ot) := ot_sub (c_money sum) algos ot in
          match reward_units unit (a_malgos a) with
          | None => None
          | Some ru =>
              let '(u, ot) := ot_sub (c_units sum) ru ot in
              Some (set_field (a_st a) t (mkAC m u), ot)
          end
      end
  end.

(* AlgoCount.applyRewards *)
Definition ac_apply_rewards (c : algocount) (rpu : N) (ot : bool) : algocount * bool :=
  let '(got, ot) := ot_mul (c_units c) rpu ot in
  let '(m, ot) := ot_add (c_money c) got ot in
  (mkAC m (c_units c), ot).

(* AccountTotals.ApplyRewards *)
Definition apply_rewards (level : N) (t : totals) (ot : bool) : totals * bool :=
  let '(rpu, ot) := ot_sub level (t_level t) ot in
  let '(on', ot) := ac_apply_rewards (t_on t) rpu ot in
  let '(off', ot) := ac_apply_rewards (t_off t) rpu ot in
  (mkT on' off' (t_np t) level, ot).

(* Participating / All / RewardUnits: OAdd, panic on overflow *)
Definition participating (t : totals) : option N :=
  let '(r, o) := oadd 64 (c_money (t_on t)) (c_money (t_off t)) in if o then None else Some r.
Definition all_money (t : totals) : option N :=
  match participating t with
  | None => None
  | Some p => let '(r, o) := oadd 64 (c_money (t_np t)) p in if o then None else Some r
  end.
Definition part_units (t : totals) : option N :=
  let '(r, o) := oadd 64 (c_units (t_on t)) (c_units (t_off t)) in if o then None else Some r.

(* ---- worlds: address -> account data, as an association list with unique keys ---- *)
Definition world : Type := list (N * acct).

Fixpoint wget (k : N) (w : world) : acct :=
  match w with
  | [] => acct0
  | (k', a) :: w' => if k' =? k then a else wget k w'
  end.

Fixpoint wset (k : N) (a : acct) (w : world) : world :=
  match w with
  | [] => [(k, a)]
  | (k', a') :: w' => if k' =? k then (k, a) :: w' else (k', a') :: wset k a w'
  end.

Definition wapply (mods : list (N * acct)) (w : world) : world :=
  fold_left (fun w m => wset (fst m) (snd m) w) mods w.

(* ---- the evaluator: roundCowState.CalculateTotals ---- *)
Inductive cres : Type :=
| COk (t : totals)
| CErrOverflow           (* "CalculateTotals %d overflowed totals" *)
| CErrSumChanged         (* "sum of money changed" *)
| CPanic.

(* the loop over cb.mods.Accts: previous data from the parent (state before the block) *)
Fixpoint calc_loop (unit : N) (prev : world) (mods : list (N * acct)) (t : totals) (ot : bool)
  : option (totals * bool) :=
  match mods with
  | [] => Some (t, ot)
  | (k, a) :: ms =>
      match del_account unit (wget k prev) t ot with
      | None => None
      | Some (t1, ot1) =>
          match add_account unit a t1 ot1 with
          | None => None
          | Some (t2, ot2) => calc_loop unit prev ms t2 ot2
          end
      end
  end.

Definition calculate_totals (unit : N) (prevTotals : totals) (prev : world) (level : N)
           (mods : list (N * acct)) : cres :=
  let '(t0, ot0) := apply_rewards level prevTotals false in
  match calc_loop unit prev mods t0 ot0 with
  | None => CPanic
  | Some (t, ot) =>
      if ot then CErrOverflow
      else match all_money t, all_money prevTotals with
           | Some x, Some y => if x =? y then COk t else CErrSumChanged
           | _, _ => CPanic
           end
  end.

(* ---- genesis: accountsInit ---- *)
Inductive gres : Type := GOk (t : totals) | GErrOverflow | GPanic.

Fixpoint genesis_loop (unit : N) (accts : list (N * acct)) (t : totals) (ot : bool)
  : option (totals * bool) :=
  match accts with
  | [] => Some (t, ot)
  | (_, a) :: rest =>
      match add_account unit a t ot with
      | None => None
      | Some (t', ot') => genesis_loop unit rest t' ot'
      end
  end.

Definition genesis_totals (unit : N) (accts : list (N * acct)) : gres :=
  match genesis_loop unit accts totals0 false with
  | None => GPanic
  | Some (t, ot) => if ot then GErrOverflow else GOk t
  end.

(* ---- a block as the totals see it: the header's RewardsLevel and StateDelta.Accts ---- *)
Record block : Type := mkB { b_level : N; b_mods : list (N * acct) }.

(* the chain of rounds 1.. from (world, totals) of the previous round; None as soon as a block
   is rejected (error or panic): such a block is never added to the ledger *)
Fixpoint chain (unit : N) (w : world) (t : totals) (bs : list block)
  : option (list (world * totals)) :=
  match bs with
  | [] => Some []
  | b :: bs' =>
      match calculate_totals unit t w (b_level b) (b_mods b) with
      | COk t' =>
          let w' := wapply (b_mods b) w in
          match chain unit w' t' bs' with
          | Some tr => Some ((w', t') :: tr)
          | None => None
          end
      | _ => None
      end
  end.

(* rounds 0 .. |bs| *)
Definition ledger_run (unit : N) (genesis : list (N * acct)) (bs : list block)
  : option (list (world * totals)) :=
  match genesis_totals unit genesis with
  | GOk t0 =>
      let w0 := wapply genesis [] in
      match chain unit w0 t0 bs with
      | Some tr => Some ((w0, t0) :: tr)
      | None => None
      end
  | _ => None
  end.

(* ---- accountUpdates.roundTotals: what is served under a flush / reload schedule ---- *)
Record tracker : Type := mkTr {
  tr_dbround : N;                 (* cachedDBRound *)
  tr_dbworld : world;             (* accountbase at dbRound *)
  tr_dbtotals : totals;           (* accounttotals row *)
  tr_deltas : list block;         (* blocks dbRound+1 .. latest (block DB keeps them) *)
  tr_round_totals : list totals   (* roundTotals[0] is for dbRound *)
}.

Definition tr_latest (s : tracker) : N := tr_dbround s + N.of_nat (length (tr_deltas s)).
Definition tr_world (s : tracker) : world :=
  fold_left (fun w b => wapply (b_mods b) w) (tr_deltas s) (tr_dbworld s).

Inductive top : Type :=
| TNewBlock (b : block)     (* evaluate on top of latest + newBlock *)
| TCommit (offset : nat)    (* prepareCommit + commitRound + postCommit with dcc.offset *)
| TReload.                  (* initializeFromDisk + replay of the blocks after dbRound *)

(* replay: re-evaluate blocks on top of (w, t); the totals list that newBlockImpl rebuilds *)
Fixpoint replay (unit : N) (w : world) (t : totals) (bs : list block) : option (list totals) :=
  match bs with
  | [] => Some []
  | b :: bs' =>
      match calculate_totals unit t w (b_level b) (b_mods b) with
      | COk t' =>
          match replay unit (wapply (b_mods b) w) t' bs' with
          | Some l => Some (t' :: l)
          | None => None
          end
      | _ => None
      end
  end.

Definition tstep (unit : N) (s : tracker) (o : top) : option tracker :=
  match o with
  | TNewBlock b =>
      (* eval: prevTotals = LatestTotals = roundTotals[len(deltas)] *)
      match nth_error (tr_round_totals s) (length (tr_deltas s)) with
      | None => None
      | Some prevT =>
          match calculate_totals unit prevT (tr_world s) (b_level b) (b_mods b) with
          | COk t' => Some (mkTr (tr_dbround s) (tr_dbworld s) (tr_dbtotals s)
                                 (tr_deltas s ++ [b]) (tr_round_totals s ++ [t']))
          | _ => None                    (* block rejected: nothing is added *)
          end
      end
  | TCommit off =>
      if Nat.ltb (length (tr_deltas s)) off then None      (* produceCommittingTask panics *)
      else
        match nth_error (tr_round_totals s) off with
        | None => None
        | Some tot =>
            Some (mkTr (tr_dbround s + N.of_nat off)
                       (fold_left (fun w b => wapply (b_mods b) w) (firstn off (tr_deltas s)) (tr_dbworld s))
                       tot
                       (skipn off (tr_deltas s))
                       (skipn off (tr_round_totals s)))
        end
  | TReload =>
      match replay unit (tr_dbworld s) (tr_dbtotals s) (tr_deltas s) with
      | Some l => Some (mkTr (tr_dbround s) (tr_dbworld s) (tr_dbtotals s) (tr_deltas s)
                             (tr_dbtotals s :: l))
      | None => None
      end
  end.

Fixpoint trun (unit : N) (s : tracker) (ops : list top) : option tracker :=
  match ops with
  | [] => Some s
  | o :: ops' => match tstep unit s o with Some s' => trun unit s' ops' | None => None end
  end.

Definition tracker_init (unit : N) (genesis : list (N * acct)) : option tracker :=
  match genesis_totals unit genesis with
  | GOk t0 => Some (mkTr 0 (wapply genesis []) t0 [] [t0])
  | _ => None
  end.

(* totalsImpl via roundOffset: None = error (round below dbRound or above latest) *)
Definition serve (s : tracker) (rnd : N) : option totals :=
  if rnd <? tr_dbround s then None
  else let off := N.to_nat (rnd - tr_dbround s) in
       if Nat.ltb (length (tr_deltas s)) off then None
       else nth_error (tr_round_totals s) off.
