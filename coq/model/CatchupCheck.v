(* C30: the line-protocol entry point [check].  No proofs here.

   The model of coq/model/Catchup.v is instantiated with descriptors of blocks and certificates
   (what the harness knows about the bytes a peer served):
     block  (round id cok psup)   id = small number naming the header digest, cok = ContentsMatchHeader,
                                  psup = protocol known to config.Consensus
     cert   (round bid gen)       bid = id of the digest the certificate commits to, gen = the bundle
                                  of votes is genuine (what the authenticator oracle accepts)
   Authenticate b c  =  c.round = b.round  /\  c.bid = b.id  /\  c.gen       (agreement/certificate.go)

   A case (harness/go/catchup/zz_verif_c30_test.go) is one run of the REAL Service.pipelinedFetch:
     (c30 (vp vc val par seed follow disable retry thr) lat0 det
          ((r evk (RESP ...)) ...)            the peers' script: answers to the k-th request for round r
          (EVENT ...)                          the implementation's serialised event log
          (final lat (id ...)))                the ledger at the end
     RESP  = (e) | (n) | (p BLOCK CERT)
     EVENT = (f r peer RESP)                   a peer answered a request for round r
           | (a r BLOCK CERT ok)               Authenticate was called
           | (v r BLOCK lat res)               Ledger.Validate was called
           | (w src r BLOCK CERT lat res validated cm au)   AddBlock/AddValidatedBlock was called
           | (s lat)                           pipelinedFetch read firstRound = lat+1 (the pipeline starts here;
                                               before it only somebody else can have written blocks
                                               or cancelled the service)
           | (x)                               the service context was cancelled
           | (end k)                           pipelinedFetch returned
   Two comparisons with the model:
   * trace validation: the event log, in its real (goroutine-scheduled) order, must be a run of the
     model: every event is replayed through [step] after the hidden steps (spawn, collect, waits,
     contents check) that must precede it; a guard that does not hold at that point of the log
     (e.g. a write for round r before round r-1 is in the ledger), a pair that differs from the one
     the worker holds, or a different result make the case a correspondence failure;
   * prediction: when the outcome does not depend on scheduling ([det]), the ledger at the end
     must be what the model computes from the script alone under a canonical schedule.
   Which peer served a request is part of the event (it only matters for the noBlock counters). *)
From Coq Require Import NArith ZArith List Bool String.
From Verif.lib Require Import Term.
From Verif.model Require Import Catchup CatchupSpec.
Import ListNotations.
Open Scope N_scope.

Record bdesc := mkB { b_round : N; b_id : N; b_cok : bool; b_psup : bool }.
Record cdesc := mkC { cc_round : N; cc_bid : N; cc_gen : bool }.

Definition d_auth (b : bdesc) (c : cdesc) : bool :=
  (cc_round c =? b_round b) && (cc_bid c =? b_id b) && cc_gen c.

Definition bdesc_eqb (x y : bdesc) : bool :=
  (b_round x =? b_round y) && (b_id x =? b_id y) && Bool.eqb (b_cok x) (b_cok y) && Bool.eqb (b_psup x) (b_psup y).
Definition cdesc_eqb (x y : cdesc) : bool :=
  (cc_round x =? cc_round y) && (cc_bid x =? cc_bid y) && Bool.eqb (cc_gen x) (cc_gen y).

Notation mresp := (@resp bdesc cdesc).
Notation mevent := (@event bdesc cdesc).
Notation mstate := (@state bdesc cdesc).
Notation mpc := (@pc bdesc cdesc).
Notation mlabel := (@label bdesc cdesc).

Definition mstep (cfg : config) : mstate -> mlabel -> option mstate :=
  step b_round cc_round b_cok b_psup d_auth cfg.

Definition resp_eqb (x y : mresp) : bool :=
  match x, y with
  | RespErr, RespErr => true
  | RespNoBlock, RespNoBlock => true
  | RespNil, RespNil => true
  | RespPair b c, RespPair b' c' => bdesc_eqb b b' && cdesc_eqb c c'
  | _, _ => false
  end.

Definition addres_code (a : addres) : N :=
  match a with AddOk => 0 | AddInLedger => 1 | AddNonSeq => 2 | AddProtoErr => 3 | AddPanic => 4 | AddOther => 5 end.
Definition valres_code (a : valres) : N :=
  match a with VOk => 0 | VNonSeqOld => 1 | VNonSeqAhead => 2 | VProtoErr => 3 | VPanic => 4 | VOther => 5 end.

Definition event_eqb (x y : mevent) : bool :=
  match x, y with
  | EFetch r p rs, EFetch r' p' rs' => (r =? r') && (p =? p') && resp_eqb rs rs'
  | EContents r b ok, EContents r' b' ok' => (r =? r') && bdesc_eqb b b' && Bool.eqb ok ok'
  | EAuth r b c ok, EAuth r' b' c' ok' => (r =? r') && bdesc_eqb b b' && cdesc_eqb c c' && Bool.eqb ok ok'
  | EValidate r b l v, EValidate r' b' l' v' => (r =? r') && bdesc_eqb b b' && (l =? l') && (valres_code v =? valres_code v')
  | EAdd r b c l a v, EAdd r' b' c' l' a' v' =>
      (r =? r') && bdesc_eqb b b' && cdesc_eqb c c' && (l =? l') && (addres_code a =? addres_code a') && Bool.eqb v v'
  | EExt b c l, EExt b' c' l' => bdesc_eqb b b' && cdesc_eqb c c' && (l =? l')
  | _, _ => false
  end.

(* ---- the implementation's events -------------------------------------------------------- *)
Inductive ievent :=
| IFetch (r p : N) (rs : mresp)
| IAuth (r : N) (b : bdesc) (c : cdesc) (ok : bool)
| IValidate (r : N) (b : bdesc) (lat : N) (res : N)
| IWrite (src : bool) (r : N) (b : bdesc) (c : cdesc) (lat : N) (res : N) (validated cm au : bool)
| ICancel
| IStart (lat : N)
| IEnd (k : N).

(* ---- parsing ---------------------------------------------------------------------------- *)
Definition p_bdesc (t : term) : option bdesc :=
  match t with
  | TL [r; i; k; s] =>
      match as_N r, as_N i, as_bool k, as_bool s with
      | Some r, Some i, Some k, Some s => Some (mkB r i k s)
      | _, _, _, _ => None
      end
  | _ => None
  end.
Definition p_cdesc (t : term) : option cdesc :=
  match t with
  | TL [r; i; g] =>
      match as_N r, as_N i, as_bool g with
      | Some r, Some i, Some g => Some (mkC r i g)
      | _, _, _ => None
      end
  | _ => None
  end.
Definition p_resp (t : term) : option mresp :=
  match t with
  | TL [TS "e"] => Some RespErr
  | TL [TS "n"] => Some RespNoBlock
  | TL [TS "p"; b; c] =>
      match p_bdesc b, p_cdesc c with
      | Some b, Some c => Some (RespPair b c)
      | _, _ => None
      end
  | _ => None
  end.
Definition p_event (t : term) : option ievent :=
  match t with
  | TL [TS "f"; r; p; rs] =>
      match as_N r, as_N p, p_resp rs with
      | Some r, Some p, Some rs => Some (IFetch r p rs)
      | _, _, _ => None
      end
  | TL [TS "a"; r; b; c; ok] =>
      match as_N r, p_bdesc b, p_cdesc c, as_bool ok with
      | Some r, Some b, Some c, Some ok => Some (IAuth r b c ok)
      | _, _, _, _ => None
      end
  | TL [TS "v"; r; b; lat; res] =>
      match as_N r, p_bdesc b, as_N lat, as_N res with
      | Some r, Some b, Some lat, Some res => Some (IValidate r b lat res)
      | _, _, _, _ => None
      end
  | TL [TS "w"; src; r; b; c; lat; res; vd; cm; au] =>
      match as_bool src, as_N r, p_bdesc b, p_cdesc c with
      | Some src, Some r, Some b, Some c =>
          match as_N lat, as_N res, as_bool vd, as_bool cm, as_bool au with
          | Some lat, Some res, Some vd, Some cm, Some au => Some (IWrite src r b c lat res vd cm au)
          | _, _, _, _, _ => None
          end
      | _, _, _, _ => None
      end
  | TL [TS "x"] => Some ICancel
  | TL [TS "s"; l] => match as_N l with Some l => Some (IStart l) | None => None end
  | TL [TS "end"; k] => match as_N k with Some k => Some (IEnd k) | None => None end
  | _ => None
  end.

Definition p_evalres (n : N) : evalres :=
  match n with 1 => EvProtoErr | 2 => EvPanic | 3 => EvOther | _ => EvOk end.

Definition script := list (N * (evalres * list mresp)).
Definition p_round_script (t : term) : option (N * (evalres * list mresp)) :=
  match t with
  | TL [r; k; TL rs] =>
      match as_N r, as_N k, map_opt p_resp rs with
      | Some r, Some k, Some rs => Some (r, (p_evalres k, rs))
      | _, _, _ => None
      end
  | _ => None
  end.

Record ccfg := mkCC { cc_cfg : config; cc_disable : N }.
Definition p_cfg (t : term) : option ccfg :=
  match t with
  | TL [vp; vc; val; par; seed; fol; dis; retry; thr] =>
      match as_bool vp, as_bool vc, as_bool val, as_N par, as_N seed with
      | Some vp, Some vc, Some val, Some par, Some seed =>
          match as_bool fol, as_N dis, as_N retry, as_N thr with
          | Some fol, Some dis, Some retry, Some thr =>
              Some (mkCC (mkConfig vp vc val par seed fol retry thr) dis)
          | _, _, _, _ => None
          end
      | _, _, _, _, _ => None
      end
  | _ => None
  end.

(* ---- the monitor's log, extracted from the events (no model involved) -------------------- *)
Definition wlog_of (e : ievent) : list wlog :=
  match e with
  | IWrite src r b c lat res vd cm au => [mkW src r lat (res =? 0) cm au (b_id b)]
  | _ => []
  end.

(* ---- trace validation --------------------------------------------------------------------- *)
Definition uin (disable : N) (peer : option N) (rs : mresp) (ev : evalres) : @winput bdesc cdesc :=
  mkIn false disable peer false rs false true ev.

Definition pc_of (st : mstate) (r : N) : option mpc :=
  match find_worker r (s_workers st) with Some w => Some (w_pc w) | None => None end.

(* make sure the goroutine for round r exists: spawn (collecting finished leading rounds when the
   parallelism bound demands it) *)
Fixpoint ensure (cfg : config) (r : N) (fuel : nat) (st : mstate) : option mstate :=
  match find_worker r (s_workers st) with
  | Some _ => Some st
  | None =>
      match fuel with
      | O => None
      | S f =>
          if r <? s_next st then None
          else match mstep cfg st LSpawn with
               | Some st' => ensure cfg r f st'
               | None => match mstep cfg st (LCollect false) with
                         | Some st' => ensure cfg r f st'
                         | None => None
                         end
               end
      end
  end.

(* run hidden steps of worker r while its pc satisfies [through], until it satisfies [stop] *)
Fixpoint drive (cfg : config) (r : N) (inp : @winput bdesc cdesc) (through stop : mpc -> bool)
         (fuel : nat) (st : mstate) : option mstate :=
  match pc_of st r with
  | None => None
  | Some p =>
      if stop p then Some st
      else if through p then
        match fuel with
        | O => None
        | S f => match mstep cfg st (LWorker r inp) with
                 | Some st' => drive cfg r inp through stop f st'
                 | None => None
                 end
        end
      else None
  end.

Definition is_start_or_check (p : mpc) : bool :=
  match p with PStart | PCheck _ _ _ => true | _ => false end.
(* steps without guard and without an event on the implementation side happen at once *)
Definition settle (cfg : config) (dis : N) (r : N) (st : mstate) : option mstate :=
  drive cfg r (uin dis None RespErr EvOk) is_start_or_check (fun p => negb (is_start_or_check p)) 6 st.

(* the observable step must produce exactly the expected event *)
Definition obs_step (cfg : config) (st : mstate) (l : mlabel) (expect : mevent) : option mstate :=
  match mstep cfg st l with
  | Some st' =>
      match s_trace st' with
      | e :: _ => if event_eqb e expect && (Nat.eqb (List.length (s_trace st')) (S (List.length (s_trace st)))) then Some st' else None
      | [] => None
      end
  | None => None
  end.

Definition addres_of (n : N) : addres :=
  match n with 0 => AddOk | 1 => AddInLedger | 2 => AddNonSeq | 3 => AddProtoErr | 4 => AddPanic | _ => AddOther end.
Definition valres_of (n : N) : valres :=
  match n with 0 => VOk | 1 => VNonSeqOld | 2 => VNonSeqAhead | 3 => VProtoErr | 4 => VPanic | _ => VOther end.
Definition eval_of_code (n : N) : evalres :=
  match n with 3 => EvProtoErr | 4 => EvPanic | 5 => EvOther | _ => EvOk end.

Definition to_backlog (cfg : config) (dis r : N) (st : mstate) : option mstate :=
  drive cfg r (uin dis None RespErr EvOk)
        (fun p => match p with
                  | PLookback _ _ _ => negb (c_verify_cert cfg)
                  | PWaitPrev _ _ => true
                  | _ => false
                  end)
        (fun p => match p with PBacklog _ _ => true | _ => false end) 6 st.

Definition bind {A B} (o : option A) (f : A -> option B) : option B :=
  match o with Some a => f a | None => None end.

Definition on_event (cfg : config) (dis : N) (fuel : nat) (st : mstate) (e : ievent) : option mstate :=
  match e with
  | IFetch r p rs =>
      bind (ensure cfg r fuel st) (fun st1 =>
      bind (settle cfg dis r st1) (fun st1' =>
      bind (drive cfg r (uin dis None rs EvOk)
                  (fun q => match q with PErrWait => true | _ => false end)
                  (fun q => match q with PTop => true | _ => false end) 4 st1') (fun st2 =>
      bind (mstep cfg st2 (LWorker r (uin dis (Some p) rs EvOk))) (fun st3 =>
      match pc_of st3 r with
      | Some (PFetch p') =>
          if p' =? p then
            bind (obs_step cfg st3 (LWorker r (uin dis (Some p) rs EvOk)) (EFetch r p rs)) (settle cfg dis r)
          else None
      | _ => None
      end))))
  | IAuth r b c ok =>
      match pc_of st r with
      | Some (PLookback _ b' c') =>
          if bdesc_eqb b b' && cdesc_eqb c c' && c_verify_cert cfg then
            obs_step cfg st (LWorker r (uin dis None RespErr EvOk)) (EAuth r b c ok)
          else None
      | _ => None
      end
  | IValidate r b lat res =>
      bind (to_backlog cfg dis r st) (fun st1 =>
      match pc_of st1 r with
      | Some (PBacklog b' _) =>
          if bdesc_eqb b b' && c_validate cfg then
            obs_step cfg st1 (LWorker r (uin dis None RespErr (eval_of_code res))) (EValidate r b lat (valres_of res))
          else None
      | _ => None
      end)
  | IWrite true r b c lat res vd cm au =>
      if vd then
        match pc_of st r with
        | Some (PValidated b' c') =>
            if bdesc_eqb b b' && cdesc_eqb c c' then
              obs_step cfg st (LWorker r (uin dis None RespErr EvOk)) (EAdd r b c lat (addres_of res) true)
            else None
        | _ => None
        end
      else
        bind (to_backlog cfg dis r st) (fun st1 =>
        match pc_of st1 r with
        | Some (PBacklog b' c') =>
            if bdesc_eqb b b' && cdesc_eqb c c' && negb (c_validate cfg) then
              obs_step cfg st1 (LWorker r (uin dis None RespErr (eval_of_code res))) (EAdd r b c lat (addres_of res) false)
            else None
        | _ => None
        end)
  | IWrite false r b c lat res vd cm au =>
      if res =? 0 then obs_step cfg st (LExt b c) (EExt b c lat) else Some st
  | ICancel => mstep cfg st LCancel
  | IStart _ => None              (* the pipeline starts once *)
  | IEnd _ => Some st
  end.

(* returns the final model state, or the index of the first event the model does not accept *)
Fixpoint validate (cfg : config) (dis : N) (fuel : nat) (st : mstate) (es : list ievent) (idx : N)
  : mstate + N :=
  match es with
  | [] => inl st
  | e :: t => match on_event cfg dis fuel st e with
              | Some st' => validate cfg dis fuel st' t (idx + 1)
              | None => inr idx
              end
  end.

(* events before the pipeline started: only writes by somebody else.  Returns the ledger's latest
   round at the start and the remaining events. *)
Fixpoint split_start (lat : N) (cancelled : bool) (es : list ievent) : option (N * bool * list ievent) :=
  match es with
  | IStart l :: t => if l =? lat then Some (lat, cancelled, t) else None
  | ICancel :: t => split_start lat true t
  | IWrite false r _ _ l res _ _ _ :: t =>
      if l =? lat then
        if res =? 0 then (if r =? lat + 1 then split_start (lat + 1) cancelled t else None)
        else split_start lat cancelled t
      else None
  | _ => None
  end.

(* ---- prediction under a canonical schedule -------------------------------------------------- *)
Fixpoint script_get (r : N) (sc : script) : evalres * list mresp :=
  match sc with
  | [] => (EvOk, [])
  | (q, x) :: t => if q =? r then x else script_get r t
  end.

(* spawn the worker of firstRound, run it alone to completion answering its k-th request with the
   k-th scripted answer (noBlock afterwards) from peer 0, collect, repeat *)
Fixpoint canon (cfg : config) (dis : N) (sc : script) (fuel : nat) (st : mstate) : mstate :=
  match fuel with
  | O => st
  | S f =>
      if negb (running st) then st
      else match find_worker (s_first st) (s_workers st) with
           | None => match mstep cfg st LSpawn with Some st' => canon cfg dis sc f st' | None => st end
           | Some w =>
               match w_pc w with
               | PDone _ => match mstep cfg st (LCollect false) with Some st' => canon cfg dis sc f st' | None => st end
               | _ =>
                   let '(ev, rs) := script_get (s_first st) sc in
                   let a := nth (N.to_nat (w_i w - 1)) rs RespNoBlock in
                   match mstep cfg st (LWorker (s_first st) (uin dis (Some 0) a ev)) with
                   | Some st' => canon cfg dis sc f st'
                   | None => st
                   end
               end
           end
  end.

Definition written_ids (tr : list mevent) : list N :=
  rev (flat_map (fun e => match e with
                          | EAdd _ b _ _ AddOk _ => [b_id b]
                          | EExt b _ _ => [b_id b]
                          | _ => []
                          end) tr).

Definition script_size (sc : script) : nat :=
  fold_right (fun x acc => (List.length (snd (snd x)) + 12 + acc)%nat) 24%nat sc.

Definition is_bad_resp (rs : mresp) : bool :=
  match rs with
  | RespPair b c => negb (b_cok b && d_auth b c)
  | _ => true
  end.

Definition tids (l : list N) : term := TL (map tn l).

(* ---- fetchRound cases -------------------------------------------------------------------------
     (c30fr lat0 (cround cbid) (RESP ...) (EVENT ...) (final lat (id ...)))
   one Service.syncCert call for a certificate of round [cround] committing to digest [cbid]; the
   single goroutine is sequential, so the events are replayed one by one through [fr_step]. *)
Definition fr_mstep (cround cbid : N) := @fr_step bdesc cdesc b_round cc_round b_cok b_id cround cbid.

Fixpoint fr_validate (cround cbid : N) (st : @fr_state bdesc cdesc) (es : list ievent) : bool :=
  match es with
  | [] => match fr_p st with FRTop => false | _ => true end
  | IFetch r p rs :: t =>
      if negb (r =? cround) then false else
      match fr_mstep cround cbid st (FRW (mkFRIn false (Some p) false rs)) with
      | Some st1 =>
          match fr_p st1 with
          | FRFetch p' =>
              if p' =? p then
                match fr_mstep cround cbid st1 (FRW (mkFRIn false (Some p) false rs)) with
                | Some st2 =>
                    match fr_trace st2, t with
                    | FREnsure b :: _, IWrite true r' b' c' lat res false _ _ :: t' =>
                        (* EnsureBlock(block, cert) with the fetched block and AGREEMENT's certificate *)
                        bdesc_eqb b b' && cdesc_eqb c' (mkC cround cbid true) && (r' =? cround)
                        && (lat =? fr_latest st2) && fr_validate cround cbid st2 t'
                    | FREnsure _ :: _, _ => false
                    | _, _ => fr_validate cround cbid st2 t
                    end
                | None => false
                end
              else false
          | _ => false
          end
      | None => false
      end
  | IEnd _ :: t => fr_validate cround cbid st t
  | IStart _ :: t => fr_validate cround cbid st t
  | _ => false
  end.

Definition check_fr (tlat0 tcert : term) (tscript tevents : list term) (tflat tfids : term) : term :=
  match as_N tlat0, tcert, map_opt p_resp tscript, map_opt p_event tevents, as_N tflat, as_N_list tfids with
  | Some lat0, TL [tcr; tcb], Some sc, Some es, Some flat, Some fids =>
      match as_N tcr, as_N tcb with
      | Some cround, Some cbid =>
          let log := flat_map wlog_of es in
          (* the property: in order, checked -- with NO configuration switch on this path -- and the
             block written is the one the certificate commits to *)
          let sok := spec_ok true true lat0 log flat fids
                     && forallb (fun e => negb (wl_src e) || ((wl_id e =? cbid) && (wl_round e =? cround))) log in
          let corr := fr_validate cround cbid (fr_init lat0) es
                      && (flat =? (if lat0 + 1 =? cround then cround else lat0)) in
          let nontriv := existsb (fun e => match e with IFetch _ _ rs => is_bad_resp rs | _ => false end) es
                         && existsb (fun e => match e with IWrite true _ _ _ _ 0 _ _ _ => true | _ => false end) es in
          verdict sok corr nontriv (TL [TS "model"; TS "fetchRound"])
      | _, _ => v_parse
      end
  | _, _, _, _, _, _ => v_parse
  end.

(* ---- check -------------------------------------------------------------------------------- *)
Definition check (t : term) : term :=
  match t with
  | TL [TS "c30"; tcfg; tlat0; tdet; TL tscript; TL tevents; TL [TS "final"; tflat; tfids]] =>
      match p_cfg tcfg, as_N tlat0, as_bool tdet, map_opt p_round_script tscript,
            map_opt p_event tevents, as_N tflat, as_N_list tfids with
      | Some cc, Some lat0, Some det, Some sc, Some es, Some flat, Some fids =>
          let cfg := cc_cfg cc in
          let dis := cc_disable cc in
          let log := flat_map wlog_of es in
          let sok := spec_ok (c_verify_payset cfg) (c_verify_cert cfg) lat0 log flat fids in
          let fuel := (2 * List.length es + 2 * N.to_nat (c_parallel cfg) + 64)%nat in
          let st0 : mstate := init lat0 in
          let val := match split_start lat0 false es with
                     | Some (lat_s, cancelled, es') =>
                         let st_s : mstate := init lat_s in
                         let st_s := if cancelled
                                     then match mstep cfg st_s LCancel with Some x => x | None => st_s end
                                     else st_s in
                         match validate cfg dis fuel st_s es' 0 with
                         | inl st => inl (st, lat_s)
                         | inr i => inr (i + N.of_nat (List.length es - List.length es'))
                         end
                     | None => inr 0
                     end in
          let pred := canon cfg dis sc (8 * (script_size sc + 12 * (N.to_nat (c_parallel cfg) + 4)))%nat st0 in
          let pred_ok := negb det || ((s_latest pred =? flat) && ids_eqb (written_ids (s_trace pred)) fids) in
          let val_ok := match val with
                        | inl (st, lat_s) =>
                            (s_latest st =? flat) &&
                            ids_eqb (written_ids (s_trace st)) (skipn (N.to_nat (lat_s - lat0)) fids)
                        | inr _ => false
                        end in
          let mobs := TL [TS "model";
                          match val with inl _ => TS "trace_accepted" | inr i => TL [TS "trace_rejected_at_event"; tn i] end;
                          TL [TS "predicted"; tn (s_latest pred); tids (written_ids (s_trace pred))]] in
          let nontriv := existsb (fun e => match e with IWrite true _ _ _ _ 0 _ _ _ => true | _ => false end) es
                         && existsb (fun e => match e with IFetch _ _ rs => is_bad_resp rs | _ => false end) es in
          verdict sok (val_ok && pred_ok) nontriv mobs
      | _, _, _, _, _, _, _ => v_parse
      end
  | TL [TS "c30fr"; tlat0; tcert; TL tscript; TL tevents; TL [TS "final"; tflat; tfids]] =>
      check_fr tlat0 tcert tscript tevents tflat tfids
  | _ => v_parse
  end.
