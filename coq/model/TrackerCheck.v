(* C08: executable checker run on the implementation's observations.  No proofs in this file.

   One case = one whole run of a real accountUpdates + trackerRegistry (harness
   harness/go/ledger/zz_verif_c08_test.go):

     (c08 (lookback cache na nr nk) ((addr algos status extra) ...) (op ...))

   op (inputs first, the implementation's observation last):
     (b ver ((addr algos status extra) ...) ((addr cidx ph hh) ...) ((#key data old) ...)
            ((cidx created creator ctype) ...))                 newBlock with a prepared StateDelta
           half ph/hh: -1 nil & not deleted | -2 deleted | n >= 0 set to n;  data/old: #bytes | nil
     (s r ph)        trackerRegistry.committedUpTo(r); the commit syncer picks the task up if idle
     (c ph)          the SQL transaction of the running commit commits (or fails)
     (p ph)          postCommit of the running commit; the syncer picks up a queued task
     (r ph)          close + reopen the trackers (loadFromDisk + replay)
     (f)             FlushCaches
     (x na nr nk)    flush + prune the three base caches to the given sizes
       ph: phase afterwards, 0 idle | 1 prepared (transaction open) | 2 committed (postCommit pending)
     (qa rnd addr obs) (qr rnd addr cidx obs) (qk rnd #key obs) (qc rnd cidx ctype obs)
       obs: (ok ...) | retry | (err n)
     (sa rnd addr) (sr rnd addr cidx) (sk rnd #key)
       a public lookup whose goroutine is held between its DB read and the queueing of what it read
       for the base cache (only emitted when the lookup did go to the DB)
     (la space n obs)
       the n-th held reader of a space (0 accounts, 1 resources, 2 KV) is released: its cache write
       lands now, obs is the answer it returns
     (za rnd addr obs) (zk rnd #key obs) (zc rnd cidx ctype obs)
       oracle only: a public lookup for round rnd that had to wait for a postCommit finally answered obs
       (the retry itself appears as a plain q.. at the round the Go code moved the lookup to)
     (zl addr (ok rnd algos status auth ((cidx p h) ...) nres)) | (zl addr (err n))
       oracle only: lookupLatest (the tracker part of Ledger.LookupAccount): the account at the latest
       round with the listed resources, nres = number of resource entries it returned in all
     (d dbRound ndeltas ((addr n) ...) ((addr cidx n) ...) ((#key n) ...) ((cidx n) ...)
        ((addr rnd) ...) ((addr cidx rnd) ...) ((#key rnd) ...))
       dump: cachedDBRound, len(deltas), the four modified maps with their reference counts,
       the three base caches as sets of (key, round) (their LRU order shows through (x ...))

   The model is the code as it is (flushPendingWrites).  A case in which a held reader is released
   at a point the original flush does not tolerate ([land_okb] false on the model state), the
   model still agrees with the implementation, and an answer contradicts the history carries the
   signature late_pending_cache_write; any other contradiction is a violation.

   [spec_ok] never looks at the model: it folds the deltas of the (b ...) operations
   ([state_at]) and compares every (ok ...) answer with the projection of that state; errors
   are only allowed outside the servable window and retries only while a commit is between its
   transaction and its postCommit, both judged from the implementation's own dumps. *)
From Coq Require Import NArith ZArith List Bool String Arith.
From Verif.lib Require Import Term.
From Verif.model Require Import LedgerSpec Tracker.
Import ListNotations.
Open Scope string_scope.

(* ---------- decoding ---------- *)
Definition as_nat (t : term) : option nat :=
  match as_N t with Some n => Some (N.to_nat n) | None => None end.

Definition as_acct_rec (t : term) : option (addr * acct) :=
  match t with
  | TL [a; b; c; d] =>
      match as_N a, as_N b, as_N c, as_N d with
      | Some a, Some b, Some c, Some d => Some (a, mkAcct b c d)
      | _, _, _, _ => None
      end
  | _ => None
  end.

Definition as_half (t : term) : option half :=
  match t with
  | TZ z => if (z =? -1)%Z then Some HKeep else if (z =? -2)%Z then Some HDel
            else if (z <? 0)%Z then None else Some (HSet (Z.to_N z))
  | _ => None
  end.

Definition as_res_rec (t : term) : option ((addr * cidx) * resrec) :=
  match t with
  | TL [a; c; p; h] =>
      match as_N a, as_N c, as_half p, as_half h with
      | Some a, Some c, Some p, Some h => Some ((a, c), (p, h))
      | _, _, _, _ => None
      end
  | _ => None
  end.

Definition as_optbytes (t : term) : option (option bytes) :=
  match t with
  | TB b => Some (Some b)
  | TS "nil" => Some None
  | _ => None
  end.

Definition as_kv_rec (t : term) : option (kvkey * kvrec) :=
  match t with
  | TL [TB k; d; o] =>
      match as_optbytes d, as_optbytes o with
      | Some d, Some o => Some (k, (d, o))
      | _, _ => None
      end
  | _ => None
  end.

Definition as_cre_rec (t : term) : option (cidx * creat) :=
  match t with
  | TL [c; cr; a; ct] =>
      match as_N c, as_bool cr, as_N a, as_N ct with
      | Some c, Some cr, Some a, Some ct => Some (c, mkCreat cr a ct)
      | _, _, _, _ => None
      end
  | _ => None
  end.

Definition as_list_of {A : Type} (f : term -> option A) (t : term) : option (list A) :=
  match t with TL l => map_opt f l | _ => None end.

Definition as_delta (v a r k c : term) : option delta :=
  match as_N v, as_list_of as_acct_rec a, as_list_of as_res_rec r,
        as_list_of as_kv_rec k, as_list_of as_cre_rec c with
  | Some v, Some a, Some r, Some k, Some c => Some (mkDelta v a r k c)
  | _, _, _, _, _ => None
  end.

(* ---------- printing the model's observations ---------- *)
Definition t_nat (n : nat) : term := TZ (Z.of_nat n).
Definition t_opt (o : option N) : term := match o with Some n => tn n | None => TZ (-1) end.
Definition t_ob (o : option bytes) : term := match o with Some b => TB b | None => TS "nil" end.

Definition lres_term {A : Type} (f : A -> list term) (r : lres A) : term :=
  match r with
  | LOk a => TL (TS "ok" :: f a)
  | LRetry => TS "retry"
  | LErr c => TL [TS "err"; t_nat c]
  end.
Definition acct_terms (a : acct) : list term := [tn (a_algos a); tn (a_status a); tn (a_extra a)].
Definition res_terms (r : res) : list term := [t_opt (fst r); t_opt (snd r)].
Definition kv_terms (v : option bytes) : list term := [t_ob v].
Definition cre_terms (v : option addr) : list term :=
  match v with Some a => [TZ 1; tn a] | None => [TZ 0; TZ 0] end.

Definition out_term (o : out) : term :=
  match o with
  | RDone => TS "done"
  | RPanic => TS "panic"
  | RAcct r => lres_term acct_terms r
  | RRes r => lres_term res_terms r
  | RKv r => lres_term kv_terms r
  | RCre r => lres_term cre_terms r
  end.

Definition phase_code (p : phase) : Z :=
  match p with PIdle => 0 | PPrepared _ => 1 | PCommitted _ => 2 end.

(* two lists are equal as sets (the Go side iterates maps in random order) *)
Definition set_eqb (l1 l2 : list term) : bool :=
  Nat.eqb (List.length l1) (List.length l2) &&
  forallb (fun x => existsb (term_eqb x) l2) l1 && forallb (fun x => existsb (term_eqb x) l1) l2.

Definition dump_mods {K V : Type} (f : K -> list term) (m : mods K V) : list term :=
  map (fun p => TL (f (fst p) ++ [t_nat (snd (snd p))])) m.
Definition dump_lru {K V : Type} (f : K -> list term) (c : cache K V) : list term :=
  map (fun e => TL (f (ce_key K V e) ++ [t_nat (ce_rnd K V e)])) (c_lru K V c).
Definition k_addr (a : addr) : list term := [tn a].
Definition k_pair (p : addr * cidx) : list term := [tn (fst p); tn (snd p)].
Definition k_bytes (b : kvkey) : list term := [TB b].

(* ---------- the model-independent oracle ---------- *)
Definition spec_acct (g : world) (h : list delta) (rnd : nat) (a : addr) : term :=
  TL (TS "ok" :: acct_terms (ans_acct (state_at g h rnd) a)).
Definition spec_res (g : world) (h : list delta) (rnd : nat) (a : addr) (c : cidx) : term :=
  TL (TS "ok" :: res_terms (ans_res (state_at g h rnd) a c)).
Definition spec_kv (g : world) (h : list delta) (rnd : nat) (k : kvkey) : term :=
  TL (TS "ok" :: kv_terms (ans_kv (state_at g h rnd) k)).
Definition spec_cre (g : world) (h : list delta) (rnd : nat) (c : cidx) (ct : N) : term :=
  TL (TS "ok" :: cre_terms (ans_creator (state_at g h rnd) c ct)).

(* judged on the implementation's observation [obs]: [iR], [ind] = cachedDBRound / len(deltas)
   of its latest dump, [iph] = its latest phase code, [spec] = the answer dictated by the history *)
Definition obs_ok (iR ind : nat) (iph : Z) (rnd : nat) (obs spec : term) : bool :=
  match obs with
  | TL (TS "ok" :: _) => term_eqb obs spec
  | TS "retry" => (iph =? 2)%Z && (iR <=? rnd)%nat && (rnd <=? iR + ind)%nat
  | TL [TS "err"; _] => (rnd <? iR)%nat || (iR + ind <? rnd)%nat
  | _ => false
  end.

(* ---------- running a case ---------- *)
Record cst := mkCst {
  c_st : st;                 (* the model *)
  c_hist : list delta;       (* deltas of the (b ...) operations so far *)
  c_iR : nat; c_ind : nat;   (* implementation: cachedDBRound, len(deltas) (latest dump) *)
  c_iph : Z;                 (* implementation: phase *)
  c_spec : bool;             (* every answer so far is the one the history dictates *)
  c_corr : bool;             (* model = implementation so far *)
  c_bad : bool;              (* unparsable *)
  c_nok : nat;               (* (ok ...) answers seen *)
  c_ncommit : nat;           (* postCommits performed by the implementation *)
  c_nwin : nat;              (* answers obtained while a commit was between transaction and postCommit *)
  c_stalled : list (nat * (term * term) * nat);
                             (* held readers: space, (model's answer, the history's answer), DB round *)
  c_late : bool }.           (* a held reader was released where the original flush does not tolerate it *)

Definition upd_model (c : cst) (s : st) (corr : bool) : cst :=
  mkCst s (c_hist c) (c_iR c) (c_ind c) (c_iph c) (c_spec c) (c_corr c && corr) (c_bad c)
        (c_nok c) (c_ncommit c) (c_nwin c) (c_stalled c) (c_late c).
Definition set_bad (c : cst) : cst :=
  mkCst (c_st c) (c_hist c) (c_iR c) (c_ind c) (c_iph c) (c_spec c) (c_corr c) true
        (c_nok c) (c_ncommit c) (c_nwin c) (c_stalled c) (c_late c).
Definition set_iph (c : cst) (ph : Z) (committed : bool) : cst :=
  mkCst (c_st c) (c_hist c) (c_iR c) (c_ind c) ph (c_spec c) (c_corr c) (c_bad c)
        (c_nok c) (if committed then S (c_ncommit c) else c_ncommit c) (c_nwin c) (c_stalled c) (c_late c).

Definition steps (s : st) (ops : list op) : st * bool :=
  fold_left (fun acc o => let (s1, r) := step (fst acc) o in
                          (s1, snd acc || match r with RPanic => true | _ => false end))
            ops (s, false).

(* a state-changing operation: run the model, compare the phase the implementation reports *)
Definition chk_ctl (c : cst) (ops : list op) (ph : term) (is_post : bool) : cst :=
  match as_Z ph with
  | None => set_bad c
  | Some z =>
      let (s1, panic) := steps (c_st c) ops in
      let c1 := upd_model c s1 (negb panic && (phase_code (t_phase s1) =? z)%Z) in
      set_iph c1 z (is_post && (c_iph c =? 2)%Z)
  end.

Definition chk_query (c : cst) (o : op) (rnd : nat) (obs spec : term) : cst :=
  let (s1, r) := step (c_st c) o in
  let ok := obs_ok (c_iR c) (c_ind c) (c_iph c) rnd obs spec in
  let isok := match obs with TL (TS "ok" :: _) => true | _ => false end in
  mkCst s1 (c_hist c) (c_iR c) (c_ind c) (c_iph c) (c_spec c && ok)
        (c_corr c && term_eqb (out_term r) obs) (c_bad c)
        (if isok then S (c_nok c) else c_nok c) (c_ncommit c)
        (if isok && (c_iph c =? 2)%Z then S (c_nwin c) else c_nwin c) (c_stalled c) (c_late c).

(* the final answer of a lookup that waited: the value for the round asked for, or an error if
   that round is no longer served *)
Definition chk_late (c : cst) (rnd : nat) (obs spec : term) : cst :=
  let ok := match obs with
            | TL (TS "ok" :: _) => term_eqb obs spec
            | TL [TS "err"; _] => (rnd <? c_iR c)%nat
            | _ => false
            end in
  mkCst (c_st c) (c_hist c) (c_iR c) (c_ind c) (c_iph c) (c_spec c && ok) (c_corr c) (c_bad c)
        (c_nok c) (c_ncommit c) (c_nwin c) (c_stalled c) (c_late c).

(* a reader is held after its DB read: run the model's stalled lookup, remember what it answers *)
Definition chk_stall (c : cst) (space : nat) (o : op) (spec : term) : cst :=
  let (s1, r) := step (c_st c) o in
  mkCst s1 (c_hist c) (c_iR c) (c_ind c) (c_iph c) (c_spec c) (c_corr c) (c_bad c)
        (c_nok c) (c_ncommit c) (c_nwin c)
        (c_stalled c ++ [(space, (out_term r, spec), c_iR c)]) (c_late c).

(* the n-th held reader of a space *)
Fixpoint take_stalled (l : list (nat * (term * term) * nat)) (space n : nat)
  : option ((term * term) * nat) * list (nat * (term * term) * nat) :=
  match l with
  | [] => (None, [])
  | x :: tl =>
      if Nat.eqb (fst (fst x)) space then
        match n with
        | O => (Some (snd (fst x), snd x), tl)
        | S m => let (r, tl') := take_stalled tl space m in (r, x :: tl')
        end
      else let (r, tl') := take_stalled tl space n in (r, x :: tl')
  end.

Definition chk_land (c : cst) (space n : nat) (obs : term) : cst :=
  let (s1, _) := step (c_st c) (OLand space n) in
  match take_stalled (c_stalled c) space n with
  | (Some (ans, r0), rest) =>
      mkCst s1 (c_hist c) (c_iR c) (c_ind c) (c_iph c)
            (c_spec c && term_eqb obs (snd ans)) (c_corr c && term_eqb obs (fst ans)) (c_bad c)
            (S (c_nok c)) (c_ncommit c) (c_nwin c) rest (c_late c || negb (land_okb (c_st c) space n))
  | (None, _) => upd_model c s1 false
  end.

(* lookupLatest: base data (a_extra mod 4 = auth address) and every resource at the latest round *)
Definition half_count (o : option N) : nat := match o with Some _ => 1 | None => 0 end.
Definition chk_latest (g : world) (c : cst) (a : addr) (obs : term) : cst :=
  let h := c_hist c in
  let lat := List.length h in
  let w := state_at g h lat in
  let ok :=
    match obs with
    | TL [TS "ok"; rnd; al; st; au; TL res; nres] =>
        match as_nat rnd, as_N al, as_N st, as_N au, as_nat nres with
        | Some rnd, Some al, Some st, Some au, Some nres =>
            let x := ans_acct w a in
            Nat.eqb rnd lat && N.eqb al (a_algos x) && N.eqb st (a_status x) &&
            N.eqb au (N.modulo (a_extra x) 4) &&
            forallb (fun t => match t with
                              | TL [ci; p; hh] =>
                                  match as_N ci with
                                  | Some ci => term_eqb (TL [p; hh]) (TL (res_terms (ans_res w a ci)))
                                  | None => false
                                  end
                              | _ => false
                              end) res &&
            (* nothing beyond the listed creatables: the entry count matches *)
            Nat.eqb nres (fold_left (fun n t => match t with
                                               | TL [TZ ci; _; _] =>
                                                   (n + half_count (fst (ans_res w a (Z.to_N ci)))
                                                      + half_count (snd (ans_res w a (Z.to_N ci))))%nat
                                               | _ => n
                                               end) res 0%nat)
        | _, _, _, _, _ => false
        end
    | _ => false
    end in
  mkCst (c_st c) (c_hist c) (c_iR c) (c_ind c) (c_iph c) (c_spec c && ok) (c_corr c) (c_bad c)
        (if ok then S (c_nok c) else c_nok c) (c_ncommit c) (c_nwin c) (c_stalled c) (c_late c).

Definition chk_dump (c : cst) (R nd : nat) (ma mr mk mc la lr lk : list term) : cst :=
  let s := c_st c in
  let same :=
    Nat.eqb (t_dbRound s) R && Nat.eqb (List.length (t_deltas s)) nd &&
    set_eqb (dump_mods k_addr (s_mods _ _ (t_acc s))) ma &&
    set_eqb (dump_mods k_pair (s_mods _ _ (t_res s))) mr &&
    set_eqb (dump_mods k_bytes (s_mods _ _ (t_kv s))) mk &&
    set_eqb (dump_mods k_addr (s_mods _ _ (t_cre s))) mc &&
    set_eqb (dump_lru k_addr (s_cache _ _ (t_acc s))) la &&
    set_eqb (dump_lru k_pair (s_cache _ _ (t_res s))) lr &&
    set_eqb (dump_lru k_bytes (s_cache _ _ (t_kv s))) lk in
  mkCst s (c_hist c) R nd (c_iph c) (c_spec c) (c_corr c && same) (c_bad c)
        (c_nok c) (c_ncommit c) (c_nwin c) (c_stalled c) (c_late c).

Definition chk_op (g : world) (c : cst) (t : term) : cst :=
  match t with
  | TL [TS "b"; v; a; r; k; cr] =>
      match as_delta v a r k cr with
      | Some d =>
          let (s1, _) := step (c_st c) (ONewBlock d) in
          mkCst s1 (c_hist c ++ [d]) (c_iR c) (c_ind c) (c_iph c) (c_spec c) (c_corr c) (c_bad c)
                (c_nok c) (c_ncommit c) (c_nwin c) (c_stalled c) (c_late c)
      | None => set_bad c
      end
  | TL [TS "s"; r; ph] =>
      match as_nat r with Some r => chk_ctl c [OSchedule r; OBegin] ph false | None => set_bad c end
  | TL [TS "c"; ph] => chk_ctl c [OCommitDB; OBegin] ph false
  | TL [TS "p"; ph] => chk_ctl c [OPostCommit; OBegin] ph true
  | TL [TS "r"; ph] => chk_ctl c [OReload] ph false
  | TL [TS "f"] => upd_model c (fst (step (c_st c) OFlush)) true
  | TL [TS "x"; na; nr; nk] =>
      match as_nat na, as_nat nr, as_nat nk with
      | Some na, Some nr, Some nk => upd_model c (fst (step (c_st c) (OPrune na nr nk))) true
      | _, _, _ => set_bad c
      end
  | TL [TS "qa"; rnd; a; obs] =>
      match as_nat rnd, as_N a with
      | Some rnd, Some a => chk_query c (OQAcct rnd a) rnd obs (spec_acct g (c_hist c) rnd a)
      | _, _ => set_bad c
      end
  | TL [TS "qr"; rnd; a; ci; obs] =>
      match as_nat rnd, as_N a, as_N ci with
      | Some rnd, Some a, Some ci => chk_query c (OQRes rnd a ci) rnd obs (spec_res g (c_hist c) rnd a ci)
      | _, _, _ => set_bad c
      end
  | TL [TS "qk"; rnd; TB k; obs] =>
      match as_nat rnd with
      | Some rnd => chk_query c (OQKv rnd k) rnd obs (spec_kv g (c_hist c) rnd k)
      | None => set_bad c
      end
  | TL [TS "qc"; rnd; ci; ct; obs] =>
      match as_nat rnd, as_N ci, as_N ct with
      | Some rnd, Some ci, Some ct => chk_query c (OQCre rnd ci ct) rnd obs (spec_cre g (c_hist c) rnd ci ct)
      | _, _, _ => set_bad c
      end
  | TL [TS "sa"; rnd; a] =>
      match as_nat rnd, as_N a with
      | Some rnd, Some a => chk_stall c 0 (OSAcct rnd a) (spec_acct g (c_hist c) rnd a)
      | _, _ => set_bad c
      end
  | TL [TS "sr"; rnd; a; ci] =>
      match as_nat rnd, as_N a, as_N ci with
      | Some rnd, Some a, Some ci => chk_stall c 1 (OSRes rnd a ci) (spec_res g (c_hist c) rnd a ci)
      | _, _, _ => set_bad c
      end
  | TL [TS "sk"; rnd; TB k] =>
      match as_nat rnd with
      | Some rnd => chk_stall c 2 (OSKv rnd k) (spec_kv g (c_hist c) rnd k)
      | None => set_bad c
      end
  | TL [TS "la"; sp; n; obs] =>
      match as_nat sp, as_nat n with
      | Some sp, Some n => chk_land c sp n obs
      | _, _ => set_bad c
      end
  | TL [TS "za"; rnd; a; obs] =>
      match as_nat rnd, as_N a with
      | Some rnd, Some a => chk_late c rnd obs (spec_acct g (c_hist c) rnd a)
      | _, _ => set_bad c
      end
  | TL [TS "zk"; rnd; TB k; obs] =>
      match as_nat rnd with
      | Some rnd => chk_late c rnd obs (spec_kv g (c_hist c) rnd k)
      | None => set_bad c
      end
  | TL [TS "zc"; rnd; ci; ct; obs] =>
      match as_nat rnd, as_N ci, as_N ct with
      | Some rnd, Some ci, Some ct => chk_late c rnd obs (spec_cre g (c_hist c) rnd ci ct)
      | _, _, _ => set_bad c
      end
  | TL [TS "zl"; a; obs] =>
      match as_N a with Some a => chk_latest g c a obs | None => set_bad c end
  | TL [TS "d"; R; nd; TL ma; TL mr; TL mk; TL mc; TL la; TL lr; TL lk] =>
      match as_nat R, as_nat nd with
      | Some R, Some nd => chk_dump c R nd ma mr mk mc la lr lk
      | _, _ => set_bad c
      end
  | _ => set_bad c
  end.

Definition check (t : term) : term :=
  match t with
  | TL [TS "c08"; TL [lb; ca; na; nr; nk]; gen; TL ops] =>
      match as_nat lb, as_bool ca, as_nat na, as_nat nr, as_nat nk, as_list_of as_acct_rec gen with
      | Some lb, Some ca, Some na, Some nr, Some nk, Some gen =>
          let g := genesis_world gen in
          let c0 := mkCst (init (mkCfg lb ca na nr nk false) gen) [] 0 0 0%Z true true false 0 0 0 [] false in
          let c := fold_left (chk_op g) ops c0 in
          if c_bad c then v_parse
          else
            let wf := wf_histb g (c_hist c) in
            (* outside the evaluator's guarantees the property does not speak; the model is
               still compared with the implementation *)
            let detail := TL [tb wf; tb (c_spec c); tb (c_corr c); t_nat (c_nok c); t_nat (c_ncommit c);
                              t_nat (c_nwin c); tb (c_late c)] in
            if wf && negb (c_spec c) && c_late c && c_corr c then v_known "late_pending_cache_write" detail
            else verdict (negb wf || c_spec c) (c_corr c)
                         (wf && Nat.ltb 0 (c_nok c) && Nat.ltb 0 (c_ncommit c)) detail
      | _, _, _, _, _, _ => v_parse
      end
  | _ => v_parse
  end.
