(* C06: the property as a declarative specification over the RAW vote history (no tracker
   state), and the executable oracle [spec_ok] that re-checks an observed trace against it.
   No proofs here (coq/proofs/VoteTrackerProofs.v, VoteTrackerSpecProofs.v). *)
From Coq Require Import NArith List Bool String.
From Verif.model Require Import VoteTracker.
Import ListNotations.
Open Scope N_scope.

(* What one sender has done in a history: nothing / voted (first vote kept, identical
   repeats ignored) / equivocated (first vote and the first vote for a different value;
   everything later is ignored). *)
Inductive status := SNone | SVoted (v : vote) | SEquiv (v1 v2 : vote).
Definition status_step (a : status) (x : vote) : status :=
  match a with
  | SNone => SVoted x
  | SVoted v => if v_value v =? v_value x then SVoted v else SEquiv v x
  | SEquiv v1 v2 => SEquiv v1 v2
  end.
Definition status_of (h : list vote) (s : N) : status :=
  fold_left (fun a x => if v_sender x =? s then status_step a x else a) h SNone.

Definition memN (k : N) (l : list N) : bool := existsb (N.eqb k) l.
(* distinct elements in order of first occurrence *)
Definition dedup (l : list N) : list N :=
  fold_left (fun acc k => if memN k acc then acc else acc ++ [k]) l [].
Definition senders (h : list vote) : list N := dedup (map v_sender h).
Definition values (h : list vote) : list N := dedup (map v_value h).
Definition sumN (l : list N) : N := fold_right N.add 0 l.

(* weight a sender contributes directly to value p / as an equivocator to every value *)
Definition cnt_contrib (a : status) (p : N) : N :=
  match a with SVoted v => if v_value v =? p then v_weight v else 0 | _ => 0 end.
Definition eq_contrib (a : status) : N :=
  match a with SEquiv _ v2 => v_weight v2 | _ => 0 end.
Definition spec_cnt (h : list vote) (p : N) : N :=
  sumN (map (fun s => cnt_contrib (status_of h s) p) (senders h)).
Definition spec_eqw (h : list vote) : N :=
  sumN (map (fun s => eq_contrib (status_of h s)) (senders h)).
(* THE tally: distinct non-equivocating senders whose vote is p, plus every equivocator *)
Definition spec_tally (h : list vote) (p : N) : N := spec_cnt h p + spec_eqw h.

(* the weight a sender carries in a bundle (its credential) *)
Definition member_weight (h : list vote) (s : N) : N :=
  match status_of h s with SNone => 0 | SVoted v => v_weight v | SEquiv v1 _ => v_weight v1 end.
Definition total_weight (h : list vote) : N := sumN (map (member_weight h) (senders h)).

(* well-formed histories: credentials have positive weight and a sender has ONE weight in a
   step (the weight is a function of (sender, round, period, step)); no uint64 overflow of
   the total stake that voted *)
Definition wf_votes (l : list vote) : Prop :=
  (forall x, In x l -> 0 < v_weight x) /\
  (forall x y, In x l -> In y l -> v_sender x = v_sender y -> v_weight x = v_weight y) /\
  total_weight l < 2 ^ 64.
Definition wf_votes_b (l : list vote) : bool :=
  forallb (fun x => 0 <? v_weight x) l &&
  forallb (fun x => forallb (fun y => negb (v_sender x =? v_sender y) || (v_weight x =? v_weight y)) l) l &&
  (total_weight l <? 2 ^ 64).

(* values that have reached the quorum *)
Definition over_values (q : option N) (h : list vote) : list N :=
  filter (fun p => reaches q (spec_tally h p)) (values h).

(* expected reaction to vote x after history h *)
Inductive eout := ENone | EThr (p : N) | EPanic (tag : string).
Definition expected (q : option N) (h : list vote) (x : vote) : eout :=
  let h' := h ++ [x] in
  if reaches q (spec_eqw h') then EPanic "eq"
  else match over_values q h' with
       | [] => ENone
       | [p] => if isnil (over_values q h) then EThr p else ENone
       | _ => EPanic "two"
       end.
Fixpoint spec_outs (q : option N) (h : list vote) (l : list vote) : list eout :=
  match l with
  | [] => []
  | x :: l' => match expected q h x with
               | EPanic t => [EPanic t]
               | e => e :: spec_outs q (h ++ [x]) l'
               end
  end.
Definition out_kind (o : out) : eout :=
  match o with ONone => ENone | OThreshold p _ => EThr p | OPanic t => EPanic t end.

(* ---- executable re-check of an observed bundle ---- *)
Fixpoint nodupb (l : list N) : bool :=
  match l with [] => true | x :: t => negb (memN x t) && nodupb t end.
Definition is_voter_for (h : list vote) (p s : N) : bool :=
  match status_of h s with SVoted v => v_value v =? p | _ => false end.
Definition is_equiv_pair (h : list vote) (e : N * N * N) : bool :=
  let '(s, p0, p1) := e in
  match status_of h s with
  | SEquiv v1 v2 => (v_value v1 =? p0) && (v_value v2 =? p1) && negb (p0 =? p1)
  | _ => false
  end.
Definition bundle_members (b : bundle) : list N := b_votes b ++ map (fun e => fst (fst e)) (b_eqs b).
Definition bundle_weight (h : list vote) (b : bundle) : N :=
  sumN (map (member_weight h) (bundle_members b)).
Definition bundle_ok (q : option N) (h : list vote) (p : N) (b : bundle) : bool :=
  (b_value b =? p) && negb (isnil (b_votes b)) && nodupb (bundle_members b) &&
  forallb (is_voter_for h p) (b_votes b) && forallb (is_equiv_pair h) (b_eqs b) &&
  reaches q (bundle_weight h b).

(* ---- executable re-check of an observed tally snapshot ---- *)
Definition opt_vote_eqb (a b : option vote) : bool :=
  match a, b with
  | None, None => true
  | Some x, Some y => (v_sender x =? v_sender y) && (v_value x =? v_value y) && (v_weight x =? v_weight y)
  | _, _ => false
  end.
Definition opt_eq_eqb (a b : option eqvote) : bool :=
  match a, b with
  | None, None => true
  | Some x, Some y => (e_sender x =? e_sender y) && (e_weight x =? e_weight y) &&
                      (e_p0 x =? e_p0 y) && (e_p1 x =? e_p1 y)
  | _, _ => false
  end.
Definition spec_voter (h : list vote) (s : N) : option vote :=
  match status_of h s with SVoted v => Some v | _ => None end.
Definition spec_equiv (h : list vote) (s : N) : option eqvote :=
  match status_of h s with
  | SEquiv v1 v2 => Some (mkEq (v_sender v1) (v_weight v1) (v_value v1) (v_value v2))
  | _ => None
  end.
Definition spec_voter_for (h : list vote) (p s : N) : option vote :=
  match status_of h s with SVoted v => if v_value v =? p then Some v else None | _ => None end.
Definition keys {A} (l : list (N * A)) : list N := map fst l.

Definition snap_ok (h : list vote) (st : state) : bool :=
  let ss := senders h ++ keys (voters st) ++ keys (equivocators st) in
  let ps := values h ++ keys (counts st) in
  nodupb (keys (voters st)) && nodupb (keys (counts st)) && nodupb (keys (equivocators st)) &&
  forallb (fun s => opt_vote_eqb (alookup s (voters st)) (spec_voter h s) &&
                    opt_eq_eqb (alookup s (equivocators st)) (spec_equiv h s)) ss &&
  (eqcount st =? spec_eqw h) &&
  forallb (fun p =>
     match alookup p (counts st) with
     | None => spec_cnt h p =? 0
     | Some c => (c_count c =? spec_cnt h p) && negb (isnil (c_votes c)) && nodupb (keys (c_votes c)) &&
                 forallb (fun s => opt_vote_eqb (alookup s (c_votes c)) (spec_voter_for h p s))
                         (senders h ++ keys (c_votes c))
     end) ps.

(* ---- the oracle: observed trace (same shape as [run]) against the specification ---- *)
Fixpoint spec_ok_from (q : option N) (h l : list vote) (obs : list (out * option state)) : bool :=
  match l, obs with
  | [], [] => true
  | x :: l', (o, snap) :: obs' =>
      let h' := h ++ [x] in
      match expected q h x, o, snap with
      | EPanic t, OPanic t', None => String.eqb t t' && isnil obs'
      | ENone, ONone, Some st => snap_ok h' st && spec_ok_from q h' l' obs'
      | EThr p, OThreshold p' b, Some st =>
          (p =? p') && bundle_ok q h' p b && snap_ok h' st && spec_ok_from q h' l' obs'
      | _, _, _ => false
      end
  | _, _ => false
  end.
Definition spec_ok (q : option N) (l : list vote) (obs : list (out * option state)) : bool :=
  spec_ok_from q [] l obs.

(* ================= Prop-level statements (used by props/C06.v) ================= *)

(* at most one value has reached the quorum *)
Definition no_two (q : option N) (h : list vote) : Prop :=
  forall p p', reaches q (spec_tally h p) = true -> reaches q (spec_tally h p') = true -> p = p'.

Definition quorums_intersect (q : option N) (h : list vote) : Prop :=
  reaches q (spec_eqw h) = false /\ no_two q h.

Definition bundle_valid (q : option N) (h : list vote) (p : N) (b : bundle) : Prop :=
  b_value b = p /\ b_votes b <> [] /\ NoDup (bundle_members b) /\
  (forall s, In s (b_votes b) -> exists v, status_of h s = SVoted v /\ v_value v = p) /\
  (forall s p0 p1, In (s, p0, p1) (b_eqs b) ->
     exists v1 v2, status_of h s = SEquiv v1 v2 /\ v_value v1 = p0 /\ v_value v2 = p1 /\ p0 <> p1) /\
  reaches q (bundle_weight h b) = true.

(* ---------- the invariant tying the tracker state to the history ---------- *)
Record Inv (h : list vote) (st : state) : Prop := mkInv {
  inv_voters : forall s, alookup s (voters st) = spec_voter h s;
  inv_equivs : forall s, alookup s (equivocators st) = spec_equiv h s;
  inv_cnt : forall p, c_count (counter_of st p) = spec_cnt h p;
  inv_votes : forall p s, alookup s (c_votes (counter_of st p)) = spec_voter_for h p s;
  inv_entry : forall p, alookup p (counts st) = None <-> spec_cnt h p = 0;
  inv_eqc : eqcount st = spec_eqw h;
  inv_nd_voters : NoDup (keys (voters st));
  inv_nd_counts : NoDup (keys (counts st));
  inv_nd_equivs : NoDup (keys (equivocators st));
  inv_nd_votes : forall p, NoDup (keys (c_votes (counter_of st p)))
}.

Record tracker_wf (st : state) : Prop := mkTrackerWf {
  twf_nd : NoDup (keys (voters st)) /\ NoDup (keys (counts st)) /\ NoDup (keys (equivocators st));
  (* Voters and Equivocators are disjoint *)
  twf_disjoint : forall s, alookup s (voters st) <> None -> alookup s (equivocators st) = None;
  (* Counts[p] holds exactly the recorded voters whose value is p, and is never empty *)
  twf_votes : forall p c, alookup p (counts st) = Some c ->
      c_votes c <> [] /\ NoDup (keys (c_votes c)) /\
      forall s v, alookup s (c_votes c) = Some v <-> (alookup s (voters st) = Some v /\ v_value v = p);
  twf_voter_counted : forall s v, alookup s (voters st) = Some v -> alookup (v_value v) (counts st) <> None;
  (* Count is the weight of those votes; EquivocatorsCount the weight of the equivocators *)
  twf_count : forall p c, alookup p (counts st) = Some c -> c_count c = sumN (map (fun e => v_weight (snd e)) (c_votes c));
  twf_eqcount : eqcount st = sumN (map (fun e => e_weight (snd e)) (equivocators st));
  twf_keys : (forall s v, alookup s (voters st) = Some v -> v_sender v = s) /\
             (forall s e, alookup s (equivocators st) = Some e -> e_sender e = s /\ e_p0 e <> e_p1 e)
}.

Definition is_panic (o : out) : bool := match o with OPanic _ => true | _ => false end.

(* what one observed reaction must satisfy w.r.t. the raw history *)
Definition step_obs (q : option N) (h : list vote) (x : vote) (o : out) : Prop :=
  let h' := h ++ [x] in
  match o with
  | OPanic t =>
      (t = "eq"%string /\ reaches q (spec_eqw h') = true) \/
      (t = "two"%string /\ reaches q (spec_eqw h') = false /\
       exists p p', p <> p' /\ reaches q (spec_tally h' p) = true /\ reaches q (spec_tally h' p') = true)
  | ONone =>
      reaches q (spec_eqw h') = false /\ no_two q h' /\
      ((forall p, reaches q (spec_tally h' p) = false) \/ (exists p, reaches q (spec_tally h p) = true))
  | OThreshold p b =>
      reaches q (spec_eqw h') = false /\ no_two q h' /\ reaches q (spec_tally h' p) = true /\
      (forall p', reaches q (spec_tally h p') = false) /\ bundle_valid q h' p b
  end.

Definition snap_rel (h' : list vote) (o : out) (snap : option state) : Prop :=
  match snap with
  | Some st => is_panic o = false /\ Inv h' st
  | None => is_panic o = true
  end.

(* an observation trace for the votes l received after history h0 *)
Definition trace_ok (q : option N) (h0 l : list vote) (obs : list (out * option state)) : Prop :=
  (forall i o snap, nth_error obs i = Some (o, snap) ->
     exists x, nth_error l i = Some x /\ step_obs q (h0 ++ firstn i l) x o /\
               snap_rel (h0 ++ firstn i l ++ [x]) o snap) /\
  (forall i o snap, nth_error obs i = Some (o, snap) -> is_panic o = true -> S i = List.length obs) /\
  ((forall o, In o (map fst obs) -> is_panic o = false) -> List.length obs = List.length l).
