(* AVM table types (C31, C33, C34).  The *values* of these types are regenerated from the
   running Go code on every check (coq/gen/AvmTables.v, written by
   harness/go/data/transactions/logic/zz_verif_avmtables_test.go); this file only fixes the
   shape, which mirrors data/transactions/logic/opcodes.go:OpSpec/OpDetails/linearCost/immediate
   and fields.go:FieldSpec/FieldGroup.  No proofs here. *)
From Coq Require Import List NArith ZArith String Bool.
Import ListNotations.

(* avmType (eval.go): 0 avmNone, 1 avmAny, 2 avmUint64, 3 avmBytes *)
Definition avmNone : N := 0%N.
Definition avmAny : N := 1%N.
Definition avmUint64 : N := 2%N.
Definition avmBytes : N := 3%N.

(* RunMode (eval.go): ModeSig = 1, ModeApp = 2, modeAny = 3 *)
Definition ModeSig : N := 1%N.
Definition ModeApp : N := 2%N.

(* which static check function OpDetails.check is (identified by function identity) *)
Inductive ckind : Type :=
| CkNone | CkBranch2B | CkBranchVarint | CkSwitch | CkIntImm | CkByteImm | CkPushBytes | CkPushInt
| CkUnknown.

(* which evaluation function OpSpec.op is, as far as control flow / instruction layout is
   concerned (identified by function identity); everything else is OpPlain *)
Inductive okind : Type :=
| OpPlain
| OpBnz2B | OpBz2B | OpB2B | OpCallsub2B
| OpBnzV | OpBzV | OpBV | OpCallsubV
| OpSwitch | OpMatch | OpRetsub | OpReturn
| OpIntcBlock | OpBytecBlock | OpPushInts | OpPushBytess | OpPushInt | OpPushBytes.

(* linearCost: Go ints *)
Record lincost : Type := mkLC { lc_base : Z; lc_chunk : Z; lc_size : Z; lc_depth : Z }.

(* immediate: kind (immKind iota: 0 immByte, 1 immInt8, 2 immLabel, 3 immInt, 4 immBytes,
   5 immInts, 6 immBytess, 7 immLabels, 8 immVarintLabel), field group (0 = none, k>0 =
   k-th entry of field_groups, 1-based), fieldCosts (trailing all-zero entries dropped;
   [] = nil) *)
Record immediate : Type := mkImm { im_kind : N; im_group : N; im_costs : list lincost }.

Record opspec : Type := mkOp {
  os_opcode : N;
  os_sub : N;              (* OpDetails.SubOpcode *)
  os_name : string;
  os_version : N;
  os_modes : N;
  os_size : N;             (* OpDetails.Size; 0 = dynamic *)
  os_args : list N;        (* Arg.Types[i].AVMType *)
  os_rets : list N;        (* Return.Types[i].AVMType *)
  os_trusted : bool;
  os_full : lincost;       (* FullCost *)
  os_imms : list immediate;
  os_ck : ckind;
  os_ok : okind;
  os_hasop : bool          (* op != nil *)
}.

Record fspec : Type := mkFS {
  fs_field : N;            (* Field() *)
  fs_name : string;
  fs_version : N;          (* Version() *)
  fs_modes : N             (* Modes() *)
}.

Record fgroup : Type := mkFG { fg_name : string; fg_fields : list fspec }.

(* one entry of opsByOpcode[v]: the spec stored at the opcode byte and its SubOps slice
   (pool indices; [] = nil) *)
Definition tentry : Type := (N * (N * list N))%type.

Definition zero_lc : lincost := mkLC 0 0 0 0.
Definition zero_spec : opspec :=
  mkOp 0 0 "" 0 0 0 [] [] false zero_lc [] CkNone OpPlain false.
