(* C14 model: how the catchpoint tracker maintains the balances trie and produces labels.

   Transcribed from /repo/ledger
     acctupdates.go       compactKvDeltas (first OldData, newest Data), acctdeltas.go
                          makeCompactAccountDeltas / makeCompactResourceDeltas (first-touch order,
                          newest value; the old value is read from the DB / base caches)
     catchpointtracker.go accountsUpdateBalances (per compacted account, resource and KV delta:
                          Delete(old leaf) / Add(new leaf); the two KV skips; Commit when something
                          changed), newBlock (reenableCatchpointsRound), calculateFirstStageRounds,
                          produceCommittingTask, calculateCatchpointRounds, commitRound, postCommit
                          (Evict(false)), postCommitUnlocked (finishFirstStage -> recordFirstStageInfo:
                          trie root + totals + digests; finishCatchpoint -> createCatchpoint ->
                          MakeLabel; pruneFirstStageRecordsData), loadFromDisk (reload)
     tracker.go           committedUpTo / produceCommittingTask (newBase = rnd - MaxAcctLookback),
                          replay (the flush at the end of a reload)
   The balances trie is the LOGICAL trie of C17 (model/MerkleTrie.v: [step] over Add / Delete /
   Commit / Evict / reload / RootHash); the hash function [H], the key / value types and the
   leaf builder are parameters here (instantiated with the C15 builders in CatchpointLabelCheck.v).

   A key is an account address, an (address, creatable) pair or a KV key; a value is what the
   tracker DB stores for it (with its UpdateRound); [None] = IsEmpty() / nil.
   Abstractions (see checks/C14.py): a modification record carries the complete new value
   (C08's well-formedness of resource deltas); one consensus version per history; the first-stage
   digests (state-proof contexts, online accounts, online round params) are a function of the
   round given with the history; crash recovery is C09.   No proofs in this file. *)
From Coq Require Import List NArith ZArith Bool.
From Verif.model Require Import MerkleTrie CatchpointHash.
Import ListNotations.
Open Scope N_scope.

Section Model.
  Variables K V : Type.
  Variable keq_dec : forall a b : K, {a = b} + {a <> b}.
  Variable veqb : V -> V -> bool.           (* bytes.Equal(mv.oldData, mv.data) *)
  Variable kclass : K -> N.                 (* 0 account | 1 resource | otherwise KV *)
  Variable leaf : K -> V -> key.            (* Account / Resources / Kv HashBuilderV6 *)
  Variable H : list N -> list N.            (* crypto.Hash *)

  Definition kvlike (k : K) : bool := negb ((kclass k =? 0) || (kclass k =? 1)).

  (* one entry of a StateDelta: the key, its value after the round, and (KvValueDelta.OldData,
     only read for KV keys) the value before the round *)
  Record kmod := mkMod { m_key : K; m_new : option V; m_old : option V }.

  Record block := mkBlock {
    b_mods : list kmod;
    b_digest : list N;                      (* blk.Digest() *)
    b_totals : list N;                      (* EncodeReflect of the AccountTotals after the round *)
    b_extras : list (list N) }.             (* spver / onlineaccounts / onlineroundparams digests a first stage at this round records *)

  Definition store := K -> option V.
  Definition upd (s : store) (k : K) (v : option V) : store :=
    fun k' => if keq_dec k' k then v else s k'.
  Definition apply_mods (ms : list kmod) (s : store) : store :=
    fold_left (fun s m => upd s (m_key m) (m_new m)) ms s.

  Definition mods_of (bs : list block) : list kmod := concat (map b_mods bs).
  (* blocks a+1 .. b *)
  Definition blocks_range (hist : list block) (a b : N) : list block :=
    firstn (N.to_nat (b - a)) (skipn (N.to_nat a) hist).
  (* THE SPECIFICATION: the ledger state after round r is the fold of the first r blocks *)
  Definition state_at (g : store) (hist : list block) (r : N) : store :=
    apply_mods (mods_of (firstn (N.to_nat r) hist)) g.
  Definition block_at (hist : list block) (r : N) : option block :=
    if r =? 0 then None else nth_error hist (N.to_nat (r - 1)).

  (* ---------- compaction: one entry per key, first-touch order, first old / newest new ---------- *)
  Definition cdelta := (K * (option V * option V))%type.
  Fixpoint cupsert (k : K) (o n : option V) (c : list cdelta) : list cdelta :=
    match c with
    | [] => [(k, (o, n))]
    | (k', (o', n')) :: c' =>
        if keq_dec k k' then (k', (o', n)) :: c' else (k', (o', n')) :: cupsert k o n c'
    end.
  Definition compact (ms : list kmod) : list cdelta :=
    fold_left (fun c m => cupsert (m_key m) (m_old m) (m_new m) c) ms [].

  (* accounts, then resources, then KVs (three loops of accountsUpdateBalances) *)
  Definition by_class (c : list cdelta) : list cdelta :=
    filter (fun d => kclass (fst d) =? 0) c ++ filter (fun d => kclass (fst d) =? 1) c ++
    filter (fun d => kvlike (fst d)) c.

  (* ---------- accountsUpdateBalances ---------- *)
  (* one Trie.Delete / Trie.Add; None = the call returned an error (the commit fails) *)
  Definition trie_call (m : mstate) (o : op) (acc : N) : option (mstate * N) :=
    match step m o with
    | (m', RBool true) => Some (m', acc + 1)          (* accumulatedChanges++ *)
    | (m', RBool false) => Some (m', acc)             (* logged, ignored *)
    | _ => None
    end.

  Definition del_add (k : K) (o n : option V) (m : mstate) (acc : N) : option (mstate * N) :=
    let r1 := match o with
              | Some ov => trie_call m (ODel (leaf k ov)) acc
              | None => Some (m, acc)
              end in
    match r1 with
    | None => None
    | Some (m1, acc1) =>
        match n with
        | Some nv => trie_call m1 (OAdd (leaf k nv)) acc1
        | None => Some (m1, acc1)
        end
    end.

  Definition balance_one (db : store) (d : cdelta) (m : mstate) (acc : N) : option (mstate * N) :=
    let '(k, (od, n)) := d in
    if kvlike k then
      match od, n with
      | None, None => Some (m, acc)                                   (* came and went *)
      | Some ov, Some nv => if veqb ov nv then Some (m, acc)         (* changed back *)
                            else del_add k od n m acc
      | _, _ => del_add k od n m acc
      end
    else del_add k (db k) n m acc.                                    (* oldAcct / oldResource from the DB *)

  Fixpoint balance_all (db : store) (c : list cdelta) (m : mstate) (acc : N) : option (mstate * N) :=
    match c with
    | [] => Some (m, acc)
    | d :: c' => match balance_one db d m acc with
                 | None => None
                 | Some (m1, acc1) => balance_all db c' m1 acc1
                 end
    end.

  Definition update_balances (db : store) (c : list cdelta) (m : mstate) : option mstate :=
    match balance_all db (by_class c) m 0 with
    | None => None
    | Some (m1, acc) => Some (if 0 <? acc then fst (step m1 OCommit) else m1)
    end.

  (* ---------- catchpoint round arithmetic ---------- *)
  Definition calc_first_stage (oldBase offset reenable interval lookback : N) : bool * bool * N :=
    if reenable =? 0 then (false, false, offset) else
    let min0 := oldBase + 1 in
    let minFS := if (lookback <? reenable) && (min0 <? reenable - lookback) then reenable - lookback else min0 in
    let i := Z.of_N interval in
    let first := ((Z.of_N minFS + Z.of_N lookback + i - 1) / i * i - Z.of_N lookback)%Z in
    let last := ((Z.of_N oldBase + Z.of_N offset + Z.of_N lookback) / i * i - Z.of_N lookback)%Z in
    if (first <=? last)%Z then (true, (first <? last)%Z, Z.to_N (last - Z.of_N oldBase)) else (false, false, offset).

  Definition catchpoint_rounds (oldBase offset interval lookback : N) : list N :=
    if interval =? 0 then [] else
    let min0 := oldBase + 1 in
    let mn := if min0 <? lookback + 1 then lookback + 1 else min0 in
    let mx := oldBase + offset in
    let l := (mn + interval - 1) / interval in
    let r := mx / interval in
    if r <? l then [] else map (fun i => (l + N.of_nat i) * interval) (seq 0 (N.to_nat (r - l + 1))).

  (* ---------- the tracker ---------- *)
  Record first_info := mkFirst { f_root : list N; f_totals : list N; f_extras : list (list N) }.

  Record params := mkParams {
    p_interval : N;          (* config: CatchpointInterval (> 0: the trie is maintained) *)
    p_acctlookback : N;      (* config: MaxAcctLookback *)
    p_lookback : N;          (* consensus: CatchpointLookback *)
    p_spctx : bool;          (* consensus: EnableCatchpointsWithSPContexts (or forced file writing) *)
    p_nextras : nat }.       (* label format: V6 0, V7 1, current 3 digests after the totals *)

  Record cstate := mkState {
    c_round : N;                        (* tracker DB round *)
    c_latest : N;                       (* last block given to the trackers *)
    c_db : store;
    c_totals : list N;                  (* accounttotals row *)
    c_trie : mstate;                    (* balancesTrie + its committed pages *)
    c_reenable : N;                     (* reenableCatchpointsRound *)
    c_first : list (N * first_info);    (* catchpointfirststageinfo *)
    c_labels : list (N * list N);       (* every label created, newest first *)
    c_last : list N;                    (* lastCatchpointLabel *)
    c_err : bool }.                     (* a commit failed (trie error) *)

  Variable P : params.
  Variable hist : list block.

  Definition set_trie (st : cstate) (m : mstate) : cstate :=
    mkState (c_round st) (c_latest st) (c_db st) (c_totals st) m (c_reenable st) (c_first st)
            (c_labels st) (c_last st) (c_err st).

  (* trackerDBInitialize + initializeHashes on a fresh DB: every genesis entry is added, then Commit *)
  Definition init_trie (leaves : list key) : mstate :=
    fst (step (fold_left (fun m x => fst (step m (OAdd x))) leaves m_init) OCommit).

  Definition init_state (g : store) (gleaves : list key) (gtotals : list N) : cstate :=
    mkState 0 0 g gtotals (init_trie gleaves) 0 [] [] [] false.

  Definition reenable_after (st : cstate) (rnd : N) : N :=
    if p_spctx P && (c_reenable st =? 0) then rnd + p_lookback P else c_reenable st.

  Definition new_block (st : cstate) : cstate :=
    if c_latest st <? N.of_nat (length hist) then
      let rnd := c_latest st + 1 in
      mkState (c_round st) rnd (c_db st) (c_totals st) (c_trie st) (reenable_after st rnd)
              (c_first st) (c_labels st) (c_last st) (c_err st)
    else st.

  Fixpoint find_first (r : N) (l : list (N * first_info)) : option first_info :=
    match l with
    | [] => None
    | (r', f) :: l' => if r' =? r then Some f else find_first r l'
    end.

  (* finishCatchpoint for one round *)
  Definition finish_catchpoint (st : cstate) (rnd : N) : cstate :=
    match find_first (rnd - p_lookback P) (c_first st), block_at hist rnd with
    | Some f, Some b =>
        let label := make_label H rnd (b_digest b) (f_root f) (f_totals f) (firstn (p_nextras P) (f_extras f)) in
        mkState (c_round st) (c_latest st) (c_db st) (c_totals st) (c_trie st) (c_reenable st)
                (c_first st) ((rnd, label) :: c_labels st) label (c_err st)
    | _, _ => st
    end.

  (* trackerRegistry.commitRound for the range (c_round, newBase] *)
  Definition commit_range (st : cstate) (newBase : N) (firstStage : bool) (rounds : list N) : cstate :=
    let bs := blocks_range hist (c_round st) newBase in
    let cds := compact (mods_of bs) in
    match (if p_interval P =? 0 then Some (c_trie st)       (* !catchpointEnabled(): the trie is not maintained *)
           else update_balances (c_db st) cds (c_trie st)) with
    | None => mkState (c_round st) (c_latest st) (c_db st) (c_totals st) (c_trie st) (c_reenable st)
                      (c_first st) (c_labels st) (c_last st) true
    | Some m1 =>
        let db' := apply_mods (mods_of bs) (c_db st) in           (* accountsNewRound *)
        let totals' := match block_at hist newBase with Some b => b_totals b | None => c_totals st end in
        let m2 := fst (step m1 (OEvict false)) in                 (* postCommit *)
        (* postCommitUnlocked: finishFirstStage *)
        let '(m3, first') :=
          if firstStage then
            match step m2 ORoot with
            | (m3, RRoot r) =>
                let ex := match block_at hist newBase with Some b => b_extras b | None => [] end in
                (m3, (newBase, mkFirst (root_hash H r) totals' ex) :: c_first st)
            | (m3, _) => (m3, c_first st)
            end
          else (m2, c_first st) in
        let st1 := mkState newBase (c_latest st) db' totals' m3 (c_reenable st) first'
                           (c_labels st) (c_last st) (c_err st) in
        let st2 := fold_left finish_catchpoint rounds st1 in
        (* pruneFirstStageRecordsData(newBase - lookback) *)
        let first'' := if p_lookback P <=? newBase
                       then filter (fun e => negb (fst e <=? newBase - p_lookback P)) (c_first st2)
                       else c_first st2 in
        mkState (c_round st2) (c_latest st2) (c_db st2) (c_totals st2) (c_trie st2) (c_reenable st2)
                first'' (c_labels st2) (c_last st2) (c_err st2)
    end.

  (* trackers.committedUpTo(rnd) with the flush throttle out of the way, then waitAccountsWriting *)
  Definition commit_to (st : cstate) (rnd : N) : cstate :=
    if rnd <? p_acctlookback P then st else
    let newBase := rnd - p_acctlookback P in
    if newBase <=? c_round st then st else
    if c_latest st <? newBase then st else      (* produceCommittingTask would panic: never asked for *)
    let offset := newBase - c_round st in
    let '(fs, _, offset') :=
      if p_interval P =? 0 then (false, false, offset)         (* ct.produceCommittingTask returns dcr unchanged *)
      else calc_first_stage (c_round st) offset (c_reenable st) (p_interval P) (p_lookback P) in
    let rounds := catchpoint_rounds (c_round st) offset' (p_interval P) (p_lookback P) in
    if offset' =? 0 then st else
    commit_range st (c_round st + offset') fs rounds.

  (* close + reopen the trackers: loadFromDisk, replay of the blocks after the DB round, and the
     flush replay() schedules when it loaded more than MaxAcctLookback rounds *)
  Definition reload (st : cstate) : cstate :=
    let m := fst (step (c_trie st) OReload) in
    let re := if p_spctx P && (c_round st <? c_latest st) then c_round st + 1 + p_lookback P else 0 in
    let st1 := mkState (c_round st) (c_latest st) (c_db st) (c_totals st) m re (c_first st)
                       (c_labels st) (c_last st) (c_err st) in
    if c_round st + p_acctlookback P <? c_latest st then commit_to st1 (c_latest st) else st1.

  Inductive cop := ONewBlock | OCommitTo (r : N) | OReloadTrackers.

  Definition cstep (st : cstate) (o : cop) : cstate :=
    match o with
    | ONewBlock => new_block st
    | OCommitTo r => commit_to st r
    | OReloadTrackers => reload st
    end.

  Definition crun (st : cstate) (ops : list cop) : cstate := fold_left cstep ops st.

  (* trie root as a fresh reader of the committed pages sees it *)
  Definition committed_root (st : cstate) : list N := root_hash H (t_root (m_committed (c_trie st))).
End Model.

Arguments upd {K V}. Arguments apply_mods {K V}. Arguments kvlike {K}. Arguments mods_of {K V}.
Arguments blocks_range {K V}. Arguments state_at {K V}. Arguments block_at {K V}.
Arguments cupsert {K V}. Arguments compact {K V}. Arguments by_class {K V}.
Arguments del_add {K V}. Arguments balance_one {K V}. Arguments balance_all {K V}.
Arguments update_balances {K V}. Arguments init_state {K V}. Arguments new_block {K V}.
Arguments finish_catchpoint {K V}. Arguments commit_range {K V}. Arguments commit_to {K V}.
Arguments reload {K V}. Arguments cstep {K V}. Arguments crun {K V}. Arguments committed_root {K V}.
Arguments reenable_after {K V}. Arguments set_trie {K V}.
Arguments mkMod {K V}. Arguments m_key {K V}. Arguments m_new {K V}. Arguments m_old {K V}.
Arguments mkBlock {K V}. Arguments b_mods {K V}. Arguments b_digest {K V}. Arguments b_totals {K V}.
Arguments b_extras {K V}.
Arguments mkState {K V}. Arguments c_round {K V}. Arguments c_latest {K V}. Arguments c_db {K V}.
Arguments c_totals {K V}. Arguments c_trie {K V}. Arguments c_reenable {K V}. Arguments c_first {K V}.
Arguments c_labels {K V}. Arguments c_last {K V}. Arguments c_err {K V}.
