(* C10: the property as a declarative function of the world (database snapshot + in-memory
   deltas), the client-side iteration protocols, and the executable checker that is run on the
   implementation's observations.  No proofs in this file. *)
From Coq Require Import NArith ZArith List Bool String.
From Verif.lib Require Import Term.
From Verif.model Require Import Paging.
Import ListNotations.
Open Scope N_scope.

(* ------------------------------------------------------------------------------------------ *)
(* sorted duplicate-free key lists                                                            *)
(* ------------------------------------------------------------------------------------------ *)
Fixpoint ins_ub (x : bytes) (l : list bytes) : list bytes :=
  match l with
  | [] => [x]
  | y :: t => match bcmp x y with Lt => x :: l | Eq => l | Gt => y :: ins_ub x t end
  end.
Definition usort_b (l : list bytes) : list bytes := fold_right ins_ub [] l.

Fixpoint ins_un (x : N) (l : list N) : list N :=
  match l with
  | [] => [x]
  | y :: t => match x ?= y with Lt => x :: l | Eq => l | Gt => y :: ins_un x t end
  end.
Definition usort_n (l : list N) : list N := fold_right ins_un [] l.

(* ------------------------------------------------------------------------------------------ *)
(* KV: the world and the listing the property speaks about                                    *)
(* ------------------------------------------------------------------------------------------ *)
(* all in-memory modifications, newest first (within a round keys are unique: KvMods is a map) *)
Definition kv_flat (deltas : list (list kvmod)) : list kvmod := List.concat (rev deltas).

(* the value of key k after applying the deltas to the database snapshot *)
Definition kv_world (db : list kvrow) (deltas : list (list kvmod)) (k : bytes) : option bytes :=
  match kfind k (kv_flat deltas) with
  | Some mv => mv
  | None => kfind k db
  end.

(* every key with the prefix, above the cursor, that exists in the world, ascending, with its value *)
Definition kv_listing (db : list kvrow) (deltas : list (list kvmod)) (prefix cursor : bytes)
           (incl : bool) : list kvrow :=
  filter_map (fun k => if has_prefix prefix k && bltb cursor k
                       then match kv_world db deltas k with
                            | Some v => Some (k, kv_proj incl v)
                            | None => None
                            end
                       else None)
             (usort_b (map fst db ++ map fst (kv_flat deltas))).

(* the client protocol of GET /v2/applications/{id}/boxes: follow next-tokens (last key of the page)
   while the page says "more" and is not empty.  Returns the pages and whether fuel ran out. *)
Fixpoint kv_iter (fuel : nat) (pagef : bytes -> res (list kvrow * bool)) (cursor : bytes)
  : list (res (list kvrow * bool)) * bool :=
  match fuel with
  | O => ([], true)
  | S f =>
      match pagef cursor with
      | Err e => ([Err e], false)
      | Ok (pg, more) =>
          if more then
            match last_opt pg with
            | Some kv => let '(ps, o) := kv_iter f pagef (fst kv) in (Ok (pg, more) :: ps, o)
            | None => ([Ok (pg, more)], false)           (* no next-token can be formed *)
            end
          else ([Ok (pg, more)], false)
      end
  end.

(* ------------------------------------------------------------------------------------------ *)
(* resources: the world and the listing                                                       *)
(* ------------------------------------------------------------------------------------------ *)
Definition r_flat (deltas : list (list rrec)) : list rrec := List.concat (rev deltas).

Definition latest_hold (flat : list rrec) (a i : N) : option dlt :=
  option_map rc_hold (find (fun r => (rc_addr r =? a) && (rc_aidx r =? i) && affects (rc_hold r)) flat).
Definition latest_par (flat : list rrec) (a i : N) : option dlt :=
  option_map rc_par (find (fun r => (rc_addr r =? a) && (rc_aidx r =? i) && affects (rc_par r)) flat).
Definition dlt_apply (d : option dlt) (base : option N) : option N :=
  match d with Some DDel => None | Some (DSet v) => Some v | _ => base end.

Definition db_hold (rows : list dbrow) (a i : N) : option N :=
  match find_row rows a i with Some r => rw_hold r | None => None end.
Definition db_par (rows : list dbrow) (a i : N) : option N :=
  match find_row rows a i with Some r => rw_par r | None => None end.

(* holding / params of address a for creatable i in the world *)
Definition w_hold (rows : list dbrow) (flat : list rrec) (a i : N) : option N :=
  dlt_apply (latest_hold flat a i) (db_hold rows a i).
Definition w_par (rows : list dbrow) (flat : list rrec) (a i : N) : option N :=
  dlt_apply (latest_par flat a i) (db_par rows a i).

(* the creator of i in the world: the address that holds its params *)
Fixpoint first_creator (rows : list dbrow) (flat : list rrec) (i : N) (addrs : list N) : option (N * N) :=
  match addrs with
  | [] => None
  | a :: t => match w_par rows flat a i with Some p => Some (a, p) | None => first_creator rows flat i t end
  end.
Definition w_creator (rows : list dbrow) (flat : list rrec) (i : N) : option (N * N) :=
  first_creator rows flat i (map rw_addr rows ++ map rc_addr flat).

Definition res_item (app incl : bool) (rows : list dbrow) (flat : list rrec) (addr i : N) : option (N * ritem) :=
  let hold := w_hold rows flat addr i in
  let cp := match w_creator rows flat i with
            | Some (c, p) => (c, par_out app incl (Some p))
            | None => (0, None)
            end in
  if member app addr hold (fst cp) then Some (i, (hold, fst cp, snd cp)) else None.

(* every asset held by addr (resp. every app addr is opted in to or created), id above gt,
   ascending, with holding, creator and params at the latest round *)
Definition res_listing (app incl : bool) (rows : list dbrow) (deltas : list (list rrec))
           (addr gt : N) : list (N * ritem) :=
  let flat := r_flat deltas in
  filter_map (res_item app incl rows flat addr)
             (usort_n (filter (fun i => gt <? i) (map rw_aidx rows ++ map rc_aidx flat))).

(* client protocol 1 (Ledger level): ask for [limit] items above the last id seen; a short page ends *)
Fixpoint res_iter (fuel : nat) (pagef : N -> N -> list (N * ritem)) (limit gt : N)
  : list (list (N * ritem)) * bool :=
  match fuel with
  | O => ([], true)
  | S f =>
      let pg := pagef gt limit in
      if nlen pg <? limit then ([pg], false)
      else match last_opt pg with
           | Some it => let '(ps, o) := res_iter f pagef limit (fst it) in (pg :: ps, o)
           | None => ([pg], false)
           end
  end.

(* client protocol 2 (the v2 handlers AccountAssetsInformation / AccountApplicationsInformation):
   ask for limit+1; if more than limit came back drop the last one and hand out the id of the
   last remaining item as next-token *)
Fixpoint res_iter_h (fuel : nat) (pagef : N -> N -> list (N * ritem)) (limit gt : N)
  : list (list (N * ritem)) * bool :=
  match fuel with
  | O => ([], true)
  | S f =>
      let recs := pagef gt (limit + 1) in
      if limit <? nlen recs then
        let pg := firstn (N.to_nat limit) recs in
        match last_opt pg with
        | Some it => let '(ps, o) := res_iter_h f pagef limit (fst it) in (pg :: ps, o)
        | None => ([pg], false)
        end
      else ([recs], false)
  end.

(* ------------------------------------------------------------------------------------------ *)
(* the flush: what the database holds after the first k rounds (assumption: the tracker DB at   *)
(* dbRound is the fold of the deltas up to dbRound; property C08)                            *)
(* ------------------------------------------------------------------------------------------ *)
Definition kv_apply (db : list kvrow) (round : list kvmod) : list kvrow :=
  fold_left (fun db e =>
               let db' := filter (fun r => negb (beqb (fst r) (fst e))) db in
               match snd e with Some v => db' ++ [(fst e, v)] | None => db' end) round db.
Definition kv_flush (rounds : list (list kvmod)) : list kvrow := fold_left kv_apply rounds [].

Definition dlt1 (d : dlt) (base : option N) : option N :=
  match d with DDel => None | DSet v => Some v | DNone => base end.
Definition r_apply1 (rows : list dbrow) (r : rrec) : list dbrow :=
  let old := find_row rows (rc_addr r) (rc_aidx r) in
  let h := dlt1 (rc_hold r) (match old with Some o => rw_hold o | None => None end) in
  let p := dlt1 (rc_par r) (match old with Some o => rw_par o | None => None end) in
  let rest := filter (fun o => negb ((rw_addr o =? rc_addr r) && (rw_aidx o =? rc_aidx r))) rows in
  if is_some h || is_some p then rest ++ [mkRow (rc_addr r) (rc_aidx r) h p] else rest.
Definition r_flush (rounds : list (list rrec)) : list dbrow :=
  fold_left (fun rows d => fold_left r_apply1 d rows) rounds [].
Definition crs_of (rows : list dbrow) : list (N * N) :=
  flat_map (fun r => if is_some (rw_par r) then [(rw_aidx r, rw_addr r)] else []) rows.

(* a history the evaluator can produce: records carry the full state of (addr, creatable) (a
   missing half means "addr has no such half"), one record per (addr, creatable) and round, one
   creator per creatable for all time, no zero address; assets: whoever has the params has a holding *)
Fixpoint pair_mem (a i : N) (l : list (N * N)) : bool :=
  match l with [] => false | (a', i') :: t => ((a =? a') && (i =? i')) || pair_mem a i t end.

Definition r_wf_rec (app : bool) (st : list dbrow * list (N * N) * list (N * N) * bool) (r : rrec)
  : list dbrow * list (N * N) * list (N * N) * bool :=
  let '(rows, owners, seen, ok) := st in
  let a := rc_addr r in let i := rc_aidx r in
  let old := find_row rows a i in
  let oh := match old with Some o => rw_hold o | None => None end in
  let op := match old with Some o => rw_par o | None => None end in
  let ok1 := negb (a =? 0) && negb (pair_mem a i seen) in
  let ok2 := (affects (rc_hold r) || negb (is_some oh)) && (affects (rc_par r) || negb (is_some op)) in
  let ok3 := match rc_par r with
             | DNone => true
             | _ => match alookup i owners with Some c => c =? a | None => true end
             end in
  let rows' := r_apply1 rows r in
  let ok4 := app || match find_row rows' a i with
                    | Some n => is_some (rw_hold n) || negb (is_some (rw_par n))
                    | None => true
                    end in
  let owners' := if affects (rc_par r) && negb (amem i owners) then (i, a) :: owners else owners in
  (rows', owners', (a, i) :: seen, ok && ok1 && ok2 && ok3 && ok4).
Definition r_wf (app : bool) (rounds : list (list rrec)) : bool :=
  let '(_, _, ok) :=
    fold_left (fun st d =>
                 let '(rows, owners, ok) := st in
                 let '(rows', owners', _, ok') := fold_left (r_wf_rec app) d (rows, owners, [], ok) in
                 (rows', owners', ok')) rounds ([], [], true) in ok.

Fixpoint nodup_keys (l : list bytes) : bool :=
  match l with [] => true | k :: t => negb (existsb (beqb k) t) && nodup_keys t end.
Definition kv_wf (rounds : list (list kvmod)) : bool :=
  forallb (fun d => nodup_keys (map fst d) && forallb (fun e => forallb (fun b => b <? 256) (fst e)) d) rounds.

(* ------------------------------------------------------------------------------------------ *)
(* term protocol                                                                              *)
(* ------------------------------------------------------------------------------------------ *)
Definition t_kvmod (t : term) : option kvmod :=
  match t with
  | TL [TB k; TB v] => Some (k, Some v)
  | TL [TB k] => Some (k, None)
  | _ => None
  end.
Definition t_kvround (t : term) : option (list kvmod) :=
  match t with TL l => map_opt t_kvmod l | _ => None end.

Definition t_dlt (t : term) : option dlt :=
  match t with
  | TZ 0%Z => Some DNone
  | TZ 1%Z => Some DDel
  | TL [TZ 2%Z; v] => match as_N v with Some n => Some (DSet n) | None => None end
  | _ => None
  end.
Definition t_rrec (t : term) : option rrec :=
  match t with
  | TL [a; i; p; h] =>
      match as_N a, as_N i, t_dlt p, t_dlt h with
      | Some a, Some i, Some p, Some h => Some (mkRec a i p h)
      | _, _, _, _ => None
      end
  | _ => None
  end.
Definition t_rround (t : term) : option (list rrec) :=
  match t with TL l => map_opt t_rrec l | _ => None end.

Definition on (o : option N) : term := match o with Some v => tn v | None => TZ (-1) end.
Definition p_kvrow (r : kvrow) : term := TL [TB (fst r); TB (snd r)].
Definition p_kvpage (p : res (list kvrow * bool)) : term :=
  match p with
  | Ok (pg, more) => TL (tb more :: map p_kvrow pg)
  | Err e => TL [TS "err"; tn e]
  end.
Definition p_item (it : N * ritem) : term :=
  let '(i, (h, c, p)) := it in TL [tn i; on h; tn c; on p].
Definition p_respage (pg : list (N * ritem)) : term := TL (map p_item pg).

(* the implementation's pages, parsed back for the property check *)
Definition t_kvrow (t : term) : option kvrow :=
  match t with TL [TB k; TB v] => Some (k, v) | _ => None end.
Definition t_kvpage (t : term) : option (list kvrow * bool) :=
  match t with
  | TL (m :: items) => match as_bool m, map_opt t_kvrow items with
                       | Some m, Some l => Some (l, m)
                       | _, _ => None
                       end
  | _ => None
  end.

Fixpoint kvrows_eqb (a b : list kvrow) : bool :=
  match a, b with
  | [], [] => true
  | x :: a', y :: b' => beqb (fst x) (fst y) && beqb (snd x) (snd y) && kvrows_eqb a' b'
  | _, _ => false
  end.

(* all pages but the last say "more" and are non-empty; the last one says "no more" *)
Fixpoint kv_pages_shape (ps : list (list kvrow * bool)) : bool :=
  match ps with
  | [] => false
  | [(pg, more)] => negb more
  | (pg, more) :: t => more && negb (is_nil pg) && kv_pages_shape t
  end.

Definition fuel_of {A} (l : list A) : nat := S (S (List.length l)).

Definition check_kv (rounds : list (list kvmod)) (dbr rnd : N) (prefix cursor : bytes)
           (limit maxb : N) (incl : bool) (pages : list term) : term :=
  if negb (kv_wf rounds) || (nlen rounds <? dbr) then v_parse else
  let db := kv_flush (firstn (N.to_nat dbr) rounds) in
  let mem := skipn (N.to_nat dbr) rounds in
  let '(mpages, mfuel) :=
    kv_iter (fuel_of (List.concat rounds))
            (fun c => kv_lookup db dbr mem rnd prefix c limit maxb incl) cursor in
  let mterm := TL (map p_kvpage mpages ++ (if mfuel then [TS "loop"] else [])) in
  let corr := term_eqb mterm (TL pages) in
  let in_domain := (1 <=? limit) && is_some (prefix_end prefix) && (dbr <=? rnd) && (rnd <=? nlen rounds) in
  if negb in_domain then verdict true corr false mterm else
  (* the property, on the implementation's pages alone: listing computed from the whole history *)
  let spec := kv_listing [] (firstn (N.to_nat rnd) rounds) prefix cursor incl in
  let spec_ok := match map_opt t_kvpage pages with
                 | Some ps => kv_pages_shape ps && kvrows_eqb (List.concat (map fst ps)) spec
                 | None => false                   (* an error or a runaway iteration *)
                 end in
  verdict spec_ok corr ((2 <=? nlen spec) && (2 <=? nlen pages) && (dbr <? rnd) && (0 <? dbr)) mterm.

Definition check_res (app incl : bool) (rounds : list (list rrec)) (dbr addr gt limit : N) (mode : bool)
           (pages : list term) : term :=
  if negb (r_wf app rounds) || (nlen rounds <? dbr) || (addr =? 0) then v_parse else
  let rows := r_flush (firstn (N.to_nat dbr) rounds) in
  let crs := crs_of rows in
  let mem := skipn (N.to_nat dbr) rounds in
  let pagef := fun g l => res_page app incl rows crs mem addr g l in
  let '(mpages, mfuel) := (if mode then res_iter_h else res_iter) (fuel_of (List.concat rounds)) pagef limit gt in
  let mterm := TL (map p_respage mpages ++ (if mfuel then [TS "loop"] else [])) in
  let corr := term_eqb mterm (TL pages) in
  if limit =? 0 then verdict true corr false mterm else
  let spec := res_listing app incl [] rounds addr gt in
  let concat_pages := flat_map (fun p => match p with TL l => l | _ => [TS "bad"] end) pages in
  let spec_ok := term_eqb (TL concat_pages) (p_respage spec) in
  verdict spec_ok corr ((2 <=? nlen spec) && (2 <=? nlen pages) && (dbr <? nlen rounds) && (0 <? dbr)) mterm.

Definition check (t : term) : term :=
  match t with
  | TL [TS "kv"; TL rounds; TZ dbr; TZ rnd; TB prefix; TB cursor; TZ limit; TZ maxb; TZ incl; TL pages] =>
      match map_opt t_kvround rounds with
      | Some rs =>
          if ((dbr <? 0) || (rnd <? 0) || (limit <? 0) || (maxb <? 0))%Z then v_parse
          else check_kv rs (Z.to_N dbr) (Z.to_N rnd) prefix cursor (Z.to_N limit) (Z.to_N maxb) (incl =? 1)%Z pages
      | None => v_parse
      end
  | TL [TS "res"; TZ app; TZ incl; TL rounds; TZ dbr; TZ addr; TZ gt; TZ limit; TZ mode; TL pages] =>
      match map_opt t_rround rounds with
      | Some rs =>
          if ((dbr <? 0) || (addr <? 0) || (gt <? 0) || (limit <? 0))%Z then v_parse
          else check_res (app =? 1)%Z (incl =? 1)%Z rs (Z.to_N dbr) (Z.to_N addr) (Z.to_N gt) (Z.to_N limit)
                         (mode =? 1)%Z pages
      | None => v_parse
      end
  | _ => v_parse
  end.
