(* C13: what consensus must be told, read off the block history alone (exact arithmetic, no
   tracker machinery), and the executable checker run on the implementation's observations.
   No proofs in this file. *)
From Coq Require Import NArith ZArith List Bool String.
From Verif.lib Require Import Term.
From Verif.model Require Import Overflow OnlineAccts.
Import ListNotations.
Open Scope N_scope.

(* ---------- the history ---------- *)
Record oblock : Type := mkOB { ob_mods : list (N * oacct); ob_supply : N; ob_level : N }.

Definition gen_get (k : N) (genesis : list (N * oacct)) : oacct :=
  match aget k genesis with Some a => a | None => oacct0 end.

(* the account data of address k at the end of round r *)
Definition acct_at (genesis : list (N * oacct)) (bs : list oblock) (r : nat) (k : N) : oacct :=
  fold_left (fun a b => match aget k (ob_mods b) with Some x => x | None => a end)
            (firstn r bs) (gen_get k genesis).

(* online supply and rewards level of round r *)
Definition params_spec (supply0 : N) (bs : list oblock) (r : nat) : rparams :=
  match r with
  | O => mkRP supply0 0
  | S r' => match nth_error bs r' with
            | Some b => mkRP (ob_supply b) (ob_level b)
            | None => mkRP 0 0
            end
  end.

Definition universe (genesis : list (N * oacct)) (bs : list oblock) : list N :=
  fold_left (fun acc b => fold_left (fun acc m => add_new (fst m) acc) (ob_mods b) acc) bs
            (fold_left (fun acc m => add_new (fst m) acc) genesis []).

(* ---------- exact values ---------- *)
Definition W : N := 2 ^ 64.
(* balance with the rewards pending at level L; None: not representable (the Go code panics) *)
Definition exact_money (unit L malgos rbase : N) : option N :=
  if unit =? 0 then None
  else if L <? rbase then None
  else let m := malgos + (malgos / unit) * (L - rbase) in if m <? W then Some m else None.

Definition spec_oad (unit L : N) (a : oacct) : option oad :=
  if negb (is_online a) then Some oad0
  else match exact_money unit L (a_malgos a) (a_rbase a) with
       | Some m => Some (mkOAD m (a_vid a) (a_vfirst a) (a_vlast a) (a_vdil a) (a_elig a)
                               (a_lastprop a) (a_lasthb a))
       | None => None
       end.

(* LookupAgreement(r, k) *)
Definition spec_lookup (p : oparams) (genesis : list (N * oacct)) (supply0 : N) (bs : list oblock)
           (r : nat) (k : N) : option oad :=
  spec_oad (op_unit p) (rp_level (params_spec supply0 bs r)) (acct_at genesis bs r k).

(* accounts online at r whose keys are registered but expire before voteRnd *)
Definition is_expired (voteRnd : N) (a : oacct) : bool :=
  is_online a && (0 <? a_vlast a) && (a_vlast a <? voteRnd).

(* sum over the universe of f (None propagates) *)
Fixpoint sum_opt (f : N -> option N) (ks : list N) : option N :=
  match ks with
  | [] => Some 0
  | k :: r => match f k, sum_opt f r with
              | Some x, Some y => Some (x + y)
              | _, _ => None
              end
  end.

Definition spec_expired (p : oparams) (genesis : list (N * oacct)) (supply0 : N) (bs : list oblock)
           (r : nat) (voteRnd : N) : option N :=
  let L := rp_level (params_spec supply0 bs r) in
  sum_opt (fun k => let a := acct_at genesis bs r k in
                    if is_expired voteRnd a then exact_money (op_unit p) L (a_malgos a) (a_rbase a)
                    else Some 0)
          (universe genesis bs).

(* OnlineCirculation(r, voteRnd): None = not representable; Some None = the subtraction must fail *)
Definition spec_circulation (p : oparams) (genesis : list (N * oacct)) (supply0 : N) (bs : list oblock)
           (r : nat) (voteRnd : N) : option (option N) :=
  let supply := rp_supply (params_spec supply0 bs r) in
  if op_exclude p && negb (Nat.eqb r 0) then
    match spec_expired p genesis supply0 bs r voteRnd with
    | Some ex => if W <=? ex then None else Some (if supply <? ex then None else Some (supply - ex))
    | None => None
    end
  else Some (Some supply).

(* exact normalized balance *)
Definition exact_norm (unit rbase malgos : N) : option N :=
  if (W <=? rbase + unit) || (rbase + unit =? 0) then None
  else let q := (malgos * unit) / (rbase + unit) in if q <? W then Some q else None.

Definition spec_oacc (unit k : N) (a : oacct) : option oacc :=
  match exact_norm unit (a_rbase a) (a_malgos a) with
  | Some nb => Some (mkOAcc k (a_malgos a) (a_rbase a) nb (a_vfirst a) (a_vlast a) (a_vid a))
  | None => None
  end.

Fixpoint map_opt' {A B} (f : A -> option B) (l : list A) : option (list B) :=
  match l with
  | [] => Some []
  | x :: r => match f x, map_opt' f r with
              | Some y, Some ys => Some (y :: ys)
              | _, _ => None
              end
  end.

(* the n largest voters of round r that can vote in voteRnd *)
Definition spec_top (p : oparams) (genesis : list (N * oacct)) (bs : list oblock)
           (r : nat) (voteRnd n : N) : option (list oacc) :=
  let ks := filter (fun k => let a := acct_at genesis bs r k in
                             is_online a && valid_in (a_vfirst a) (a_vlast a) voteRnd)
                   (universe genesis bs) in
  match map_opt' (fun k => spec_oacc (op_unit p) k (acct_at genesis bs r k)) ks with
  | Some l => Some (firstn (N.to_nat n) (top_sort l))
  | None => None
  end.

(* the weight TopOnlineAccounts reports next to the list *)
Definition spec_top_total (p : oparams) (genesis : list (N * oacct)) (supply0 : N) (bs : list oblock)
           (r : nat) (voteRnd level : N) : option (option N) :=
  let supply := rp_supply (params_spec supply0 bs r) in
  if op_exclude p then
    match spec_expired p genesis supply0 bs r voteRnd with
    | Some ex => if W <=? ex then None else Some (if supply <? ex then None else Some (supply - ex))
    | None => None
    end
  else
    match sum_opt (fun k => let a := acct_at genesis bs r k in
                            if is_online a && negb (valid_in (a_vfirst a) (a_vlast a) voteRnd) then
                              if op_spxr p then
                                (if (op_unit p =? 0) || (level <? a_rbase a) then None
                                 else Some (a_malgos a + (a_malgos a / op_unit p) * (level - a_rbase a)))
                              else Some (a_malgos a)
                            else Some 0)
                  (universe genesis bs) with
    | Some x => Some (if supply <? x then None else Some (supply - x))
    | None => None
    end.

(* ---------- encodings ---------- *)
Definition as_oacct (t : term) : option (N * oacct) :=
  match as_N_list t with
  | Some [k; st; m; rb; vid; vf; vl; vd; el; lp; lh] =>
      Some (k, mkOA st m rb vid vf vl vd (negb (el =? 0)) lp lh)
  | _ => None
  end.
Definition as_oaccts (t : term) : option (list (N * oacct)) :=
  match t with TL l => map_opt as_oacct l | _ => None end.

Definition t_oad (d : oad) : term :=
  TL [TS "ok"; tn (d_money d); tn (d_vid d); tn (d_vfirst d); tn (d_vlast d); tn (d_vdil d);
      tb (d_elig d); tn (d_lastprop d); tn (d_lasthb d)].
Definition t_res_oad (r : res oad) : term :=
  match r with ROk d => t_oad d | RErr => TL [TS "err"] | RPanic => TL [TS "panic"] end.
Definition t_res_n (r : res N) : term :=
  match r with ROk n => TL [TS "ok"; tn n] | RErr => TL [TS "err"] | RPanic => TL [TS "panic"] end.
Definition t_oacc (x : oacc) : term :=
  TL [tn (t_addr x); tn (t_malgos x); tn (t_rbase x); tn (t_norm x); tn (t_vfirst x); tn (t_vlast x); tn (t_vid x)].
Definition t_res_top (r : res (list oacc * N)) : term :=
  match r with
  | ROk (l, tot) => TL [TS "ok"; TL (map t_oacc l); tn tot]
  | RErr => TL [TS "err"] | RPanic => TL [TS "panic"]
  end.
Definition is_ok (t : term) : bool := match t with TL (TS "ok" :: _) => true | _ => false end.

Fixpoint nodup_okeys (l : list (N * oacct)) : bool :=
  match l with
  | [] => true
  | (k, _) :: r => negb (existsb (fun e => fst e =? k) r) && nodup_okeys r
  end.
Definition u64 (x : N) : bool := x <? W.
Definition oacct_ok (a : oacct) : bool :=
  u64 (a_malgos a) && u64 (a_rbase a) && u64 (a_vfirst a) && u64 (a_vlast a) && u64 (a_vdil a) &&
  u64 (a_lastprop a) && u64 (a_lasthb a).
Definition omods_ok (l : list (N * oacct)) : bool :=
  forallb (fun e => oacct_ok (snd e)) l && nodup_okeys l.

(* ---------- the checker ---------- *)
Record cst := mkC {
  c_st : option ostate;       (* the model; None once it rejects an operation *)
  c_bs : list oblock;
  c_spec : bool; c_corr : bool; c_bad : bool;
  c_served : N;               (* answers checked against the history *)
  c_first : term;
  c_known : option (string * term)   (* first observation matching a finding signature *)
}.
Definition c_fail_spec (c : cst) (d : term) : cst :=
  mkC (c_st c) (c_bs c) false (c_corr c) (c_bad c) (c_served c) (if c_spec c then d else c_first c) (c_known c).
Definition c_fail_corr (c : cst) (d : term) : cst :=
  mkC (c_st c) (c_bs c) (c_spec c) false (c_bad c) (c_served c)
      (if c_spec c && c_corr c then d else c_first c) (c_known c).
Definition c_set_bad (c : cst) : cst :=
  mkC (c_st c) (c_bs c) (c_spec c) (c_corr c) true (c_served c) (c_first c) (c_known c).
Definition c_with_st (c : cst) (s : option ostate) : cst :=
  mkC s (c_bs c) (c_spec c) (c_corr c) (c_bad c) (c_served c) (c_first c) (c_known c).
Definition c_count (c : cst) : cst :=
  mkC (c_st c) (c_bs c) (c_spec c) (c_corr c) (c_bad c) (c_served c + 1) (c_first c) (c_known c).
Definition c_set_known (c : cst) (name : string) (d : term) : cst :=
  mkC (c_st c) (c_bs c) (c_spec c) (c_corr c) (c_bad c) (c_served c) (c_first c)
      (match c_known c with Some k => Some k | None => Some (name, d) end).

(* finding signature: an account not modified since genesis is served without the incentive
   fields its genesis allocation carries (the tracker-DB initialisation does not copy them) *)
Definition untouched (bs : list oblock) (r : nat) (k : N) : bool :=
  forallb (fun b => match aget k (ob_mods b) with Some _ => false | None => true end) (firstn r bs).
Definition drop_incentive (d : oad) : oad :=
  mkOAD (d_money d) (d_vid d) (d_vfirst d) (d_vlast d) (d_vdil d) false 0 0.

Definition in_hist (c : cst) (r : N) : bool := Nat.leb (N.to_nat r) (List.length (c_bs c)).

Definition do_op (p : oparams) (genesis : list (N * oacct)) (supply0 : N) (c : cst) (idx : N) (t : term) : cst :=
  if c_bad c then c else
  match t with
  | TL [TS "b"; mods; TZ supply; TZ level] =>
      match as_oaccts mods with
      | Some ms =>
          if negb (omods_ok ms) || (supply <? 0)%Z || (level <? 0)%Z then c_set_bad c else
          let b := mkOB ms (Z.to_N supply) (Z.to_N level) in
          mkC (match c_st c with Some s => Some (new_block s ms (ob_supply b) (ob_level b)) | None => None end)
              (c_bs c ++ [b]) (c_spec c) (c_corr c) (c_bad c) (c_served c) (c_first c) (c_known c)
      | None => c_set_bad c
      end
  | TL [TS "c"; TZ newdb; TZ lowest] =>
      match c_st c with
      | Some s =>
          let nd := Z.to_N newdb in
          if (nd <? o_db s) || (lowest <? 0)%Z then c_fail_corr c (TL [tn idx; TS "dbround_went_back"])
          else match commit p s (N.to_nat (nd - o_db s)) (Z.to_N lowest) with
               | Some s' => c_with_st c (Some s')
               | None => c_fail_corr (c_with_st c None) (TL [tn idx; TS "model_commit_fails"])
               end
      | None => c
      end
  | TL [TS "r"] =>
      match c_st c with
      | Some s => match reload p s with
                  | Some s' => c_with_st c (Some s')
                  | None => c_fail_corr (c_with_st c None) (TL [tn idx; TS "model_reload_fails"])
                  end
      | None => c
      end
  | TL [TS "l"; TZ rnd; TZ k; obs] =>
      if (rnd <? 0)%Z || (k <? 0)%Z then c_set_bad c else
      let r := Z.to_N rnd in let k := Z.to_N k in
      (* the property: a served answer is the one the history implies *)
      let c1 :=
        if is_ok obs then
          if negb (in_hist c r) then c_fail_spec c (TL [tn idx; TS "served_future_round"])
          else match spec_lookup p genesis supply0 (c_bs c) (N.to_nat r) k with
               | Some d => if term_eqb obs (t_oad d) then c_count c
                           else if untouched (c_bs c) (N.to_nat r) k && term_eqb obs (t_oad (drop_incentive d))
                           then c_set_known c "genesis_incentive_fields_dropped" (TL [tn idx; t_oad d])
                           else c_fail_spec c (TL [tn idx; TS "lookup"; t_oad d])
               | None => c
               end
        else c in
      match c_st c1 with
      | Some s =>
          let '(s', m) := lookup_online p s r k in
          let c2 := c_with_st c1 (Some s') in
          if term_eqb obs (t_res_oad m) then c2
          else c_fail_corr c2 (TL [tn idx; TS "lookup_model"; t_res_oad m])
      | None => c1
      end
  | TL [TS "k"; TZ rnd; TZ vr; obs] =>
      if (rnd <? 0)%Z || (vr <? 0)%Z then c_set_bad c else
      let r := Z.to_N rnd in let vr := Z.to_N vr in
      let c1 :=
        if is_ok obs then
          if negb (in_hist c r) then c_fail_spec c (TL [tn idx; TS "served_future_round"])
          else match spec_circulation p genesis supply0 (c_bs c) (N.to_nat r) vr with
               | Some (Some x) => if term_eqb obs (TL [TS "ok"; tn x]) then c_count c
                                  else c_fail_spec c (TL [tn idx; TS "circulation"; tn x])
               | Some None => c_fail_spec c (TL [tn idx; TS "circulation_must_fail"])
               | None => c
               end
        else c in
      match c_st c1 with
      | Some s =>
          let m := circulation p s r vr in
          if term_eqb obs (t_res_n m) then c1
          else c_fail_corr c1 (TL [tn idx; TS "circulation_model"; t_res_n m])
      | None => c1
      end
  | TL [TS "t"; TZ rnd; TZ vr; TZ n; TZ level; obs] =>
      if (rnd <? 0)%Z || (vr <? 0)%Z || (n <? 0)%Z || (level <? 0)%Z then c_set_bad c else
      let r := Z.to_N rnd in let vr := Z.to_N vr in let n := Z.to_N n in let level := Z.to_N level in
      let m := match c_st c with Some s => Some (top_online p s r vr n level) | None => None end in
      let c1 :=
        match obs with
        | TL [TS "ok"; TL lobs; TZ tot] =>
            if negb (in_hist c r) then c_fail_spec c (TL [tn idx; TS "served_future_round"])
            else
              let c' :=
                match spec_top p genesis (c_bs c) (N.to_nat r) vr n with
                | Some l => if term_eqb (TL lobs) (TL (map t_oacc l)) then c_count c
                            else c_fail_spec c (TL [tn idx; TS "top"; TL (map t_oacc l)])
                | None => c
                end in
              match (if negb (op_exclude p) && (n =? 0) then None   (* nothing is fetched for n = 0 *)
                     else spec_top_total p genesis supply0 (c_bs c) (N.to_nat r) vr level) with
              | Some (Some x) =>
                  if (Z.of_N x =? tot)%Z then c'
                  else
                    (* legacy (ExcludeExpiredCirculation off) weight: stale entries of
                       invalidOnlineAccounts are subtracted although the account is no longer
                       online at rnd; the faithful model reproduces the observed number *)
                    if negb (op_exclude p) && (0 <? n) &&
                       match m with Some (ROk (_, mt)) => (Z.of_N mt =? tot)%Z && (tot <? Z.of_N x)%Z | _ => false end
                    then c_set_known c' "top_total_stale_invalid_legacy" (TL [tn idx; tn x])
                    else c_fail_spec c' (TL [tn idx; TS "top_total"; tn x])
              | Some None => c_fail_spec c' (TL [tn idx; TS "top_total_must_fail"])
              | None => c'
              end
        | _ => c
        end in
      match m with
      | Some mr => if term_eqb obs (t_res_top mr) then c1
                   else c_fail_corr c1 (TL [tn idx; TS "top_model"; t_res_top mr])
      | None => c1
      end
  | _ => c_set_bad c
  end.

Fixpoint do_ops (p : oparams) (genesis : list (N * oacct)) (supply0 : N) (c : cst) (idx : N) (ops : list term) : cst :=
  match ops with
  | [] => c
  | o :: r => do_ops p genesis supply0 (do_op p genesis supply0 c idx o) (idx + 1) r
  end.


Definition check (t : term) : term :=
  match t with
  | TL [TS "onl"; TL [TZ unit; TZ maxbal; TZ excl; TZ spxr; TZ cmax]; TZ supply0; g; TL ops] =>
      match as_oaccts g with
      | Some genesis =>
          if (unit <? 0)%Z || (maxbal <? 0)%Z || (cmax <? 0)%Z || (supply0 <? 0)%Z || negb (omods_ok genesis)
          then v_parse else
          let p := mkOP (Z.to_N unit) (Z.to_N maxbal) (negb (excl =? 0)%Z) (negb (spxr =? 0)%Z) (Z.to_nat cmax) in
          let s0 := ostate_init p genesis (Z.to_N supply0) in
          let c := do_ops p genesis (Z.to_N supply0) (mkC (Some s0) [] true true false 0 (TL []) None) 0 ops in
          if c_bad c then v_parse
          else match c_spec c && c_corr c, c_known c with
               | true, Some (name, d) => v_known name d
               | _, _ => verdict (c_spec c) (c_corr c) (0 <? c_served c) (c_first c)
               end
      | None => v_parse
      end
  | _ => v_parse
  end.

(* ---------- schedules (for the statements quantified over every flush / reload / query order) ---------- *)
Inductive oop : Type :=
| ONew (b : oblock)                      (* newBlock *)
| OCommit (offset : nat) (lowest : N)    (* prepareCommit + commitRound + postCommit *)
| OReload                                (* loadFromDisk + replay *)
| OLookup (rnd k : N).                   (* lookupOnlineAccountData (fills the cache) *)

Definition ostep (p : oparams) (s : ostate) (o : oop) : option ostate :=
  match o with
  | ONew b => Some (new_block s (ob_mods b) (ob_supply b) (ob_level b))
  | OCommit off lowest => commit p s off lowest
  | OReload => reload p s
  | OLookup rnd k => Some (fst (lookup_online p s rnd k))
  end.

Fixpoint orun (p : oparams) (s : ostate) (ops : list oop) : option ostate :=
  match ops with
  | [] => Some s
  | o :: r => match ostep p s o with Some s' => orun p s' r | None => None end
  end.

Fixpoint oblocks_of (ops : list oop) : list oblock :=
  match ops with
  | [] => []
  | ONew b :: r => b :: oblocks_of r
  | _ :: r => oblocks_of r
  end.
