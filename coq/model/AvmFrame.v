(* The AVM evaluation frame (C31, C34): data/transactions/logic/eval.go
     GetOpSpec, begin, check, checkStep, checkBranch, checkBranchVarint, checkSwitch,
     branchTarget, branchTargetVarint, switchTarget, opPushBytes/opPushInt (as check functions),
     assembler.go:parseIntImmArgs/parseByteImmArgs, eval.go:byteImmArgs,
     opcodes.go:linearCost.compute/OpDetails.Cost, eval (loop), step, remainingBudget
   transcribed branch by branch.  The ~200 op functions are NOT modelled: the frame is
   parametric in an abstract op function [opf] (what [spec.op(cx)] did to stack, nextpc,
   callstack, pooled budget and the rest of the world) and in the dispatch table [tbl]
   (instantiated with the regenerated coq/gen/AvmTables.v in AvmTable.v).  No proofs here. *)
From Coq Require Import List NArith ZArith Bool Arith.
From Verif.model Require Import AvmTypes.
Import ListNotations.

(* ------------------------------------------------------------------ results *)
Inductive ecode : Type :=
| EInvalidProgram      (* begin(): empty program / bad version varint / version checks *)
| ENotSupported        (* proto.LogicSigVersion == 0 *)
| EArgs                (* too many / too large LogicSig args *)
| EIllegal             (* illegal opcode / prefix opcode without proper sub-opcode *)
| EMode                (* "%s not allowed in current mode" *)
| EUnderflow           (* "stack underflow in %s" *)
| EArgType             (* "%s arg %d wanted %s but got %s" *)
| EShort               (* "program ends without immediate value(s)" *)
| ECost0               (* "%s returned 0 cost" / "%s reported non-positive cost" *)
| EBudget              (* "dynamic cost budget exceeded" *)
| EStaticCost          (* check: "static cost budget of %d exceeded" *)
| ENoAdvance           (* check: "pc did not advance" *)
| ECk                  (* the op's static check function failed (bad constant block, branch out of range ...) *)
| EUnaligned           (* "(back) branch target %d is not an aligned instruction" *)
| EUnknownCheck        (* table names a check function the model does not know *)
| EOp                  (* the op function returned an error *)
| EHeight              (* "%s changed stack height improperly" *)
| ERetType             (* "%s produced %s but intended %s" *)
| ETooBig              (* "%s produced a too big (%d) byte-array" *)
| EStackOverflow       (* "stack overflow" *)
| EFinalStack          (* "stack len is %d instead of 1" / "stack finished with bytes not int" *)
| EPanic.              (* a Go runtime panic in the frame itself (index out of range) *)

Inductive res (A : Type) : Type := Ok (a : A) | Err (e : ecode).
Arguments Ok {A} a.
Arguments Err {A} e.

Definition ecode_N (e : ecode) : N :=
  match e with
  | EInvalidProgram => 1 | ENotSupported => 2 | EArgs => 3 | EIllegal => 4 | EMode => 5
  | EUnderflow => 6 | EArgType => 7 | EShort => 8 | ECost0 => 9 | EBudget => 10
  | EStaticCost => 11 | ENoAdvance => 12 | ECk => 13 | EUnaligned => 14 | EUnknownCheck => 15
  | EOp => 16 | EHeight => 17 | ERetType => 18 | ETooBig => 19 | EStackOverflow => 20
  | EFinalStack => 21 | EPanic => 22
  end%N.

(* ------------------------------------------------------------------ bytes, varints *)
Definition byte_at (prog : list N) (i : nat) : N := nth i prog 0%N.

(* encoding/binary.Uvarint: (value, n); n > 0 bytes read, n = 0 buffer too small, n < 0 overflow *)
Fixpoint uvarint_go (buf : list N) (i : nat) (x : N) (s : N) : N * Z :=
  match buf with
  | [] => (0%N, 0%Z)
  | b :: rest =>
      if Nat.eqb i 10 then (0%N, (- (Z.of_nat i + 1))%Z)
      else if N.ltb b 128 then
        if Nat.eqb i 9 && N.ltb 1 b then (0%N, (- (Z.of_nat i + 1))%Z)
        else (N.lor x (N.shiftl b s), (Z.of_nat i + 1)%Z)
      else uvarint_go rest (S i) (N.lor x (N.shiftl (N.land b 127) s)) (s + 7)%N
  end.
Definition uvarint (buf : list N) : N * Z := uvarint_go buf 0 0%N 0%N.

(* encoding/binary.Varint (zig-zag); "ok to continue in presence of error" *)
Definition varint (buf : list N) : Z * Z :=
  let '(ux, n) := uvarint buf in
  let x := Z.of_N (N.shiftr ux 1) in
  (if N.odd ux then (- x - 1)%Z else x, n).

(* decodeBranchOffset: big-endian int16 *)
Definition branch_offset (prog : list N) (pos : nat) : Z :=
  let u := (Z.of_N (byte_at prog pos) * 256 + Z.of_N (byte_at prog (S pos)))%Z in
  if (32768 <=? u)%Z then (u - 65536)%Z else u.

(* a target computed in Z, accepted when 0 <= t <= len (or < len when [strict]) *)
Definition target_in (strict : bool) (len : nat) (t : Z) : option nat :=
  if (t <? 0)%Z then None
  else if (if strict then (Z.of_nat len <=? t)%Z else (Z.of_nat len <? t)%Z) then None
  else Some (Z.to_nat t).

(* Go's fixed-width arithmetic, made explicit where the code adds attacker-controlled values:
   int (64-bit two's complement) and uint64 additions wrap silently *)
Definition wrap_int64 (z : Z) : Z := ((z + 9223372036854775808) mod 18446744073709551616 - 9223372036854775808)%Z.
Definition wrap_uint64 (n : N) : N := (n mod 18446744073709551616)%N.

(* ------------------------------------------------------------------ costs *)
(* basics.DivCeil on ints *)
Definition div_ceil (a b : Z) : Z := ((a + (b - 1)) / b)%Z.

(* linearCost.compute; [blen d] = len(stack[len(stack)-1-d].Bytes), None when that index is
   out of range (a Go panic) *)
Definition lc_compute (lc : lincost) (blen : Z -> option Z) : option Z :=
  if negb (lc_chunk lc =? 0)%Z && negb (lc_size lc =? 0)%Z
  then match blen (lc_depth lc) with
       | Some l => Some (lc_base lc + lc_chunk lc * div_ceil l (lc_size lc))%Z
       | None => None
       end
  else Some (lc_base lc).

(* fieldCosts is either nil or 256 long; the table drops trailing zero entries *)
Definition field_cost (costs : list lincost) (f : N) : lincost := nth (N.to_nat f) costs zero_lc.

(* the loop of OpDetails.Cost over the immediates; program[pos] out of range = Go panic *)
Fixpoint imm_costs (imms : list immediate) (prog : list N) (pos : nat) (blen : Z -> option Z) : option Z :=
  match imms with
  | [] => Some 0%Z
  | im :: r =>
      let here :=
        match im_costs im with
        | [] => Some 0%Z
        | cs => if Nat.leb (length prog) pos then None
                else lc_compute (field_cost cs (byte_at prog pos)) blen
        end in
      match here, imm_costs r prog (S pos) blen with
      | Some a, Some b => Some (a + b)%Z
      | None, _ => None
      | Some _, None => None
      end
  end.

(* OpDetails.Cost(program, pc, stack) *)
Definition details_cost (s : opspec) (prog : list N) (pc : nat) (blen : Z -> option Z) : option Z :=
  match lc_compute (os_full s) blen with
  | None => None
  | Some c =>
      if negb (c =? 0)%Z then Some c
      else
        let pc1 := if N.eqb (os_sub s) 0 then pc else S pc in
        imm_costs (os_imms s) prog (S pc1) blen
  end.

(* ------------------------------------------------------------------ dispatch *)
Section Frame.
  (* opsByOpcode[v][opcode]: the entry and its SubOps slice ([] = nil) *)
  Variable tbl : N -> N -> opspec * list opspec.
  (* proto.LogicSigVersion (byteImmArgs depends on it) and the max stack / byte sizes *)
  Variable lsv : N.
  Variable max_depth : nat.
  Variable max_bytes : N.
  Variable logic_ver : N.

  (* EvalContext.GetOpSpec *)
  Definition get_op_spec (v : N) (prog : list N) (pc : nat) : opspec :=
    let '(spec, subs) := tbl v (byte_at prog pc) in
    match subs with
    | [] => spec
    | _ :: _ =>
        if Nat.ltb (S pc) (length prog) then
          match nth_error subs (N.to_nat (byte_at prog (S pc))) with
          | Some s => if os_hasop s then s else spec
          | None => spec
          end
        else spec
    end.

  (* branchTarget (2-byte offsets) *)
  Definition branch_target_2b (v : N) (prog : list N) (pc : nat) : option nat :=
    let off := branch_offset prog (S pc) in
    if (off <? 0)%Z && N.ltb v 4 then None
    else target_in (N.ltb v 2) (length prog) (Z.of_nat pc + 3 + off)%Z.

  (* branchTargetVarint: (target, instrSize) *)
  Definition branch_target_varint (prog : list N) (pc : nat) : option (option nat * nat) :=
    let '(off, n) := varint (skipn (S pc) prog) in
    if (n <=? 0)%Z then None
    else
      let isz := S (Z.to_nat n) in
      (* "target = cx.pc + int(offset)" / "cx.pc + instrSize + int(offset)": int additions, which
         wrap for offsets near MaxInt64; the range test below is what rejects the wrapped value *)
      let t := if (off <? 0)%Z then wrap_int64 (Z.of_nat pc + off)
               else wrap_int64 (Z.of_nat pc + Z.of_nat isz + off) in
      Some (target_in false (length prog) t, isz).

  (* switchTarget(cx, idx), defined when pc+1 < len(program) *)
  Definition switch_target (prog : list N) (pc : nat) (idx : N) : option nat :=
    let n := N.to_nat (byte_at prog (S pc)) in
    let e := S (S pc) in
    let eoi := e + 2 * n in
    if Nat.ltb (length prog) eoi then None
    else
      let off := if N.ltb idx (N.of_nat n) then branch_offset prog (e + 2 * N.to_nat idx) else 0%Z in
      target_in false (length prog) (Z.of_nat eoi + off)%Z.

  (* parseIntImmArgs(program, pos): next pc *)
  Fixpoint int_imm_loop (prog : list N) (k : nat) (pos : nat) : option nat :=
    match k with
    | O => Some pos
    | S k' =>
        if Nat.leb (length prog) pos then None
        else let '(_, n) := uvarint (skipn pos prog) in
             if (n <=? 0)%Z then None else int_imm_loop prog k' (pos + Z.to_nat n)
    end.
  Definition parse_int_imm (prog : list N) (pos : nat) : option nat :=
    let '(cnt, n) := uvarint (skipn pos prog) in
    if (n <=? 0)%Z then None
    else if N.ltb (N.of_nat (length prog)) cnt then None
    else int_imm_loop prog (N.to_nat cnt) (pos + Z.to_nat n).

  (* parseByteImmArgs(program, pos): (next pc, some constant longer than max_bytes,
     the last constant is empty) *)
  Fixpoint byte_imm_loop (prog : list N) (k : nat) (pos : nat) (big lastempty : bool)
    : option (nat * bool * bool) :=
    match k with
    | O => Some (pos, big, lastempty)
    | S k' =>
        if Nat.leb (length prog) pos then None
        else let '(ilen, n) := uvarint (skipn pos prog) in
             if (n <=? 0)%Z then None
             else
               let pos1 := pos + Z.to_nat n in
               (* "end := uint64(pos) + itemLen; if end > uint64(len(program)) || end < uint64(pos)" *)
               let e := wrap_uint64 (N.of_nat pos1 + ilen) in
               if N.ltb (N.of_nat (length prog)) e || N.ltb e (N.of_nat pos1) then None
               else byte_imm_loop prog k' (pos1 + N.to_nat ilen) (big || N.ltb max_bytes ilen) (N.eqb ilen 0)
    end.
  Definition parse_byte_imm (prog : list N) (pos : nat) : option (nat * bool * bool) :=
    let '(cnt, n) := uvarint (skipn pos prog) in
    if (n <=? 0)%Z then None
    else if N.ltb (N.of_nat (length prog)) cnt then None
    else byte_imm_loop prog (N.to_nat cnt) (pos + Z.to_nat n) false false.
  (* EvalContext.byteImmArgs *)
  Definition byte_imm_args (prog : list N) (pc : nat) : option nat :=
    match parse_byte_imm prog (S pc) with
    | None => None
    | Some (next, big, lastempty) =>
        if N.leb 13 lsv then (if big then None else Some next)
        else if Nat.eqb next (length prog) && lastempty then None
        else Some next
    end.

  (* opPushBytes / opPushInt: next pc *)
  Definition push_bytes_next (prog : list N) (pc : nat) : option nat :=
    let '(l, n) := uvarint (skipn (S pc) prog) in
    if (n <=? 0)%Z then None
    else let pos := S pc + Z.to_nat n in
         (* "end := uint64(pos) + length; if end > uint64(len(cx.program)) || end < uint64(pos)" *)
         let e := wrap_uint64 (N.of_nat pos + l) in
         if N.ltb (N.of_nat (length prog)) e || N.ltb e (N.of_nat pos) then None else Some (N.to_nat e).
  Definition push_int_next (prog : list N) (pc : nat) : option nat :=
    let '(_, n) := uvarint (skipn (S pc) prog) in
    if (n <=? 0)%Z then None else Some (S pc + Z.to_nat n).

  (* What OpDetails.check does at pc: (nextpc it sets (0 = leaves unset), the branch targets
     it validates in order (None = that target is out of range -> error), the threshold below
     which a target must be an already seen instruction start) *)
  Definition run_check (v : N) (s : opspec) (prog : list N) (pc : nat)
    : res (nat * list (option nat) * nat) :=
    match os_ck s with
    | CkNone => Ok (0, [], 0)
    | CkBranch2B => Ok (0, [branch_target_2b v prog pc], pc + 3)
    | CkBranchVarint =>
        match branch_target_varint prog pc with
        | None => Err ECk
        | Some (t, isz) => Ok (pc + isz, [t], pc)
        end
    | CkSwitch =>
        if Nat.leb (length prog) (S pc) then Err ECk
        else
          let n := N.to_nat (byte_at prog (S pc)) in
          Ok (S (S pc) + 2 * n, map (fun i => switch_target prog pc (N.of_nat i)) (seq 0 n), S (S pc) + 2 * n)
    | CkIntImm => match parse_int_imm prog (S pc) with Some nx => Ok (nx, [], 0) | None => Err ECk end
    | CkByteImm => match byte_imm_args prog pc with Some nx => Ok (nx, [], 0) | None => Err ECk end
    | CkPushBytes => match push_bytes_next prog pc with Some nx => Ok (nx, [], 0) | None => Err ECk end
    | CkPushInt => match push_int_next prog pc with Some nx => Ok (nx, [], 0) | None => Err ECk end
    | CkUnknown => Err EUnknownCheck
    end.

  Fixpoint calls_eqb (a b : list nat) : bool :=
    match a, b with
    | [], [] => true
    | x :: a', y :: b' => Nat.eqb x y && calls_eqb a' b'
    | _, _ => false
    end.

  Definition mem_nat (x : nat) (l : list nat) : bool := existsb (Nat.eqb x) l.

  (* checkBranch / checkBranchVarint / checkSwitch: validate and record the targets *)
  Fixpoint walk_targets (ts : list (option nat)) (thr : nat) (starts targets : list nat) : res (list nat) :=
    match ts with
    | [] => Ok targets
    | None :: _ => Err ECk
    | Some t :: r =>
        if Nat.ltb t thr && negb (mem_nat t starts) then Err EUnaligned
        else walk_targets r thr starts (t :: targets)
    end.

  (* the scan "for pc := prevpc + 1; pc < cx.pc; pc++ { if branchTargets[pc] ..." *)
  Definition inside_hit (pc next : nat) (targets : list nat) : bool :=
    existsb (fun t => Nat.ltb pc t && Nat.ltb t next) targets.

  (* blankStack = make([]stackValue, 5) *)
  Definition blank_len (d : Z) : option Z := if (0 <=? d)%Z && (d <=? 4)%Z then Some 0%Z else None.

  (* checkStep at pc with instructionStarts = starts (pc already added), branchTargets = targets:
     (cost, next pc, targets') *)
  Definition check_step (v mode : N) (prog : list N) (pc : nat) (starts targets : list nat)
    : res (Z * nat * list nat) :=
    let s := get_op_spec v prog pc in
    if negb (os_hasop s) then Err EIllegal
    else if N.eqb (N.land mode (os_modes s)) 0 then Err EMode
    else
      let size := N.to_nat (os_size s) in
      if negb (Nat.eqb size 0) && Nat.ltb (length prog) (pc + size) then Err EShort
      else
        match details_cost s prog pc blank_len with
        | None => Err EPanic
        | Some cost =>
        if (cost <=? 0)%Z then Err ECost0
        else
          match run_check v s prog pc with
          | Err e => Err e
          | Ok (nx, ts, thr) =>
              match walk_targets ts thr starts targets with
              | Err e => Err e
              | Ok targets' =>
                  let next := if Nat.eqb nx 0 then pc + size else nx in
                  if inside_hit pc next targets' then Err EUnaligned
                  else Ok (cost, next, targets')
              end
          end
        end.

  (* the loop of check(); fuel = len(program) suffices (pc strictly increases) *)
  Fixpoint check_loop (fuel : nat) (v mode : N) (maxcost : Z) (prog : list N)
           (pc : nat) (starts targets : list nat) (scost : Z) : option (res (list nat)) :=
    if Nat.leb (length prog) pc then Some (Ok starts)
    else
      match fuel with
      | O => None
      | S fuel' =>
          match check_step v mode prog pc (pc :: starts) targets with
          | Err e => Some (Err e)
          | Ok (cost, next, targets') =>
              let scost' := (scost + cost)%Z in
              if N.ltb v 4 && (maxcost <? scost')%Z then Some (Err EStaticCost)
              else if Nat.leb next pc then Some (Err ENoAdvance)
              else check_loop fuel' v mode maxcost prog next (pc :: starts) targets' scost'
          end
      end.

  (* EvalContext.begin: (version, vlen).  [app_access]: ModeApp and len(txn.Access) > 0 *)
  Definition begin_prog (prog : list N) (minv : N) (app_access : bool) : res (N * nat) :=
    match prog with
    | [] => Err EInvalidProgram
    | _ =>
        let '(v, n) := uvarint prog in
        if (n <=? 0)%Z then Err EInvalidProgram
        else if N.ltb logic_ver v then Err EInvalidProgram
        else if N.ltb lsv v then Err EInvalidProgram
        else if N.ltb v 9 && app_access then Err EInvalidProgram
        else if N.ltb v minv then Err EInvalidProgram
        else Ok (v, Z.to_nat n)
    end.

  (* check(program, gi, params, mode): the instruction starts on success *)
  Definition check_prog (mode : N) (maxcost : Z) (minv : N) (app_access : bool) (prog : list N)
    : option (res (list nat)) :=
    if N.eqb lsv 0 then Some (Err ENotSupported)
    else match begin_prog prog minv app_access with
         | Err e => Some (Err e)
         | Ok (v, vlen) => check_loop (S (length prog)) v mode maxcost prog vlen [] [] 0%Z
         end.

  (* ---------------------------------------------------------------- evaluation *)
  (* a stack value as far as the frame can see it: a uint64, or a byte string of some length *)
  Inductive sval : Type := SU (u : N) | SB (len : N).
  Definition sv_type (x : sval) : N := match x with SU _ => avmUint64 | SB _ => avmBytes end.
  Definition sv_blen (x : sval) : Z := match x with SU _ => 0%Z | SB l => Z.of_N l end.

  Definition op_compat (expected got : N) : bool := N.eqb expected avmAny || N.eqb expected got.
  Fixpoint types_compat (ts : list N) (xs : list sval) : bool :=
    match ts, xs with
    | [], _ => true
    | t :: ts', x :: xs' => op_compat t (sv_type x) && types_compat ts' xs'
    | _ :: _, [] => false
    end.

  (* the rest of the world (ledger, scratch, frames' arg counts, inner transactions ...) *)
  Variable W : Type.

  Record state : Type := mkSt {
    st_pc : nat;
    st_stack : list sval;          (* bottom first, top last: cx.Stack *)
    st_calls : list nat;           (* callstack: retpc of each frame, top first *)
    st_cost : Z;                   (* cx.cost *)
    st_pool : option Z;            (* *cx.PooledApplicationBudget / *cx.PooledLogicSigBudget *)
    st_w : W
  }.

  (* budget configuration: LogicSigMaxCost / MaxAppProgramCost, and whether this is an isolated
     ClearState run (remainingBudget ignores the pool) *)
  Variable bmax : Z.
  Variable isolate : bool.

  (* EvalContext.remainingBudget *)
  Definition remaining (st : state) : Z :=
    match st_pool st with
    | Some p => if isolate then (bmax - st_cost st)%Z else p
    | None => (bmax - st_cost st)%Z
    end.

  (* what spec.op(cx) did *)
  Inductive outcome : Type :=
  | OErr
  | OOk (stack' : list sval) (nextpc : nat) (calls' : list nat) (pool' : option Z) (w' : W).

  Variable opf : opspec -> list N -> state -> outcome.

  Definition always_exits (s : opspec) : bool :=
    match os_rets s with [t] => N.eqb t avmNone | _ => false end.

  (* the loop over spec.Return.Types in step(): None = a Go index-out-of-range panic *)
  Fixpoint ret_check (exits : bool) (rets : list N) (xs : list sval) : res unit :=
    match rets with
    | [] => Ok tt
    | t :: rets' =>
        match xs with
        | [] => Err EPanic
        | x :: xs' =>
            if negb (op_compat t (sv_type x)) then (if exits then Ok tt else Err ERetType)
            else if N.eqb (sv_type x) avmBytes && (Z.of_N max_bytes <? sv_blen x)%Z then Err ETooBig
            else ret_check exits rets' xs'
        end
    end.

  Definition top_blen (stack : list sval) (d : Z) : option Z :=
    if (0 <=? d)%Z && (d <? Z.of_nat (length stack))%Z
    then Some (sv_blen (nth (length stack - 1 - Z.to_nat d) stack (SU 0)))
    else None.

  (* the cost computation at the top of step(): FullCost.compute, then Cost() when that is <= 0 *)
  Definition step_cost (s : opspec) (prog : list N) (pc : nat) (stack : list sval) : option Z :=
    match lc_compute (os_full s) (top_blen stack) with
    | None => None
    | Some c0 => if (c0 <=? 0)%Z then details_cost s prog pc (top_blen stack) else Some c0
    end.

  (* EvalContext.step *)
  Definition step (v mode : N) (prog : list N) (st : state) : res state :=
    let pc := st_pc st in
    let stack := st_stack st in
    let s := get_op_spec v prog pc in
    if negb (os_hasop s) then Err EIllegal
    else if N.eqb (N.land mode (os_modes s)) 0 then Err EMode
    else
      let nargs := length (os_args s) in
      if Nat.ltb (length stack) nargs then Err EUnderflow
      else if negb (types_compat (os_args s) (skipn (length stack - nargs) stack)) then Err EArgType
      else
        let size := N.to_nat (os_size s) in
        if negb (Nat.eqb size 0) && Nat.ltb (length prog) (pc + size) then Err EShort
        else
          match step_cost s prog pc stack with
          | None => Err EPanic
          | Some opcost =>
          if (opcost <=? 0)%Z then Err ECost0
          else if (remaining st <? opcost)%Z then Err EBudget
          else
            let st1 := mkSt pc stack (st_calls st) (st_cost st + opcost)%Z
                            (match st_pool st with Some p => Some (p - opcost)%Z | None => None end)
                            (st_w st) in
            match opf s prog st1 with
            | OErr => Err EOp
            | OOk stack' nextpc calls' pool' w' =>
                let post :=
                  if os_trusted s then Ok tt
                  else
                    let nrets := length (os_rets s) in
                    if negb (Z.of_nat (length stack') - Z.of_nat (length stack) =? Z.of_nat nrets - Z.of_nat nargs)%Z
                       && negb (always_exits s) then Err EHeight
                    else if Nat.ltb (length stack') nrets then (match os_rets s with [] => Ok tt | _ => Err EPanic end)
                    else ret_check (always_exits s) (os_rets s) (skipn (length stack' - nrets) stack')
                in
                match post with
                | Err e => Err e
                | Ok _ =>
                    if Nat.ltb max_depth (length stack') then Err EStackOverflow
                    else Ok (mkSt (if Nat.eqb nextpc 0 then pc + size else nextpc)
                                  stack' calls' (st_cost st + opcost)%Z pool' w')
                end
            end
          end.

  Inductive everdict : Type := VAccept | VReject | VError (e : ecode) | VOutOfFuel.

  (* the loop and the final stack test of eval() *)
  Fixpoint eval_loop (fuel : nat) (v mode : N) (prog : list N) (st : state) : everdict * state :=
    if Nat.leb (length prog) (st_pc st) then
      match st_stack st with
      | [SU u] => (if N.eqb u 0 then VReject else VAccept, st)
      | _ => (VError EFinalStack, st)
      end
    else
      match fuel with
      | O => (VOutOfFuel, st)
      | S fuel' =>
          match step v mode prog st with
          | Err e => (VError e, st)
          | Ok st' => eval_loop fuel' v mode prog st'
          end
      end.

  (* eval(program, cx) *)
  Definition eval_prog (fuel : nat) (mode minv : N) (app_access args_ok : bool) (prog : list N)
             (pool : option Z) (w : W) : everdict :=
    match begin_prog prog minv app_access with
    | Err e => if N.eqb lsv 0 then VError ENotSupported else if negb args_ok then VError EArgs else VError e
    | Ok (v, vlen) =>
        if N.eqb lsv 0 then VError ENotSupported
        else if negb args_ok then VError EArgs
        else fst (eval_loop fuel v mode prog (mkSt vlen [] [] 0%Z pool w))
    end.

  (* ---------------------------------------------------------------- control-flow conformance *)
  (* What the control-flow and constant-block op functions are allowed to do to nextpc and the
     callstack, in terms of the same decoders the static check uses (eval.go: opBnz2B, opBz2B,
     opB2B, opCallSub2B, opBnz, opBz, opB, opCallSub, opSwitch, opMatch, opRetSub, opReturn,
     opIntConstBlock, opByteConstBlock, opPushInts, opPushBytess, opPushInt, opPushBytes);
     every other op leaves both alone. *)
  Definition ctl_allowed (v : N) (s : opspec) (prog : list N) (pc : nat) (calls : list nat)
             (nextpc : nat) (calls' : list nat) : bool :=
    let same := calls_eqb calls' calls in
    let tgt2 := match branch_target_2b v prog pc with Some t => Nat.eqb nextpc t | None => false end in
    match os_ok s with
    | OpPlain => Nat.eqb nextpc 0 && same
    | OpBnz2B | OpBz2B => (Nat.eqb nextpc (pc + 3) || tgt2) && same
    | OpB2B => tgt2 && same
    | OpCallsub2B => tgt2 && calls_eqb calls' ((pc + 3) :: calls)
    | OpBnzV | OpBzV =>
        match branch_target_varint prog pc with
        | Some (Some t, isz) => (Nat.eqb nextpc t || Nat.eqb nextpc (pc + isz)) && same
        | _ => false
        end
    | OpBV =>
        match branch_target_varint prog pc with
        | Some (Some t, _) => Nat.eqb nextpc t && same
        | _ => false
        end
    | OpCallsubV =>
        match branch_target_varint prog pc with
        | Some (Some t, isz) => Nat.eqb nextpc t && calls_eqb calls' ((pc + isz) :: calls)
        | _ => false
        end
    | OpSwitch | OpMatch =>
        if Nat.leb (length prog) (S pc) then false
        else
          let n := N.to_nat (byte_at prog (S pc)) in
          existsb (fun i => match switch_target prog pc (N.of_nat i) with Some t => Nat.eqb nextpc t | None => false end)
                  (seq 0 (S n)) && same
    | OpRetsub =>
        match calls with
        | r :: rest => Nat.eqb nextpc r && calls_eqb calls' rest
        | [] => false
        end
    | OpReturn => Nat.eqb nextpc (length prog) && same
    | OpIntcBlock | OpPushInts =>
        match parse_int_imm prog (S pc) with Some nx => Nat.eqb nextpc nx && same | None => false end
    | OpBytecBlock | OpPushBytess =>
        match byte_imm_args prog pc with Some nx => Nat.eqb nextpc nx && same | None => false end
    | OpPushInt =>
        match push_int_next prog pc with Some nx => Nat.eqb nextpc nx && same | None => false end
    | OpPushBytes =>
        match push_bytes_next prog pc with Some nx => Nat.eqb nextpc nx && same | None => false end
    end.

End Frame.

(* ------------------------------------------------------------------ a reference op family *)
(* A concrete op-function family that does nothing but control flow (stack, pooled budget and
   world untouched; conditional branches never taken; switch/match fall through).  It meets
   every contract the theorems ask of [opf] (control-flow conformance, budget, stack effect), so
   those hypotheses are satisfiable; it is NOT a model of the real opcodes. *)
Definition ref_opf (lsv max_bytes v : N) (s : opspec) (prog : list N) (st : state unit) : outcome unit :=
  let pc := st_pc unit st in
  let calls := st_calls unit st in
  let ok (n : nat) (c : list nat) := OOk unit (st_stack unit st) n c (st_pool unit st) tt in
  match os_ok s with
  | OpPlain => ok 0 calls
  | OpBnz2B | OpBz2B => ok (pc + 3) calls
  | OpB2B => match branch_target_2b v prog pc with Some t => ok t calls | None => OErr unit end
  | OpCallsub2B => match branch_target_2b v prog pc with Some t => ok t ((pc + 3) :: calls) | None => OErr unit end
  | OpBnzV | OpBzV =>
      match branch_target_varint prog pc with Some (Some _, isz) => ok (pc + isz) calls | _ => OErr unit end
  | OpBV => match branch_target_varint prog pc with Some (Some t, _) => ok t calls | _ => OErr unit end
  | OpCallsubV =>
      match branch_target_varint prog pc with Some (Some t, isz) => ok t ((pc + isz) :: calls) | _ => OErr unit end
  | OpSwitch | OpMatch =>
      if Nat.leb (length prog) (S pc) then OErr unit
      else match switch_target prog pc (N.of_nat (N.to_nat (byte_at prog (S pc)))) with
           | Some t => ok t calls
           | None => OErr unit
           end
  | OpRetsub => match calls with r :: rest => ok r rest | [] => OErr unit end
  | OpReturn => ok (length prog) calls
  | OpIntcBlock | OpPushInts => match parse_int_imm prog (S pc) with Some nx => ok nx calls | None => OErr unit end
  | OpBytecBlock | OpPushBytess => match byte_imm_args lsv max_bytes prog pc with Some nx => ok nx calls | None => OErr unit end
  | OpPushInt => match push_int_next prog pc with Some nx => ok nx calls | None => OErr unit end
  | OpPushBytes => match push_bytes_next prog pc with Some nx => ok nx calls | None => OErr unit end
  end.
