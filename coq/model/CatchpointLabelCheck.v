(* C14: the model of CatchpointLabel.v instantiated with the real keys / values / leaf builders
   (C15's model/CatchpointHash.v) and the executable [check] run on the implementation's
   observations (harness/go/ledger/zz_verif_c14_test.go).

   case = (c14 HASHING FLAG (LOOKBACK NX SPCTX) (#gtotals (GENT ...)) (BLOCK ...) (ORACLE ...) (OLABEL ...) (LEDGER ...))
     KEY    = (0 #addr 0) | (1 #addr cidx) | (2 #kvkey 0)
     VAL    = nil | (#data upd rb isasset #leaf)     data: msgp encoding of the DB row / the KV value;
                                                     leaf: what the real HashBuilderV6 returned
     GENT   = (KEY VAL)                              genesis entry
     BLOCK  = (#digest #totals (#spver #onl #onlrp) ((KEY NEW OLD) ...))     round = position, from 1
     ORACLE = (rnd #root (#leaf ...))                harness: leaves of state_at(rnd) and the root of a
                                                     fresh real trie holding them
     OLABEL = (R #label)                             harness: ledgercore.MakeLabel over the oracle root
     LEDGER = ((interval acctLookback tracking memcfg) (OP ...))
     OP     = (b) | (c rnd OBS) | (r OBS) | (k rnd OBS)
              k: committedUpTo(rnd) interrupted by a power loss between the tracker commit transaction and the
              catchpoint tracker's postCommitUnlocked, then restart of the copy of the DB taken at that moment
              (recoverFromCrash finishes first stage / catchpoints / pruning: the model is commit then reload)
     OBS    = (dbRound #root FIRST ((R #label) ...))  FIRST = () | (rnd #root #totals #spver #onl #onlrp)

   [spec_ok] never looks at the model: every observed root / first-stage record / label of every
   ledger must equal the oracle's for that round (hence the ledgers agree with each other).
   The model is run with H = SHA-512/256 when HASHING = 1 (roots, labels and every leaf are then
   compared byte for byte) and with H = identity otherwise (roots and labels are then compared
   through "equals what the oracle's leaf set gives").   No proofs in this file. *)
From Coq Require Import List NArith ZArith Bool String.
From Verif.lib Require Import Term.
From Verif.model Require Import MerkleTrie MerkleTrieSpec MerkleTrieSha CatchpointHash CatchpointLabel.
Import ListNotations.
Open Scope N_scope.

(* ---------- the concrete key / value space ---------- *)
Definition ckey := (N * (list N * N))%type.           (* class, address | KV key, creatable index *)
Record cval := mkVal { v_data : list N; v_upd : N; v_rb : N; v_asset : bool; v_leaf : list N }.

Definition ckey_dec (a b : ckey) : {a = b} + {a <> b}.
Proof.
  decide equality; [decide equality; [apply N.eq_dec | apply (list_eq_dec N.eq_dec)] | apply N.eq_dec].
Defined.

Definition bytes_eqb (a b : list N) : bool := list_eqb N.eqb a b.
Definition cval_eqb (a b : cval) : bool :=
  bytes_eqb (v_data a) (v_data b) && (v_upd a =? v_upd b) && (v_rb a =? v_rb b) &&
  Bool.eqb (v_asset a) (v_asset b) && bytes_eqb (v_leaf a) (v_leaf b).
Definition cclass (k : ckey) : N := fst k.

(* the leaf as the C15 builders compute it *)
Definition cleaf (H : list N -> list N) (k : ckey) (v : cval) : list N :=
  let '(c, (b, i)) := k in
  if c =? 0 then account_leaf H b (v_upd v) (v_rb v) (v_data v)
  else if c =? 1 then resource_leaf_k H (if v_asset v then AssetHK else AppHK) b i (v_upd v) (v_data v)
  else kv_leaf H b (v_data v).
(* the leaf as the implementation's builder returned it *)
Definition gleaf (k : ckey) (v : cval) : list N := v_leaf v.

Definition cblock := block ckey cval.
Definition cmod := kmod ckey cval.

(* ---------- decoding ---------- *)
Definition as_key (t : term) : option ckey :=
  match t with
  | TL [c; TB b; i] => match as_N c, as_N i with Some c, Some i => Some (c, (b, i)) | _, _ => None end
  | _ => None
  end.

Definition as_val (t : term) : option (option cval) :=
  match t with
  | TS "nil" => Some None
  | TL [TB d; u; r; a; TB l] =>
      match as_N u, as_N r, as_bool a with
      | Some u, Some r, Some a => Some (Some (mkVal d u r a l))
      | _, _, _ => None
      end
  | _ => None
  end.

Definition as_mod (t : term) : option cmod :=
  match t with
  | TL [k; n; o] => match as_key k, as_val n, as_val o with
                    | Some k, Some n, Some o => Some (mkMod k n o)
                    | _, _, _ => None
                    end
  | _ => None
  end.

Definition as_block (t : term) : option cblock :=
  match t with
  | TL [TB d; TB tot; TL [TB e1; TB e2; TB e3]; TL ms] =>
      match map_opt as_mod ms with
      | Some ms => Some (mkBlock ms d tot [e1; e2; e3])
      | None => None
      end
  | _ => None
  end.

Definition as_gent (t : term) : option (ckey * cval) :=
  match t with
  | TL [k; v] => match as_key k, as_val v with Some k, Some (Some v) => Some (k, v) | _, _ => None end
  | _ => None
  end.

Definition as_oracle (t : term) : option (N * (list N * list (list N))) :=
  match t with
  | TL [r; TB root; TL ls] => match as_N r, map_opt as_bytes ls with
                              | Some r, Some ls => Some (r, (root, ls))
                              | _, _ => None
                              end
  | _ => None
  end.

Definition as_rl (t : term) : option (N * list N) :=
  match t with
  | TL [r; TB l] => match as_N r with Some r => Some (r, l) | None => None end
  | _ => None
  end.

Fixpoint assoc {A} (r : N) (l : list (N * A)) : option A :=
  match l with
  | [] => None
  | (r', x) :: l' => if r' =? r then Some x else assoc r l'
  end.

(* ---------- genesis ---------- *)
Definition gstore (g : list (ckey * cval)) : store ckey cval :=
  fun k => (fix go (l : list (ckey * cval)) := match l with
                                               | [] => None
                                               | (k', v) :: l' => if ckey_dec k k' then Some v else go l'
                                               end) g.

(* ---------- the oracle trie of a leaf list (a fresh trie; canonical by C17) ---------- *)
Definition trie_of (leaves : list (list N)) : option trie :=
  t_root (fold_left (fun st x => fst (fst (trie_add st x))) leaves t_empty).

(* ---------- spec_ok: the implementation's observations against the oracle ---------- *)
Section Spec.
  Variable blocks : list cblock.
  Variable oracle : list (N * (list N * list (list N))).
  Variable olabels : list (N * list N).

  Definition oroot (r : N) : option (list N) := match assoc r oracle with Some (x, _) => Some x | None => None end.
  Definition oleaves (r : N) : list (list N) := match assoc r oracle with Some (_, l) => l | None => [] end.

  Definition root_ok (r : N) (root : list N) : bool :=
    match oroot r with Some x => bytes_eqb x root | None => false end.

  Definition first_ok (t : term) : bool :=
    match t with
    | TL [] => true
    | TL [r; TB root; TB tot; TB e1; TB e2; TB e3] =>
        match as_N r with
        | Some r =>
            root_ok r root &&
            match block_at blocks r with
            | Some b => bytes_eqb (b_totals b) tot &&
                        match b_extras b with
                        | [x1; x2; x3] => bytes_eqb x1 e1 && bytes_eqb x2 e2 && bytes_eqb x3 e3
                        | _ => false
                        end
            | None => false
            end
        | None => false
        end
    | _ => false
    end.

  Definition label_ok (t : term) : bool :=
    match as_rl t with
    | Some (r, l) => match assoc r olabels with Some x => bytes_eqb x l | None => false end
    | None => false
    end.

  Definition obs_ok (t : term) : bool :=
    match t with
    | TL [r; TB root; first; TL labels] =>
        match as_N r with
        | Some r => root_ok r root && first_ok first && forallb label_ok labels
        | None => false
        end
    | _ => false
    end.

  Definition op_ok (t : term) : bool :=
    match t with
    | TL [TS "b"] => true
    | TL [TS "c"; _; obs] => obs_ok obs
    | TL [TS "r"; obs] => obs_ok obs
    | TL [TS "k"; _; obs] => obs_ok obs
    | _ => false
    end.

  Definition ledger_ok (t : term) : bool :=
    match t with TL [_; TL ops] => forallb op_ok ops | _ => false end.
End Spec.

(* ---------- the model's observation of one operation ---------- *)
Section ModelObs.
  Variable hashing : bool.
  Variable Hm : list N -> list N.
  Variable P : params.
  Variable blocks : list cblock.
  Variable oracle : list (N * (list N * list (list N))).

  Definition mroot (leaves : list (list N)) : list N := root_hash Hm (trie_of leaves).
  Definition oracle_mroot (r : N) : list N := mroot (oleaves oracle r).

  (* a root / label is reported as bytes (hashing) plus "equals what the oracle's leaves give" *)
  Definition root_term (r : N) (root : list N) : term :=
    TL [tb (bytes_eqb root (oracle_mroot r)); if hashing then TB root else TS "root"].

  Definition olabel_m (R : N) (extras : list (list N)) (tot : list N) : list N :=
    match block_at blocks R with
    | Some b => make_label Hm R (b_digest b) (oracle_mroot (R - p_lookback P)) tot (firstn (p_nextras P) extras)
    | None => []
    end.

  Definition label_term (rl : N * list N) : term :=
    let '(R, l) := rl in
    let ex := match block_at blocks (R - p_lookback P) with Some b => b_extras b | None => [] end in
    let tot := match block_at blocks (R - p_lookback P) with Some b => b_totals b | None => [] end in
    TL [tn R; tb (bytes_eqb l (olabel_m R ex tot)); if hashing then TB l else TS "label"].

  Definition first_term (st : cstate ckey cval) : term :=
    match find_first (c_round st) (c_first st) with
    | None => TL []
    | Some f => TL (tn (c_round st) :: root_term (c_round st) (f_root f) :: TB (f_totals f) :: map TB (f_extras f))
    end.

  Definition obs_term (st : cstate ckey cval) (nlabels_before : nat) : term :=
    let newl := rev (firstn (List.length (c_labels st) - nlabels_before) (c_labels st)) in
    TL [tn (c_round st); root_term (c_round st) (committed_root Hm st); first_term st;
        TL (map label_term newl); tb (c_err st)].

  (* the implementation's observation in the same shape *)
  Variable impl_oroot : N -> option (list N).
  Variable impl_olabels : list (N * list N).

  Definition impl_root_term (r : N) (root : list N) : term :=
    TL [tb (match impl_oroot r with Some x => bytes_eqb x root | None => false end);
        if hashing then TB root else TS "root"].

  Definition impl_label_term (t : term) : term :=
    match as_rl t with
    | Some (R, l) => TL [tn R; tb (match assoc R impl_olabels with Some x => bytes_eqb x l | None => false end);
                         if hashing then TB l else TS "label"]
    | None => TS "bad"
    end.

  Definition impl_obs_term (t : term) : term :=
    match t with
    | TL [TZ r; TB root; first; TL labels] =>
        let r := Z.to_N r in
        let ft := match first with
                  | TL [TZ fr; TB froot; tot; e1; e2; e3] =>
                      TL [TZ fr; impl_root_term (Z.to_N fr) froot; tot; e1; e2; e3]
                  | x => x
                  end in
        TL [tn r; impl_root_term r root; ft; TL (map impl_label_term labels); tb false]
    | _ => TS "bad"
    end.

  (* run one ledger: returns (all ops agree, model observations) *)
  Fixpoint run_ops (ops : list term) (st : cstate ckey cval) (ok : bool) (acc : list term)
    : bool * list term :=
    match ops with
    | [] => (ok, rev acc)
    | TL [TS "b"] :: ops' =>
        run_ops ops' (cstep ckey_dec cval_eqb cclass gleaf Hm P blocks st ONewBlock) ok acc
    | TL [TS "c"; r; obs] :: ops' =>
        match as_N r with
        | Some r =>
            let st' := cstep ckey_dec cval_eqb cclass gleaf Hm P blocks st (OCommitTo r) in
            let m := obs_term st' (List.length (c_labels st)) in
            run_ops ops' st' (ok && term_eqb m (impl_obs_term obs)) (m :: acc)
        | None => (false, rev acc)
        end
    | TL [TS "k"; r; obs] :: ops' =>
        match as_N r with
        | Some r =>
            let st' := cstep ckey_dec cval_eqb cclass gleaf Hm P blocks
                             (cstep ckey_dec cval_eqb cclass gleaf Hm P blocks st (OCommitTo r)) OReloadTrackers in
            let m := obs_term st' (List.length (c_labels st)) in
            run_ops ops' st' (ok && term_eqb m (impl_obs_term obs)) (m :: acc)
        | None => (false, rev acc)
        end
    | TL [TS "r"; obs] :: ops' =>
        let st' := cstep ckey_dec cval_eqb cclass gleaf Hm P blocks st OReloadTrackers in
        let m := obs_term st' (List.length (c_labels st)) in
        run_ops ops' st' (ok && term_eqb m (impl_obs_term obs)) (m :: acc)
    | _ :: _ => (false, rev acc)
    end.
End ModelObs.

(* ---------- signature of the recorded finding ---------- *)
(* two DIFFERENT KV keys whose key ‖ value concatenations coincide occur in the history *)
Definition kv_entries (blocks : list cblock) : list (list N * list N) :=
  flat_map (fun b => flat_map (fun m => match m_new m with
                                         | Some v => if 2 <=? fst (m_key m) then [(fst (snd (m_key m)), v_data v)] else []
                                         | None => []
                                         end) (b_mods b)) blocks.

Definition kv_collision (blocks : list cblock) : bool :=
  let es := kv_entries blocks in
  existsb (fun e1 => existsb (fun e2 => negb (bytes_eqb (fst e1) (fst e2)) &&
                                         bytes_eqb (fst e1 ++ snd e1) (fst e2 ++ snd e2)) es) es.

(* every value's leaf is what the model's builders compute (hashing mode) *)
Definition leaves_match (g : list (ckey * cval)) (blocks : list cblock) : bool :=
  forallb (fun e => bytes_eqb (cleaf sha512_256 (fst e) (snd e)) (v_leaf (snd e))) g &&
  forallb (fun b => forallb (fun m =>
             match m_new m with Some v => bytes_eqb (cleaf sha512_256 (m_key m) v) (v_leaf v) | None => true end &&
             match m_old m with Some v => bytes_eqb (cleaf sha512_256 (m_key m) v) (v_leaf v) | None => true end)
           (b_mods b)) blocks.

Definition count_labels (ledgers : list term) : nat :=
  List.length (flat_map (fun l => match l with
                                  | TL [_; TL ops] =>
                                      flat_map (fun o => match o with
                                                         | TL [TS "c"; _; TL [_; _; _; TL ls]] => ls
                                                         | TL [TS "r"; TL [_; _; _; TL ls]] => ls
                                                         | TL [TS "k"; _; TL [_; _; _; TL ls]] => ls
                                                         | _ => []
                                                         end) ops
                                  | _ => []
                                  end) ledgers).

Definition as_ledger_cfg (t : term) : option (N * N) :=
  match t with
  | TL [TL (i :: a :: _); _] => match as_N i, as_N a with Some i, Some a => Some (i, a) | _, _ => None end
  | _ => None
  end.

Definition check (t : term) : term :=
  match t with
  | TL [TS "c14"; TZ hf; TS flag; TL [lb; nx; sp]; TL [TB gtot; TL gents]; TL blks; TL orc; TL olabs; TL ledgers] =>
      match as_N lb, as_N nx, as_bool sp, map_opt as_gent gents, map_opt as_block blks,
            map_opt as_oracle orc, map_opt as_rl olabs with
      | Some lb, Some nx, Some sp, Some g, Some blocks, Some oracle, Some olabels =>
          let hashing := Z.eqb hf 1 in
          let Hm := if hashing then sha512_256 else (fun x => x) in
          let spec_ok := forallb (ledger_ok blocks oracle olabels) ledgers in
          let gleaves := map (fun e => v_leaf (snd e)) g in
          let runs :=
            map (fun l =>
                   match l, as_ledger_cfg l with
                   | TL [_; TL ops], Some (iv, al) =>
                       let P := mkParams iv al lb sp (N.to_nat nx) in
                       run_ops hashing Hm P blocks oracle (oroot oracle) olabels ops
                               (init_state (gstore g) gleaves gtot) true []
                   | _, _ => (false, [])
                   end) ledgers in
          let corr := forallb fst runs && (negb hashing || leaves_match g blocks) in
          let detail := TL (map (fun r => TL (snd r)) runs) in
          let nontrivial := (2 <=? List.length ledgers)%nat && (1 <=? count_labels ledgers)%nat in
          if negb spec_ok && kv_collision blocks && corr && hashing
          then v_known "kv_leaf_collision_schedule_dependent_label" detail
          else verdict spec_ok corr nontrivial detail
      | _, _, _, _, _, _, _ => v_parse
      end
  | _ => v_parse
  end.
